#!/usr/bin/env python3
"""Regenerate seeded/README.md from seeded/*/meta.json and seeded/NOTES.md (hand-written notes on what was strengthened)."""
import glob, json, os
V = os.path.dirname(os.path.dirname(os.path.abspath(__file__)))
rows = []
for d in sorted(glob.glob(os.path.join(V, 'seeded', '*', ''))):
    m = json.load(open(d + 'meta.json'))
    rows.append((os.path.basename(d.rstrip('/')), m['property'], (m.get('summary') or '').split('. ')[0][:260].replace('|', '/').replace('\n', ' '),
                 m['check_result']['caught'], ', '.join(m['check_result']['clauses'])))
out = ['# Seeded changes (mutation campaign)', '',
       'Each directory holds one change to GEMDAT written by a fresh sub-agent that saw **only the text of one property** and a scratch git worktree of /repo (nothing from /verif;',
       'second-round agents `-b` were additionally told in one sentence what the first-round change of that property was, so that they would pick another place and failure mode).',
       'The change compiles, passes the 66 baseline tests, and needs something specific to manifest. `patch.diff` applies to /repo HEAD, `demo.py` exits 0 on the original code and 1 with the change,',
       '`meta.json` records the author summary and what our check reported. None of these is committed to /repo.', '',
       'Replay one: `./harness/try_seed.sh <Cxx> seeded/<name> quick` (applies the patch, runs the baseline tests and the demo, runs the check, always restores /repo).', '',
       f'{len(rows)} changes, {sum(1 for r in rows if r[3])} caught by the current checks.', '',
       '| seed | property | change (author summary, first sentence) | caught | by (oracle clause / tie) |', '|---|---|---|---|---|']
for r in rows:
    out.append(f'| {r[0]} | {r[1]} | {r[2]} | {"yes" if r[3] else "NO"} | {r[4]} |')
out += ['', open(os.path.join(V, 'seeded', 'NOTES.md')).read()]
open(os.path.join(V, 'seeded', 'README.md'), 'w').write('\n'.join(out))
print(len(rows), 'seeds')
