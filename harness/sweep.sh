#!/bin/bash
# sweep.sh <tier> <seeds...>  -- run every check for the given seeds, print one line per run (used for long background runs)
tier=$1; shift
here="$(cd "$(dirname "${BASH_SOURCE[0]}")/.." && pwd)"
cd "$here"
for s in "$@"; do
  for p in C01 C02 C03 C04 C05 C06 C07 C08 C09 C10 C11 C12 C13 C14 C15 C16 C17 C18 C19 C20; do
    VERIF_SEED=$s ./check $p --tier $tier 2>/dev/null | grep -v "^KNOWN-FINDING" | tr '\n' ' ' | cut -c1-400; echo " [seed $s exit ${PIPESTATUS[0]}]"
  done
done
