import json, sys
pid = sys.argv[1]
tag = sys.argv[2] if len(sys.argv) > 2 else ''
avoid = sys.argv[3] if len(sys.argv) > 3 else ''
wt = f'/tmp/mut_{pid}{tag}'
for l in open('/verif/properties.jsonl'):
    p = json.loads(l)
    if p['id'] == pid:
        break
print(f"""You are testing how robust a Python library's behaviour is against subtle regressions. Work ONLY inside the git worktree {wt} (a checkout of the GEMDAT library: molecular-dynamics trajectory analysis built on pymatgen; source under src/gemdat, tests under tests). Do not read or write anything under /verif or /repo, and do not look for any verification tooling: your change must be independent of it.

Run Python as:  cd {wt} && PYTHONPATH={wt}/src /venv/bin/python ...
Run the existing test suite as:  cd {wt} && PYTHONPATH={wt}/src /venv/bin/python -m pytest -q -p no:cacheprovider --timeout=900 --continue-on-collection-errors tests 2>&1 | tail -3
(on the unmodified tree this reports 66 passed plus some failures/errors/skips caused by missing data files; those 66 must still pass after your change, and nothing that passed may fail).

The PROPERTY the library is supposed to satisfy:

  id: {p['id']} -- {p['title']}
  statement: {p['statement']}
  quantified over: {p['quantifier']['text']}
  code anchors: {json.dumps(p['anchors']['mechanism'])}
  observable at: {json.dumps(p['anchors'].get('observe_at'))}

YOUR TASK: make ONE small, realistic change to the library source (a few lines, the kind of slip a maintainer could make in a refactor or "optimisation": a boundary condition, an off-by-one, a wrong axis, a dropped special case, a swapped argument, a changed default, an in-place mutation ...) that BREAKS this property while the code still imports and the existing tests (the 66) still pass. The breakage must need something specific to manifest — an unusual but legitimate input (a particular cell shape or orientation, a coordinate exactly on a boundary, a long-transit event, a never-visited site, a particular call order, a crash point, two cooperating sites that each look fine alone ...) — not something that ordinary use exposes at once. {('A previous engineer already tried this change, so yours must be in a different place and a different failure mode: ' + avoid + ' ') if avoid else ''}Do not add dead code, flags, environment checks or anything that detects test harnesses.

Deliverables, all inside {wt}/_seed/ (create it):
  1. patch.diff  — `git diff` of your change to src/ (make sure `git -C {wt} diff -- src > {wt}/_seed/patch.diff`).
  2. demo.py     — a small self-contained program (uses only the public gemdat API or the anchored functions, numpy, pymatgen; builds its own synthetic input; prints what it observes) that exits 0 on the ORIGINAL code and exits 1 on the MODIFIED code because the property is violated there. It must not depend on test data files (tests/data is empty here). Run it both ways to confirm: with your change applied (expect exit 1) and after `git stash` / on a clean checkout (expect exit 0), then re-apply your change. NEVER use `git stash` (the stash is shared with other worktrees of the same repository and other people are using them): switch with `git diff -- src > _seed/patch.diff; git apply -R _seed/patch.diff` and `git apply _seed/patch.diff`.
  3. meta.json   — {{"property": "{pid}", "summary": "<what the change does>", "needs": "<what specific input/sequence is needed for it to manifest>", "files": [...], "ran": ["<commands you ran and their outcomes>"]}}

Useful facts: `from gemdat.trajectory import Trajectory`; a trajectory can be built with `Trajectory(species=[Element('Li'), ...], coords=np.array(shape (frames, atoms, 3) fractional), lattice=Lattice(...), time_step=1e-15, metadata={{'temperature': 300}})` (pymatgen `Element`, `Lattice`, `Structure`); sites are a pymatgen `Structure` (optionally with `labels=[...]`); `traj.transitions_between_sites(sites, 'Li', site_radius=..., site_inner_fraction=...)`; `Transitions(...)`/`Jumps(transitions, minimal_residence=...)`; private helpers named in the anchors can be imported directly. If the property cannot be broken without failing the 66 tests, say so and explain.

Finish by leaving the worktree WITH your change applied and the three files in _seed/. Reply with a 5-line summary (file changed, what, why the tests do not see it, how the demo shows it).""")
