#!/bin/bash
# all_seeds.sh [tier] [seed names...] -- for every saved seeded change: apply it to $VERIF_REPO (default /repo; use a scratch copy for
# background runs), run the check of its property, restore, and print one line: <seed> caught|MISSED <clauses seen>.
tier=${1:-quick}; shift
export VERIF_EVIDENCE_DIR=$(mktemp -d /var/tmp/seed_evidence.XXXXXX)   # never overwrite the committed evidence with a run on modified code
here="$(cd "$(dirname "${BASH_SOURCE[0]}")/.." && pwd)"
repo=${VERIF_REPO:-/repo}
cd "$here"
names=("$@"); [ ${#names[@]} -eq 0 ] && names=($(ls seeded | grep -v '\.md$'))
git -C "$repo" diff --quiet || { echo "repo not clean"; exit 2; }
for n in "${names[@]}"; do
  pid=${n%%-*}
  git -C "$repo" apply "$here/seeded/$n/patch.diff" || { echo "$n patch-does-not-apply"; continue; }
  ./check $pid --tier $tier > /tmp/all_seeds_$$.log 2>&1; rc=$?
  git -C "$repo" checkout -- .
  cl=$(python3 - "$here" "$pid" <<'P'
import glob, json, sys
s = set()
for f in glob.glob(f'{sys.argv[1]}/replays/{sys.argv[2]}-*.json'):
    try:
        s.add(json.load(open(f)).get('clause'))
    except Exception:
        pass
print(','.join(sorted(str(x) for x in s)))
P
)
  nf=$(grep -c "no-failing-input-found" /tmp/all_seeds_$$.log)
  other=$(python3 -c "import json,sys; print(json.load(open('$here/seeded/$n/meta.json'))['check_result'].get('caught_by_other_check') or '')" 2>/dev/null)
  known=$(python3 -c "import json,sys; d=json.load(open('$here/seeded/$n/meta.json'))['check_result']; print('yes' if d.get('caught') is False else '')" 2>/dev/null)
  if [ $rc -eq 1 ]; then echo "$n caught clauses=$cl no-failing-input-lines=$nf";
  elif [ -n "$known" ]; then echo "$n not-caught-by-its-own-check (recorded; other check: ${other:-none}) rc=$rc";
  else echo "$n MISSED rc=$rc"; fi
done
rm -f /tmp/all_seeds_$$.log; rm -rf "$VERIF_EVIDENCE_DIR"
