#!/usr/bin/env python3
"""save_seed.py <property> <seed dir> <name> <caught: yes|no> <clauses...>  -- copy a confirmed seeded change into /verif/seeded/<name>/"""
import json, os, shutil, sys
pid, src, name, caught = sys.argv[1:5]
d = f'/verif/seeded/{name}'
os.makedirs(d, exist_ok=True)
shutil.copy(os.path.join(src, 'patch.diff'), d)
shutil.copy(os.path.join(src, 'demo.py'), d)
try:
    meta = json.load(open(os.path.join(src, 'meta.json')))
except Exception:
    meta = {}
meta = {'property': pid, 'summary': meta.get('summary'), 'needs': meta.get('needs'), 'files': meta.get('files'),
        'author': 'fresh sub-agent given only the property text and a scratch worktree',
        'confirmed_by_me': ['patch applies to /repo HEAD', 'baseline: 66 passed with the change', 'demo.py exits 0 on the original code and 1 with the change'],
        'check_result': {'cmd': f'./harness/try_seed.sh {pid} seeded/{name} quick', 'caught': caught == 'yes', 'clauses': sys.argv[5:]}}
json.dump(meta, open(os.path.join(d, 'meta.json'), 'w'), indent=1)
print('saved', d)
