"""Synthetic inputs for the real GEMDAT API: lattices with exact rational Gram matrices,
trajectories, site structures, exact minimum-image geometry (Fractions)."""
from __future__ import annotations

import itertools
import math
from fractions import Fraction as Fr

import numpy as np


def frac_of_float(x) -> Fr:
    return Fr(*float(x).as_integer_ratio())


def dyadic(x):
    """exact (num, den) of a float"""
    n, d = float(x).as_integer_ratio()
    return int(n), int(d)


# ---------------------------------------------------------------- lattices
# Integer matrices (rows = lattice vectors a, b, c): exact Gram matrix G = M M^T.
LATTICE_CLASSES = {
    'cubic': lambda r: [[r.choice([4, 5, 8]), 0, 0], [0, 0, 0], [0, 0, 0]],
}


def int_lattice(rng, kind, maxK=3, left_handed=0.15):
    """integer lattice of the given class whose minimum-image window is provably small; with probability
    `left_handed` two rows are swapped (negative determinant: a left-handed but perfectly legitimate cell basis)"""
    while True:
        m = _int_lattice(rng, kind)
        if window_ok(m, maxK):
            if kind not in ('cubic', 'ortho') and rng.random() < left_handed:
                m = [m[1], m[0], m[2]]
            return m


def _int_lattice(rng, kind):
    """Return an integer 3x3 matrix (rows are lattice vectors) of the given class."""
    if kind == 'cubic':
        a = rng.choice([4, 5, 6, 8])
        return [[a, 0, 0], [0, a, 0], [0, 0, a]]
    if kind == 'ortho':
        a, b, c = rng.sample([4, 5, 6, 7, 9], 3)
        return [[a, 0, 0], [0, b, 0], [0, 0, c]]
    if kind == 'mono':
        a, b, c = rng.sample([5, 6, 7, 8], 3)
        return [[a, 0, 0], [0, b, 0], [rng.choice([-2, -1, 1, 2]), 0, c]]
    if kind == 'hexlike':   # 60/120-degree-like integer cell (a.b = -a^2/2 needs even a)
        a = rng.choice([4, 6, 8])
        return [[a, 0, 0], [-a // 2, a, 0], [0, 0, rng.choice([5, 7, 9])]]   # not exactly hexagonal; skewed ab-plane
    if kind == 'hex':       # exactly hexagonal (a = b, gamma = 120 deg, c perpendicular) as an integer matrix in a rotated frame:
        s_, t_ = rng.choice([3, 4, 5]), rng.choice([3, 4, 5])   # a = (s,-s,0), b = (0,s,-s) span the plane x+y+z = 0, c = (t,t,t)
        return [[s_, -s_, 0], [0, s_, -s_], [t_, t_, t_]]
    if kind == 'tri':       # general triclinic, lower triangular
        a, b, c = rng.choice([5, 6, 7]), rng.choice([5, 6, 8]), rng.choice([6, 7, 9])
        return [[a, 0, 0], [rng.choice([-2, -1, 1, 2]), b, 0], [rng.choice([-2, -1, 1, 2]), rng.choice([-2, -1, 1, 2]), c]]
    if kind == 'tri_full':  # full integer matrix (not triangular): arbitrary orientation
        while True:
            m = [[rng.randint(-3, 7) for _ in range(3)] for _ in range(3)]
            for k in range(3):
                m[k][k] += 5
            det = int(round(np.linalg.det(np.array(m, dtype=float))))
            if det > 60:
                return m
    raise ValueError(kind)


def gram(m):
    return [[sum(Fr(m[i][k]) * Fr(m[j][k]) for k in range(3)) for j in range(3)] for i in range(3)]


def qf(G, v):
    return sum(Fr(v[i]) * G[i][j] * Fr(v[j]) for i in range(3) for j in range(3))


def rotation(rng):
    """random proper rotation (float)"""
    q = np.array([rng.gauss(0, 1) for _ in range(4)])
    q /= np.linalg.norm(q)
    w, x, y, z = q
    return np.array([
        [1 - 2 * (y * y + z * z), 2 * (x * y - z * w), 2 * (x * z + y * w)],
        [2 * (x * y + z * w), 1 - 2 * (x * x + z * z), 2 * (y * z - x * w)],
        [2 * (x * z - y * w), 2 * (y * z + x * w), 1 - 2 * (x * x + y * y)]])


def min_image_d2(G, f, K=2):
    """exact minimum over images n in [-K,K]^3 of |f + n|^2_G after wrapping f to [-1/2,1/2] (integer arithmetic)"""
    f = [Fr(x) for x in f]
    f = [x - math.floor(x + Fr(1, 2)) for x in f]
    den = 1
    for x in f:
        den = den * x.denominator // math.gcd(den, x.denominator)
    gden = 1
    for row in G:
        for x in row:
            gden = gden * Fr(x).denominator // math.gcd(gden, Fr(x).denominator)
    a = [int(x * den) for x in f]
    g = [[int(Fr(x) * gden) for x in row] for row in G]
    best = None
    rng = range(-K, K + 1)
    for n0 in rng:
        x0 = a[0] + den * n0
        for n1 in rng:
            x1 = a[1] + den * n1
            for n2 in rng:
                x2 = a[2] + den * n2
                d = (g[0][0] * x0 * x0 + g[1][1] * x1 * x1 + g[2][2] * x2 * x2
                     + 2 * (g[0][1] * x0 * x1 + g[0][2] * x0 * x2 + g[1][2] * x1 * x2))
                if best is None or d < best:
                    best = d
    return Fr(best, den * den * gden)


def window_ok(m, K):
    """sufficient condition (DESIGN §4) for the K-window to contain the minimum image"""
    a = [np.array(r, dtype=object) for r in m]
    def cross(u, v):
        return np.array([u[1] * v[2] - u[2] * v[1], u[2] * v[0] - u[0] * v[2], u[0] * v[1] - u[1] * v[0]], dtype=object)
    det = int(sum(a[0][i] * cross(a[1], a[2])[i] for i in range(3)))
    s = sum(int(sum(x * x for x in r)) for r in a)
    for i in range(3):
        N = cross(a[(i + 1) % 3], a[(i + 2) % 3])
        n2 = int(sum(x * x for x in N))
        if not (2 * K + 1) ** 2 * det * det >= 3 * s * n2:
            return False
    return True


# ---------------------------------------------------------------- gemdat objects
def make_lattice(m, rot=None):
    from pymatgen.core import Lattice
    M = np.array(m, dtype=float)
    if rot is not None:
        M = M @ np.asarray(rot).T
    return Lattice(M)


def make_traj(m, species, coords, time_step=2e-15, temperature=600.0, rot=None, mode='auto', images=None, **kw):
    from gemdat.trajectory import Trajectory
    from pymatgen.core import Element
    species = [Element(s) if isinstance(s, str) else s for s in species]
    coords = np.array(coords, dtype=float)
    # which periodic image of an atom a file happens to store is not part of the meaning of a trajectory: with `images` (a seed) every
    # atom in every frame is moved by up to three whole cells per axis (exact on the dyadic grids the harnesses use)
    if images is not None and coords.ndim == 3 and coords.size and 'coords_are_displacement' not in kw:
        coords = coords + np.random.default_rng(int(images)).integers(-3, 4, size=coords.shape).astype(float)
    # memory layout is not part of the meaning of an array: hand the same values over in C order, Fortran order or as a
    # non-contiguous view, chosen deterministically from the content (so that a replay sees the same layout)
    if coords.ndim == 3 and coords.size:
        import zlib
        pick = zlib.crc32(np.ascontiguousarray(coords).tobytes()) % 4
        if pick == 1:
            coords = np.asfortranarray(coords)
        elif pick == 2:
            coords = np.ascontiguousarray(coords.transpose(2, 0, 1)).transpose(1, 2, 0)
    t = Trajectory(species=list(species), coords=coords,
                   lattice=make_lattice(m, rot), time_step=time_step,
                   metadata={'temperature': temperature}, **kw)
    # internal representation is not part of the meaning either: a third of the trajectories are handed over in displacement mode
    # (as they are after any displacement-based query), chosen deterministically from the content
    if mode == 'auto' and 'coords_are_displacement' not in kw and coords.ndim == 3 and coords.shape[0] >= 2:
        import zlib
        h = zlib.crc32(np.ascontiguousarray(coords).tobytes()) // 4
        if h % 3 == 0:
            t.to_displacements()
            if (h // 3) % 2 == 0:
                # ... and half of those are *built* from the displacements (as apply_drift_correction builds its result), not converted
                t = Trajectory(species=list(species), coords=np.array(t.coords), coords_are_displacement=True, base_positions=np.array(t.base_positions),
                               lattice=make_lattice(m, rot), time_step=time_step, metadata={'temperature': temperature}, **kw)
    return t


def image_seed(case, every=4):
    """a seed for make_traj(images=...) for one case in `every`, derived from the case content (so that a replay sees the same trajectory)"""
    import json
    import zlib
    h = zlib.crc32(json.dumps(case, sort_keys=True, default=str).encode())
    return h if h % every == 0 else None


def make_sites(m, frac, labels=None, species='Li', rot=None):
    from pymatgen.core import Structure
    sp = [species] * len(frac) if isinstance(species, str) else list(species)
    return Structure(lattice=make_lattice(m, rot), species=sp, coords=np.array(frac, dtype=float),
                     labels=list(labels) if labels is not None else None)


def hopping_positions(r, T, na, site_frac, p_move=0.15, sigma=0.01):
    """positions of na atoms hopping between the given sites (at most one atom per site)"""
    ns = len(site_frac)
    cur = list(range(na))
    pos = np.zeros((T, na, 3))
    for t in range(T):
        for a in range(na):
            if r.random() < p_move:
                free = [k for k in range(ns) if k not in cur]
                if free:
                    cur[a] = int(free[int(r.integers(0, len(free)))])
            pos[t, a] = np.array(site_frac[cur[a]]) + r.normal(0, sigma, 3)
    return np.mod(pos, 1)


def pkdtree_disagrees(lattice, site_frac, pos_frac, radii):
    """Attribution test for known finding D19: does MDAnalysis' PeriodicKDTree (float32, as GEMDAT drives it) return a
    different neighbour set than MDAnalysis' own brute-force search for this configuration?"""
    from MDAnalysis.lib.distances import capped_distance
    from MDAnalysis.lib.mdamath import triclinic_vectors
    from MDAnalysis.lib.pkdtree import PeriodicKDTree
    box = np.array(lattice.parameters, dtype=np.float32)
    bv = triclinic_vectors(box)
    ac = np.dot(np.asarray(pos_frac, dtype=float).reshape(-1, 3), bv)
    sc = np.dot(np.asarray(site_frac, dtype=float).reshape(-1, 3), bv)
    for r in sorted(set(float(x) for x in radii)):
        tree = PeriodicKDTree(box=box)
        tree.set_coords(ac, cutoff=max(float(x) for x in radii))
        got = set(map(tuple, tree.search_tree(sc, r)))
        ref = set(map(tuple, capped_distance(sc.astype(np.float32), ac.astype(np.float32), r, box=box, method='bruteforce', return_distances=False)))
        if got != ref:
            return True
    return False


# ---------------------------------------------------------------- input-state guard (used by the harnesses)
class InputGuard:
    """Records the observable state of the objects handed to the code under test and reports which of them changed.
    Trajectory: wrapped positions of a deep copy (in-place conversion between positions and displacements is by design and not a change),
    species, lattice, time step; Transitions: states, inner states, event table; Structure: fractional coordinates and labels;
    Volume: data; numpy arrays / DataFrames / dicts / lists: value."""

    def __init__(self, **objs):
        self.objs = objs
        self.before = {k: self._state(v) for k, v in objs.items()}

    @staticmethod
    def _state(o):
        import copy
        name = type(o).__name__
        if hasattr(o, 'coords_are_displacement'):
            c = copy.deepcopy(o)
            return ('traj', np.array(c.positions), tuple(str(s) for s in o.species), np.array(o.lattice).copy(), float(o.time_step))
        if name == 'Transitions':
            return ('transitions', np.array(o.states).copy(), np.array(o.inner_states).copy(), o.events.copy(deep=True))
        if hasattr(o, 'frac_coords') and hasattr(o, 'species'):
            return ('structure', np.array(o.frac_coords).copy(), [str(s) for s in o.species], list(getattr(o, 'labels', [])))
        if hasattr(o, 'data') and hasattr(o, 'lattice') and isinstance(getattr(o, 'data'), np.ndarray):
            return ('volume', np.array(o.data).copy())
        return ('value', copy.deepcopy(o))

    @staticmethod
    def _same(a, b):
        import pandas as pd
        if a[0] != b[0]:
            return False
        if a[0] == 'traj':
            if a[1].shape != b[1].shape:
                return False
            d = a[1] - b[1]
            d -= np.round(d)
            return bool(np.abs(d).max(initial=0) < 1e-9) and a[2] == b[2] and np.array_equal(a[3], b[3]) and a[4] == b[4]
        for x, y in zip(a[1:], b[1:]):
            if isinstance(x, np.ndarray):
                if x.shape != y.shape or not np.array_equal(x, y, equal_nan=x.dtype.kind == 'f'):
                    return False
            elif isinstance(x, pd.DataFrame):
                if not x.equals(y):
                    return False
            elif x != y:
                return False
        return True

    def changed(self):
        return sorted(k for k, v in self.objs.items() if not self._same(self.before[k], self._state(v)))


def inputs_clause(out, what):
    """oracle clause for an InputGuard result stored under out['inputs_changed']"""
    ch = out.get('inputs_changed')
    if ch:
        return [('inputs/modified-by-analysis', f'{what} modified the object(s) it was given: {", ".join(ch)}')]
    return []


def call_plots(obj, names, backends=('plotly', 'matplotlib')):
    """Figures are read-only views of an analysis: call the plotting methods (both backends), ignore whatever they return or reject"""
    import os
    os.environ.setdefault('MPLBACKEND', 'Agg')
    called = 0
    for n in names:
        f = getattr(obj, n, None)
        if f is None:
            continue
        for b in backends:
            try:
                f(backend=b)
                called += 1
            except Exception:
                pass
    try:
        import matplotlib.pyplot as plt
        plt.close('all')
    except Exception:
        pass
    return called
