"""Core of the GEMDAT verification harness.

One run of `./check Cxx --tier T`:
  gate (no Admitted/Axiom/...), build the property's Coq cone, capture Print Assumptions,
  regenerate translator units (if the property has any), generate cases from one PRNG,
  run the real implementation (/repo/src), run the Python property oracle on the
  implementation's outputs, evaluate the Coq model on the same inputs (vm_compute in
  generated case files) and compare, decide, write evidence.
"""
from __future__ import annotations

import importlib
import json
import multiprocessing as mp
import os
import random
import re
import shutil
import subprocess
import sys
import time
import traceback

VERIF = os.path.dirname(os.path.dirname(os.path.abspath(__file__)))
COQ = os.path.join(VERIF, 'coq')
BUILD = os.path.join(VERIF, 'build')
REPLAYS = os.path.join(VERIF, 'replays')
EVID = os.environ.get('VERIF_EVIDENCE_DIR') or os.path.join(VERIF, 'evidence')     # seeded-change runs write their evidence elsewhere
KNOWN = os.path.join(VERIF, 'known_findings.json')

GATE_RE = re.compile(
    r'\b(Admitted|admit|Axiom|Axioms|Parameter|Parameters|Conjecture|Hypothesis|Variable|Variables|'
    r'Unset\s+Guard|bypass_check|type-in-type|impredicative-set|Admit\s+Obligations|native_compute)\b'
)


def log(*a):
    print(*a, file=sys.stderr, flush=True)


def sh(cmd, timeout=600, cwd=None, env=None):
    try:
        p = subprocess.run(cmd, shell=isinstance(cmd, str), cwd=cwd, env=env, timeout=timeout,
                           stdout=subprocess.PIPE, stderr=subprocess.STDOUT, text=True)
        return p.returncode, p.stdout
    except subprocess.TimeoutExpired as e:
        out = e.stdout or ''
        if isinstance(out, bytes):
            out = out.decode('utf8', 'replace')
        return 124, out + '\n[timeout]'


# ---------------------------------------------------------------- Coq side
def strip_comments(src: str) -> str:
    out, depth, i = [], 0, 0
    while i < len(src):
        if src.startswith('(*', i):
            depth += 1
            i += 2
        elif src.startswith('*)', i) and depth:
            depth -= 1
            i += 2
        else:
            if not depth:
                out.append(src[i])
            i += 1
    return ''.join(out)


def gate():
    """Fail-closed scan of every committed .v file (comments stripped).  Section
    variables/hypotheses are allowed only inside a Section (checked crudely: the file
    must contain 'Section' before the first Variable/Hypothesis)."""
    bad = []
    for root, _, files in os.walk(COQ):
        for f in files:
            if not f.endswith('.v'):
                continue
            p = os.path.join(root, f)
            src = strip_comments(open(p).read())
            depth = 0
            for ln, line in enumerate(src.split('\n'), 1):
                s = line.strip()
                if re.match(r'Section\b', s):
                    depth += 1
                if re.match(r'End\b', s) and depth:
                    depth -= 1
                for m in GATE_RE.finditer(line):
                    w = m.group(1)
                    if w in ('Variable', 'Variables', 'Hypothesis') and depth > 0:
                        continue
                    bad.append(f'{os.path.relpath(p, VERIF)}:{ln}: {w}')
    return bad


class coq_lock:
    """Checks of different properties may be started at the same time; they share /verif/coq (make, the regenerated Gen/ files).
    Every phase that runs Coq holds this exclusive lock, so concurrent checks take turns there and run their implementations in parallel."""

    def __enter__(self):
        import fcntl
        self.f = open(os.path.join(COQ, '.verif.lock'), 'w')
        fcntl.flock(self.f, fcntl.LOCK_EX)
        return self

    def __exit__(self, *a):
        import fcntl
        fcntl.flock(self.f, fcntl.LOCK_UN)
        self.f.close()
        return False


def coq_make(targets, timeout=1500):
    if not os.path.exists(os.path.join(COQ, 'Makefile')):
        rc, out = sh('coq_makefile -f _CoqProject -o Makefile', cwd=COQ, timeout=60)
        if rc:
            return False, out
    rc, out = sh(['make', '-j', '16'] + targets, cwd=COQ, timeout=timeout)
    return rc == 0, out


def coqc_file(path, timeout=600, extra=()):
    cmd = ['coqc', '-R', COQ, 'GV', *extra, path]
    return sh(cmd, timeout=timeout, cwd=os.path.dirname(path))


def print_assumptions(prop_id):
    """Re-compile Properties/<id>.v, return (ok, n_theorems, n_closed, axioms, log)."""
    src_path = os.path.join(COQ, 'Properties', prop_id + '.v')
    src = strip_comments(open(src_path).read())
    n_thm = len(re.findall(r'^\s*(Theorem)\s', src, flags=re.M))
    thm_names = re.findall(r'^\s*Theorem\s+([\w\']+)', src, flags=re.M)
    # compile into the build dir so that the tree's .vo is not disturbed
    d = os.path.join(BUILD, prop_id, 'pa')
    os.makedirs(d, exist_ok=True)
    tmp = os.path.join(d, f'PA_{prop_id}.v')
    shutil.copy(src_path, tmp)
    rc, out = coqc_file(tmp, timeout=900)
    closed = len(re.findall(r'Closed under the global context', out))
    axioms = set()
    in_ax = False
    for line in out.split('\n'):
        if line.startswith('Axioms:'):
            in_ax = True
            continue
        if in_ax:
            m = re.match(r'^([A-Za-z_][\w\.\']*)\s*(:|$)', line)
            if m and not line.startswith('Closed'):
                axioms.add(m.group(1))
            elif line.startswith('Closed') or (line and not line[0].isspace() and not m):
                in_ax = False
    return rc == 0, n_thm, thm_names, closed, sorted(axioms), out


def run_shards(prop_id, tie_module, terms, shard=250, timeout=900, header_extra=''):
    """terms: list of Coq terms of type <tie>.case.  Returns (ok, bad_indices, log)."""
    d = os.path.join(BUILD, prop_id, 'cases')
    shutil.rmtree(d, ignore_errors=True)
    os.makedirs(d)
    files = []
    for k in range(0, len(terms), shard):
        chunk = terms[k:k + shard]
        path = os.path.join(d, f'cases_{k // shard}.v')
        with open(path, 'w') as f:
            f.write(f'From GV Require Import Base.Prelude {tie_module}.\n{header_extra}\n')
            f.write('Open Scope Z_scope.\n')
            f.write('Definition cs : list case := [\n')
            f.write(';\n'.join(chunk))
            f.write('\n].\nEval vm_compute in (bad cs).\n')
        files.append((k, path))
    procs = []
    bad, logs, ok = [], [], True
    sem = 14
    pending = list(files)
    running = []
    while pending or running:
        while pending and len(running) < sem:
            k, path = pending.pop(0)
            p = subprocess.Popen(['timeout', str(timeout), 'coqc', '-R', COQ, 'GV', path],
                                 cwd=d, stdout=subprocess.PIPE, stderr=subprocess.STDOUT, text=True)
            running.append((k, path, p))
        for item in list(running):
            k, path, p = item
            if p.poll() is None:
                continue
            running.remove(item)
            out = p.stdout.read()
            if p.returncode != 0:
                ok = False
                logs.append(f'{path}: rc={p.returncode}\n{out[-3000:]}')
                continue
            flat = ' '.join(out.split())
            m = re.search(r'=\s*\[(.*?)\]\s*(%nat)?\s*:\s*list nat', flat)
            if not m:
                ok = False
                logs.append(f'{path}: cannot parse output\n{out[-2000:]}')
                continue
            body = m.group(1).strip()
            if body:
                for tok in body.split(';'):
                    tok = tok.strip().replace('%nat', '')
                    bad.append(k + int(tok))
        time.sleep(0.05)
    return ok, sorted(bad), '\n'.join(logs)


# ---------------------------------------------------------------- Coq literal helpers
def z(n) -> str:
    n = int(n)
    return str(n) if n >= 0 else f'({n})'


def zlist(xs) -> str:
    return '[' + '; '.join(z(x) for x in xs) + ']'


def clist(xs) -> str:
    return '[' + '; '.join(xs) + ']'


def cbool(b) -> str:
    return 'true' if b else 'false'


def nat(n) -> str:
    return f'{int(n)}%nat'


# ---------------------------------------------------------------- implementation runner
_PROP = None


def _impl_worker(case):
    try:
        return _PROP.impl(case)
    except Exception as e:  # an escaping exception is an observable of the implementation
        return {'error': type(e).__name__, 'msg': str(e)[:300],
                'tb': traceback.format_exc()[-1500:]}


def _init_worker(modname):
    global _PROP
    import warnings
    warnings.filterwarnings('ignore')
    _PROP = importlib.import_module(modname)


def run_impl(prop, cases, procs=14):
    if getattr(prop, 'SERIAL', False) or len(cases) < 8:
        _init_worker(prop.__name__)
        return [_impl_worker(c) for c in cases]
    # one task per case with a time limit: if the implementation kills its worker process (a crash inside a C extension, the OOM killer)
    # or never returns, that case is reported as such instead of the whole run hanging on a lost task
    limit = float(os.environ.get('VERIF_CASE_TIMEOUT', getattr(prop, 'CASE_TIMEOUT', 300)))
    outs, lost = [], 0
    with mp.get_context('fork').Pool(procs, initializer=_init_worker, initargs=(prop.__name__,)) as pool:
        handles = [pool.apply_async(_impl_worker, (c,)) for c in cases]
        for h in handles:
            try:
                outs.append(h.get(timeout=limit if lost == 0 else 5.0))
            except mp.TimeoutError:
                lost += 1
                outs.append({'error': 'NoResult', 'msg': f'the implementation did not return within {limit:.0f} s (worker process died or hung)', 'tb': ''})
        pool.terminate()
    return outs


# ---------------------------------------------------------------- known findings
def load_known(prop_id):
    if not os.path.exists(KNOWN):
        return []
    data = json.load(open(KNOWN))
    return [e for e in data.get('findings', []) if e['property'] == prop_id and e.get('status') == 'open']


# ---------------------------------------------------------------- main
def write_replay(prop_id, seed, n, payload):
    os.makedirs(REPLAYS, exist_ok=True)
    path = os.path.join(REPLAYS, f'{prop_id}-{seed}-{n}.json')
    with open(path, 'w') as f:
        json.dump(payload, f, indent=1, default=str)
    return path


def compact(x, limit=600):
    s = json.dumps(x, default=str)
    return x if len(s) <= limit else s[:limit] + '...'


def main(argv):
    import argparse
    os.environ['VERIF_RUN_TAG'] = str(os.getpid())        # scratch directories of this run (several checks may run at the same time)
    ap = argparse.ArgumentParser()
    ap.add_argument('prop')
    ap.add_argument('--tier', default=os.environ.get('VERIF_TIER', 'quick'))
    ap.add_argument('--replay')
    ap.add_argument('--seed', type=int, default=int(os.environ.get('VERIF_SEED', '20260930')))
    args = ap.parse_args(argv)
    tier = args.tier if args.tier in ('quick', 'thorough') else 'quick'
    pid = args.prop
    t0 = time.time()
    prop = importlib.import_module(f'props.{pid}')
    seed = args.seed
    rng = random.Random(f'{pid}-{seed}')
    os.makedirs(os.path.join(BUILD, pid), exist_ok=True)
    os.makedirs(EVID, exist_ok=True)

    if not args.replay and os.path.isdir(REPLAYS):
        for f in os.listdir(REPLAYS):
            if f.startswith(pid + '-'):
                os.remove(os.path.join(REPLAYS, f))
    violations = []      # (kind, clause, payload)
    known_hits = {}
    notes = []

    if args.replay:
        return replay(prop, pid, args.replay)

    # 1. gate
    g = gate()
    if g:
        violations.append(('gate', 'forbidden-construct', {'where': g}))

    # 2. build
    targets = [f'Properties/{pid}.vo'] + [prop.TIE.replace('.', '/') + '.vo']
    pre_notes = []
    with coq_lock():
        if hasattr(prop, 'pre_build'):
            coq_make(targets)                    # the generated files import the model and proof files: make sure those are current first
            pre_notes = prop.pre_build() or []   # translator units: list of (name, ok, detail)
        ok_build, blog = coq_make(targets)
        proof_broken = None
        if not ok_build:
            proof_broken = blog[-4000:]
            log('[build failed]\n' + proof_broken)
        ok_pa, n_thm, thm_names, n_closed, axioms, palog = print_assumptions(pid)
    if not ok_pa and not proof_broken:
        proof_broken = palog[-4000:]
    discharged = n_thm if (ok_pa and ok_build) else 0
    gen_broken = [n for n in pre_notes if not n[1]]

    # 3. cases
    cases = []
    cdir = os.path.join(VERIF, 'harness', 'corpus', pid)
    if os.path.isdir(cdir):
        for f in sorted(os.listdir(cdir)):
            if f.endswith('.json'):
                c = json.load(open(os.path.join(cdir, f)))
                c['_corpus'] = f
                cases.append(c)
    n_corpus = len(cases)
    cases.extend(prop.gen_cases(rng, tier))
    log(f'[{pid}] {len(cases)} cases ({n_corpus} corpus), running implementation ...')
    outs = run_impl(prop, cases)
    if hasattr(prop, 'cleanup'):
        prop.cleanup()           # scratch files of worker processes that did not live to remove them

    # 4. oracle on implementation outputs
    hist = {}
    nontriv = set()
    excluded = 0
    findings = []
    for k, (c, o) in enumerate(zip(cases, outs)):
        try:
            fs = prop.oracle(c, o) or []
        except Exception as e:
            fs = [('oracle-crash', f'{type(e).__name__}: {e} :: {traceback.format_exc()[-800:]}')]
        for clause, msg in fs:
            findings.append((k, clause, msg))
        try:       # bookkeeping must never turn an unexpected implementation output into a harness failure
            if prop.nontrivial(c, o):
                nontriv.add(prop.case_key(c) if hasattr(prop, 'case_key') else json.dumps(c, sort_keys=True, default=str))
            if hasattr(prop, 'classify'):
                for tag in prop.classify(c, o):
                    hist[tag] = hist.get(tag, 0) + 1
        except Exception:
            hist['(unclassifiable output)'] = hist.get('(unclassifiable output)', 0) + 1

    # 5. model vs implementation
    terms, idxmap = [], []
    for k, (c, o) in enumerate(zip(cases, outs)):
        try:
            t = prop.coq_term(c, o)
        except Exception as e:
            # the implementation's output is so far from what the model expects that it cannot even be rendered for the tie
            # (e.g. an asymmetric edge list): that is a disagreement with a concrete input, not a harness failure
            findings.append((k, 'tie/output-not-renderable', f'the output of the implementation cannot be handed to the model: {type(e).__name__}: {e} :: '
                             f'{traceback.format_exc()[-500:]}'))
            t = None
        if t is None:
            excluded += 1
            continue
        terms.append(t)
        idxmap.append(k)
    bad = []
    tie_ok, tielog = True, ''
    extra_checks = []
    with coq_lock():
        if ok_build and terms:
            tie_ok, badi, tielog = run_shards(pid, prop.TIE, terms, shard=getattr(prop, 'SHARD', 250),
                                              header_extra=getattr(prop, 'HEADER', ''))
            bad = [idxmap[i] for i in badi]
            if not tie_ok:
                log('[tie evaluation failed]\n' + tielog[-3000:])
        if ok_build and hasattr(prop, 'extra_coq'):
            # per-run Coq obligations (certificates); list of (name, ok, detail)
            try:
                extra_checks = prop.extra_coq(cases, outs, os.path.join(BUILD, pid)) or []
            except Exception as e:
                extra_checks = [('per-run certificates', False, f'{type(e).__name__}: {e} :: {traceback.format_exc()[-600:]}')]

    # 6. decide
    known = load_known(pid)

    def match_known(clause):
        for e in known:
            if e['clause'] == clause:
                return e
        return None

    vio_lines = []
    reported_clauses = set()
    nrep = 0
    for k, clause, msg in findings:
        e = match_known(clause)
        if e is not None:
            known_hits.setdefault(e['id'], (e, 0))
            known_hits[e['id']] = (e, known_hits[e['id']][1] + 1)
            continue
        if clause in reported_clauses:
            continue
        reported_clauses.add(clause)
        path = write_replay(pid, seed, nrep, {
            'property': pid, 'kind': 'property-violated-on-implementation', 'clause': clause,
            'message': msg, 'case': cases[k], 'impl_output': outs[k],
            'model_agrees_with_impl': k not in bad})
        nrep += 1
        vio_lines.append(f'VIOLATION property={pid} replay={path}')
    finding_cases = {k for k, _, _ in findings}
    unexplained = [k for k in bad if k not in finding_cases]
    failing_extra = [x for x in extra_checks if not x[1]]
    need_search = bool(unexplained) or (proof_broken is not None) or (not tie_ok) or bool(gen_broken) or bool(failing_extra)
    if need_search and not vio_lines:
        # widen: more generated cases, oracle on the implementation only
        found = None
        srng = random.Random(f'{pid}-search-{seed}')
        tlim = time.time() + (60 if tier == 'quick' else 600)
        rounds = 0
        while time.time() < tlim and found is None and rounds < 40:
            rounds += 1
            sc = list(prop.gen_cases(srng, 'search'))
            so = run_impl(prop, sc)
            for c, o in zip(sc, so):
                try:
                    fs = prop.oracle(c, o) or []
                except Exception as e:
                    fs = [('oracle-crash', str(e))]
                fs = [f for f in fs if match_known(f[0]) is None]
                if fs:
                    found = (c, o, fs[0])
                    break
        what = []
        if proof_broken is not None:
            what.append({'broken': f'proof obligation in coq/Properties/{pid}.v or its dependencies', 'log': proof_broken})
        if gen_broken:
            what.append({'broken': 'translator unit / theorem about generated definition', 'units': gen_broken})
        if failing_extra:
            what.append({'broken': 'per-run Coq certificate', 'items': failing_extra[:5]})
        if not tie_ok:
            what.append({'broken': f'correspondence evaluation for {prop.TIE}', 'log': tielog[-3000:]})
        if unexplained:
            what.append({'broken': f'correspondence {prop.TIE}.check (model output differs from implementation output)',
                         'n_disagreeing_cases': len(unexplained),
                         'first_disagreeing_case': cases[unexplained[0]],
                         'impl_output': outs[unexplained[0]]})
        if found:
            c, o, (clause, msg) = found
            path = write_replay(pid, seed, nrep, {
                'property': pid, 'kind': 'property-violated-on-implementation (found by search after proof/tie broke)',
                'clause': clause, 'message': msg, 'case': c, 'impl_output': o, 'what_broke': what})
            vio_lines.append(f'VIOLATION property={pid} replay={path}')
        else:
            path = write_replay(pid, seed, nrep, {
                'property': pid, 'kind': 'no-failing-input-found', 'what_broke': what})
            vio_lines.append(f'VIOLATION property={pid} replay={path} no-failing-input-found')
        nrep += 1
    if g:
        path = write_replay(pid, seed, nrep, {'property': pid, 'kind': 'gate', 'where': g})
        vio_lines.append(f'VIOLATION property={pid} replay={path} no-failing-input-found')

    for fid, (e, cnt) in known_hits.items():
        print(f"KNOWN-FINDING: property={pid} {e['id']} {e['what']} (seen on {cnt} cases this run)")
    # a known finding must still be reproducible through its characterisation; if the
    # generator is expected to hit it and did not, say so (not an alarm)
    for e in known:
        if e['id'] not in known_hits:
            notes.append(f"known finding {e['id']} not exercised this run")

    # 7. evidence
    samples = []
    for k in list(range(min(3, len(cases)))):
        try:
            samples.append({'case': compact(prop.sample(cases[k], outs[k]) if hasattr(prop, 'sample') else cases[k])})
        except Exception:
            samples.append({'case': compact(cases[k])})
    trusted = ['Coq 8.16.1 kernel + vm_compute (no native_compute)',
               'correspondence harness /verif/harness (generators, canonicalisation, guard bands)']
    trusted += [f'axiom: {a}' for a in axioms]
    trusted += list(getattr(prop, 'TRUSTED', []))
    ev = {
        'property_id': pid, 'tier': tier, 'seed': seed, 'level': 'proof',
        'coverage': {
            'obligations': n_thm + len(extra_checks) + len(pre_notes),
            'discharged': discharged + sum(1 for x in extra_checks if x[1]) + sum(1 for x in pre_notes if x[1]),
            'theorems': thm_names,
            'closed_under_global_context': n_closed,
            'checker_cmd': f'make -C /verif/coq Properties/{pid}.vo && coqc -R /verif/coq GV coq/Properties/{pid}.v (Print Assumptions)',
            'trusted_base': trusted,
            'evaluations': len(cases),
            'distinct_nontrivial': len(nontriv),
            'rule': prop.RULE,
            'samples': samples,
            'traces_validated_against_impl': len(terms),
            'model_impl_disagreements': len(bad),
            'boundary_excluded': excluded,
            'corpus_cases': n_corpus,
            'input_distribution': hist,
            'oracle_findings': len(findings),
            'known_findings_seen': {k: v[1] for k, v in known_hits.items()},
            'translator_units': [list(x[:2]) for x in pre_notes],
            'per_run_certificates': len(extra_checks),
            'notes': notes,
        },
        'assumptions': list(getattr(prop, 'ASSUMPTIONS', [])),
        'wall_s': round(time.time() - t0, 2),
        'violations': len(vio_lines),
    }
    with open(os.path.join(EVID, pid + '.json'), 'w') as f:
        json.dump(ev, f, indent=1, default=str)
    shutil.rmtree(os.path.join(BUILD, pid), ignore_errors=True)
    for line in vio_lines:
        print(line)
    print(f'[{pid}] tier={tier} cases={len(cases)} nontrivial={len(nontriv)} tie_cases={len(terms)} '
          f'disagree={len(bad)} findings={len(findings)} theorems={discharged}/{n_thm} '
          f'wall={time.time() - t0:.1f}s', flush=True)
    return 1 if vio_lines else 0


def replay(prop, pid, path):
    data = json.load(open(path))
    if 'case' not in data:
        print(f'[{pid}] replay file names a broken proof/correspondence, no input to replay: {data.get("kind")}')
        print(json.dumps(data.get('what_broke'), indent=1, default=str)[:3000])
        return 1
    case = data['case']
    _init_worker(prop.__name__)
    out = _impl_worker(case)
    fs = prop.oracle(case, out) or []
    print(f'[{pid}] replay {path}')
    print('  impl output:', json.dumps(out, default=str)[:1500])
    if fs:
        for clause, msg in fs:
            print(f'  property clause violated: {clause}: {msg}')
        print(f'VIOLATION property={pid} replay={path}')
        return 1
    print('  property holds on this input now')
    return 0
