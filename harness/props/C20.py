"""C20 -- memoised analysis results are transparent and never leak between objects."""
import gc
import weakref
from collections import Counter

import numpy as np

import synth
from vcore import cbool, clist, nat, z

TIE = 'Tie.C20'
SERIAL = False
RULE = ('cases = (a) random traces of New/Call/Drop/Collect on an instrumented class decorated with the real weak_lru_cache '
        '(maxsize 1-4 so that live objects outnumber the cache; values with and without a reference to their owner; observed id() '
        'of every object is an input of the model) compared op by op with the Coq state machine (value, hit/miss, liveness of every object); '
        '(b) real Transitions/Jumps/TrajectoryMetrics/Collective objects built from synthetic data: every cached method compared with '
        'method.__wrapped__, objects dropped and collected, liveness through weakref; non-trivial = an address reuse or an eviction occurred')
TRUSTED = ['CPython weakref / functools.lru_cache / reference-counting semantics are modelled (Model/C20.v header), validated by the tie']
ASSUMPTIONS = ['analysis objects are not mutated between calls; classes using the decorator define no __eq__/__hash__']


def pre_build():
    import translate
    unit, uses = translate.gen_weak_cache()
    covered = {'transitions.matrix', 'transitions.states_next', 'transitions.states_prev', 'metrics.particle_density', 'metrics.tracer_diffusivity',
               'metrics.attempt_frequency', 'metrics.vibration_amplitude', 'metrics.amplitudes', 'metrics.speed', 'metrics.haven_ratio',
               'metrics.tracer_conductivity', 'metrics.mol_per_liter', 'metrics.tracer_diffusivity_center_of_mass', 'jumps.matrix', 'jumps.counter',
               'jumps._counter', 'jumps.jump_diffusivity', 'jumps.to_graph', 'jumps.collective', 'jumps.rates', 'jumps.activation_energies',
               'collective.site_pair_count_matrix_labels', 'collective.site_pair_count_matrix', 'collective.multiple_collective'}
    missing = [u for u in uses if u not in covered]
    note = ('coverage: every cached method of the library is in the transparency plan' if not missing else
            'coverage: cached methods NOT in the transparency plan (transparency of these is not observed): ' + ', '.join(missing))
    return [unit, (note, not missing, 'ok' if not missing else 'a memoised method outside the observed plan: ' + ', '.join(missing))]


def gen_cases(rng, tier):
    n = {'quick': 300, 'thorough': 6000, 'search': 200}[tier]
    cases = []
    for _ in range(n):
        maxsize = rng.randint(1, 4)
        back = rng.random() < 0.3
        nops = rng.randint(4, 40)
        ops, nobj, live = [], 0, []
        for _k in range(nops):
            r = rng.random()
            if nobj == 0 or r < 0.2:
                ops.append(['New'])
                live.append(nobj)
                nobj += 1
            elif r < 0.75:
                k = rng.choice(live) if (live and rng.random() < 0.9) else rng.randrange(nobj)
                ops.append(['Call', k, rng.randint(0, 2)])
            elif r < 0.93:
                k = rng.randrange(nobj)
                ops.append(['Drop', k])
                if k in live:
                    live.remove(k)
            else:
                ops.append(['Collect'])
        cases.append({'kind': 'trace', 'maxsize': maxsize, 'back': back, 'ops': ops})
    if tier != 'search':
        for k in range(12 if tier == 'quick' else 150):
            cases.append({'kind': 'real', 'seed': rng.randrange(10**6)})
    return cases


class _Holder:
    def __init__(self, owner, v):
        self.owner = owner
        self.v = v


def _impl_trace(case):
    from gemdat.caching import weak_lru_cache
    calls = []
    back = case['back']

    class Obj:
        def __init__(self, uid):
            self.uid = uid

        @weak_lru_cache(maxsize=case['maxsize'])
        def method(self, a):
            calls.append((self.uid, a))
            return _Holder(self if back else None, self.uid * 1000 + a)

    held, refs, addrs, trace = {}, [], [], []
    seen_addr = Counter()
    reuse = 0
    gc.disable()
    try:
        for op in case['ops']:
            out = None
            if op[0] == 'New':
                uid = len(refs)
                o = Obj(uid)
                held[uid] = o
                refs.append(weakref.ref(o))
                addrs.append(id(o))
                if seen_addr[id(o)]:
                    reuse += 1
                seen_addr[id(o)] += 1
                del o
            elif op[0] == 'Call':
                k = op[1]
                if k in held:
                    n0 = len(calls)
                    v = held[k].method(op[2])
                    out = [v.v, len(calls) == n0]
                    del v
            elif op[0] == 'Drop':
                held.pop(op[1], None)
            else:
                gc.collect()
            trace.append({'out': out, 'alive': [r() is not None for r in refs]})
    finally:
        gc.enable()
    evictions = len(calls) - len(set(calls))
    return {'trace': trace, 'addrs': addrs, 'reuse': reuse, 'recomputed': evictions}


def _eq(a, b):
    import pandas as pd
    if isinstance(a, np.ndarray) or isinstance(b, np.ndarray):
        a, b = np.asarray(a), np.asarray(b)
        if a.shape != b.shape:
            return False
        if a.dtype.kind == 'f' and b.dtype.kind == 'f':
            # other calls may convert the trajectory between positions and displacements in place; a recomputation then differs by
            # rounding (observed 2e-15 on values of order 4), which is not a difference of results
            return bool(np.allclose(a, b, rtol=1e-9, atol=1e-12, equal_nan=True))
        try:
            return np.array_equal(a, b, equal_nan=True)
        except TypeError:       # structured arrays (multiple_collective)
            return np.array_equal(a, b)
    if isinstance(a, (pd.DataFrame, pd.Series)):
        if not isinstance(b, type(a)) or a.shape != b.shape or list(a.index) != list(b.index):
            return False
        if isinstance(a, pd.DataFrame) and list(a.columns) != list(b.columns):
            return False
        try:
            # float tables (rates, activation energies): rounding-level differences after in-place representation changes are not differences of results
            av, bv = a.to_numpy(dtype=float), b.to_numpy(dtype=float)
            fin = np.abs(np.concatenate([av[np.isfinite(av)], bv[np.isfinite(bv)], [0.0]]))
            # absolute tolerance relative to the scale of the table: a standard deviation that is zero up to rounding (1e-17 next to 0.05) is zero
            return bool(np.allclose(av, bv, rtol=1e-9, atol=1e-12 * float(fin.max()), equal_nan=True))
        except (TypeError, ValueError):
            return a.equals(b)
    if isinstance(a, (tuple, list)):
        return len(a) == len(b) and all(_eq(x, y) for x, y in zip(a, b))
    if hasattr(a, 'edges') and hasattr(a, 'nodes'):
        if sorted(a.nodes, key=str) != sorted(b.nodes, key=str) or sorted(a.edges, key=str) != sorted(b.edges, key=str):
            return False
        for u, v, da in a.edges(data=True):
            db = b.edges[u, v]
            if sorted(da) != sorted(db) or not all(_eq(da[k], db[k]) for k in da):      # float attributes at 1e-9, everything else exactly
                return False
        return True
    if type(a).__name__ == 'Collective':
        return a.coll_jumps == b.coll_jumps and a.n_solo_jumps == b.n_solo_jumps
    if isinstance(a, float) and isinstance(b, float):
        return bool(np.isclose(a, b, rtol=1e-9, atol=1e-300, equal_nan=True))
    try:
        r = a == b
        if isinstance(r, (bool, np.bool_)):
            return bool(r) or (a != a and b != b)
        return bool(np.all(r))
    except Exception:
        return False


def _plain(v):
    if isinstance(v, tuple):
        return tuple(float(x) for x in v)
    return float(v)


def _impl_real(case):
    from gemdat.jumps import Jumps
    from pymatgen.core.units import FloatWithUnit
    from gemdat.metrics import TrajectoryMetrics
    r = np.random.default_rng(case['seed'])
    m = [[6, 0, 0], [0, 6, 0], [0, 0, 6]]
    site_frac = [[0.0, 0.0, 0.0], [0.5, 0.0, 0.0], [0.0, 0.5, 0.0], [0.5, 0.5, 0.0]]
    sites = synth.make_sites(m, site_frac, labels=['A', 'B', 'A', 'B'])

    def build(nli=3):
        traj = synth.make_traj(m, ['Li'] * nli, synth.hopping_positions(r, 50, nli, site_frac, 0.2, 0.01 if nli == 3 else 0.07))       # wide scatter: frames on no site
        tr = traj.transitions_between_sites(sites, 'Li', site_radius=1.0)
        return traj, tr

    problems, checked, pinned = [], 0, []
    objs = []
    # one object has a single diffusing atom: its state table is one column wide, so its transpose is already contiguous in memory and
    # helpers that copy "only when needed" hand the object's own table on
    for nli in (3, 1, 2):
        traj, tr = build(nli)
        try:
            j = Jumps(tr)
        except ValueError:
            j = None
        objs.append((traj, tr, j, TrajectoryMetrics(traj)))
    # the first trajectory analysed once more with the labels of the sites exchanged and a further, never visited site: the same jump table,
    # other answers by label and by shape -- two live analysis objects that happen to hold equal tables must not share memoised results
    traj0 = objs[0][0]
    sites_b = synth.make_sites(m, site_frac + [[0.5, 0.5, 0.5]], labels=['B', 'A', 'B', 'A', 'C'])
    tr_b = traj0.transitions_between_sites(sites_b, 'Li', site_radius=1.0)
    try:
        j_b = Jumps(tr_b)
    except ValueError:
        j_b = None
    objs.append((traj0, tr_b, j_b, TrajectoryMetrics(traj0)))
    plan = []
    for n, (traj, tr, j, mt) in enumerate(objs):
        plan += [(n, tr, 'matrix', (), {}), (n, tr, 'states_next', (), {}), (n, tr, 'states_prev', (), {})]
        plan += [(n, mt, 'particle_density', (), {}), (n, mt, 'tracer_diffusivity', (), {'dimensions': 3}),
                 (n, mt, 'tracer_diffusivity', (), {'dimensions': 2}), (n, mt, 'attempt_frequency', (), {}),
                 (n, mt, 'vibration_amplitude', (), {}), (n, mt, 'amplitudes', (), {}), (n, mt, 'speed', (), {}),
                 (n, mt, 'haven_ratio', (), {'dimensions': 3}), (n, mt, 'tracer_conductivity', (), {'z_ion': 1, 'dimensions': 3})]
        if j is not None:
            plan += [(n, j, 'matrix', (), {}), (n, j, 'counter', (), {}), (n, j, '_counter', (), {}),
                     (n, j, 'jump_diffusivity', (3,), {}), (n, j, 'jump_diffusivity', (2,), {}), (n, j, 'to_graph', (), {}),
                     (n, j, 'collective', (), {}), (n, j, 'collective', (2.0,), {}), (n, j, 'rates', (2,), {}), (n, j, 'activation_energies', (2,), {}),
                     # arguments that compare (and hash) equal as numbers although they are other objects: a plain float, a float carrying a unit
                     (n, j, 'collective', (3.5,), {}), (n, j, 'collective', (FloatWithUnit(3.5, 'bohr'),), {}), (n, j, 'collective', (FloatWithUnit(3.5, 'ang'),), {})]
            # the same method asked with and without thresholds (each answer is its own object: a thresholded graph is not carved out of the memoised full one)
            try:
                ea = sorted(d['e_act'] for _a, _b, d in Jumps.to_graph.__wrapped__(j).edges(data=True))
            except Exception:
                ea = []
            # the threshold sits in the middle of the widest gap between two activation energies, far from every edge's own value (a recomputation
            # may differ from the memoised value in the last bits; an edge exactly on the threshold would then come and go)
            gaps = [(b - a, 0.5 * (a + b)) for a, b in zip(ea, ea[1:])]
            if gaps and max(gaps)[0] > 1e-6 * max(1.0, abs(ea[-1])):
                mid = max(gaps)[1]
                plan += [(n, j, 'to_graph', (), {'max_e_act': mid}), (n, j, 'to_graph', (), {'min_e_act': mid}), (n, j, 'to_graph', (), {})]
            from gemdat.collective import Collective
            co = Collective(jumps=j, sites=tr.sites, lattice=traj.get_lattice(), max_steps=8, max_dist=3.5)
            plan += [(n, co, 'site_pair_count_matrix_labels', (), {}), (n, co, 'site_pair_count_matrix', (), {}), (n, co, 'multiple_collective', (), {})]
        plan += [(n, mt, 'mol_per_liter', (), {}), (n, mt, 'tracer_diffusivity_center_of_mass', (), {'dimensions': 3})]
    order = list(range(len(plan))) * 2
    r.shuffle(order)
    import copy
    first = {}
    own = [(tr.states.copy(), tr.inner_states.copy(), tr.events.copy(deep=True)) for (_t, tr, _j, _m) in objs]

    def call(f):
        try:
            return ('value', f())
        except Exception as e:        # a method may legitimately reject an input; cached and uncached must then reject alike
            return ('raises', type(e).__name__)

    for idx in order:
        n, o, name, a, kw = plan[idx]
        got = call(lambda: getattr(o, name)(*a, **kw))
        want = call(lambda: getattr(type(o), name).__wrapped__(o, *a, **kw))
        checked += 1
        if got[0] != want[0] or (got[0] == 'raises' and got[1] != want[1]) or (got[0] == 'value' and not _eq(got[1], want[1])):
            problems.append(f'{type(o).__name__}.{name}{a}{kw} of object {n} differs from the uncached recomputation')
        # the value handed out earlier must not have been altered since (by this or any other method)
        if got[0] == 'value' and type(got[1]).__name__ != 'Collective':
            if idx in first and not _eq(first[idx][0], first[idx][1]):
                problems.append(f'the value returned earlier by {type(o).__name__}.{name}{a}{kw} of object {n} was modified afterwards')
            if idx not in first:
                first[idx] = (got[1], copy.deepcopy(got[1]))
        del got, want
    del first
    for n, ((st0, in0, ev0), (_t, tr, _j, _m)) in enumerate(zip(own, objs)):
        checked += 1
        if not (np.array_equal(st0, tr.states) and np.array_equal(in0, tr.inner_states) and ev0.equals(tr.events)):
            problems.append(f'the states / events of object {n} ({tr.states.shape[1]} diffusing atom(s)) were modified by its memoised methods')
    # objects derived from one parent (selections, slices) may share sub-objects with it (pymatgen hands the metadata dict on by reference):
    # what is computed for one must not show up in the results of another -- compare each with an independently built equal trajectory
    import copy as _copy
    rr = np.random.default_rng(case['seed'] + 7)
    T2 = 60
    li = np.cumsum(rr.normal(0, 0.02, size=(T2, 2, 3)), axis=0) + 0.2
    na = np.cumsum(rr.normal(0, 0.002, size=(T2, 2, 3)), axis=0) + 0.6 + 0.01 * np.sin(np.arange(T2) / 7.0)[:, None, None]
    parent = synth.make_traj(m, ['Li', 'Li', 'Na', 'Na'], np.concatenate([li, na], axis=1), mode='asis')
    # making derived objects (corrected, selected, sliced, split, centre of mass) leaves the source as it is: what was memoised for the source
    # before still equals a recomputation afterwards
    mp = TrajectoryMetrics(parent)
    memo = {name: copy.deepcopy(getattr(mp, name)(**kw)) for name, kw in (('speed', {}), ('tracer_diffusivity', {'dimensions': 3}), ('vibration_amplitude', {}))}
    _keep = [parent.apply_drift_correction(fixed_species='Na'), parent.apply_drift_correction(floating_species='Li'), parent.center_of_mass(),
             parent.filter('Li'), parent[5:], parent.split(2)]
    for name, kw in (('speed', {}), ('tracer_diffusivity', {'dimensions': 3}), ('vibration_amplitude', {})):
        checked += 1
        again = getattr(type(mp), name).__wrapped__(mp, **kw)
        if not _eq(np.asarray(getattr(mp, name)(**kw), dtype=float), np.asarray(again, dtype=float)) or not _eq(np.asarray(memo[name], dtype=float), np.asarray(again, dtype=float)):
            problems.append(f'TrajectoryMetrics.{name} memoised for a trajectory differs from its recomputation after derived trajectories (drift-corrected, centre of '
                            f'mass, selection, slice, parts) were made from that trajectory')
    del _keep
    derived = [('filter(Li)', parent.filter('Li')), ('filter(Na)', parent.filter('Na')), ('slice[:30]', parent[:30]), ('whole', parent)]
    order2 = list(range(len(derived)))
    rr.shuffle(order2)
    for k in order2:
        name, dobj = derived[k]
        indep = synth.make_traj(m, [str(sp) for sp in dobj.species], np.array(_copy.deepcopy(dobj).positions), mode='asis')
        a, b = TrajectoryMetrics(dobj), TrajectoryMetrics(indep)
        for meth, kw in (('attempt_frequency', {}), ('vibration_amplitude', {}), ('tracer_diffusivity', {'dimensions': 3}), ('particle_density', {})):
            checked += 1
            if not _eq(_plain(getattr(a, meth)(**kw)), _plain(getattr(b, meth)(**kw))):
                problems.append(f'TrajectoryMetrics.{meth} of {name} (derived from a parent whose other derivatives were analysed before) differs from the same '
                                f'analysis of an independently built equal trajectory')
    # the trajectory under an analysis object may legitimately grow in place (extend); analysis objects made afterwards see the grown run:
    # nothing memoised for the short run, on any layer, may show up in their answers
    rx = np.random.default_rng(case['seed'] + 13)
    short = np.cumsum(rx.normal(0, 0.01, size=(40, 3, 3)), axis=0) + 0.3
    more = np.cumsum(rx.normal(0, 0.01, size=(60, 3, 3)), axis=0) + short[-1]
    grown = synth.make_traj(m, ['Li', 'Li', 'Na'], short, mode='asis')
    m1 = TrajectoryMetrics(grown)
    before = (np.array(m1.speed()), _plain(m1.tracer_diffusivity(dimensions=3)), _plain(m1.vibration_amplitude()), np.array(grown.distances_from_base_position()),
              np.array(grown.mean_squared_displacement()))
    del m1
    gc.collect()
    grown.extend(synth.make_traj(m, ['Li', 'Li', 'Na'], more, mode='asis'))
    whole = synth.make_traj(m, ['Li', 'Li', 'Na'], np.concatenate([short, more], axis=0), mode='asis')
    m2, mw = TrajectoryMetrics(grown), TrajectoryMetrics(whole)
    for label, a, b in (('TrajectoryMetrics.speed', np.array(m2.speed()), np.array(mw.speed())),
                        ('TrajectoryMetrics.tracer_diffusivity', _plain(m2.tracer_diffusivity(dimensions=3)), _plain(mw.tracer_diffusivity(dimensions=3))),
                        ('TrajectoryMetrics.vibration_amplitude', _plain(m2.vibration_amplitude()), _plain(mw.vibration_amplitude())),
                        ('Trajectory.distances_from_base_position', np.array(grown.distances_from_base_position()), np.array(whole.distances_from_base_position())),
                        ('Trajectory.mean_squared_displacement', np.array(grown.mean_squared_displacement()), np.array(whole.mean_squared_displacement()))):
        checked += 1
        if not _eq(a, b):
            problems.append(f'{label} asked after the trajectory was extended (40 -> 100 frames; the short run had been analysed before) differs from the same '
                            f'analysis of an independently built 100-frame trajectory')
    del before
    # liveness, attributed per cached method: fresh object, one cached call, drop, collect
    from gemdat.transitions import Transitions
    traj, tr, j, mt = objs[0]
    pinned = []

    def fresh(cls):
        if cls == 'Transitions':
            return Transitions(trajectory=tr.trajectory, diff_trajectory=tr.diff_trajectory, sites=tr.sites,
                               events=tr.events, states=tr.states, inner_states=tr.inner_states)
        if cls == 'Jumps':
            return Jumps(tr)
        if cls == 'Collective':
            from gemdat.collective import Collective
            return Collective(jumps=j, sites=tr.sites, lattice=traj.get_lattice(), max_steps=8, max_dist=3.5)
        return TrajectoryMetrics(traj)

    seen = set()
    for n, o, name, a, kw in plan:
        cls = type(o).__name__
        if n != 0 or (cls, name) in seen:
            continue
        seen.add((cls, name))
        if cls == 'Jumps' and j is None:
            continue
        x = fresh(cls)
        w = weakref.ref(x)
        v = getattr(x, name)(*a, **kw)
        if cls == 'Jumps':
            try:
                x.rates(10 ** 6)            # far more parts than events: rejected with ValueError; the rejection must not be what keeps x alive
            except Exception:
                pass
        if cls == 'TrajectoryMetrics':
            try:
                x.tracer_conductivity(z_ion=1, dimensions=0)      # division by zero inside the formula
            except Exception:
                pass
        del v, x
        gc.collect()
        if w() is not None:
            pinned.append(f'{cls}.{name}')
    del objs, plan, traj, tr, j, mt, o
    gc.collect()
    return {'checked': checked, 'problems': problems[:5], 'pinned': sorted(set(pinned))}


def impl(case):
    return _impl_trace(case) if case['kind'] == 'trace' else _impl_real(case)


def oracle(case, out):
    if 'error' in out and 'trace' not in out and 'checked' not in out:
        return [('c20/harness-error', f"{out.get('error')}: {out.get('msg')} {out.get('tb', '')[-400:]}")]
    fs = []
    if case['kind'] == 'real':
        for p in out['problems']:
            fs.append(('cache/not-transparent', p))
        for meth in out['pinned']:
            fs.append((f'cache/pins-object:{meth}', f'an object is still alive after del + gc.collect() once {meth}() was called: '
                       'the cached value refers to its owner'))
        return fs
    held = set()
    nobj = 0
    for op, st in zip(case['ops'], out['trace']):
        if op[0] == 'New':
            held.add(nobj)
            nobj += 1
        elif op[0] == 'Drop':
            held.discard(op[1])
        elif op[0] == 'Call' and op[1] in held:
            if st['out'] is None or st['out'][0] != op[1] * 1000 + op[2]:
                fs.append(('cache/not-transparent', f'call on object {op[1]} args {op[2]} returned {st["out"]}'))
                break
        if not case['back']:
            for k, al in enumerate(st['alive']):
                if al and k not in held:
                    fs.append(('cache/pins-object:instrumented', f'object {k} alive after being dropped although values do not refer to it'))
                    return fs
    return fs


def coq_term(case, out):
    if case['kind'] != 'trace' or 'trace' not in out:
        return None
    ops, n = [], 0
    for op in case['ops']:
        if op[0] == 'New':
            ops.append(f'New {z(out["addrs"][n])}')
            n += 1
        elif op[0] == 'Call':
            ops.append(f'Call {nat(op[1])} {z(op[2])} {cbool(case["back"])}')
        elif op[0] == 'Drop':
            ops.append(f'Drop {nat(op[1])}')
        else:
            ops.append('Collect')
    tr = []
    for st in out['trace']:
        o = 'ONone' if st['out'] is None else f'OVal {z(st["out"][0])} {cbool(st["out"][1])}'
        tr.append(f'({o}, {clist(cbool(b) for b in st["alive"])})')
    return f'({nat(case["maxsize"])}, {clist(ops)}, {clist(tr)})'


def nontrivial(case, out):
    if case['kind'] == 'real':
        return out.get('checked', 0) > 0
    return out.get('reuse', 0) > 0 or out.get('recomputed', 0) > 0


def classify(case, out):
    tags = [case['kind']]
    if out.get('reuse'):
        tags.append('address-reuse')
    if out.get('recomputed'):
        tags.append('eviction-then-recompute')
    if case.get('back'):
        tags.append('value-refers-to-owner')
    return tags


def sample(case, out):
    if case['kind'] == 'real':
        return {'kind': 'real', 'checked': out.get('checked'), 'pinned': out.get('pinned')}
    return {'maxsize': case['maxsize'], 'back': case['back'], 'ops': case['ops'][:12], 'trace': out.get('trace', [])[:4]}
