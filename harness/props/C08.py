"""C08 -- density volumes conserve every sample and use a consistent voxel mapping."""
import math
from fractions import Fraction as Fr

import numpy as np

import synth
from vcore import clist, z, zlist

TIE = 'Tie.C08'
DEN = 4096
RULE = ('cases = trajectories (1-4 atoms, 1-8 frames, raw coordinates on the 2^-12 grid incl. values exactly on voxel faces such as 1/4, 1/2, 3/4 '
        'and values needing a wrap) x lattices of 6 classes plus long thin cells that give grid sizes such as 98, 196, 364 (where np.linspace '
        'edges are off by an ulp at dyadic positions) x resolutions <= every cell length, computed from lattice.lengths as the code sees them; '
        'non-trivial = at least 2 voxels occupied')
TRUSTED = ['numpy multiplication/truncation exact on the dyadic grid (x * n has at most 12 + 20 significant bits)',
           'primitive floats of the Coq kernel for the round-trip sweep theorem (bound 4096 in the statement)']
ASSUMPTIONS = []
KINDS = ['cubic', 'ortho', 'mono', 'hexlike', 'hex', 'tri', 'tri_full']


def pre_build():
    import translate
    return [translate.gen_volume_binning()]


def gen_cases(rng, tier):
    n = {'quick': 220, 'thorough': 4000, 'search': 150}[tier]
    cases = []
    for k in range(n):
        if rng.random() < 0.2:
            a = rng.choice([49, 98, 91, 93, 103, 107])
            m = [[a, 0, 0], [0, 2, 0], [0, 0, 3]]
            rng.shuffle(m)
            res = rng.choice([0.5, 0.25, 1.0])
        else:
            m = synth.int_lattice(rng, rng.choice(KINDS))
            res = rng.choice([0.3, 0.5, 0.7, 1.0, 1.3, 2.0, 2.5, rng.uniform(0.3, 3.0)])
        T, na = rng.randint(1, 8), rng.randint(1, 4)
        coords = []
        for _t in range(T):
            fr = []
            for _a in range(na):
                p = []
                for _k in range(3):
                    r = rng.random()
                    if r < 0.3:
                        p.append(rng.choice([0, 1024, 2048, 3072, 512, 4096, -1024, 1, 4095, 6144]))
                    else:
                        p.append(rng.randint(-DEN, 2 * DEN))
                fr.append(p)
            coords.append(fr)
        cases.append({'m': m, 'res': res, 'coords': coords})
    # coordinates within 1e-5 .. 1e-9 of a cell face (off the 2^-12 grid): the voxel is still floor(frac x grid size); oracle only
    for _k in range({'quick': 6, 'thorough': 40, 'search': 3}[tier]):
        m = synth.int_lattice(rng, rng.choice(KINDS))
        near = [1 - 5e-6, 1 - 1e-7, 1 - 2e-5, 2 - 3e-6, -1e-6, 1e-6, 0.999999, 3e-9, 0.5 - 1e-7, 0.5 + 1e-7]
        cases.append({'m': m, 'res': rng.choice([0.5, 1.0, 1.3]), 'coords': [],
                      'fcoords': [[[rng.choice(near) if rng.random() < 0.6 else rng.random() for _ in range(3)] for _a in range(2)] for _t in range(4)]})
    # long runs: more samples in a single voxel than 16-bit (and, per axis sum, than a few 16-bit words) can count
    for _k in range({'quick': 2, 'thorough': 6, 'search': 1}[tier]):
        m = synth.int_lattice(rng, rng.choice(KINDS))
        frames = rng.choice([66000, 70000, 131100]) if _k > 0 else 520000        # the first one exceeds a million samples (2 atoms)
        pts = [[rng.randint(0, DEN - 1) for _ in range(3)] for _ in range(4)]
        cases.append({'m': m, 'res': rng.choice([1.0, 1.5]), 'long': {'frames': frames, 'static': pts[0], 'cycle': pts[1:]}, 'coords': []})
    return cases


def _coords(case):
    if 'fcoords' in case:
        return np.array(case['fcoords'], dtype=float)
    if 'long' not in case:
        return np.array(case['coords'], dtype=float) / DEN
    L = case['long']
    c = np.zeros((L['frames'], 2, 3))
    c[:, 0, :] = np.array(L['static'], dtype=float) / DEN
    cyc = np.array(L['cycle'], dtype=float) / DEN
    c[:, 1, :] = cyc[np.arange(L['frames']) % len(cyc)]
    return c


def impl(case):
    from gemdat.volume import trajectory_to_volume
    c = _coords(case)
    traj = synth.make_traj(case['m'], ['Li'] * c.shape[1], c, images=synth.image_seed(case))
    lengths = [float(v) for v in traj.get_lattice().lengths]
    res = min(case['res'], min(lengths))
    guard = synth.InputGuard(trajectory=traj)
    vol = trajectory_to_volume(traj, resolution=res)
    changed = guard.changed()
    if 'long' not in case and 'fcoords' not in case and c.shape[0] >= 2:
        # a continuation run is appended and the volume asked for again at the same resolution: every sample of the longer run is counted
        more = synth.make_traj(case['m'], ['Li'] * c.shape[1], c[::-1].copy())
        traj2 = synth.make_traj(case['m'], ['Li'] * c.shape[1], c)
        trajectory_to_volume(traj2, resolution=res), traj2.to_volume(resolution=res)
        traj2.extend(more)
        again = traj2.to_volume(resolution=res)
        again_sum = int(again.data.sum())
        again_ok = bool(np.array_equal(again.data, 2 * vol.data))
    else:
        again_sum, again_ok = None, True
    pos = np.array(traj.positions).reshape(-1, 3)
    out = {'lengths': lengths, 'res': res, 'dims': [int(d) for d in vol.dims], 'data': vol.data.ravel().tolist(),
           'pos': (pos * DEN).tolist() if 'long' not in case else (pos[:6] * DEN).tolist(), 'f2v': [vol.frac_coords_to_voxel(p).tolist() for p in pos[:6]],
           'vsize': [float(v) for v in vol.voxel_size]}
    v2f = []
    rt_bad = None
    for ax, n in enumerate(vol.dims):
        idx = sorted({0, n - 1, n // 2, n // 3})
        for i in idx:
            v = [0, 0, 0]
            v[ax] = i
            f = vol.voxel_to_frac_coords(v)
            v2f.append([int(n), int(i), float(f[ax])])
        allv = np.zeros((n, 3), dtype=int)
        allv[:, ax] = np.arange(n)
        back = vol.frac_coords_to_voxel(vol.voxel_to_frac_coords(allv))
        if not np.array_equal(back, allv):
            rt_bad = [ax, int(n), int(np.argmax((back != allv).any(axis=1)))]
    out['v2f'] = v2f
    out['rt_bad'] = rt_bad
    out['inputs_changed'] = changed
    out['again'] = [again_sum, again_ok]
    return out


def _near_int(case, out):
    # float floor division is the floor of the exact quotient of the two floats (fmod based),
    # and the model receives both floats exactly: no guard band is needed
    return False


def oracle(case, out):
    if 'data' not in out:
        if out.get('error') == 'AssertionError':
            return [('volume/assertion', f'trajectory_to_volume raised AssertionError: {out.get("tb", "")[-200:]}')]
        return [('c08/harness-error', f"{out.get('error')}: {out.get('msg')} {out.get('tb', '')[-400:]}")]
    fs = synth.inputs_clause(out, 'trajectory_to_volume')
    dims = out['dims']
    data = np.array(out['data']).reshape(dims)
    if 'fcoords' in case:
        from fractions import Fraction
        want = np.zeros(dims, dtype=np.int64)
        for p in np.array(case['fcoords'], dtype=float).reshape(-1, 3):
            q = [Fraction(float(x)) % 1 for x in p]                      # the exact value of the float, modulo 1
            want[tuple(int(q[k] * dims[k]) for k in range(3))] += 1
        if not np.array_equal(want, data):
            w = tuple(int(v) for v in np.argwhere(want != data)[0])
            fs.append(('volume/not-floor-voxel', f'coordinates next to cell faces, grid {dims}: voxel {w} holds {int(data[w])} samples, {int(want[w])} positions have floor(frac x grid size) there'))
        return fs
    if 'long' in case:
        # long runs: expected counts computed vectorised from the case (the positions are exact multiples of 1/4096 inside the cell)
        allpos = np.rint(_coords(case).reshape(-1, 3) * DEN).astype(np.int64)
        idx = (allpos * np.array(dims, dtype=np.int64)) // DEN
        want = np.zeros(dims, dtype=np.int64)
        np.add.at(want, (idx[:, 0], idx[:, 1], idx[:, 2]), 1)
        if int(data.sum()) != len(allpos):
            fs.append(('volume/sum', f'voxel sum {int(data.sum())} != frames x atoms {len(allpos)}'))
        if not np.array_equal(want, data):
            w = tuple(int(v) for v in np.argwhere(want != data)[0])
            fs.append(('volume/not-floor-voxel', f'grid {dims}: voxel {w} holds {int(data[w])} samples, {int(want[w])} positions have floor(frac x grid size) there'))
        return fs
    pos = np.rint(np.array(out['pos'])).astype(np.int64)
    if data.sum() != len(pos):
        fs.append(('volume/sum', f'voxel sum {int(data.sum())} != frames x atoms {len(pos)}'))
    want = np.zeros(dims, dtype=int)
    for p in pos:
        idx = tuple(int((int(p[k]) * dims[k]) // DEN) for k in range(3))
        want[idx] += 1
    if not np.array_equal(want, data):
        w = np.argwhere(want != data)[0]
        p = [q for q in pos if tuple(int((int(q[k]) * dims[k]) // DEN) for k in range(3)) == tuple(w)]
        fs.append(('volume/not-floor-voxel', f'grid {dims}: voxel {tuple(int(v) for v in w)} holds {int(data[tuple(w)])} samples, '
                   f'{int(want[tuple(w)])} positions have floor(frac x grid size) there (e.g. frac {[int(v) for v in p[0]] if p else None}/4096)'))
    if not _near_int(case, out):
        for L, n in zip(out['lengths'], dims):
            edge = L / n
            if not (out['res'] * (1 - 1e-12) <= edge < 2 * out['res']):
                fs.append(('volume/edge-length', f'voxel edge {edge} for requested resolution {out["res"]}'))
    if out.get('again') and out['again'][1] is False:
        fs.append(('volume/stale-after-extend', f'after extend() with the same frames in reverse order to_volume() sums to {out["again"][0]}, expected twice {int(data.sum())} with twice the count in every voxel'))
    exact_len = [float(np.sqrt(sum(c * c for c in row))) for row in case['m']]
    for k, (L, n, v) in enumerate(zip(exact_len, dims, out['vsize'])):
        if abs(v - L / n) > 1e-12 * L:
            fs.append(('volume/voxel-size', f'voxel_size[{k}] = {v} but cell length / grid size = {L} / {n} = {L / n} (lattice {case["m"]})'))
            break
    for p, v in zip(pos[:6], out['f2v']):
        if [int((int(p[k]) * dims[k]) // DEN) for k in range(3)] != v:
            fs.append(('voxel/frac-to-voxel', f'frac_coords_to_voxel({[int(x) for x in p]}/4096) = {v} on grid {dims}'))
            break
    if out['rt_bad']:
        fs.append(('voxel/roundtrip', f'voxel -> fractional centre -> voxel does not return the index: axis, n, i = {out["rt_bad"]}'))
    return fs


def coq_term(case, out):
    if 'data' not in out or _near_int(case, out) or 'long' in case or 'fcoords' in case:
        return None       # long runs are decided by the oracle only (a literal of 10^5 samples is too large for the tie)
    pos = np.array(out['pos'])
    if not np.array_equal(pos, np.rint(pos)):
        return None
    pos = np.rint(pos).astype(np.int64)
    rf = synth.frac_of_float(out['res'])
    Lr = []
    vs = []
    for L, v in zip(out['lengths'], out['vsize']):
        Lf = synth.frac_of_float(L)
        den = Lf.denominator * rf.denominator // math.gcd(Lf.denominator, rf.denominator)
        Lr.append(f'({z(int(Lf * den))}, {z(int(rf * den))})')
        a, b = synth.dyadic(v)
        vs.append(f'({z(Lf.numerator)}, {z(Lf.denominator)}, ({z(a)}, {z(b)}))')
    t3 = lambda t: '(%s, %s, %s)' % tuple(z(int(v)) for v in t)
    v2f = clist('(%s, %s, (%s, %s))' % (z(n), z(i), *[z(q) for q in synth.dyadic(f)]) for n, i, f in out['v2f'])
    return '{| D := %d; dims := %s; Lr := %s; samples := %s; data := %s; f2v := %s; v2f := %s; vsize := %s |}' % (
        DEN, t3(out['dims']), clist(Lr), clist(t3(p) for p in pos), _sparse(out),
        clist(f'({t3(p)}, {t3(v)})' for p, v in zip(pos[:6], out['f2v'])), v2f, clist(vs))


def _sparse(out):
    d = np.array(out['data']).reshape(out['dims'])
    return clist('((%s, %s, %s), %s)' % (z(i), z(j), z(k), z(int(d[i, j, k]))) for i, j, k in np.argwhere(d))


def nontrivial(case, out):
    return 'data' in out and sum(1 for v in out['data'] if v) >= 2


def classify(case, out):
    tags = []
    if 'dims' in out:
        tags.append('maxdim>=98' if max(out['dims']) >= 98 else 'small-grid')
        if _near_int(case, out):
            tags.append('resolution-on-boundary-excluded')
    tags.append('long-run(>65535 samples per voxel)' if 'long' in case else 'short-run')
    return tags


def sample(case, out):
    return {'m': case['m'], 'res': out.get('res'), 'dims': out.get('dims'), 'coords0': case['coords'][0] if case['coords'] else case.get('long') or case.get('fcoords')}
