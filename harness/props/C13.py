"""C13 -- drift correction removes exactly the reference-frame motion."""
import numpy as np

import synth
from vcore import cbool, clist, z, zlist

TIE = 'Tie.C13'
DEN = 4096
SYMS = ['Li', 'Na', 'S', 'Si', 'O']
RULE = ('cases = trajectories (2-9 atoms of 2-4 species incl. the prefix pair S/Si, 2-10 frames, coordinates on the 2^-12 grid, small thermal steps plus an '
        'injected rigid time-dependent drift) x reference selection given as fixed_species or floating_species (str / list / set) or none x species objects '
        'Element or Species; the number of reference atoms is a power of two so that the mean is exact (exact regime); each case also runs the correction '
        'twice, on a rigidly translated copy and with the complementary way of naming the selection; non-trivial = >= 2 reference atoms and non-zero drift')
TRUSTED = ['numpy arithmetic exact on the dyadic grid (means over 1, 2, 4 or 8 atoms)']
ASSUMPTIONS = ['idempotence and rigid-translation invariance are stated for corrected steps below half a cell']


def pre_build():
    import translate
    return [translate.gen_drift_selection()]


def gen_cases(rng, tier):
    n = {'quick': 260, 'thorough': 5000, 'search': 150}[tier]
    cases = []
    while len(cases) < n:
        nsp = rng.randint(2, 4)
        syms = rng.sample(SYMS, nsp)
        if rng.random() < 0.4 and not ({'S', 'Si'} <= set(syms)):
            syms = ['S', 'Si'] + [s for s in syms if s not in ('S', 'Si')][: nsp - 2]
        na = rng.randint(2, 9)
        species = [rng.choice(syms) for _ in range(na)]
        present = sorted(set(species))
        if len(present) < 2:
            continue
        mode = rng.choice(['fixed', 'floating', 'none'])
        if mode == 'none':
            ref = list(present)
        else:
            k = rng.randint(1, len(present) - 1)
            ref = rng.sample(present, k)
        nref = sum(1 for s in species if s in ref)
        if nref not in (1, 2, 4, 8):
            continue
        T = rng.randint(2, 10)
        base = [[rng.randint(-DEN, 2 * DEN) for _ in range(3)] for _ in range(na)]
        rho = [[0, 0, 0]]
        for _t in range(1, T):
            rho.append([rho[-1][k] + rng.randint(-120, 120) for k in range(3)])
        coords = []
        x = [list(b) for b in base]
        for t in range(T):
            fr = []
            for a in range(na):
                if t:
                    x[a] = [x[a][k] + rng.randint(-150, 150) for k in range(3)]
                fr.append([x[a][k] + rho[t][k] for k in range(3)])
            coords.append(fr)
        extra = [[0, 0, 0]]
        for _t in range(1, T):
            extra.append([extra[-1][k] + rng.randint(-200, 200) for k in range(3)])
        cases.append({'lead': rng.choice([0, 0, 0, 2, 5]), 'lead_disp': rng.random() < 0.5, 'empty_other': rng.choice([None, None, None, 'list', 'tuple', 'set']),
                      'species': species, 'ref': sorted(ref), 'mode': mode, 'coll': rng.choice(['str', 'list', 'set', 'frozenset', 'tuple', 'keys']),
                      'objs': rng.choice(['Element', 'Species']), 'coords': coords, 'extra': extra})
    # a rigid framework with atoms on and just inside the cell faces, creeping by about 1e-6 of a cell per frame (oracle only: not on the grid)
    for _ in range({'quick': 12, 'thorough': 200, 'search': 6}[tier]):
        nfw, nli, T = rng.randint(2, 5), rng.randint(1, 3), rng.randint(4, 12)
        edge = lambda: rng.choice([0.0, 1.0 - rng.randint(1, 9) * 1e-6, rng.randint(1, 9) * 1e-6, 1.0 - rng.randint(1, 9) * 1e-7, rng.random()])
        fw = [[edge() for _k in range(3)] for _a in range(nfw)]
        vmax = rng.choice([2e-6, 2e-6, 8e-9])            # also drifts far below any 'is it zero' tolerance per frame: they still add up
        vel = [rng.choice([-1, 1]) * rng.uniform(0.15 * vmax, vmax) for _k in range(3)]
        li = [[rng.random() for _k in range(3)] for _a in range(nli)]
        coords = []
        for t in range(T):
            li = [[x + rng.uniform(-0.02, 0.02) for x in a] for a in li]
            coords.append([[a[k] + vel[k] * t for k in range(3)] for a in fw] + [[a[k] + vel[k] * t for k in range(3)] for a in li])
        cases.append({'kind': 'nearface', 'species': ['S'] * nfw + ['Li'] * nli, 'ref': ['S'], 'mode': rng.choice(['fixed', 'floating']), 'coll': 'list', 'objs': 'Element',
                      'fcoords': coords, 'shift': [rng.uniform(-0.4, 0.4) for _k in range(3)]})
    return cases


def _impl_nearface(case):
    from gemdat.trajectory import Trajectory
    from pymatgen.core import Element
    sp = [Element(s) for s in case['species']]
    lat = synth.make_lattice([[6, 0, 0], [1, 7, 0], [0, 2, 8]])
    kw = _kw(case)
    wrapd = lambda d: np.abs(((d + 0.5) % 1) - 0.5).max()
    c0 = np.array(case['fcoords'], dtype=float)
    mask = np.array([s in case['ref'] for s in case['species']])
    out = {}
    for tag, c in (('asis', c0), ('moved', c0 + np.array(case['shift'])[None, None, :])):
        t = Trajectory(species=sp, coords=c, lattice=lat, time_step=2e-15, metadata={'temperature': 300})
        cor = np.array(t.apply_drift_correction(**kw).positions)
        # the framework is rigid: after the correction every framework atom stays where it was in the first frame
        out['resid_' + tag] = float(wrapd(cor[:, mask] - cor[:1, mask]))
        out['first_' + tag] = float(wrapd(cor[0] - c[0]))
        out['cor_' + tag] = cor
    out['rigid'] = float(wrapd((out.pop('cor_moved') - np.array(case['shift'])[None, None, :]) - out.pop('cor_asis')))
    return out


def _spec_arg(names, coll):
    names = list(names)
    if coll == 'str' and len(names) == 1:
        return names[0]
    return {'set': set, 'frozenset': frozenset, 'tuple': tuple, 'keys': (lambda x: dict.fromkeys(x).keys()), 'array': (lambda x: np.array(x))}.get(coll, list)(names)


def _kw(case, mode=None):
    mode = mode or case['mode']
    present = sorted(set(case['species']))
    # an empty collection for the other keyword (or for both, in mode 'none') names no species: it means the same as leaving it out
    empty = {'list': [], 'tuple': (), 'set': set(), None: None}[case.get('empty_other')]
    if mode == 'none':
        return {} if empty is None else {'fixed_species': empty, 'floating_species': type(empty)()}
    if mode == 'fixed':
        kw = {'fixed_species': _spec_arg(case['ref'], case['coll'])}
        if empty is not None:
            kw['floating_species'] = empty
        return kw
    kw = {'floating_species': _spec_arg([s for s in present if s not in case['ref']], case['coll'])}
    if empty is not None:
        kw['fixed_species'] = empty
    return kw


def _traj(case, coords):
    from gemdat.trajectory import Trajectory
    from pymatgen.core import Element, Species
    sp = [Element(s) if case['objs'] == 'Element' else Species(s, 0) for s in case['species']]
    k = case.get('lead', 0)
    if k:
        # the analysed frames are the tail of a longer run (equilibration frames dropped by slicing): same frames, same answers
        c = np.array(coords, dtype=float) / DEN
        lead = c[:1] + (np.arange(k, 0, -1)[:, None, None] * (53.0 / DEN)) * np.ones_like(c[:1])       # on the grid: arithmetic stays exact
        full = Trajectory(species=sp, coords=np.concatenate([lead, c], axis=0), lattice=synth.make_lattice([[6, 0, 0], [1, 7, 0], [0, 2, 8]]),
                          time_step=2e-15, metadata={'temperature': 300, 'tag': 'x'})
        if case.get('lead_disp'):
            _ = full.displacements
        return full[k:]
    return Trajectory(species=sp, coords=np.array(coords, dtype=float) / DEN, lattice=synth.make_lattice([[6, 0, 0], [1, 7, 0], [0, 2, 8]]),
                      time_step=2e-15, metadata={'temperature': 300, 'tag': 'x'})


def impl(case):
    if case.get('kind') == 'nearface':
        return _impl_nearface(case)
    t = _traj(case, case['coords'])
    kw = _kw(case)
    out = {}
    try:
        drift = t.drift(**kw)
    except AssertionError as e:
        return {'raised': 'AssertionError', 'msg': str(e)[:100]}
    out['drift'] = drift[:, 0, :].tolist()
    guard = synth.InputGuard(trajectory=t)
    c = t.apply_drift_correction(**kw)
    out['inputs_changed'] = guard.changed()
    out['cpos'] = np.array(c.positions).tolist()
    refmask = np.array([s in case['ref'] for s in case['species']])
    cd = np.array(c.displacements)
    out['ref_mean'] = float(np.abs(cd[:, refmask].mean(axis=1)).max()) if refmask.any() else None
    out['first_same'] = bool(np.array_equal(np.array(c.positions)[0], np.mod(np.array(case['coords'][0], dtype=float) / DEN, 1)))
    # ... and equals the first frame the source itself reports
    out['first_same_lib'] = bool(np.array_equal(np.array(c.positions)[0], np.array(_traj(case, case['coords']).positions)[0]))      # asked of a fresh, unqueried source
    out['meta_same'] = (c.metadata == t.metadata and c.time_step == t.time_step and [str(s) for s in c.species] == [str(s) for s in t.species]
                        and np.array_equal(np.asarray(c.lattice), np.asarray(t.lattice)))
    c2 = c.apply_drift_correction(**kw)
    out['idem'] = float(np.abs(((np.array(c2.positions) - np.array(c.positions) + 0.5) % 1) - 0.5).max())
    # rigid, time-dependent translation of all atoms
    moved = (np.array(case['coords']) + np.array(case['extra'])[:, None, :]).tolist()
    cm = _traj(case, moved).apply_drift_correction(**kw)
    out['rigid'] = float(np.abs(((np.array(cm.positions) - np.array(c.positions) + 0.5) % 1) - 0.5).max())
    # the other way of naming the same reference atoms
    if case['mode'] != 'none':
        other = 'floating' if case['mode'] == 'fixed' else 'fixed'
        try:
            co = _traj(case, case['coords']).apply_drift_correction(**_kw(case, other))
            out['other'] = float(np.abs(((np.array(co.positions) - np.array(c.positions) + 0.5) % 1) - 0.5).max())
        except AssertionError as e:
            out['other_raised'] = str(e)[:80]
    return out


def oracle(case, out):
    fs = synth.inputs_clause(out, 'apply_drift_correction')
    if case.get('kind') == 'nearface':
        if 'rigid' not in out:
            return [('c13/harness-error', f"{out.get('error')}: {out.get('msg')} {out.get('tb', '')[-400:]}")]
        for tag in ('asis', 'moved'):
            if not out['resid_' + tag] <= 1e-12:
                fs.append(('drift/reference-atoms-move', f'atoms of a rigid framework near the cell faces move by {out["resid_" + tag]} of a cell after the correction ({tag})'))
            if not out['first_' + tag] <= 1e-9:
                fs.append(('drift/first-frame-changed', f'the first frame changed by {out["first_" + tag]} ({tag})'))
        if not out['rigid'] <= 1e-9:
            fs.append(('drift/rigid-translation-dependence', f'a rigid translation of all atoms changes the corrected positions by {out["rigid"]} (framework near the faces)'))
        return fs
    if out.get('raised'):
        return [('drift/floating-rejects-species-objects', f'drift({_kw(case)}) raised {out["raised"]} for {case["objs"]} species objects: {out.get("msg")}')]
    if 'drift' not in out:
        return [('c13/harness-error', f"{out.get('error')}: {out.get('msg')} {out.get('tb', '')[-400:]}")]
    bad = lambda v: v is None or not np.isfinite(v)
    if not np.isfinite(np.array(out['drift'])).all() or not np.isfinite(np.array(out['cpos'])).all():
        fs.append(('drift/selects-nothing-nan', f'drift({_kw(case)}) is NaN: the selection matched no atom although reference species {case["ref"]} are present'))
        return fs
    if bad(out['ref_mean']) or out['ref_mean'] > 1e-12:
        fs.append(('drift/reference-mean-not-zero', f'mean displacement of the reference species {case["ref"]} after correction is {out["ref_mean"]}'))
    if not out['first_same']:
        fs.append(('drift/first-frame-changed', 'the first frame changed'))
    elif out.get('first_same_lib') is False:
        fs.append(('drift/first-frame-changed', 'the first frame of the corrected trajectory is not the first frame the source reports (positions)'))
    if not out['meta_same']:
        fs.append(('drift/metadata-changed', 'species / lattice / time step / metadata changed'))
    if out['idem'] > 1e-12:
        fs.append(('drift/not-idempotent', f'applying the correction again moves atoms by {out["idem"]}'))
    if out['rigid'] > 1e-12:
        fs.append(('drift/rigid-translation-dependence', f'a rigid translation of all atoms changes the corrected positions by {out["rigid"]}'))
    if 'other_raised' in out:
        fs.append(('drift/floating-rejects-species-objects', f'naming the complementary species raised: {out["other_raised"]}'))
    elif 'other' in out and (not np.isfinite(out['other']) or out['other'] > 1e-12):
        fs.append(('drift/floating-not-equivalent-to-fixed', f'floating_species vs fixed_species for the same reference atoms differ by {out["other"]} '
                   f'(species {sorted(set(case["species"]))}, reference {case["ref"]})'))
    return fs


def coq_term(case, out):
    if 'drift' not in out or case.get('kind') == 'nearface':
        return None
    mask = [s in case['ref'] for s in case['species']]
    n = sum(mask)
    c = np.array(case['coords'])                       # frames, atoms, axes
    axes = [[c[:, a, k].tolist() for a in range(c.shape[1])] for k in range(3)]
    sc = n * DEN
    dr = np.array(out['drift']) * sc
    cp = np.array(out['cpos']) * sc
    if not (np.isfinite(dr).all() and np.isfinite(cp).all() and np.array_equal(dr, np.rint(dr)) and np.array_equal(cp, np.rint(cp))):
        dri = [[-777]] * 3
        cpi = [[[-777]]] * 3
    else:
        dri = [np.rint(dr[:, k]).astype(np.int64).tolist() for k in range(3)]
        cpi = [[np.rint(cp[:, a, k]).astype(np.int64).tolist() for a in range(cp.shape[1])] for k in range(3)]
    return '{| D := %d; mask := %s; axes := %s; drift := %s; cpos := %s |}' % (
        DEN, clist(cbool(b) for b in mask), clist(clist(zlist(a) for a in ax) for ax in axes),
        clist(zlist(d) for d in dri), clist(clist(zlist(a) for a in ax) for ax in cpi))


def nontrivial(case, out):
    if case.get('kind') == 'nearface':
        return 'rigid' in out
    return sum(1 for s in case['species'] if s in case['ref']) >= 2 and 'drift' in out and bool(np.any(np.array(out['drift'])))


def classify(case, out):
    if case.get('kind') == 'nearface':
        return ['kind=nearface', f'mode={case["mode"]}']
    tags = [f'mode={case["mode"]}', f'coll={case["coll"]}', f'objs={case["objs"]}']
    if {'S', 'Si'} <= set(case['species']):
        tags.append('prefix-symbols-S-Si')
    if out.get('raised'):
        tags.append('raised')
    return tags


def sample(case, out):
    if case.get('kind') == 'nearface':
        return {'kind': 'nearface', 'species': case['species'], 'resid': out.get('resid_asis'), 'rigid': out.get('rigid')}
    return {'species': case['species'], 'kwargs': repr(_kw(case)), 'objs': case['objs'], 'drift': out.get('drift', [])[:3]}
