"""C12 -- collective jumps are exactly the close-in-time/space pairs of different atoms."""
import math
from fractions import Fraction as Fr

import numpy as np

import synth
from vcore import clist, z, zlist

TIE = 'Tie.C12'
RULE = ('cases = synthetic jump tables (2-14 jumps of 1-4 atoms, unique (atom, start time), transit times 1..70 so that long-transit '
        'jumps overlap many others) x window 0..40 x cut-off distance x site sets on the 1/8 grid of integer cells; cut-offs within '
        '1e-6 of a site distance are moved away (guard band, counted); a few cases go through Jumps.collective() on a real trajectory; '
        'non-trivial = at least one collective pair')
TRUSTED = ['Lattice.get_all_distances compared with exact rational minimum-image search in the harness (sites on a dyadic grid)',
           'pandas sort_values(["stop time","start time"]) is a stable lexicographic sort']
ASSUMPTIONS = []


def pre_build():
    import translate
    return [translate.gen_collective_scan(), translate.gen_coll_matrix()]


def gen_cases(rng, tier):
    n = {'quick': 400, 'thorough': 8000, 'search': 300}[tier]
    cases = []
    while len(cases) < n:
        kind = rng.choice(['cubic', 'ortho', 'hex', 'mono', 'hexlike', 'tri', 'tri_full'])
        m = synth.int_lattice(rng, kind)
        ns = rng.randint(2, 6)
        pts = set()
        while len(pts) < ns:
            pts.add(tuple(rng.randint(0, 7) for _ in range(3)))
        pts = sorted(pts)
        rng.shuffle(pts)
        nj = rng.randint(2, 14)
        na = rng.randint(1, 4)
        used = set()
        table = []
        horizon = rng.choice([10, 40, 90])
        for _ in range(nj):
            a = rng.randrange(na)
            s = rng.randint(0, horizon)
            if (a, s) in used:
                continue
            used.add((a, s))
            tr = rng.choice([1, 1, 1, 2, 3, rng.randint(5, 70)])
            f = rng.randrange(ns)
            t = rng.choice([x for x in range(ns) if x != f])
            table.append([a, f, t, s, s + tr])
        if len(table) < 2:
            continue
        if kind not in ('cubic', 'ortho') and rng.random() < 0.4:
            hard = _hard_image_case(rng, m)
            if hard is not None:
                cases.append(hard)
                continue
        case = {'m': m, 'sites8': [list(p) for p in pts], 'table': table, 'W': rng.choice([0, 1, 3, 10, 40]),
                'maxd': rng.choice([0.5, 1.0, 2.0, 3.0, 4.5, 7.0])}
        if rng.random() < 0.5:
            # cut-off just above the true (minimum-image) distance of one pair of sites: any overestimate of that distance flips a decision
            d2 = _d2(case)
            i = rng.randrange(ns)
            j = rng.choice([x for x in range(ns) if x != i])
            case['maxd'] = round(math.sqrt(float(d2[i][j])) * rng.choice([1.02, 1.1]), 6)
        cases.append(case)
    if tier != 'search':
        for k in range(10 if tier == 'quick' else 60):
            # site_scale: the site structure is given in a slightly different cell than the simulation (e.g. experimental vs relaxed cell);
            # distances are those of the simulation cell, as everywhere else in the analysis
            cases.append({'real': True, 'seed': rng.randrange(10**6), 'T': rng.choice([60, 120]), 'maxd': rng.choice([1.0, 3.0, 3.1, 3.1]),
                          'site_scale': rng.choice([1.0, 1.04])})
    return cases


def _hard_image_case(rng, m):
    """Boundary class of the minimum-image convention: two sites A, B whose nearest image is NOT the component-wise wrapped
    difference (skewed cells), two further sites C, D far from everything, cut-off just above |AB|; atom 0 jumps C->A and atom 1 D->B
    close in time, so the pair is collective exactly through the A-B distance."""
    G = synth.gram(m)
    K = 1
    while not synth.window_ok(m, K):
        K += 1
    d2 = lambda p, q: synth.min_image_d2(G, [Fr(q[k] - p[k], 8) for k in range(3)], K)
    for _try in range(200):
        A = [rng.randint(0, 7) for _ in range(3)]
        B = [rng.randint(0, 7) for _ in range(3)]
        diff = [(B[k] - A[k]) % 8 for k in range(3)]
        if any(x == 4 for x in diff) or A == B:
            continue
        wrapped = [Fr(x if x < 4 else x - 8, 8) for x in diff]
        true = d2(A, B)
        if synth.qf(G, wrapped) <= true:
            continue
        cut2 = true * Fr(11, 10) ** 2
        for _t2 in range(40):
            C = [rng.randint(0, 7) for _ in range(3)]
            D = [rng.randint(0, 7) for _ in range(3)]
            pts = [A, B, C, D]
            if len({tuple(p) for p in pts}) < 4:
                continue
            if all(d2(pts[i], pts[j]) > cut2 * Fr(21, 20) for i in range(4) for j in range(i) if (i, j) != (1, 0)):
                s0 = rng.randint(0, 20)
                table = [[0, 2, 0, s0, s0 + 1], [1, 3, 1, s0 + rng.randint(0, 2), s0 + 3]]
                return {'m': m, 'sites8': pts, 'table': table, 'W': rng.choice([3, 10]), 'maxd': round(math.sqrt(float(true)) * 1.05, 6), 'hard': True}
    return None


def _d2(case):
    G = synth.gram(case['m'])
    K = 1
    while not synth.window_ok(case['m'], K):
        K += 1
    pts = case['sites8']
    n = len(pts)
    return [[synth.min_image_d2(G, [Fr(pts[j][k] - pts[i][k], 8) for k in range(3)], K) for j in range(n)] for i in range(n)]


def _guard(case):
    """move the cut-off away from any site distance (relative 1e-6); returns (maxd, moved?)"""
    maxd = case['maxd']
    ds = sorted({math.sqrt(float(v)) for row in _d2(case) for v in row})
    moved = False
    for _ in range(10):
        if any(abs(d - maxd) <= 1e-6 * max(1.0, maxd) for d in ds):
            maxd += 0.0137
            moved = True
        else:
            break
    return maxd, moved


class _FakeJumps:
    def __init__(self, data):
        self.data = data


def _pairs_out(coll, table):
    idx = {tuple(r): k for k, r in enumerate(table)}
    cols = ['atom index', 'start site', 'destination site', 'start time', 'stop time']
    out = []
    for ei, ej in coll.collective:
        a = idx[tuple(int(ei[c]) for c in cols)]
        b = idx[tuple(int(ej[c]) for c in cols)]
        out.append([a, b])
    return out


def impl(case):
    import pandas as pd
    from gemdat.collective import Collective
    if case.get('real'):
        return _impl_real(case)
    sites = synth.make_sites(case['m'], [[c / 8 for c in p] for p in case['sites8']])
    df = pd.DataFrame(case['table'], columns=['atom index', 'start site', 'destination site', 'start time', 'stop time'])
    maxd, moved = _guard(case)
    # labelled sites for the label-pair matrix (labels by site index, two or three kinds)
    nlab = 2 + len(case['sites8']) % 2
    lab = ['ABC'[k % nlab] for k in range(len(case['sites8']))]
    sites = synth.make_sites(case['m'], [[c / 8 for c in p] for p in case['sites8']], labels=lab)
    coll = Collective(jumps=_FakeJumps(df), sites=sites, lattice=sites.lattice, max_steps=case['W'], max_dist=maxd)
    out = {'pairs': _pairs_out(coll, case['table']), 'solo': int(coll.n_solo_jumps), 'ncoll': int(coll.n_coll_jumps),
           'coll_jumps': [[[int(a), int(b)], [int(c), int(d)]] for (a, b), (c, d) in coll.coll_jumps],
           'maxd': maxd, 'moved': moved}
    try:
        mat = np.asarray(coll.site_pair_count_matrix())
        pl = [tuple(p) for p in coll.site_pair_count_matrix_labels()]
        out['spcm'] = {'labels': lab, 'pairs': [list(p) for p in pl], 'matrix': mat.tolist()}
    except Exception as e:
        out['spcm'] = {'error': f'{type(e).__name__}: {e}'[:200]}
    return out


def _impl_real(case):
    """Jumps.collective() on a real trajectory: window length = ceil(1 / (attempt frequency x time step))."""
    from gemdat.jumps import Jumps
    r = np.random.default_rng(case['seed'])
    m = [[6, 0, 0], [0, 6, 0], [0, 0, 6]]
    site_frac = [[0.0, 0.0, 0.0], [0.5, 0.0, 0.0], [0.0, 0.5, 0.0], [0.5, 0.5, 0.0]]
    T, na = case['T'], 3
    li = synth.hopping_positions(r, T, na, site_frac)
    # framework atoms with their own (fast, small) vibration: the correlation window is that of the diffusing species alone
    nfw = 2 if case.get('framework', True) else 0
    fw = np.array([[0.25, 0.75, 0.5], [0.75, 0.25, 0.5]])[None, :nfw, :] + 0.004 * np.sin(np.arange(T)[:, None, None] * 2.2 + np.arange(nfw)[None, :, None])
    traj = synth.make_traj(m, ['Li'] * na + ['S'] * nfw, np.concatenate([li, fw], axis=1))
    sc = case.get('site_scale', 1.0)
    sites = synth.make_sites([[v * sc for v in row] for row in m], site_frac)
    tr = traj.transitions_between_sites(sites, 'Li', site_radius=1.0)
    try:
        j = Jumps(tr)
    except ValueError:
        return {'real': True, 'nojumps': True}
    coll = j.collective(max_dist=case['maxd'])
    freq, _ = traj.filter('Li').metrics().attempt_frequency()
    table = [[int(v) for v in row] for row in j.data[['atom index', 'start site', 'destination site', 'start time', 'stop time']].to_numpy()]
    return {'real': True, 'table': table, 'W': int(coll.max_steps), 'freq': float(freq), 'dt': float(traj.time_step),
            'pairs': _pairs_out(coll, table), 'solo': int(coll.n_solo_jumps), 'ncoll': int(coll.n_coll_jumps),
            'n_solo_prop': int(j.n_solo_jumps), 'n_jumps': int(j.n_jumps), 'maxd': case['maxd'], 'moved': False,
            'sites8': [[0, 0, 0], [4, 0, 0], [0, 4, 0], [4, 4, 0]], 'm': m}


def _spec(table, W, d2, maxd):
    out = set()
    for i, a in enumerate(table):
        for k, b in enumerate(table):
            if k <= i or a[0] == b[0]:
                continue
            if b[3] - a[4] > W or a[3] - b[4] > W:
                continue
            if any(float(d2[x][y]) < maxd * maxd for x in a[1:3] for y in b[1:3]):
                out.add((i, k))
    return out


def oracle(case, out):
    if out.get('nojumps'):
        return []
    if 'pairs' not in out:
        return [('c12/harness-error', f"{out.get('error')}: {out.get('msg')} {out.get('tb', '')[-300:]}")]
    fs = []
    c = dict(case)
    if out.get('real'):
        c.update({'table': out['table'], 'W': out['W'], 'sites8': out['sites8'], 'm': out['m']})
        want_w = math.ceil(1.0 / (out['freq'] * out['dt']))
        if out['W'] != want_w:
            fs.append(('window/formula', f'max_steps {out["W"]} != ceil(1/(f dt)) = {want_w}'))
        if out['n_solo_prop'] != out['solo'] or out['n_jumps'] != len(out['table']):
            fs.append(('collective/jumps-properties', 'Jumps.n_solo_jumps / n_jumps inconsistent with Collective'))
    table = c['table']
    want = _spec(table, c['W'], _d2(c), out['maxd'])
    got = [tuple(sorted(p)) for p in out['pairs']]
    if len(set(got)) != len(got):
        fs.append(('collective/pair-twice', 'an unordered pair is reported twice'))
    miss = want - set(got)
    extra = set(got) - want
    if miss:
        i, k = sorted(miss)[0]
        fs.append(('collective/missing-pair', f'jumps {table[i]} and {table[k]} are a collective pair (window {c["W"]}) but are not reported'))
    if extra:
        i, k = sorted(extra)[0]
        fs.append(('collective/spurious-pair', f'jumps {table[i]} and {table[k]} reported but not a collective pair'))
    if out['solo'] + out['ncoll'] != len(table):
        fs.append(('collective/solo-plus-coll', 'solo + collective != total'))
    inv = {x for p in got for x in p}
    if not miss and not extra and out['ncoll'] != len(inv):
        fs.append(('collective/n-coll', f'n_coll_jumps {out["ncoll"]} but {len(inv)} jumps take part in a pair'))
    sp = out.get('spcm')
    if sp is not None and 'coll_jumps' in out:
        if 'error' in sp:
            if out['coll_jumps']:
                fs.append(('collective/label-pair-matrix', f'site_pair_count_matrix raised {sp["error"]}'))
        else:
            lab, pl, mat = sp['labels'], [tuple(p) for p in sp['pairs']], sp['matrix']
            allp = {(a, b) for a in lab for b in lab}
            if len(set(pl)) != len(pl) or set(pl) != allp:
                fs.append(('collective/label-pair-matrix', f'site_pair_count_matrix_labels {pl} is not every pair of the labels {sorted(set(lab))} once'))
            else:
                want_m = [[0] * len(pl) for _ in pl]
                for (a, b), (c_, d) in out['coll_jumps']:
                    want_m[pl.index((lab[a], lab[b]))][pl.index((lab[c_], lab[d]))] += 1
                if mat != want_m:
                    fs.append(('collective/label-pair-matrix', f'site_pair_count_matrix {mat} is not the count of the collective pairs by label pair {want_m} '
                               f'(labels {lab}, pairs {out["coll_jumps"][:4]})'))
    return fs


def coq_term(case, out):
    if 'pairs' not in out:
        return None
    c = dict(case)
    if out.get('real'):
        c.update({'table': out['table'], 'W': out['W'], 'sites8': out['sites8'], 'm': out['m']})
    d2 = _d2(c)
    den = 1
    for row in d2:
        for v in row:
            den = den * v.denominator // math.gcd(den, v.denominator)
    md = synth.frac_of_float(out['maxd']) ** 2
    den = den * md.denominator // math.gcd(den, md.denominator)
    table = c['table']
    J = lambda r: '(J ' + ' '.join(z(v) for v in r) + ')'
    return '{| W := %s; d2 := %s; maxd2 := %s; table := %s; pairs := %s; solo := %s; ncoll := %s |}' % (
        z(c['W']), clist(zlist([int(v * den) for v in row]) for row in d2), z(int(md * den)),
        clist(J(r) for r in table), clist(f'({J(table[a])}, {J(table[b])})' for a, b in out['pairs']),
        z(out['solo']), z(out['ncoll']))


def nontrivial(case, out):
    return bool(out.get('pairs'))


def classify(case, out):
    tags = ['real' if case.get('real') else 'synthetic']
    if out.get('moved'):
        tags.append('cutoff-moved-off-boundary')
    if case.get('hard'):
        tags.append('nearest-image-not-wrapped-difference')
    t = out.get('table') or case.get('table') or []
    if any(r[4] - r[3] > 4 for r in t):
        tags.append('long-transit-jump')
    return tags


def sample(case, out):
    return {'table': (case.get('table') or out.get('table', []))[:6], 'W': case.get('W', out.get('W')), 'pairs': out.get('pairs', [])[:5]}
