"""C17 -- shape analysis collects exactly the symmetry-equivalent points in the radius."""
import math
from fractions import Fraction as Fr

import numpy as np

import synth
from vcore import clist, z

TIE = 'Tie.C17'
DEN = 3072          # 3 * 1024: sites on the 1/24 grid, symmetry translations in twelfths, positions on the 1/1024 grid
SHARD = 25
# space group -> crystal system (lattices are integer matrices compatible with the group)
GROUPS = {
    'P-1': 'tri', 'P1': 'tri', 'P2_1/c': 'mono_b', 'C2/m': 'mono_b', 'P2/m': 'mono_b', 'Pnma': 'ortho', 'Cmcm': 'ortho', 'Fddd': 'ortho',
    'P6_3/mmc': 'hex', 'P-3m1': 'hex', 'P3': 'hex', 'P6/mmm': 'hex', 'P6_3/m': 'hex', 'R-3m': 'hex',
    'P4/mmm': 'tetra', 'I4/mmm': 'tetra', 'P4_2/mnm': 'tetra', 'I4_1/amd': 'tetra', 'Pm-3m': 'cubic', 'Fm-3m': 'cubic', 'Ia-3d': 'cubic', 'F-43m': 'cubic',
}
RULE = ('cases = space group (22 groups over the triclinic, monoclinic, orthorhombic, tetragonal, hexagonal/trigonal (hexagonal axes, where the fractional rotation matrices are not orthogonal) and cubic systems; operations exported exactly from pymatgen at run '
        'time and checked in Coq to preserve the metric and to be inverse to the supplied inverse) x compatible integer lattice x site on the 1/24 grid '
        '(incl. next to cell faces so that symmetry images fall outside [0,1)) x positions on the 1/1024 grid placed around the symmetry images, across faces '
        'and at random x radius below half the smallest perpendicular width x integer supercells; cases with a distance within 1e-9 of the radius are '
        'excluded and counted; non-trivial = at least one symmetry image outside [0,1) contributes a point. Hexagonal cells are exact integer matrices in a rotated frame (a = (s,-s,0), b = (0,s,-s), c = (t,t,t))')
TRUSTED = ['translator unit shapeloop (AST of ShapeAnalyzer.find_equivalent_positions -> Gen/ShapeLoop.v)',
           'pymatgen symmetry tables are imported per case (metric preservation and inverses are checked in Coq); Lattice.get_all_distances replaced by the exact search']
ASSUMPTIONS = ['radius <= half the smallest perpendicular width (hypothesis of the property)']


def pre_build():
    import translate
    return [translate.gen_shape_loop()]


def _lattice(rng, system):
    while True:
        if system == 'cubic':
            a = rng.choice([5, 6, 8])
            m = [[a, 0, 0], [0, a, 0], [0, 0, a]]
        elif system == 'tetra':
            a, c = rng.choice([4, 5, 6]), rng.choice([7, 8, 9])
            m = [[a, 0, 0], [0, a, 0], [0, 0, c]]
        elif system == 'ortho':
            a, b, c = rng.sample([4, 5, 6, 7, 9], 3)
            m = [[a, 0, 0], [0, b, 0], [0, 0, c]]
        elif system == 'hex':
            m = synth._int_lattice(rng, 'hex')
        elif system == 'mono_b':
            a, b, c = rng.sample([5, 6, 7, 8], 3)
            m = [[a, 0, 0], [0, b, 0], [rng.choice([-2, -1, 1, 2]), 0, c]]
        else:
            m = synth._int_lattice(rng, rng.choice(['tri', 'tri_full']))
        if synth.window_ok(m, 2):
            if system in ('tri', 'mono_b') and rng.random() < 0.2:
                m = [[-x for x in m[0]], m[1], m[2]] if system == 'tri' else m      # left-handed triclinic basis
            return m


def gen_cases(rng, tier):
    n = {'quick': 90, 'thorough': 1800, 'search': 60}[tier]
    cases = []
    for _ in range(n):
        sg = rng.choice(sorted(GROUPS))
        m = _lattice(rng, GROUPS[sg])
        site = [rng.choice([0, 1, 2, 3, 6, 8, 12, 21, 22, 23]) if rng.random() < 0.6 else rng.randint(0, 23) for _ in range(3)]
        sc = rng.choice([[1, 1, 1], [1, 1, 1], [2, 1, 1], [1, 2, 2], [2, 2, 2], [3, 1, 1]])
        cases.append({'sg': sg, 'm': m, 'site24': site, 'supercell': sc, 'rfrac': rng.choice([0.3, 0.6, 0.95]), 'pseed': rng.randrange(10**6), 'npos': rng.randint(6, 20),
                      'site_lat': rng.choice(['same', 'same', 'params', 'scaled']), 'disp_first': rng.random() < 0.5})
        if rng.random() < 0.4:
            cases[-1]['extra_site'] = [(c + rng.choice([7, 12, 5])) % 24 for c in site]
    # analyzers built from a structure (oracle only): the symmetry found for the structure *in its own setting* -- inversion centre or
    # rotation axes away from the origin -- must be the one the analyzer works with
    for _ in range({'quick': 8, 'thorough': 80, 'search': 4}[tier]):
        kind = rng.choice(['P-1', 'P-1', 'Pm-3m', 'P4/mmm'])
        origin = [rng.choice([0.0, 0.1, 0.15, 0.2, 0.25, 0.3]) for _k in range(3)]
        gen = [[round(rng.uniform(0.05, 0.45), 3) for _k in range(3)] for _a in range(rng.randint(1, 3))]
        cases.append({'kind': 'fromstruct', 'sym': kind, 'origin': origin, 'gen': gen, 'pseed': rng.randrange(10**6)})
    return cases


def _impl_fromstruct(case):
    from gemdat.shape import ShapeAnalyzer
    from pymatgen.core import Lattice, Structure
    from pymatgen.symmetry.analyzer import SpacegroupAnalyzer
    o = np.array(case['origin'])
    if case['sym'] == 'P-1':
        lat = Lattice.from_parameters(6.1, 7.3, 8.2, 81, 97, 105)
        coords, species = [], []
        for k, d in enumerate(case['gen']):
            coords += [o + np.array(d), o - np.array(d)]
            species += [['Li', 'O', 'S'][k]] * 2
    elif case['sym'] == 'Pm-3m':
        lat = Lattice.cubic(4.2)
        coords, species = [o, o + 0.5], ['Cs', 'Cl']
    else:
        lat = Lattice.tetragonal(4.0, 6.5)
        coords, species = [o, o + np.array([0.5, 0.5, 0.5]), o + np.array([0.5, 0.5, 0.0])], ['Ti', 'Ba', 'O']
    st = Structure(lat, species, np.mod(np.array(coords), 1))
    an = ShapeAnalyzer.from_structure(st)
    # every operation the analyzer works with maps the structure onto itself
    bad = 0
    nops = 0
    for op in an.spacegroup:
        nops += 1
        for site in st:
            img = op.operate(site.frac_coords)
            if not any(str(t.specie) == str(site.specie) and np.abs(((t.frac_coords - img + 0.5) % 1) - 0.5).max() < 1e-6 for t in st):
                bad += 1
                break
    want_ops = len(SpacegroupAnalyzer(st).get_symmetry_operations())
    # points scattered around every atom: each distinct site collects (operations x its points) within the radius
    r = np.random.default_rng(case['pseed'])
    pts = np.concatenate([site.frac_coords + r.normal(0, 0.01, size=(5, 3)) @ np.linalg.inv(lat.matrix) for site in st])
    shapes = an.analyze_positions(np.mod(pts, 1), radius=0.4)
    orbit = {str(s.specie): sum(1 for t in st if str(t.specie) == str(s.specie)) for s in an.sites}
    counts = [[str(s.specie), int(len(sh.coords)), orbit[str(s.specie)]] for s, sh in zip(an.sites, shapes)]
    return {'fs_bad_ops': bad, 'fs_nops': nops, 'fs_want_ops': want_ops, 'fs_counts': counts, 'fs_nsites': len(an.sites)}


def _ops(case):
    from pymatgen.symmetry.groups import SpaceGroup
    sg = SpaceGroup(case['sg'])
    ops = []
    for op in sg:
        A = op.affine_matrix
        W = np.rint(A[:3, :3]).astype(int)
        assert np.abs(A[:3, :3] - W).max() < 1e-9
        w = [Fr(float(x)).limit_denominator(24) for x in A[:3, 3]]
        Wi = np.rint(op.inverse.affine_matrix[:3, :3]).astype(int)
        ops.append((W.tolist(), w, Wi.tolist()))
    return sg, ops


def _radius(case):
    m = np.array(case['m'], dtype=float)
    det = abs(np.linalg.det(m))
    widths = [det / np.linalg.norm(np.cross(m[(i + 1) % 3], m[(i + 2) % 3])) for i in range(3)]
    return float(np.float64(case['rfrac'] * 0.5 * min(widths)))


def _positions(case, ops):
    import random
    rng = random.Random(case['pseed'])
    s = [Fr(c, 24) for c in case['site24']]
    r = _radius(case)
    G = synth.gram(case['m'])
    pos = []
    for _ in range(case['npos']):
        W, w, _ = rng.choice(ops)
        img = [sum(W[i][j] * s[j] for j in range(3)) + w[i] for i in range(3)]
        mode = rng.random()
        if mode < 0.7:
            # near the symmetry image: offset of Cartesian length about 0..1.3 r
            off = [rng.uniform(-1, 1) for _ in range(3)]
            L = math.sqrt(float(synth.qf(G, [Fr(o).limit_denominator(10**6) for o in off])))
            scale = rng.uniform(0, 1.3) * r / max(L, 1e-9)
            p = [float(img[i]) + off[i] * scale for i in range(3)]
        else:
            p = [rng.random() for _ in range(3)]
        pos.append([int(round(x * 1024)) % 1024 for x in p])
    return pos       # numerators over 1024 in the unit cell


def impl(case):
    if case.get('kind') == 'fromstruct':
        return _impl_fromstruct(case)
    from gemdat.shape import ShapeAnalyzer
    from pymatgen.core import PeriodicSite
    sg, ops = _ops(case)
    lat = synth.make_lattice(case['m'])
    # the site may carry its own lattice object (the same cell in another Cartesian setting, or a slightly different reference cell):
    # only its fractional coordinates matter, all geometry is that of the analyzer's lattice
    from pymatgen.core import Lattice
    slat = {'same': lat, 'params': Lattice.from_parameters(*lat.parameters), 'scaled': Lattice(np.array(lat.matrix) * 1.03)}[case.get('site_lat', 'same')]
    site = PeriodicSite('Li', [c / 24 for c in case['site24']], slat, label='s')
    sites_in = [site]
    if case.get('extra_site'):
        # a second site, listed first; positions are generated around the main site only, so this one often collects nothing at all
        sites_in = [PeriodicSite('Li', [c / 24 for c in case['extra_site']], slat, label='e'), site]
    an = ShapeAnalyzer(sites=sites_in, lattice=lat, spacegroup=sg)
    pos1024 = _positions(case, ops)
    r = _radius(case)
    sc = case['supercell']
    if sc == [1, 1, 1]:
        positions = np.array(pos1024, dtype=float) / 1024
        shapes = an.analyze_positions(positions, radius=r)
        raw = [[p[k] * 3 for k in range(3)] for p in pos1024]
    else:
        # place each unit-cell position in a random cell of the supercell and hand a trajectory to analyze_trajectory
        import random
        rng = random.Random(case['pseed'] + 1)
        raw, frac = [], []
        for p in pos1024:
            cell = [rng.randrange(sc[k]) for k in range(3)]
            # supercell fractional coordinate (p/1024 + cell)/sc: keep exact by using numerators over 3072 only when divisible
            num = [(p[k] * 3 + cell[k] * DEN) for k in range(3)]          # numerators over DEN*sc[k]
            if any(num[k] % sc[k] for k in range(3)):
                num = [n - (n % sc[k]) for k, n in enumerate(num)]        # snap onto the common grid
            raw.append([num[k] // sc[k] for k in range(3)])
            frac.append([num[k] // sc[k] / DEN for k in range(3)])
        big = (np.array(case['m'], dtype=float) * np.array(sc, dtype=float)[:, None]).tolist()
        traj = synth.make_traj(big, ['Li'] * len(frac), np.array(frac).reshape(1, -1, 3), images=synth.image_seed(case))
        import warnings
        with warnings.catch_warnings():
            warnings.simplefilter('ignore')
            before = np.array(traj.positions).copy()
            if case.get('disp_first'):
                _ = traj.displacements        # any displacement-based analysis made earlier leaves the trajectory in displacement mode
            shapes = an.analyze_trajectory(traj, supercell=tuple(sc), radius=r)
            # the analysis is repeated on the same trajectory (e.g. after optimising the sites, or with another radius): same input, same answer
            source_same = bool(np.array_equal(before, np.array(traj.positions)))
            again = an.analyze_trajectory(traj, supercell=tuple(sc), radius=r)
            repeat_same = bool(np.array_equal(np.array(again[0].coords), np.array(shapes[0].coords)))
    n_shapes = len(shapes)
    extra_points = None
    if case.get('extra_site'):
        if n_shapes != 2:
            return {'n_shapes': n_shapes, 'raw': raw, 'radius': r, 'points': [], 'dists': [],
                    'ops': [[W, [[x.numerator, x.denominator] for x in w], Wi] for W, w, Wi in ops]}
        extra_points = int(len(np.array(shapes[0].coords).reshape(-1, 3)))
        sh = shapes[1]
    else:
        sh = shapes[0]
    cart = np.array(sh.coords).reshape(-1, 3)
    frac_pts = lat.get_fractional_coords(cart) if len(cart) else np.zeros((0, 3))
    extra = {'source_same': source_same, 'repeat_same': repeat_same} if sc != [1, 1, 1] else {}
    extra.update({'n_shapes': n_shapes, 'extra_points': extra_points})
    return {**extra, 'raw': raw, 'radius': r, 'points': (frac_pts * DEN).tolist(), 'dists': [float(d) for d in sh.distances()] if len(cart) else [],
            'ops': [[W, [[x.numerator, x.denominator] for x in w], Wi] for W, w, Wi in ops]}


def _exact(case, out, site24=None):
    """per op, per folded position: exact d2 to the symmetry image; returns (pairs within radius, near-boundary flag, images outside cell used)"""
    G = synth.gram(case['m'])
    s = [Fr(c, 24) for c in (site24 or case['site24'])]
    sc = case['supercell']
    r = out['radius']
    pts = []
    for p in out['raw']:
        pts.append([Fr((p[k] % (DEN // sc[k])) * sc[k], DEN) for k in range(3)])
    pairs, near, outside = [], False, False
    for W, w, _ in out['ops']:
        wq = [Fr(a, b) for a, b in w]
        img = [sum(W[i][j] * s[j] for j in range(3)) + wq[i] for i in range(3)]
        out_cell = any(not (0 <= x < 1) for x in img)
        for p in pts:
            d2 = synth.min_image_d2(G, [p[k] - img[k] for k in range(3)], 2)
            d = math.sqrt(float(d2))
            if abs(d - r) <= 1e-9 * max(1.0, r):
                near = True
            if d < r:
                pairs.append(d)
                outside = outside or out_cell
    return pairs, near, outside


_C = {}


def _prep(case, out):
    k = (id(case), id(out))
    if k not in _C:
        _C.clear()
        _C[k] = _exact(case, out)
    return _C[k]


def oracle(case, out):
    if case.get('kind') == 'fromstruct':
        if 'fs_bad_ops' not in out:
            return [('c17/harness-error', f"{out.get('error')}: {out.get('msg')} {out.get('tb', '')[-500:]}")]
        fs = []
        where = f'{case["sym"]} structure with its symmetry elements at {case["origin"]}'
        if out['fs_bad_ops']:
            fs.append(('shape/operations-not-of-the-structure', f'{out["fs_bad_ops"]} of the {out["fs_nops"]} operations of ShapeAnalyzer.from_structure do not map the structure onto itself ({where})'))
        if out['fs_nops'] != out['fs_want_ops']:
            fs.append(('shape/operations-not-of-the-structure', f'{out["fs_nops"]} operations, the structure has {out["fs_want_ops"]} ({where})'))
        for sp, got, orbit in out['fs_counts']:
            # 5 points around each of the `orbit` equivalent atoms; every one of them is an image of 5 points under nops / orbit operations
            if got != 5 * out['fs_want_ops']:
                fs.append(('shape/count', f'site {sp}: {got} points collected, expected {5 * out["fs_want_ops"]} = 5 points x {out["fs_want_ops"]} operations ({where})'))
        return fs
    if 'points' not in out:
        return [('c17/harness-error', f"{out.get('error')}: {out.get('msg')} {out.get('tb', '')[-500:]}")]
    if case.get('extra_site') and out.get('n_shapes') != 2:
        return [('shape/number-of-shapes', f'{out.get("n_shapes")} shapes returned for 2 sites (site {case["extra_site"]}/24 listed first, then {case["site24"]}/24): results are no longer aligned with the sites')]
    pairs, near, _ = _prep(case, out)
    if near:
        return []
    fs = []
    if case.get('extra_site') and out.get('extra_points') is not None:
        epairs, enear, _e = _exact(case, out, case['extra_site'])
        if not enear and len(epairs) != out['extra_points']:
            fs.append(('shape/count', f'site {case["extra_site"]}/24 (listed first): {out["extra_points"]} points collected but {len(epairs)} (operation, position) pairs lie within the radius'))
    r = out['radius']
    if out.get('source_same') is False:
        fs.append(('shape/analysis-alters-trajectory', f'analyze_trajectory(supercell={case["supercell"]}) changed the positions of the trajectory it analysed'))
    if out.get('repeat_same') is False:
        fs.append(('shape/repeat-differs', f'a second analyze_trajectory(supercell={case["supercell"]}) on the same trajectory collects different points'))
    where = f'group {case["sg"]}, lattice {case["m"]}, site {case["site24"]}/24, radius {r}, supercell {case["supercell"]}'
    if len(out['points']) != len(pairs):
        fs.append(('shape/count', f'{len(out["points"])} points collected but {len(pairs)} (operation, position) pairs lie within the radius; {where}'))
    far = [d for d in out['dists'] if d >= r * (1 + 1e-9)]
    if far:
        fs.append(('shape/point-outside-radius', f'a collected point lies {max(far)} A from the site centre (radius {r}); {where}'))
    elif len(out['dists']) == len(pairs) and not np.allclose(sorted(out['dists']), sorted(pairs), rtol=1e-7, atol=1e-7):
        fs.append(('shape/distance-not-preserved', f'distances of the points to the centre differ from the source distances to the equivalent sites; {where}'))
    return fs


def coq_term(case, out):
    if case.get('kind') == 'fromstruct' or 'points' not in out or _prep(case, out)[1]:
        return None
    pts = np.array(out['points']).reshape(-1, 3)
    rp = np.rint(pts)
    if len(pts) and np.abs(pts - rp).max() > 1e-5:
        rp = np.full_like(rp, -777777)
    V = lambda v: '(P %s %s %s)' % tuple(z(int(x)) for x in v)
    Mx = lambda m: '(Mx %s %s %s)' % tuple(V(r) for r in m)
    ops = clist('Op %s %s %s' % (Mx(W), Mx(Wi), V([Fr(a, b) * DEN for a, b in w])) for W, w, Wi in out['ops'])
    r2 = synth.frac_of_float(out['radius']) ** 2 * DEN * DEN
    return '{| D := %d; M := %s; K := 2; r2 := (%s, %s); ops := %s; site := %s; supercell := %s; raw_positions := %s; out_points := %s |}' % (
        DEN, Mx(case['m']), z(r2.numerator), z(r2.denominator), ops, V([c * (DEN // 24) for c in case['site24']]), V(case['supercell']),
        clist(V(p) for p in out['raw']), clist(V(p) for p in rp))


def nontrivial(case, out):
    if case.get('kind') == 'fromstruct':
        return out.get('fs_nops', 0) > 1
    return 'points' in out and _prep(case, out)[2]


def classify(case, out):
    if case.get('kind') == 'fromstruct':
        return ['kind=fromstruct', 'group:' + case['sym']]
    tags = ['group:' + case['sg'], 'supercell' if case['supercell'] != [1, 1, 1] else 'unit-cell']
    if 'points' in out:
        if _prep(case, out)[1]:
            tags.append('distance-on-radius-excluded')
        tags.append(f'points={min(len(out["points"]), 20)}')
    return tags


def sample(case, out):
    if case.get('kind') == 'fromstruct':
        return {'kind': 'fromstruct', 'sym': case['sym'], 'origin': case['origin'], 'counts': out.get('fs_counts')}
    return {'sg': case['sg'], 'm': case['m'], 'site24': case['site24'], 'supercell': case['supercell'], 'radius': out.get('radius'), 'n_points': len(out.get('points', []))}
