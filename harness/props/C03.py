"""C03 -- transition events are a faithful, complete change log."""
import itertools

import numpy as np

import synth

from vcore import clist, z, zlist

TIE = 'Tie.C03'
RULE = ('cases = multi-atom (outer, inner) site histories, inner in {-1, outer}: exhaustive enumeration of all '
        'single-atom histories over sites {-1,0,1} up to length 4 (quick) / 6 (thorough) packed 6 atoms per case, '
        'plus random long multi-atom histories; non-trivial = at least one change; distinct = distinct case')
TRUSTED = ['numpy roll/nonzero/unique and pandas DataFrame container semantics (validated by the tie)']
ASSUMPTIONS = ['np.unique over change indices is modelled as the increasing list of members of [0,T)']


class _Sites:
    is_ordered = True

    def __len__(self):
        return 3


def _frames(T):
    opts = [(-1, -1), (0, 0), (0, -1), (1, 1), (1, -1)]
    for combo in itertools.product(opts, repeat=T):
        yield [c[0] for c in combo], [c[1] for c in combo]


def pre_build():
    import translate
    return [translate.gen_events()]


def gen_cases(rng, tier):
    cases = []
    if tier == 'search':
        maxT, nrand = 0, 300
    elif tier == 'quick':
        maxT, nrand = 4, 400
    else:
        maxT, nrand = 6, 6000
    singles = []
    for T in range(2, maxT + 1):
        singles.extend((o, i) for o, i in _frames(T))
    if tier == 'quick':
        five = list(_frames(5))
        singles.extend(rng.sample(five, 600))
    # pack atoms of equal length into cases
    by_len = {}
    for o, i in singles:
        by_len.setdefault(len(o), []).append((o, i))
    for T, lst in by_len.items():
        for k in range(0, len(lst), 6):
            chunk = lst[k:k + 6]
            cases.append({'outer': [c[0] for c in chunk], 'inner': [c[1] for c in chunk], 'kind': 'exhaustive'})
    for _ in range(nrand):
        T = rng.choice([2, 3, 5, 8, 13, 40, 120, 400]) if tier != 'quick' else rng.choice([2, 3, 5, 8, 13, 40, 120])
        n_atoms = rng.randint(1, 6)
        n_sites = rng.randint(1, 5)
        outer, inner = [], []
        for _a in range(n_atoms):
            mode = rng.random()
            o, i = [], []
            cur = rng.randint(-1, n_sites - 1)
            p_move = rng.choice([0.0, 0.05, 0.3, 0.8])
            never_inner = mode < 0.25
            for _t in range(T):
                if rng.random() < p_move:
                    cur = rng.randint(-1, n_sites - 1)
                o.append(cur)
                if cur == -1 or never_inner:
                    i.append(-1)
                else:
                    i.append(cur if rng.random() < 0.6 else -1)
            outer.append(o)
            inner.append(i)
        cases.append({'outer': outer, 'inner': inner, 'kind': 'random'})
    # large site indices (a site set of a few thousand sites): neighbours of 1000, 2000 (decimal packings), 256, 32768 (binary ones)
    for _ in range({'quick': 30, 'thorough': 300, 'search': 20}[tier]):
        pool = rng.choice([[998, 999, 1000, 1001], [1999, 2000, 2001], [255, 256, 257], [32767, 32768], [999, 1000, 65535, 65536]])
        T = rng.choice([3, 5, 9])
        outer, inner = [], []
        for _a in range(rng.randint(1, 3)):
            o = [rng.choice(pool + [-1]) for _t in range(T)]
            outer.append(o)
            inner.append([v if (v != -1 and rng.random() < 0.5) else -1 for v in o])
        cases.append({'outer': outer, 'inner': inner, 'kind': 'large-index'})
    # a long run: frame numbers beyond what 16-bit (65535) time indices can hold; few changes, some of them late (oracle only)
    for _ in range({'quick': 1, 'thorough': 3, 'search': 1}[tier]):
        T = rng.choice([70000, 66000, 131100])
        outer, inner = [], []
        for _a in range(2):
            times = sorted(set([rng.randrange(T - 1) for _ in range(6)] + [T - 2, 32767, 32768, 65535, 65536, T - 70]))
            o = []
            cur, k = rng.randint(-1, 2), 0
            for t in range(T):
                o.append(cur)
                if k < len(times) and t == times[k]:
                    cur = rng.choice([v for v in (-1, 0, 1, 2) if v != cur])
                    k += 1
            outer.append(o)
            inner.append(list(o))
        cases.append({'outer': outer, 'inner': inner, 'kind': 'long'})
    # the same histories realised as atom positions and taken through the public entry point (site search included): every atom sits in the inner
    # core or only in the outer shell of a site, or far from all sites; some runs never enter any inner core, some leave a whole label group unvisited
    for _ in range({'quick': 40, 'thorough': 400, 'search': 20}[tier]):
        T = rng.choice([3, 5, 8, 13, 30])
        n_atoms = rng.randint(1, 3)
        never_inner_run = rng.random() < 0.35
        visit = [0, 1, 2] if rng.random() < 0.5 else [0, 1, 2, 3]          # site 3 is the only site labelled C
        outer, inner = [], []
        for _a in range(n_atoms):
            o, i = [], []
            cur = rng.choice([-1] + visit)
            for _t in range(T):
                if rng.random() < 0.4:
                    cur = rng.choice([-1] + visit)
                o.append(cur)
                i.append(cur if (cur != -1 and not never_inner_run and rng.random() < 0.6) else -1)
            outer.append(o)
            inner.append(i)
        # two atoms may not share a site in a frame only for physical plausibility; the site search does not care
        cases.append({'outer': outer, 'inner': inner, 'kind': 'api', 'dict_radius': rng.random() < 0.5})
    return cases


_API_SITES = [[0.1, 0.1, 0.1], [0.6, 0.1, 0.1], [0.1, 0.6, 0.1], [0.6, 0.6, 0.6]]
_API_LABELS = ['A', 'B', 'A', 'C']


def _impl_api(case):
    """10 A cubic cell, site radius 1.0 A, inner fraction 0.5: core = 0.2 A from the centre, shell = 0.75 A, transit = (0.35, 0.35, 0.85)"""
    from pymatgen.core import Structure
    o = np.array(case['outer'], dtype=int).T
    i = np.array(case['inner'], dtype=int).T
    T, na = o.shape
    pos = np.zeros((T, na, 3))
    for t in range(T):
        for a in range(na):
            if o[t, a] == -1:
                pos[t, a] = [0.35, 0.35, 0.85]
            else:
                pos[t, a] = np.array(_API_SITES[o[t, a]]) + np.array([0.02 if i[t, a] != -1 else 0.075, 0.0, 0.0])
    m = [[10, 0, 0], [0, 10, 0], [0, 0, 10]]
    traj = synth.make_traj(m, ['Li'] * na, pos, images=synth.image_seed(case))
    sites = Structure(lattice=traj.get_lattice(), species=['Li'] * 4, coords=_API_SITES, labels=_API_LABELS)
    radius = {'A': 1.0, 'B': 1.0, 'C': 1.0} if case.get('dict_radius') else 1.0
    try:
        tr = traj.transitions_between_sites(sites, 'Li', site_radius=radius, site_inner_fraction=0.5)
    except Exception as e:
        return {'rows': [], 'error': type(e).__name__, 'msg': str(e)[:120], 'prev': None, 'next': None, 'inputs_changed': []}
    if case.get('dict_radius'):
        # per-state radial distributions are computed first for half of the cases (they read the states and the previous / next views):
        # what the object says about states and events afterwards is what it said before
        try:
            tr.radial_distribution(floating_specie='Li', max_dist=2.0, resolution=0.5)
        except Exception:
            pass
    states_ok = bool(np.array_equal(tr.states, o) and np.array_equal(tr.inner_states, i))
    rows = [[int(v) for v in r] for r in tr.events.to_numpy()]
    return {'rows': rows, 'error': None, 'prev': tr.states_prev().T.tolist(), 'next': tr.states_next().T.tolist(), 'inputs_changed': [], 'states_ok': states_ok}


def impl(case):
    if case.get('kind') == 'api':
        return _impl_api(case)
    from gemdat.transitions import Transitions, _calculate_transition_events
    states = np.array(case['outer'], dtype=int).T
    inner = np.array(case['inner'], dtype=int).T
    try:
        ev = _calculate_transition_events(atom_sites=states, atom_inner_sites=inner)
        rows = [[int(v) for v in r] for r in ev.to_numpy()]
        err = None
    except Exception as e:
        rows, err, ev = [], type(e).__name__, None
    tr = Transitions(trajectory=None, diff_trajectory=None, sites=_Sites(), events=ev,
                     states=states, inner_states=inner)
    guard = synth.InputGuard(states=states, inner=inner)
    prev = tr.states_prev().T.tolist()
    nxt = tr.states_next().T.tolist()
    changed = guard.changed()
    if not (np.array_equal(states, np.array(case['outer'], dtype=int).T) and np.array_equal(inner, np.array(case['inner'], dtype=int).T)):
        changed = sorted(set(changed) | {'state arrays (by _calculate_transition_events)'})
    return {'rows': rows, 'error': err, 'prev': prev, 'next': nxt, 'inputs_changed': changed}


def _has_change(case):
    return any(any(o[t] != o[t + 1] or i[t] != i[t + 1] for t in range(len(o) - 1))
               for o, i in zip(case['outer'], case['inner']))


def oracle(case, out):
    fs = synth.inputs_clause(out, '_calculate_transition_events / states_prev / states_next')
    if out.get('error') and 'rows' not in out:
        return [('events/harness-error', out.get('msg', ''))]
    want = []
    for a, (o, i) in enumerate(zip(case['outer'], case['inner'])):
        for t in range(len(o) - 1):
            if o[t] != o[t + 1] or i[t] != i[t + 1]:
                want.append((a, o[t], o[t + 1], i[t], i[t + 1], t))
    if out['error']:
        if want:
            fs.append(('events/raises-with-change', f"{out['error']} although the history has {len(want)} changes"))
    else:
        got = [tuple(r) for r in out['rows']]
        if len(set(got)) != len(got):
            fs.append(('events/duplicate-row', 'a row is reported twice'))
        miss = set(want) - set(got)
        extra = set(got) - set(want)
        if miss:
            fs.append(('events/missing-row', f'missing rows {sorted(miss)[:3]}'))
        if extra:
            fs.append(('events/spurious-row', f'spurious rows {sorted(extra)[:3]}'))
        # replay from first-frame state
        if not miss and not extra:
            for a, (o, i) in enumerate(zip(case['outer'], case['inner'])):
                co, ci = o[0], i[0]
                ro, ri = [co], [ci]
                rr = {r[5]: r for r in got if r[0] == a}
                for t in range(len(o) - 1):
                    if t in rr:
                        co, ci = rr[t][2], rr[t][4]
                    ro.append(co)
                    ri.append(ci)
                if ro != o or ri != i:
                    fs.append(('events/replay', f'replay of atom {a} does not reconstruct the history'))
    if out.get('states_ok') is False:
        fs.append(('events/states-differ-from-construction', 'the site search assigned other states than the positions were built for (core 0.2 A, shell 0.75 A, radius 1.0 A, inner fraction 0.5)'))
    if out.get('prev') is None:
        return fs
    for a, o in enumerate(case['outer']):
        cur, p = -1, []
        for v in o:
            if v != -1:
                cur = v
            p.append(cur)
        cur, n = -1, []
        for v in reversed(o):
            if v != -1:
                cur = v
            n.append(cur)
        n.reverse()
        if out['prev'][a] != p:
            fs.append(('prev/wrong', f'states_prev of atom {a}: {out["prev"][a]} expected {p}'))
        if out['next'][a] != n:
            fs.append(('next/wrong', f'states_next of atom {a}: {out["next"][a]} expected {n}'))
    return fs


def coq_term(case, out):
    if 'rows' not in out or case.get('kind') == 'long':
        return None          # long runs: decided by the oracle (a literal of 10^5 frames is too large for the tie)
    if out.get('prev') is None:
        # the public entry point raised before any state could be observed; with a change in the history that is a violation found by the oracle
        # (events/raises-with-change), without one it is the accepted "nothing ever changes" rejection: nothing to hand to the model
        return None
    if out['error'] and not _has_change(case):
        rows = []          # building the table may fail when nothing ever changes
    elif out['error']:
        rows = [[-99] * 6]  # forces a disagreement: the model never fails
    else:
        rows = out['rows']
    atoms = clist(f'({zlist(o)}, {zlist(i)})' for o, i in zip(case['outer'], case['inner']))
    rws = clist('R ' + ' '.join(z(v) for v in r) for r in rows)
    return f'({atoms}, {rws}, {clist(zlist(p) for p in out["prev"])}, {clist(zlist(n) for n in out["next"])})'


def nontrivial(case, out):
    return _has_change(case)


def classify(case, out):
    tags = [case.get('kind', 'corpus'), f'T={len(case["outer"][0])}']
    for o, i in zip(case['outer'], case['inner']):
        T = len(o)
        if T >= 2 and (o[0] != o[1] or i[0] != i[1]):
            tags.append('change-at-first-frame')
        if T >= 2 and (o[-2] != o[-1] or i[-2] != i[-1]):
            tags.append('change-at-last-frame')
        if all(v == -1 for v in i):
            tags.append('atom-never-in-inner-site')
        if all(o[t] == o[t + 1] for t in range(T - 1)):
            tags.append('atom-never-moves')
    return tags


def sample(case, out):
    return {'outer': [o[:40] for o in case['outer']], 'inner': [i[:40] for i in case['inner']], 'rows': out.get('rows', [])[:6], 'error': out.get('error')}
