"""C10 -- optimal and percolating paths are valid, correctly reported and cost-minimal."""
import heapq
import math
from fractions import Fraction as Fr

import numpy as np

import synth
import translate
from vcore import cbool, clist, nat, z, zlist

TIE = 'Tie.C10'
HEADER = 'From GV Require Import Gen.VoxelDef Gen.MovesDef.\nDefinition bad := bad_with gen_moves wrapped_site frac_site.'
SHARD = 40
SC = 8            # energies are multiples of 1/8
RULE = ('cases = free-energy grids with unequal axes (sizes 1-5, incl. 1 and 2 where periodic moves coincide), dyadic energies (multiples of 1/8), '
        'blocked voxels (above the threshold or negative), both neighbourhoods, 3-5 optimal_path queries over all five methods with random admissible '
        'start/stop, 0-2 percolation queries (all direction sets, 1-4 peaks), and wrapped_sites/frac_sites on sites outside the grid; optimality is decided '
        'in Coq from a potential certificate computed by an independent exact Dijkstra (unreachability from a closed cut); non-trivial = the optimal path '
        'has more than 2 steps or a percolating path was found')
TRUSTED = ['networkx is untrusted (certificate checking); the harness Dijkstra that proposes potentials is untrusted (Coq checks feasibility on the model graph)',
           'translator units voxel and dispatch (harness/translate.py)', 'exp() of dijkstra-exp weights is certified on samples by Interval']
ASSUMPTIONS = ['cost under "dijkstra"/"bellman-ford" = sum of edge weights; "simple" = number of steps; "dijkstra-exp" = sum of min(exp w, thr) with 1e-9 relative slack; '
               '"minmax-energy" = maximum voxel energy on the path (known finding D8: the code returns the Dijkstra path)']
METHODS = ['dijkstra', 'bellman-ford', 'minmax-energy', 'dijkstra-exp', 'simple']
_DISPATCH = None


def pre_build():
    global _DISPATCH
    n1 = translate.gen_voxel()
    n2, _DISPATCH = translate.gen_dispatch()
    n3, mv = translate.gen_moves()
    if mv:
        global GEMDAT_DIAG, MOVES6
        MOVES6, GEMDAT_DIAG = list(mv['movements']), list(mv['diagonal_movements'])
    return [n1, n2, n3, translate.gen_percolate()]


def gen_cases(rng, tier):
    n = {'quick': 90, 'thorough': 1500, 'search': 60}[tier]
    cases = []
    for _ in range(n):
        dims = [rng.choice([1, 2, 2, 3, 3, 4, 5]) for _ in range(3)]
        while dims[0] * dims[1] * dims[2] > 60:
            dims[rng.randrange(3)] = rng.choice([1, 2, 3])
        nv = dims[0] * dims[1] * dims[2]
        thr8 = rng.choice([80, 16])               # threshold 10.0 or 2.0
        en = []
        pblock = rng.choice([0.0, 0.15, 0.35])
        for _k in range(nv):
            r = rng.random()
            if r < pblock:
                en.append(rng.choice([thr8, thr8 + 8, 10**9, -8]))     # blocked: >= threshold or negative
            else:
                en.append(rng.choice([0, 1, 2, 4, 8, 9, 12, 15]) if thr8 == 16 else rng.randint(0, 40))
        # an isolated pocket: an admissible voxel all of whose 26 periodic neighbours are blocked (a peak there has no path at all)
        pocket = None
        if rng.random() < 0.3:
            dims = rng.choice([[3, 4, 5], [4, 4, 3], [3, 3, 5], [5, 3, 4], [4, 3, 5]])
            nv = dims[0] * dims[1] * dims[2]
            en = [rng.choice([0, 1, 2, 4, 8, 9, 12, 15]) if thr8 == 16 else rng.randint(0, 40) for _k in range(nv)]
            pocket = rng.randrange(nv)
            px = (pocket // (dims[1] * dims[2]), (pocket // dims[2]) % dims[1], pocket % dims[2])
            for dx in (-1, 0, 1):
                for dy in (-1, 0, 1):
                    for dz in (-1, 0, 1):
                        if (dx, dy, dz) != (0, 0, 0):
                            q = ((px[0] + dx) % dims[0], (px[1] + dy) % dims[1], (px[2] + dz) % dims[2])
                            en[(q[0] * dims[1] + q[1]) * dims[2] + q[2]] = 10**9
        adm = [k for k in range(nv) if 0 <= en[k] < thr8]
        if len(adm) < 2:
            continue
        queries = []
        for _q in range(rng.randint(3, 5)):
            queries.append({'method': rng.choice(METHODS), 's': rng.choice(adm), 't': rng.choice(adm)})
        percs = []
        for _p in range(rng.choice([0, 1, 1, 2]) if pocket is None else 2):
            axes = rng.choice(['x', 'y', 'z', 'xy', 'xz', 'yz', 'xyz'])
            peaks = rng.sample(adm, min(len(adm), rng.randint(1, 4)))
            if pocket is not None and pocket not in peaks:
                peaks.insert(rng.randrange(len(peaks)), pocket)        # never last: the peaks after it must still be examined
            percs.append({'axes': axes, 'peaks': peaks})
        sites = [[rng.randint(-3, 12) for _ in range(3)] for _ in range(4)]
        cases.append({'dims': dims, 'en8': en, 'thr8': thr8, 'diag': rng.random() < 0.6, 'queries': queries, 'percs': percs, 'sites': sites,
                      'layout': rng.choice(['C', 'C', 'F', 'view'])})
    return cases


def _node(dims, k):
    return (k // (dims[1] * dims[2]), (k // dims[2]) % dims[1], k % dims[2])


def _idx(dims, v):
    return (v[0] * dims[1] + v[1]) * dims[2] + v[2]


def impl(case):
    import networkx as nx
    from gemdat.path import Pathway, free_energy_graph, optimal_path
    from gemdat.volume import FreeEnergyVolume
    dims = case['dims']
    F = np.array(case['en8'], dtype=float).reshape(dims) / SC
    if case.get('layout') == 'F':
        F = np.asfortranarray(F)          # same values by index, other memory layout
    elif case.get('layout') == 'view':
        F = np.ascontiguousarray(F.transpose(2, 0, 1)).transpose(1, 2, 0)
    thr = case['thr8'] / SC
    F0 = F.copy()
    G = free_energy_graph(F, max_energy_threshold=thr, diagonal=case['diag'])
    out = {'nodes': sorted(_idx(dims, n) for n in G.nodes),
           'edges': sorted([_idx(dims, a), _idx(dims, b), float(d['weight']), float(d['weight_exp'])] for a, b, d in G.edges(data=True))}
    qs = []
    for q in case['queries']:
        s, t = _node(dims, q['s']), _node(dims, q['t'])
        try:
            p = optimal_path(G, start=s, stop=t, method=q['method'])
            qs.append({'sites': [[int(x) for x in v] for v in p.sites], 'energy': [float(e) for e in p.energy],
                       'total': float(p.total_energy), 'start': [int(x) for x in p.start_site], 'stop': [int(x) for x in p.stop_site]})
            # the n-best entry point: its first path is the optimal path under the same criterion
            # (its search for a second, sufficiently different path enumerates simple paths and may take practically forever on a grid
            #  where none exists: that is not our concern, so the call is given 1.5 s and skipped beyond)
            from gemdat.path import optimal_n_paths
            import signal

            class _Timeout(Exception):
                pass

            def _on_alarm(_sig, _frm):
                raise _Timeout()
            old_handler = signal.signal(signal.SIGALRM, _on_alarm)
            signal.setitimer(signal.ITIMER_REAL, 1.5)
            try:
                np_ = optimal_n_paths(G, start=s, stop=t, n_paths=2, method=q['method'])
                qs[-1]['npaths'] = [[[int(x) for x in v] for v in pp.sites] for pp in np_]
            except nx.NetworkXNoPath:
                qs[-1]['npaths'] = None
            except _Timeout:
                qs[-1]['npaths_timeout'] = True
            finally:
                signal.setitimer(signal.ITIMER_REAL, 0)
                signal.signal(signal.SIGALRM, old_handler)
        except nx.NetworkXNoPath:
            qs.append({'nopath': True})
    out['queries'] = qs
    ps = []
    if case['percs']:
        fe = FreeEnergyVolume(data=F, lattice=synth.make_lattice([[5, 0, 0], [0, 6, 0], [0, 0, 7]]))
        for pc in case['percs']:
            peaks = np.array([_node(dims, k) for k in pc['peaks']])
            p = fe.optimal_percolating_path(peaks=peaks, percolate=pc['axes'])
            if p is None:
                ps.append({'none': True})
            else:
                ps.append({'sites': [[int(x) for x in v] for v in p.sites], 'energy': [float(e) for e in p.energy], 'dims': [int(d) for d in p.dims],
                           'wrapped': [[int(x) for x in v] for v in p.wrapped_sites()], 'frac': np.asarray(p.frac_sites()).tolist()})
    out['percs'] = ps
    pw = Pathway(sites=[tuple(s) for s in case['sites']], energy=[0.0] * len(case['sites']), dims=tuple(dims))
    out['wrapped'] = [[int(x) for x in v] for v in pw.wrapped_sites()]
    out['frac'] = np.asarray(pw.frac_sites()).tolist()
    out['inputs_changed'] = [] if np.array_equal(F, F0) else ['free-energy grid']
    out['wrapper_problems'] = _wrappers(case, F0, dims)
    return out


def _wrappers(case, F0, dims):
    """the methods of FreeEnergyVolume are the functions of gemdat.path applied to the volume as it is at the time of the call:
    first call, call with an explicit graph, call again after the grid was edited (voxels of the found path blocked)"""
    import networkx as nx
    from gemdat.path import free_energy_graph, optimal_n_paths, optimal_path
    from gemdat.volume import FreeEnergyVolume
    problems = []
    qs = [q for q in case['queries'] if q['method'] in ('dijkstra', 'bellman-ford', 'minmax-energy', 'dijkstra-exp')][:2]
    if not qs:
        return problems
    fe = FreeEnergyVolume(data=F0.copy(), lattice=synth.make_lattice([[5, 0, 0], [0, 6, 0], [0, 0, 7]]))

    def sig(p):
        return None if p is None else ([tuple(int(x) for x in v) for v in p.sites], [float(e) for e in p.energy])

    def both(tag, f_method, f_module):
        res = []
        for f in (f_method, f_module):
            try:
                res.append(('value', f()))
            except (nx.NetworkXNoPath, nx.NodeNotFound) as e:      # rejected alike by both entry points
                res.append((type(e).__name__, None))
        (ka, a), (kb, b) = res
        if ka != kb or (ka == 'value' and sig(a) != sig(b)):
            problems.append(f'{tag}: FreeEnergyVolume method gives {sig(a) if ka == "value" else ka}, gemdat.path on the same grid gives {sig(b) if kb == "value" else kb}')
        elif ka == 'value' and tuple(int(d) for d in a.dims) != tuple(dims):
            problems.append(f'{tag}: path dims {a.dims} are not the grid shape {dims}')
        return a if ka == 'value' else None

    g1 = fe.free_energy_graph(max_energy_threshold=case['thr8'] / SC, diagonal=case['diag'])
    g2 = free_energy_graph(fe.data, max_energy_threshold=case['thr8'] / SC, diagonal=case['diag'])
    if sorted(g1.nodes) != sorted(g2.nodes) or sorted(map(sorted, g1.edges)) != sorted(map(sorted, g2.edges)):
        problems.append('FreeEnergyVolume.free_energy_graph differs from gemdat.path.free_energy_graph on the same grid')
    for rnd in range(2):
        for q in qs:
            s, t = _node(dims, q['s']), _node(dims, q['t'])
            kw = dict(start=s, stop=t, method=q['method'])
            p = both(f'optimal_path round {rnd} {q["method"]}', lambda: fe.optimal_path(**kw),
                     lambda: optimal_path(free_energy_graph(fe.data, max_energy_threshold=1e7), **kw))
            both(f'optimal_path with explicit graph round {rnd} {q["method"]}', lambda: fe.optimal_path(F_graph=g2, **kw), lambda: optimal_path(g2, **kw))
            if p is not None and len(p.sites) <= 6:
                # (the search for further paths may take practically forever; both calls together get 1.5 s and are skipped beyond)
                import signal

                class _Timeout(Exception):
                    pass

                def _on_alarm(_sig, _frm):
                    raise _Timeout()
                old_handler = signal.signal(signal.SIGALRM, _on_alarm)
                signal.setitimer(signal.ITIMER_REAL, 1.5)
                try:
                    a = fe.optimal_n_paths(n_paths=1, **kw)
                    b = optimal_n_paths(free_energy_graph(fe.data, max_energy_threshold=1e7), n_paths=1, **kw)
                    signal.setitimer(signal.ITIMER_REAL, 0)
                    if [sig(x) for x in a] != [sig(x) for x in b]:
                        problems.append(f'optimal_n_paths round {rnd} {q["method"]}: method and function differ on the same grid')
                except (nx.NetworkXNoPath, nx.NodeNotFound, _Timeout):
                    pass
                finally:
                    signal.setitimer(signal.ITIMER_REAL, 0)
                    signal.signal(signal.SIGALRM, old_handler)
            # edit the volume: block the interior voxels of the path just found (far above the default threshold of the methods)
            if rnd == 0 and p is not None:
                for v in p.sites[1:-1]:
                    fe.data[tuple(int(x) % d for x, d in zip(v, dims))] = 1e30
    return problems


# ---------------------------------------------------------------- independent reference
MOVES6 = [(1, 0, 0), (-1, 0, 0), (0, 1, 0), (0, -1, 0), (0, 0, 1), (0, 0, -1)]
MOVES26 = [(a, b, c) for a in (-1, 0, 1) for b in (-1, 0, 1) for c in (-1, 0, 1) if (a, b, c) != (0, 0, 0)]
# gemdat's diagonal list has 16 entries: the 12 edge moves and 4 of the 8 corner moves (+ their negatives? no: (1,1,1),(-1,-1,-1),(1,-1,-1),(-1,1,1))
GEMDAT_DIAG = [(1, 1, 0), (-1, -1, 0), (1, -1, 0), (-1, 1, 0), (1, 0, 1), (-1, 0, -1), (1, 0, -1), (-1, 0, 1),
               (0, 1, 1), (0, -1, -1), (0, 1, -1), (0, -1, 1), (1, 1, 1), (-1, -1, -1), (1, -1, -1), (-1, 1, 1)]


def _graph(dims, en, thr, diag, moves=None):
    moves = moves or (MOVES6 + (GEMDAT_DIAG if diag else []))
    nv = dims[0] * dims[1] * dims[2]
    adm = [0 <= en[k] < thr for k in range(nv)]
    adj = {k: set() for k in range(nv) if adm[k]}
    for k in adj:
        v = _node(dims, k)
        for m in moves:
            u = tuple((v[i] + m[i]) % dims[i] for i in range(3))
            j = _idx(dims, u)
            if adm[j]:
                adj[k].add(j)
    return adj


def _dijkstra(adj, w, s):
    dist = {s: 0}
    pq = [(0, s)]
    while pq:
        d, u = heapq.heappop(pq)
        if d > dist.get(u, math.inf):
            continue
        for v in adj[u]:
            nd = d + w(u, v)
            if nd < dist.get(v, math.inf):
                dist[v] = nd
                heapq.heappush(pq, (nd, v))
    return dist


def _minmax(adj, en, s, t):
    """smallest possible maximum node energy over paths s -> t (None if unreachable)"""
    best = {s: en[s]}
    pq = [(en[s], s)]
    while pq:
        d, u = heapq.heappop(pq)
        if d > best.get(u, math.inf):
            continue
        for v in adj[u]:
            nd = max(d, en[v])
            if nd < best.get(v, math.inf):
                best[v] = nd
                heapq.heappush(pq, (nd, v))
    return best.get(t)


def _crit(method):
    w, algo, post, raises = (_DISPATCH or {}).get(method, ('weight', 'dijkstra', False, False))
    if w is None:
        return 1
    return 2 if w == 'weight_exp' else 0


def _tiled(case, axes):
    dims = case['dims']
    rep = [2 if c in axes else 1 for c in 'xyz']
    td = [dims[i] * rep[i] for i in range(3)]
    ten = []
    for k in range(td[0] * td[1] * td[2]):
        v = _node(td, k)
        ten.append(case['en8'][_idx(dims, tuple(v[i] % dims[i] for i in range(3)))])
    return td, ten


def oracle(case, out):
    if 'queries' not in out:
        return [('c10/harness-error', f"{out.get('error')}: {out.get('msg')} {out.get('tb', '')[-500:]}")]
    fs = synth.inputs_clause(out, 'free_energy_graph / optimal_path / optimal_percolating_path')
    for pr in out.get('wrapper_problems') or []:
        fs.append(('path/volume-method-differs', pr))
    dims, en, thr = case['dims'], case['en8'], case['thr8']
    # adjp: the property's neighbourhood (faces, or faces + edges + corners); adjc: the moves the code uses
    adjp = _graph(dims, en, thr, case['diag'], MOVES26 if case['diag'] else MOVES6)
    adjc = _graph(dims, en, thr, case['diag'])
    MISSING = ('graph/missing-corner-moves', 'with diagonal moves enabled only 2 of the 4 body-diagonal directions are generated '
               '((1,1,-1) and (1,-1,1) and their negatives are missing from the movement list): ')

    def minimal(tag, got, best_c, best_p, what):
        if got != best_c:
            fs.append((tag, what + f': got {got}, optimum on the code\'s own graph {best_c}'))
        elif best_p < best_c:
            fs.append((MISSING[0], MISSING[1] + what + f': got {got}, but {best_p} is possible through corner neighbours'))

    for q, r in zip(case['queries'], out['queries']):
        s, t = q['s'], q['t']
        w2f = lambda u, v: en[u] + en[v]
        dc, dp = _dijkstra(adjc, w2f, s), _dijkstra(adjp, w2f, s)
        where = f'({_node(dims, s)} -> {_node(dims, t)}, grid {dims}, energies/8 {en})'
        if r.get('nopath'):
            if t in dc:
                fs.append(('path/nopath-but-reachable', f'{q["method"]}: no path reported although one exists {where}'))
            elif t in dp:
                fs.append((MISSING[0], MISSING[1] + f'no path reported although the voxels are connected through corner neighbours {where}'))
            continue
        p = [_idx(dims, v) for v in r['sites']]
        if 'npaths' in r and s != t:
            if not r['npaths'] or r['npaths'][0] != r['sites']:
                fs.append(('path/n-paths-first-not-optimal', f'{q["method"]}: the first of optimal_n_paths is {r["npaths"][0] if r["npaths"] else None}, the optimal path is {r["sites"]} {where}'))
            elif any([_idx(dims, v) for v in pp][0] != s or [_idx(dims, v) for v in pp][-1] != t for pp in r['npaths']):
                fs.append(('path/endpoints', f'{q["method"]}: a path of optimal_n_paths does not connect the requested voxels'))
        if p[0] != s or p[-1] != t:
            fs.append(('path/endpoints', f'{q["method"]}: path does not start/end at the requested voxels'))
            continue
        if any(b not in adjp[a] for a, b in zip(p, p[1:])) or any(k not in adjp for k in p):
            fs.append(('path/invalid-step', f'{q["method"]}: path steps between non-neighbouring or inadmissible voxels'))
            continue
        if [e * SC for e in r['energy']] != [en[k] for k in p]:
            fs.append(('path/energy-report', f'{q["method"]}: reported energies differ from the free energy of the voxels'))
        m = q['method']
        if m in ('dijkstra', 'bellman-ford'):
            c = sum(en[a] + en[b] for a, b in zip(p, p[1:]))
            minimal('path/not-minimal:' + m, c, dc[t], dp[t], f'{m} doubled cost x8 {where}')
        elif m == 'simple':
            hc, hp = _dijkstra(adjc, lambda u, v: 1, s), _dijkstra(adjp, lambda u, v: 1, s)
            minimal('path/not-minimal:simple', len(p) - 1, hc[t], hp[t], f'simple: number of steps {where}')
        elif m == 'dijkstra-exp':
            wexp = lambda u, v: min(math.exp((en[u] + en[v]) / 16), thr / SC)
            dec, dep = _dijkstra(adjc, wexp, s), _dijkstra(adjp, wexp, s)
            c = sum(wexp(a, b) for a, b in zip(p, p[1:]))
            if c > dec[t] * (1 + 1e-9) + 1e-12:
                fs.append(('path/not-minimal:dijkstra-exp', f'dijkstra-exp: cost {c} but {dec[t]} is possible {where}'))
            elif c > dep[t] * (1 + 1e-9) + 1e-12:
                fs.append((MISSING[0], MISSING[1] + f'dijkstra-exp: cost {c} but {dep[t]} is possible {where}'))
        elif m == 'minmax-energy':
            mc, mp = _minmax(adjc, en, s, t), _minmax(adjp, en, s, t)
            got = max(en[k] for k in p)
            if got > mc:
                fs.append(('path/not-minimal:minmax-energy',
                           f'minmax-energy: returned path has maximum energy {got / SC} but a path with maximum {mc / SC} exists {where}; '
                           'the method is rewritten to "dijkstra" before the min-max branch'))
            elif got > mp:
                fs.append((MISSING[0], MISSING[1] + f'minmax-energy: maximum {got / SC} but {mp / SC} is possible {where}'))
    # wrapped / fractional coordinates inside the grid
    for site, w, f in zip(case['sites'], out['wrapped'], out['frac']):
        if any(not (0 <= w[i] < dims[i]) or (w[i] - site[i]) % dims[i] for i in range(3)):
            fs.append(('path/wrapped-outside-grid', f'wrapped_sites maps {site} to {w} on grid {dims}'))
            break
        if any(not (0 <= f[i] < 1) for i in range(3)):
            fs.append(('path/frac-outside-cell', f'frac_sites maps {site} to {f} on grid {dims}'))
            break
    for pc, r in zip(case['percs'], out['percs']):
        td, ten = _tiled(case, pc['axes'])
        img = [dims[i] if 'xyz'[i] in pc['axes'] else 0 for i in range(3)]

        def best_over_peaks(tadj):
            best = None
            for k in pc['peaks']:
                s = _node(dims, k)
                si, ti = _idx(td, s), _idx(td, tuple(s[i] + img[i] for i in range(3)))
                d = _dijkstra(tadj, lambda u, v: ten[u] + ten[v], si)
                if ti in d:
                    tot2 = d[ti] + ten[si] + ten[ti]
                    best = tot2 if best is None else min(best, tot2)
            return best
        tadjp = _graph(td, ten, 10**7 * SC, True, MOVES26)
        bc, bp = best_over_peaks(_graph(td, ten, 10**7 * SC, True)), best_over_peaks(tadjp)
        if r.get('none'):
            if bc is not None:
                fs.append(('perc/none-but-exists', f'no percolating path returned although one exists (axes {pc["axes"]})'))
            elif bp is not None:
                fs.append((MISSING[0], MISSING[1] + f'no percolating path although one exists through corner neighbours (axes {pc["axes"]})'))
            continue
        p = [tuple(v) for v in r['sites']]
        if p[0] not in [_node(dims, k) for k in pc['peaks']] or p[-1] != tuple(p[0][i] + img[i] for i in range(3)):
            fs.append(('perc/endpoints', f'percolating path does not connect a peak to its image one cell away along {pc["axes"]}'))
            continue
        pi = [_idx(td, v) for v in p]
        if any(b not in tadjp[a] for a, b in zip(pi, pi[1:])):
            fs.append(('perc/invalid-step', 'percolating path has an invalid step'))
            continue
        tot2 = 2 * sum(ten[k] for k in pi)
        if tot2 != bc:
            fs.append(('perc/not-cheapest', f'percolating path total energy {tot2 / 16} but {bc / 16} is possible over the supplied peaks'))
        elif bp < bc:
            fs.append((MISSING[0], MISSING[1] + f'percolating path total energy {tot2 / 16} but {bp / 16} is possible (axes {pc["axes"]})'))
        if 'dims' in r and list(r['dims']) != list(dims):
            fs.append(('path/dims', f'the percolating path reports the grid {r["dims"]}, it was found on the grid {list(dims)} (after being drawn over the same cell sampled on another grid)'))
        if any(not (0 <= w[i] < dims[i]) or (w[i] - v[i]) % dims[i] for v, w in zip(p, r['wrapped']) for i in range(3)):
            fs.append(('path/wrapped-outside-grid', f'wrapped_sites of the percolating path leave the grid {dims}: {r["wrapped"][-1]} for {p[-1]}'))
        if any(not (0 <= x < 1) for f in r['frac'] for x in f):
            fs.append(('path/frac-outside-cell', 'frac_sites of the percolating path leave the unit cell'))
    return fs


def _N(dims, k):
    return 'N %s %s %s' % tuple(z(x) for x in _node(dims, k))


def _Nv(v):
    return '(N %s %s %s)' % tuple(z(x) for x in v)


def coq_term(case, out):
    if 'queries' not in out:
        return None
    dims, en, thr = case['dims'], case['en8'], case['thr8']
    nv = len(en)
    adj = _graph(dims, en, thr, case['diag'])
    el = clist(f'({_N(dims, a)}, {_N(dims, b)}, {z(int(round(w * 2 * SC)))})' for a, b, w, _ in out['edges'])
    qs = []
    for q, r in zip(case['queries'], out['queries']):
        crit = _crit(q['method'])
        s, t = q['s'], q['t']
        wexp, slack = '[]', 0
        if crit == 0:
            dist = _dijkstra(adj, lambda u, v: en[u] + en[v], s)
        elif crit == 1:
            dist = _dijkstra(adj, lambda u, v: 1, s)
        else:
            den = 2**60
            wt = {}
            for a, b, w, we in out['edges']:
                wt[(a, b)] = wt[(b, a)] = int(synth.frac_of_float(we) * den)
            dist = _dijkstra(adj, lambda u, v: wt[(u, v)], s)
            wexp = clist(f'({_N(dims, a)}, {_N(dims, b)}, {z(wt[(a, b)])})' for a, b, _, _ in out['edges'])
            slack = max(1, dist.get(t, 0) // 10**9)
        if r.get('nopath'):
            pot = [1 if k in dist else 0 for k in range(nv)]
            qs.append('{| q_crit := %d; q_s := %s; q_t := %s; q_reached := false; q_path := []; q_energy := []; q_pot := %s; q_wexp := []; q_slack := 0 |}'
                      % (crit, _N(dims, s), _N(dims, t), zlist(pot)))
            continue
        big = max(dist.values()) + 1 if dist else 1
        pot = [dist.get(k, big * 4 + 10**6) for k in range(nv)]      # unreachable nodes have no edges to reachable ones
        en_rep = [int(round(e * SC)) if e * SC == round(e * SC) else -777 for e in r['energy']]
        qs.append('{| q_crit := %d; q_s := %s; q_t := %s; q_reached := true; q_path := %s; q_energy := %s; q_pot := %s; q_wexp := %s; q_slack := %s |}'
                  % (crit, _N(dims, s), _N(dims, t), clist(_Nv(v) for v in r['sites']), zlist(en_rep), zlist(pot), wexp, z(slack)))
    ps = []
    for pc, r in zip(case['percs'], out['percs']):
        td, ten = _tiled(case, pc['axes'])
        tadj = _graph(td, ten, 10**7 * SC, True)
        img = [dims[i] if 'xyz'[i] in pc['axes'] else 0 for i in range(3)]
        pots = []
        for k in pc['peaks']:
            s = _node(dims, k)
            si, ti = _idx(td, s), _idx(td, tuple(s[i] + img[i] for i in range(3)))
            d = _dijkstra(tadj, lambda u, v: ten[u] + ten[v], si) if si in tadj else {}
            if ti in d:
                big = max(d.values()) + 1
                pots.append('(true, %s)' % zlist([d.get(j, big * 4 + 10**9) for j in range(len(ten))]))
            else:
                pots.append('(false, %s)' % zlist([1 if j in d else 0 for j in range(len(ten))]))
        ax = '(%s, %s, %s)' % tuple(cbool(c in pc['axes']) for c in 'xyz')
        peaks = clist(_N(dims, k) for k in pc['peaks'])
        if r.get('none'):
            ps.append('{| p_axes := %s; p_peaks := %s; p_found := false; p_path := []; p_energy := []; p_best := 0%%nat; p_pots := %s |}' % (ax, peaks, clist(pots)))
        else:
            start = tuple(r['sites'][0])
            best = [_node(dims, k) for k in pc['peaks']].index(start) if start in [_node(dims, k) for k in pc['peaks']] else 0
            ps.append('{| p_axes := %s; p_peaks := %s; p_found := true; p_path := %s; p_energy := %s; p_best := %s; p_pots := %s |}' % (
                ax, peaks, clist(_Nv(v) for v in r['sites']), zlist([int(round(e * SC)) for e in r['energy']]), nat(best), clist(pots)))
    wr = []
    dn = '(N %d %d %d)' % tuple(dims)
    for site, w, f in zip(case['sites'], out['wrapped'], out['frac']):
        fr = clist('(%s, %s)' % tuple(z(x) for x in synth.dyadic(v)) for v in f)
        wr.append(f'({dn}, {_Nv(site)}, {_Nv(w)}, {fr})')
    return ('{| g := {| dims := %s; energies := %s |}; thr := %s; diagonal := %s; n_edges := 0%%nat; impl_edges := %s; queries := %s; percs := %s; '
            'pthr := %s; wraps := %s |}') % (dn[1:-1].replace('N ', '(', 1).replace(' ', ', ') + ')' if False else '(%d, %d, %d)' % tuple(dims),
                                             zlist(en), z(thr), cbool(case['diag']), el, clist(qs), clist(ps), z(10**7 * SC), clist(wr))


def extra_coq(cases, outs, builddir):
    """interval certificates: the graph's weight_exp attribute is min(exp(weight), threshold)"""
    import os
    import subprocess
    from vcore import COQ
    seen = {}
    for c, o in zip(cases, outs):
        for a, b, w, we in o.get('edges', []):
            seen.setdefault((w, c['thr8']), we)
    items = sorted(seen.items())[:: max(1, len(seen) // 24)][:24]
    if not items:
        return []
    d = os.path.join(builddir, 'cert')
    os.makedirs(d, exist_ok=True)
    lines = ['From Coq Require Import Reals.', 'From Interval Require Import Tactic.', 'Open Scope R_scope.']
    q = lambda f: f'({f.numerator} / {f.denominator})' if f.denominator != 1 else f'{f.numerator}'
    for (w, thr8), we in items:
        wq, weq, tq = synth.frac_of_float(w), synth.frac_of_float(we), Fr(thr8, SC)
        tol = abs(weq) / 10**12
        if math.exp(w) < thr8 / SC:
            lines.append(f'Goal Rabs ({q(weq)} - exp {q(wq)}) <= {q(tol)}.')
        else:
            lines.append(f'Goal {q(weq)} = {q(tq)} /\\ {q(tq)} <= exp {q(wq)} + {q(tol)}.')
            lines.append('Proof. split; [lra|interval with (i_prec 100)]. Qed.')
            continue
        lines.append('Proof. interval with (i_prec 100). Qed.')
    path = os.path.join(d, 'CertExp.v')
    open(path, 'w').write('From Coq Require Import Lra.\n' + '\n'.join(lines) + '\n')
    pr = subprocess.run(['timeout', '600', 'coqc', '-R', COQ, 'GV', path], cwd=d, stdout=subprocess.PIPE, stderr=subprocess.STDOUT, text=True)
    ok = pr.returncode == 0
    return [(f'CertExp#{i}', ok, '' if ok else pr.stdout[-600:]) for i in range(len(items))]


def nontrivial(case, out):
    return any(len(r.get('sites', [])) > 3 for r in out.get('queries', [])) or any('sites' in r for r in out.get('percs', []))


def classify(case, out):
    tags = ['diag' if case['diag'] else 'faces-only']
    for q, r in zip(case['queries'], out.get('queries', [])):
        tags.append('method:' + q['method'])
        if r.get('nopath'):
            tags.append('no-path')
    for r in out.get('percs', []):
        tags.append('perc:none' if r.get('none') else 'perc:found')
    if min(case['dims']) <= 2:
        tags.append('axis-of-size-1-or-2')
    return tags


def sample(case, out):
    return {'dims': case['dims'], 'en8': case['en8'][:20], 'queries': case['queries'][:2], 'result': [r.get('sites') for r in out.get('queries', [])[:2]]}
