"""C07 -- results depend only on geometry: orientation, origin, labelling invariance."""
import math
import random
from fractions import Fraction as Fr

import numpy as np

import synth
from vcore import clist, z, zlist

TIE = 'Tie.C07'
DEN = 4096
SHARD = 25
LABELS = ['A', 'B']
KINDS = ['cubic', 'cubic', 'ortho', 'mono', 'tri', 'tri_full']
GUARD = 2e-5
RULE = ('cases = a system (Li atoms hopping between labelled sites + framework atoms, 12-30 frames, 2^-12 grid, 5 lattice classes) and four transformed copies: '
        'rigid rotation of the lattice matrix, common translation of atoms and sites by multiples of 1/8 (wrapping through faces), permutation of the atoms, '
        'permutation of the sites; on every copy the whole pipeline is run (states, events, jumps, matrix, jump diffusivity, collective counts, species RDF, metrics, '
        'density volume and free energy (for non-cubic cells on the rotated and permuted copies, at a resolution where the grid shape is robust), and for cubic cells also the translated copy and an optimal-path cost) and compared with the relabelled / rolled result of the original; the Coq tie checks '
        'the commuting square for the site states and the volume on exact geometry; systems with an atom-frame within 2e-5 of a sphere surface are skipped and counted; '
        'non-trivial = the original run has at least one jump')
TRUSTED = ['per-function ties of C02-C12 connect each stage to its model; this check adds the metamorphic comparison on the implementation']
ASSUMPTIONS = ['translations are multiples of 1/8 so that coordinates stay on the dyadic grid and (for 8-voxel grids) are whole voxels']


def gen_cases(rng, tier):
    n = {'quick': 36, 'thorough': 600, 'search': 24}[tier]
    cases = []
    while len(cases) < n:
        kind = rng.choice(KINDS)
        m = [[8, 0, 0], [0, 8, 0], [0, 0, 8]] if kind == 'cubic' else synth.int_lattice(rng, kind, maxK=2)
        ns = rng.randint(3, 5)
        pts = set()
        while len(pts) < ns:
            pts.add(tuple(rng.choice([0, 2, 5]) for _ in range(3)))     # well separated sites; no two coordinates differ by exactly half a cell (minimum image would be ambiguous)
        pts = sorted(pts)
        rng.shuffle(pts)
        # the site spheres (radius 0.9) must not overlap, otherwise the assignment is not unique and
        # need not be invariant under relabelling (the property claims uniqueness only then)
        Gm = synth.gram(m)
        if min(synth.min_image_d2(Gm, [Fr(p[k] - q[k], 8) for k in range(3)], 2) for i, p in enumerate(pts) for q in pts[:i]) <= Fr(361, 100):
            continue
        labels = [rng.choice(LABELS) for _ in range(ns)]
        nli, nfw = rng.randint(2, 3), rng.randint(1, 2)
        T = rng.choice([12, 20, 30])
        cur = rng.sample(range(ns), nli) if nli <= ns else [0] * nli
        # points in transit: farther than 1.5 A from every site (an atom may start, stay or end the run there)
        transit = []
        for _try in range(200):
            q = [rng.randint(0, 63) for _ in range(3)]
            if min(synth.min_image_d2(Gm, [Fr(q[k], 64) - Fr(p[k], 8) for k in range(3)], 2) for p in pts) > Fr(9, 4):
                transit.append([c * 64 for c in q])
                if len(transit) >= 4:
                    break
        p_transit = rng.choice([0.0, 0.15, 0.3]) if transit else 0.0
        for a in range(nli):
            if rng.random() < p_transit:
                cur[a] = -1
        # hand-over class: one atom ends the run in transit (an unfinished departure) and the atom listed after it starts the run in
        # transit and enters a site later -- state carried from one atom's event list into the next one's shows only here
        hand = rng.randrange(nli - 1) if transit and rng.random() < 0.4 else None
        if hand is not None:
            if cur[hand] == -1:
                cur[hand] = rng.choice([k for k in range(ns) if k not in cur])
            cur[hand + 1] = -1
        li = []
        for t in range(T):
            fr = []
            for a in range(nli):
                if hand is not None and ((a == hand and t >= T - 2) or (a == hand + 1 and t < 3)):
                    cur[a] = -1
                elif hand is not None and a == hand + 1 and t == 3:
                    cur[a] = rng.choice([k for k in range(ns) if k not in cur])
                elif hand is not None and a == hand and t == T - 3 and cur[a] == -1:
                    cur[a] = rng.choice([k for k in range(ns) if k not in cur])
                elif rng.random() < 0.25:
                    free = [k for k in range(ns) if k not in cur]
                    if rng.random() < p_transit:
                        cur[a] = -1
                    elif free:
                        cur[a] = rng.choice(free)
                if cur[a] == -1:
                    tp = transit[(a + t // 3) % len(transit)]
                    fr.append([tp[k] + rng.randint(-20, 20) for k in range(3)])
                else:
                    fr.append([pts[cur[a]][k] * 512 + rng.randint(-70, 70) for k in range(3)])
            li.append(fr)
        # every frame-to-frame step must stay clearly below half a cell in each component, otherwise unwrapping is ambiguous and
        # quantities built on displacements (metrics) need not be translation invariant (the tie hypothesis of C01)
        if any(abs(((li[t + 1][a][k] - li[t][a][k] + DEN // 2) % DEN) - DEN // 2) > 0.45 * DEN for t in range(T - 1) for a in range(nli) for k in range(3)):
            continue
        fw0 = [[rng.randint(0, DEN - 1) for _ in range(3)] for _ in range(nfw)]
        fw = [[[fw0[b][k] + rng.randint(-30, 30) for k in range(3)] for b in range(nfw)] for _ in range(T)]
        perm_a = list(range(nli))
        rng.shuffle(perm_a)
        perm_s = list(range(ns))
        rng.shuffle(perm_s)
        cases.append({'m': m, 'cubic': kind == 'cubic', 'sites8': [list(p) for p in pts], 'labels': labels, 'li': li, 'fw': fw, 'rseed': rng.randrange(10**6),
                      'shift8': [rng.randint(0, 7) for _ in range(3)], 'perm_a': perm_a, 'perm_s': perm_s, 'dict_radius': rng.random() < 0.5, 'site_scale': rng.choice([1.0, 1.0, 1.03])})
    return cases


def _pipeline(m, rot, li, fw, sites8, labels, cubic, dict_radius=False, site_scale=1.0, interleave=False):
    """run the real API; returns a dict of canonical results"""
    from gemdat.jumps import Jumps
    from gemdat.rdf import radial_distribution_between_species
    from pymatgen.core import Structure
    li = np.array(li, dtype=float) / DEN
    fw = np.array(fw, dtype=float) / DEN
    coords = np.concatenate([li, fw], axis=1)
    species = ['Li'] * li.shape[1] + ['S'] * fw.shape[1]
    if interleave:
        # atoms of the two species take turns in the atom list (S, Li, S, Li, ...): the relative order within each species is kept,
        # so every result indexed by diffusing atom or by species is unchanged
        a_li, a_fw = list(range(li.shape[1])), list(range(li.shape[1], coords.shape[1]))
        order = []
        while a_li or a_fw:
            if a_fw:
                order.append(a_fw.pop(0))
            if a_li:
                order.append(a_li.pop(0))
        coords = coords[:, order, :]
        species = [species[k] for k in order]
    traj = synth.make_traj(m, species, coords, rot=rot)
    lat = traj.get_lattice()
    # site structure in a slightly different cell than the simulation (same for the original and every transformed copy)
    from pymatgen.core import Lattice
    sites = Structure(lattice=Lattice(np.array(lat.matrix) * site_scale), species=['Li'] * len(sites8), coords=np.array(sites8, dtype=float) / 8, labels=labels)
    out = {}
    # the automatically chosen radius (a large vibration amplitude makes the spheres overlap, so it is set from the closest pair of sites)
    from gemdat.transitions import _compute_site_radius
    out['auto_radius'] = float(_compute_site_radius(trajectory=traj, sites=sites, vibration_amplitude=2.0))
    try:
        # the same radius given per label exercises the per-label search (group-local -> global site indices) under site permutations
        tr = traj.transitions_between_sites(sites, 'Li', site_radius={lab: 0.9 for lab in sorted(set(labels))} if dict_radius else 0.9)
    except ValueError as e:
        if 'at least one array' in str(e):
            return {'no_events': True}
        raise
    out['states'] = tr.states.tolist()
    out['pkdtree_disagrees'] = bool(synth.pkdtree_disagrees(lat, sites.frac_coords, np.array(traj.filter('Li').positions).reshape(-1, 3), [0.9]))
    out['events'] = sorted(tuple(int(v) for v in r) for r in tr.events.to_numpy())
    try:
        j = Jumps(tr)
        out['jumps'] = sorted(tuple(int(v) for v in r) for r in j.data[['atom index', 'start site', 'destination site', 'start time', 'stop time']].to_numpy())
        out['matrix'] = j.matrix().tolist()
        out['jdiff'] = float(j.jump_diffusivity(3))
        c = j.collective(max_dist=4.0)
        out['solo'] = int(c.n_solo_jumps)
        out['ncoll'] = int(c.n_coll_jumps)
    except ValueError as e:
        if 'No jumps found' not in str(e):
            raise
        out['jumps'] = []
    # per-state radial distributions: keyed by state names built from the site labels, so they may not depend on the order of sites or atoms
    srd = tr.radial_distribution(floating_specie='Li', max_dist=4.0, resolution=0.5)
    out['srdf'] = sorted([str(state), str(rr.label), [int(v) for v in rr.y]] for state, coll in srd.items() for rr in coll)
    r = radial_distribution_between_species(trajectory=traj, specie_1='Li', specie_2='S', max_dist=4.0, resolution=0.5)
    out['rdf'] = [float(v) for v in r.y]
    mt = traj.filter('Li').metrics()
    out['metrics'] = [float(mt.tracer_diffusivity(dimensions=3)), float(mt.particle_density()), float(mt.vibration_amplitude())]
    # centre-of-mass quantities of all atoms (two species of different mass): atoms passing through a cell face in one copy and not in another
    ma = traj.metrics()
    out['metrics'] += [float(ma.tracer_diffusivity_center_of_mass(dimensions=3)), float(ma.haven_ratio(dimensions=3))]
    res = 0.99 if cubic is True else cubic                    # cubic: 8 voxels per axis also when a rotated cell length is 7.999999999999999
    if res:
        vol = traj.filter('Li').to_volume(resolution=res)
        out['vol'] = vol.data.tolist()
        with np.errstate(divide='ignore'):
            fe = vol.get_free_energy(500.0)
        out['fe'] = fe.data.tolist()
        nz = np.argwhere(vol.data > 0)
        out['nz'] = nz.tolist()
    return out


def _generic_resolution(m):
    """a voxel resolution for which the grid shape of this (non-cubic) cell is robust against the last-bit changes of the cell lengths under rotation"""
    lengths = [math.sqrt(sum(c * c for c in row)) for row in m]
    for res in (0.7, 0.83, 0.61):
        if all(1e-6 < (L / res) % 1 < 1 - 1e-6 for L in lengths):
            return res
    return None


def _run(case):
    rot = synth.rotation(random.Random(case['rseed']))
    m, li, fw, s8, lab = case['m'], case['li'], case['fw'], case['sites8'], list(case['labels'])
    res = {}
    vm = case['cubic'] or _generic_resolution(m)        # True (cubic, 8^3 voxels) / resolution for a non-cubic cell / None
    vt = case['cubic'] or None                          # translated copy: only when the shift is a whole number of voxels (cubic 8^3 grid)
    res['base'] = _pipeline(m, None, li, fw, s8, lab, vm, case.get('dict_radius', False), case.get('site_scale', 1.0))
    res['rot'] = _pipeline(m, rot, li, fw, s8, lab, vm, case.get('dict_radius', False), case.get('site_scale', 1.0))
    sh = [c * 512 for c in case['shift8']]
    li_t = [[[p[k] + sh[k] for k in range(3)] for p in fr] for fr in li]
    fw_t = [[[p[k] + sh[k] for k in range(3)] for p in fr] for fr in fw]
    s8_t = [[(p[k] + case['shift8'][k]) % 8 for k in range(3)] for p in s8]
    res['trans'] = _pipeline(m, None, li_t, fw_t, s8_t, lab, vt, case.get('dict_radius', False), case.get('site_scale', 1.0))
    pa = case['perm_a']
    li_p = [[fr[pa[a]] for a in range(len(pa))] for fr in li]          # new atom a is old atom pa[a]
    res['perm_atoms'] = _pipeline(m, None, li_p, fw, s8, lab, vm, case.get('dict_radius', False), case.get('site_scale', 1.0))
    ps = case['perm_s']
    s8_p = [s8[ps[k]] for k in range(len(ps))]                          # new site k is old site ps[k]
    lab_p = [lab[ps[k]] for k in range(len(ps))]
    res['perm_sites'] = _pipeline(m, None, li, fw, s8_p, lab_p, vm, case.get('dict_radius', False), case.get('site_scale', 1.0))
    res['interleaved'] = _pipeline(m, None, li, fw, s8, lab, vm, case.get('dict_radius', False), case.get('site_scale', 1.0), interleave=True)
    res['nearface'] = _nearface(case)
    return res


def _nearface(case):
    """atoms a few millionths of a cell below planes k/8 of a cubic cell, so that the translated copy (shift in eighths) has them just below a
    cell face: positions must move by exactly the shift (modulo whole cells) and the density must be the rolled density"""
    import random
    rng = random.Random(case['rseed'] + 5)
    T, na = 4, 3
    base = np.array([[[rng.randint(0, 7) / 8 - rng.choice([1e-6, 3e-6, 5e-6, 9e-6, 2e-7]) for _k in range(3)] for _a in range(na)]])
    coords = base + np.array([[[1e-8 * t * (a + 1)] * 3 for a in range(na)] for t in range(T)])
    sh = np.array(case['shift8'], dtype=float) / 8
    cub = [[8, 0, 0], [0, 8, 0], [0, 0, 8]]
    tb = synth.make_traj(cub, ['Li'] * na, coords, mode='asis')
    tt = synth.make_traj(cub, ['Li'] * na, coords + sh[None, None, :], mode='asis')
    pb, pt = np.array(tb.positions), np.array(tt.positions)
    dev = float(np.abs(((pt - pb - sh[None, None, :] + 0.5) % 1) - 0.5).max())
    vb, vt = np.array(tb.to_volume(resolution=1.0).data), np.array(tt.to_volume(resolution=1.0).data)
    rolled = bool(vb.shape == vt.shape == (8, 8, 8) and np.array_equal(np.roll(vb, case['shift8'], axis=(0, 1, 2)), vt))
    return {'dev': dev, 'rolled': rolled, 'shape': list(vb.shape)}


def impl(case):
    res = _run(case)
    # optimal-path cost between two visited voxels, original and translated (cubic only)
    if case['cubic'] and 'fe' in res['base'] and 'fe' in res['trans']:
        from gemdat.path import free_energy_graph, optimal_path
        import networkx as nx
        nzv = res['base']['nz']
        if len(nzv) >= 2:
            # every pair among (up to) seven visited voxels spread over the list: the translated copy moves them through faces, edges and corners of the cell
            pick = [tuple(nzv[i]) for i in sorted({round(k * (len(nzv) - 1) / 6) for k in range(7)})]
            pairs = [(pick[i], pick[j]) for i in range(len(pick)) for j in range(i + 1, len(pick))]
            graphs = {}
            for key in ('base', 'trans'):
                graphs[key] = free_energy_graph(np.array(res[key]['fe']), max_energy_threshold=1e7, diagonal=True)
            allc = []
            for a, b in pairs:
                costs = []
                for key, shift in (('base', (0, 0, 0)), ('trans', tuple(case['shift8']))):
                    s = tuple((a[k] + shift[k]) % 8 for k in range(3))
                    t = tuple((b[k] + shift[k]) % 8 for k in range(3))
                    try:
                        costs.append(float(optimal_path(graphs[key], start=s, stop=t).total_energy))
                    except nx.NetworkXNoPath:
                        costs.append(None)
                allc.append(costs)
            res['path_costs_all'] = allc
            res['path_costs'] = allc[0]
    return res


def _relabel_sites(rows, inv, cols):
    return sorted(tuple(inv[v] if (i in cols and v >= 0) else v for i, v in enumerate(r)) for r in rows)


def _rdf_edge_guard(case):
    """True when some Li - atom distance lies within 1e-6 of a shell edge (k x 0.5 A): the bin decision is then not robust against the
    last-bit changes of rotated / translated copies"""
    G = synth.gram(case['m'])
    for li_fr, fw_fr in zip(case['li'], case['fw']):
        allp = li_fr + fw_fr
        for p in li_fr:
            for q in allp:
                d = math.sqrt(float(synth.min_image_d2(G, [Fr(p[k] - q[k], DEN) for k in range(3)], 2)))
                if d < 4.5 and abs(d / 0.5 - round(d / 0.5)) < 2e-6 and d > 1e-9:
                    return True
    return False


def _guard(case):
    """True when some Li atom-frame lies within the guard band of a site sphere (decision not robust in float32)"""
    G = synth.gram(case['m'])
    for fr in case['li']:
        for p in fr:
            for s in case['sites8']:
                d = math.sqrt(float(synth.min_image_d2(G, [Fr(p[k], DEN) - Fr(s[k], 8) for k in range(3)], 2)))
                if abs(d - 0.9) <= GUARD * 0.9 + 1e-7:
                    return True
    return False


def oracle(case, out):
    if 'base' not in out:
        return [('c07/harness-error', f"{out.get('error')}: {out.get('msg')} {out.get('tb', '')[-500:]}")]
    if any(v.get('no_events') for v in out.values() if isinstance(v, dict)) or _guard(case):
        return []
    if any(v.get('pkdtree_disagrees') for v in out.values() if isinstance(v, dict)):
        return [('sites/pkdtree-misses-neighbour', 'MDAnalysis PeriodicKDTree (float32) returns a different neighbour set than its own brute-force search on the original or '
                 f'a transformed copy of this system (lattice {case["m"]}, sites/8 {case["sites8"]}): the stage comparison is skipped')]
    fs = []
    b = out['base']
    ns = len(case['sites8'])
    ps, pa = case['perm_s'], case['perm_a']
    inv_s = {ps[k]: k for k in range(ns)}           # old site -> new site index
    inv_a = {pa[a]: a for a in range(len(pa))}      # old atom -> new atom index

    def cmp(kind, key, want, got, tol=None):
        if tol is None:
            ok = want == got
        else:
            ok = want is not None and got is not None
            if ok:
                wa, ga = np.array(want, dtype=float), np.array(got, dtype=float)
                ok = wa.shape == ga.shape and bool(np.allclose(wa, ga, rtol=tol, atol=1e-300))
                if wa.shape != ga.shape:
                    want, got = f'shape {wa.shape}', f'shape {ga.shape}'
        if not ok:
            fs.append((f'invariance/{kind}:{key}', f'{key} changes under {kind}: {str(got)[:120]} vs expected {str(want)[:120]} (lattice {case["m"]})'))

    nf = out.get('nearface')
    if nf:
        if not nf['dev'] <= 1e-9:
            fs.append(('invariance/trans:positions', f'atoms just below the planes k/8: after a translation by {case["shift8"]}/8 the reported positions are not the translated positions (off by {nf["dev"]} of a cell)'))
        if not nf['rolled']:
            fs.append(('invariance/trans:volume', f'atoms just below the planes k/8: the density of the copy translated by {case["shift8"]}/8 is not the rolled density (grid {nf["shape"]})'))
    for kind in ('rot', 'trans', 'perm_atoms', 'perm_sites', 'interleaved'):
        o = out[kind]
        st = np.array(b['states'])
        ev, jm = b['events'], b.get('jumps', [])
        mat = np.array(b['matrix']) if 'matrix' in b else None
        if kind == 'perm_atoms':
            st = st[:, pa]
            ev = sorted((inv_a[r[0]],) + r[1:] for r in ev)
            jm = sorted((inv_a[r[0]],) + r[1:] for r in jm)
        if kind == 'perm_sites':
            st = np.vectorize(lambda v: inv_s[v] if v >= 0 else v)(st)
            ev = _relabel_sites(ev, inv_s, (1, 2, 3, 4))
            jm = _relabel_sites(jm, inv_s, (1, 2))
            if mat is not None:
                mat = mat[np.ix_(ps, ps)]
        if 'auto_radius' in b and 'auto_radius' in o:
            cmp(kind, 'auto_radius', b['auto_radius'], o['auto_radius'], 1e-9)
        cmp(kind, 'states', st.tolist(), o.get('states'))
        cmp(kind, 'events', ev, o.get('events'))
        cmp(kind, 'jumps', jm, o.get('jumps'))
        if mat is not None:
            cmp(kind, 'matrix', mat.tolist(), o.get('matrix'))
            cmp(kind, 'jump_diffusivity', b['jdiff'], o.get('jdiff'), 1e-9)
            cmp(kind, 'collective', [b['solo'], b['ncoll']], [o.get('solo'), o.get('ncoll')])
        cmp(kind, 'rdf', b['rdf'], o.get('rdf'), 1e-9)
        if not _rdf_edge_guard(case):
            cmp(kind, 'state_rdf', b.get('srdf'), o.get('srdf'))
        cmp(kind, 'metrics', b['metrics'], o.get('metrics'), 1e-9)
        if 'vol' in b and (case['cubic'] or kind != 'trans'):
            v = np.array(b['vol'])
            f = np.array(b['fe'])
            if kind == 'trans':
                v = np.roll(v, case['shift8'], axis=(0, 1, 2))
                f = np.roll(f, case['shift8'], axis=(0, 1, 2))
            cmp(kind, 'volume', v.tolist(), o.get('vol'))
            cmp(kind, 'free_energy', f.tolist(), o.get('fe'), 1e-12)
    for c0, c1 in out.get('path_costs_all', [out['path_costs']] if 'path_costs' in out else []):
        if (c0 is None) != (c1 is None) or (c0 is not None and abs(c0 - c1) > 1e-9 * max(1.0, abs(c0))):
            fs.append(('invariance/trans:path-cost', f'optimal path cost changes under translation by {case["shift8"]}/8: {c0} vs {c1}'))
            break
    return fs


def coq_term(case, out):
    if 'base' not in out or any(v.get('no_events') for v in out.values() if isinstance(v, dict)) or _guard(case):
        return None
    if any(v.get('pkdtree_disagrees') for v in out.values() if isinstance(v, dict)):
        return None
    b = out['base']
    m = case['m']
    V = lambda v: '(P %s %s %s)' % tuple(z(int(x)) for x in v)
    Mx = '{| ra := %s; rb := %s; rc := %s |}' % tuple('(%s, %s, %s)' % tuple(z(x) for x in r) for r in m)
    r2 = Fr(81, 100) * DEN * DEN
    ps, pa = case['perm_s'], case['perm_a']
    ns = len(case['sites8'])
    inv_s = {ps[k]: k for k in range(ns)}
    st = np.array(b['states'])
    sh = [c * 512 for c in case['shift8']]
    geos = []

    def geo(sites8, li, states):
        pos = [V(p) for fr in li for p in fr]
        return '{| gM := %s; gK := 2; gsites := %s; gr2 := (%s, %s); gpos := %s; gstates := %s |}' % (
            Mx, clist(V([c * 512 for c in s]) for s in sites8), z(r2.numerator), z(r2.denominator), clist(pos), zlist([int(v) for v in states.reshape(-1)]))

    li = case['li']
    geos.append(geo(case['sites8'], li, st))                                            # rotation: same exact geometry
    li_t = [[[p[k] + sh[k] for k in range(3)] for p in fr] for fr in li]
    geos.append(geo([[(p[k] + case['shift8'][k]) % 8 for k in range(3)] for p in case['sites8']], li_t, st))
    li_p = [[fr[pa[a]] for a in range(len(pa))] for fr in li]
    geos.append(geo(case['sites8'], li_p, st[:, pa]))
    geos.append(geo([case['sites8'][ps[k]] for k in range(ns)], li, np.vectorize(lambda v: inv_s[v] if v >= 0 else v)(st)))
    if case['cubic'] and 'vol' in out['trans']:
        samples = clist('(%s, %s, %s)' % tuple(z(p[k] % DEN) for k in range(3)) for fr in li for p in fr)
        v = np.array(out['trans']['vol'])
        rolled = clist('((%s, %s, %s), %s)' % (z(i), z(j), z(k), z(int(v[i, j, k]))) for i, j, k in np.argwhere(v))
        vol = 'vdims := (8, 8, 8); vq := (512, 512, 512); vsamples := %s; vshift := (%s, %s, %s); vrolled := %s' % (
            samples, *[z(c) for c in case['shift8']], rolled)
    else:
        vol = 'vdims := (1, 1, 1); vq := (1, 1, 1); vsamples := []; vshift := (0, 0, 0); vrolled := []'
    return '{| D := %d; geos := %s; %s |}' % (DEN, clist(geos), vol)


def nontrivial(case, out):
    return isinstance(out.get('base'), dict) and bool(out['base'].get('jumps'))


def classify(case, out):
    tags = ['cubic' if case['cubic'] else 'non-cubic']
    if isinstance(out.get('base'), dict) and out['base'].get('no_events'):
        tags.append('no-events')
    if 'base' in out and _guard(case):
        tags.append('guard-band-skipped')
    if out.get('path_costs'):
        tags.append('path-cost-compared')
    return tags


def sample(case, out):
    b = out.get('base', {}) if isinstance(out.get('base'), dict) else {}
    return {'m': case['m'], 'sites8': case['sites8'], 'labels': case['labels'], 'shift8': case['shift8'], 'perm_sites': case['perm_s'],
            'n_jumps': len(b.get('jumps', [])), 'matrix': b.get('matrix')}
