"""C02 -- site assignment follows true minimum-image distance for every cell and radius."""
import itertools
import math
import random
from fractions import Fraction as Fr

import numpy as np

import synth
from vcore import cbool, clist, z, zlist

TIE = 'Tie.C02'
DEN = 4096
SHARD = 60
LABELS = ['A', 'B', 'C']
KINDS = ['cubic', 'ortho', 'mono', 'hexlike', 'hex', 'tri', 'tri_full']
GUARD = 2e-5      # relative; the KD-tree works in float32
RULE = ('cases = lattice (6 classes, integer matrices) x orientation (as given / rigidly rotated / rebuilt with Lattice.from_parameters) x site set (2-6 sites on the 1/8 '
        'grid incl. cell faces and corners, 1-3 labels incl. label groups with never-visited members) x 1-3 atoms x 3-8 frames placed near, between and far from '
        'sites and across cell faces x radius (float / per-label dict / automatic) x inner fraction; the model sees only the exact Gram matrix; atom-frames '
        'within 2e-5 (relative) of a sphere surface are excluded and counted; non-trivial = an assignment made across a cell face')
TRUSTED = ['MDAnalysis PeriodicKDTree is replaced in the model by an exact minimum-image search over a window proved sufficient (Geom.window_sufficient); '
           'float32 decisions are guard-banded']
ASSUMPTIONS = ['with user radii that make spheres overlap any site whose sphere contains the atom is an acceptable state; '
               'inner in {-1, outer} is demanded only when the outer assignment is unique']


def pre_build():
    import translate
    return [translate.gen_site_radius()]


def gen_cases(rng, tier):
    n = {'quick': 150, 'thorough': 3000, 'search': 100}[tier]
    cases = []
    while len(cases) < n:
        kind = rng.choice(KINDS)
        m = synth.int_lattice(rng, kind)
        ns = rng.randint(2, 6)
        pts = set()
        while len(pts) < ns:
            pts.add(tuple(rng.choice([0, 0, 1, 2, 3, 4, 5, 6, 7]) for _ in range(3)))
        pts = sorted(pts)
        rng.shuffle(pts)
        nl = rng.randint(1, 3)
        labels = [rng.randrange(nl) for _ in range(ns)]
        mode = rng.choice(['float', 'dict', 'dict', 'auto'])
        radius = {'float': rng.choice([0.6, 0.9, 1.3]), 'dict': {LABELS[k]: rng.choice([0.5, 0.8, 1.1, 1.4]) for k in sorted(set(labels))},
                  'auto': None}[mode]
        na, T = rng.randint(1, 3), rng.randint(3, 8)
        # atoms wander near a subset of the sites (so that some members of a label group are never visited)
        visit = rng.sample(range(ns), rng.randint(1, ns))
        pos = []
        for _t in range(T):
            fr = []
            for _a in range(na):
                k = rng.choice(visit)
                base = [c * 512 for c in pts[k]]
                spread = rng.choice([40, 150, 400, 900])
                fr.append([base[i] + rng.randint(-spread, spread) + DEN * rng.randint(-1, 1) for i in range(3)])
            pos.append(fr)
        if mode == 'auto' and rng.random() < 0.25:
            k0 = rng.randrange(len(pts))
            pts.append(tuple(c + (8 if i == 0 else 0) for i, c in enumerate(pts[k0])) if rng.random() < 0.5 else pts[k0])     # +1 cell along a, or verbatim
            labels.append(labels[k0] if rng.random() < 0.5 else rng.randrange(nl))
        cases.append({'m': m, 'orient': rng.choice(['asis', 'rot', 'params']), 'rseed': rng.randrange(10**6), 'sites8': [list(p) for p in pts],
                      'labels': labels, 'mode': mode, 'radius': radius, 'frac': rng.choice([1.0, 1.0, 0.8, 0.5]), 'pos': pos,
                      'site_scale': rng.choice([1.0, 1.0, 1.0, 0.96, 1.05])})
    # a large site set: more sites than a 16-bit (and an 8-bit) index can address
    for _k in range({'quick': 1, 'thorough': 3, 'search': 1}[tier]):
        n = 33
        idx = sorted({5, 127, 128, 255, 256, 1234, 32767, 32768, 33000, n**3 - 1, 0} | {rng.randrange(n**3) for _ in range(4)})
        cases.append({'many': {'n': n, 'idx': idx}, 'm': [[2 * n, 0, 0], [0, 2 * n, 0], [0, 0, 2 * n]], 'orient': 'asis', 'rseed': 0, 'sites8': [], 'labels': [],
                      'mode': 'float', 'radius': 0.4, 'frac': 0.5, 'pos': []})
    return cases


def _impl_many(case):
    """n^3 sites on a regular grid (spacing 2 A) of a cubic cell; atom a sits 0.1 A (inner) from site idx[a], one atom sits between sites"""
    from gemdat.transitions import _calculate_atom_states
    from pymatgen.core import Structure
    n, idx = case['many']['n'], case['many']['idx']
    g = np.array([[i, j, k] for i in range(n) for j in range(n) for k in range(n)], dtype=float) / n
    traj_pos = np.array([[g[i] + np.array([0.1 / (2 * n), 0, 0]) for i in idx] + [[0.5 / n, 0.5 / n, 0.5 / n]]] * 3)
    traj = synth.make_traj(case['m'], ['Li'] * traj_pos.shape[1], traj_pos, images=synth.image_seed(case))
    sites = Structure(lattice=traj.get_lattice(), species=['Li'] * len(g), coords=g, labels=['A'] * len(g))
    st = _calculate_atom_states(sites=sites, trajectory=traj, site_radius={'': case['radius']})
    inn = _calculate_atom_states(sites=sites, trajectory=traj, site_radius={'': case['radius']}, site_inner_fraction=case['frac'])
    return {'many_states': np.asarray(st).tolist(), 'many_inner': np.asarray(inn).tolist()}


def _lattice(case):
    from pymatgen.core import Lattice
    m = case['m']
    if case['orient'] == 'rot':
        return synth.make_lattice(m, rot=synth.rotation(random.Random(case['rseed'])))
    if case['orient'] == 'params':
        return Lattice.from_parameters(*synth.make_lattice(m).parameters)
    return synth.make_lattice(m)


def impl(case):
    if case.get('many'):
        return _impl_many(case)
    from gemdat.trajectory import Trajectory
    from gemdat.transitions import _compute_site_radius
    from gemdat.metrics import TrajectoryMetrics
    from pymatgen.core import Element, Structure
    lat = _lattice(case)
    pos = np.array(case['pos'], dtype=float) / DEN
    traj = Trajectory(species=[Element('Li')] * pos.shape[1], coords=pos, lattice=lat, time_step=2e-15, metadata={'temperature': 300})
    traj_li = traj
    if case['mode'] == 'auto' and case['rseed'] % 2 == 0:
        # a framework that hardly moves shares the cell: the automatic radius is that of the diffusing species, whatever else is in the cell
        fw = np.tile(np.array([[[0.123, 0.456, 0.789], [0.871, 0.214, 0.333]]]), (pos.shape[0], 1, 1)) + 1e-4 * np.sin(np.arange(pos.shape[0]))[:, None, None]
        traj = Trajectory(species=[Element('Li')] * pos.shape[1] + [Element('O')] * 2, coords=np.concatenate([pos, fw], axis=1), lattice=lat, time_step=2e-15,
                          metadata={'temperature': 300})
        traj_li = traj.filter('Li')
    # the site structure may come in a slightly different cell than the simulation (same fractional coordinates): distances are those of the simulation cell
    from pymatgen.core import Lattice
    slat = lat if case.get('site_scale', 1.0) == 1.0 else Lattice(np.array(lat.matrix) * case['site_scale'])
    sites = Structure(lattice=slat, species=['Li'] * len(case['sites8']), coords=np.array(case['sites8'], dtype=float) / 8,
                      labels=[LABELS[k] for k in case['labels']])
    out = {}
    import copy
    radius = copy.deepcopy(case['radius'])
    if case['mode'] == 'auto':
        amp = TrajectoryMetrics(traj_li).vibration_amplitude()
        try:
            out['vib'] = float(amp)
            out['auto_radius'] = float(_compute_site_radius(trajectory=traj, sites=sites, vibration_amplitude=amp))
        except ValueError as e:
            return {'too_close': str(e)[:80]}
    try:
        tr = traj.transitions_between_sites(sites, 'Li', site_radius=radius, site_inner_fraction=case['frac'])
        out['states'] = tr.states.tolist()
        out['inner'] = tr.inner_states.tolist()
        # derived views (previous / next site, per-state radial distributions) are computed in between: the state arrays read the same afterwards
        tr.states_prev(), tr.states_next()
        try:
            tr.radial_distribution(floating_specie='Li', max_dist=2.0, resolution=0.5)
        except Exception:
            pass
        out['states_stable'] = bool(np.array_equal(np.array(out['states']), tr.states) and np.array_equal(np.array(out['inner']), tr.inner_states))
        # the same argument objects are reused for a second analysis: same answer, arguments untouched
        out['radius_arg_changed'] = radius != case['radius']
        tr2 = traj.transitions_between_sites(sites, 'Li', site_radius=radius, site_inner_fraction=case['frac'])
        out['second_call_same'] = bool(np.array_equal(tr2.states, tr.states) and np.array_equal(tr2.inner_states, tr.inner_states))
        radius = copy.deepcopy(case['radius'])
    except ValueError as e:
        if 'too close' in str(e):
            return {'too_close': str(e)[:80]}
        if 'at least one array' not in str(e):
            raise
        # no atom ever changes state: the event table cannot be built (allowed by C03); observe the states directly
        from gemdat.transitions import _calculate_atom_states
        rd = radius if isinstance(radius, dict) else {'': radius if radius is not None else out['auto_radius']}
        out['states'] = _calculate_atom_states(sites=sites, trajectory=traj_li, site_radius=rd).tolist()
        out['inner'] = _calculate_atom_states(sites=sites, trajectory=traj_li, site_radius=rd, site_inner_fraction=case['frac']).tolist()
        out['no_events'] = True
    out['wrapped'] = (np.array(traj_li.positions) * DEN).tolist()
    rr = list(radius.values()) if isinstance(radius, dict) else [radius if radius is not None else out['auto_radius']]
    rr = rr + [r * case['frac'] for r in rr]
    out['pkdtree_disagrees'] = bool(synth.pkdtree_disagrees(lat, sites.frac_coords, np.array(traj_li.positions).reshape(-1, 3), rr))
    return out


def _K(m):
    K = 1
    while not synth.window_ok(m, K):
        K += 1
    return K


def _radii(case, out):
    if case['mode'] == 'float':
        return [case['radius']] * len(case['sites8'])
    if case['mode'] == 'dict':
        return [case['radius'][LABELS[k]] for k in case['labels']]
    return [out['auto_radius']] * len(case['sites8'])


_AN = {}


def _analyse(case, out):
    key = (id(case), id(out))
    if key not in _AN:
        _AN.clear()
        _AN[key] = _analyse0(case, out)
    return _AN[key]


def _analyse0(case, out):
    """exact distances; returns per atom-frame: admissible sets (outer, inner) and whether it is inside the guard band"""
    G = synth.gram(case['m'])
    K = _K(case['m'])
    rad = _radii(case, out)
    f = case['frac']
    res = []
    for fr in case['pos']:
        row = []
        for p in fr:
            adm_o, adm_i, guard = [], [], False
            for k, s in enumerate(case['sites8']):
                d2 = synth.min_image_d2(G, [Fr(p[i], DEN) - Fr(s[i], 8) for i in range(3)], K)
                d = math.sqrt(float(d2))
                for fac, lst in ((1.0, adm_o), (f, adm_i)):
                    r = rad[k] * fac
                    if abs(d - r) <= GUARD * max(r, 1e-9) + 1e-7:
                        guard = True
                    elif d < r:
                        lst.append(k)
            row.append((adm_o, adm_i, guard))
        res.append(row)
    return res


def oracle(case, out):
    if case.get('many'):
        if 'many_states' not in out:
            return [('c02/harness-error', f"{out.get('error')}: {out.get('msg')} {out.get('tb', '')[-500:]}")]
        want = case['many']['idx'] + [-1]
        for name in ('many_states', 'many_inner'):
            for t, row in enumerate(out[name]):
                if row != want:
                    k = next(i for i, (a, b) in enumerate(zip(row, want)) if a != b)
                    return [('sites/state-not-admissible', f'{case["many"]["n"]}^3 = {case["many"]["n"] ** 3} sites: the atom 0.1 A from site {want[k]} is assigned '
                             f'{"inner " if name == "many_inner" else ""}state {row[k]} (frame {t})')]
        return []
    pts_ = [tuple(c % 8 for c in p) for p in case['sites8']]
    # (a trajectory without any vibration gives the automatic radius 0: spheres of radius 0 do not overlap, nothing to reject)
    if case['mode'] == 'auto' and len(set(pts_)) < len(pts_) and not out.get('too_close') and not out.get('auto_radius') == 0.0:
        return [('sites/auto-radius-overlap', f'two listed sites coincide (sites/8 {case["sites8"]}): with the automatic radius their spheres overlap completely, yet no '
                 f'"too close" error was raised (radius {out.get("auto_radius")})')]
    if out.get('too_close'):
        return []
    if 'states' not in out:
        return [('c02/harness-error', f"{out.get('error')}: {out.get('msg')} {out.get('tb', '')[-500:]}")]
    fs = []
    if out.get('states_stable') is False:
        fs.append(('sites/states-changed-by-derived-view', 'Transitions.states / inner_states read differently after states_prev(), states_next() and radial_distribution() were called'))
    if out.get('radius_arg_changed'):
        fs.append(('sites/radius-argument-mutated', f'the site_radius argument {case["radius"]} was modified by the analysis (inner fraction {case["frac"]})'))
    if out.get('second_call_same') is False:
        fs.append(('sites/second-analysis-differs', f'a second analysis with the same argument objects gives different states (radius {case["radius"]}, inner fraction {case["frac"]})'))
    if case['mode'] == 'auto' and 'vib' in out:
        G = synth.gram(case['m'])
        K = _K(case['m'])
        pts = case['sites8']
        dmin = math.sqrt(float(min(synth.min_image_d2(G, [Fr(p[k] - q[k], 8) for k in range(3)], K) for i, p in enumerate(pts) for q in pts[:i])))
        want = 2 * out['vib'] if not dmin < 4 * out['vib'] else 0.5 * dmin - 0.005
        if abs(out['auto_radius'] - want) > 1e-9 * max(1.0, want):
            fs.append(('sites/auto-radius-formula', f'automatic radius {out["auto_radius"]} but vibration amplitude {out["vib"]} and smallest site distance {dmin} give {want}'))
    an = _analyse(case, out)
    D19 = ('sites/pkdtree-misses-neighbour', 'MDAnalysis PeriodicKDTree (float32) returns a different neighbour set than its own brute-force search for this configuration '
           '(a site exactly on a face of a skewed cell is wrapped to an image outside the primary cell): ')
    where = f'lattice {case["m"]} ({case["orient"]}), sites/8 {case["sites8"]}, labels {case["labels"]}, radius {case["radius"] if case["mode"] != "auto" else out["auto_radius"]}'
    for t, row in enumerate(an):
        for a, (adm_o, adm_i, guard) in enumerate(row):
            if guard:
                continue
            st, inn = out['states'][t][a], out['inner'][t][a]
            if out.get('pkdtree_disagrees') and ((adm_o and st not in adm_o) or (not adm_o and st != -1) or (adm_i and inn not in adm_i) or (not adm_i and inn != -1)):
                fs.append((D19[0], D19[1] + f'atom {a} frame {t}: state {st} / inner {inn}, admissible {adm_o} / {adm_i}; {where}'))
                return fs
            if (adm_o and st not in adm_o) or (not adm_o and st != -1):
                fs.append(('sites/state-not-admissible', f'atom {a} frame {t} at {case["pos"][t][a]}/4096: state {st}, sites whose sphere contains it: {adm_o}; {where}'))
                return fs
            if (adm_i and inn not in adm_i) or (not adm_i and inn != -1):
                fs.append(('sites/inner-state-not-admissible', f'atom {a} frame {t}: inner state {inn}, admissible {adm_i} (fraction {case["frac"]}); {where}'))
                return fs
            if len(adm_o) == 1 and inn not in (-1, st):
                fs.append(('sites/inner-not-outer', f'atom {a} frame {t}: inner {inn} outer {st}'))
                return fs
            if case['mode'] == 'auto' and len(adm_o) > 1:
                fs.append(('sites/auto-radius-overlap', f'automatic radius {out["auto_radius"]} lets spheres {adm_o} overlap; {where}'))
                return fs
    return fs


def _rat(x):
    f = Fr(x) if isinstance(x, Fr) else synth.frac_of_float(x)
    return f'({z(f.numerator)}, {z(f.denominator)})'


def coq_term(case, out):
    if 'states' not in out or out.get('pkdtree_disagrees'):
        return None          # known finding D19: the search backend itself is inconsistent on this configuration (counted as excluded)
    an = _analyse(case, out)
    m = case['m']
    rad = _radii(case, out)
    r2 = clist(_rat(synth.frac_of_float(r) ** 2 * DEN * DEN) for r in rad)
    pos, st, inn = [], [], []
    for t, fr in enumerate(case['pos']):
        for a, p in enumerate(fr):
            pos.append('P %s %s %s' % tuple(z(v) for v in p))
            g = an[t][a][2]
            st.append(-99 if g else out['states'][t][a])
            inn.append(-99 if g else out['inner'][t][a])
    V = lambda v: '(%s, %s, %s)' % tuple(z(x) for x in v)
    M = '{| ra := %s; rb := %s; rc := %s |}' % (V(m[0]), V(m[1]), V(m[2]))
    sites = clist('P %s %s %s' % tuple(z(c * 512) for c in s) for s in case['sites8'])
    return '{| D := %d; M := %s; K := %d; sites := %s; r2 := %s; f2 := %s; pos := %s; states := %s; inner := %s; disjoint_claim := %s |}' % (
        DEN, M, _K(m), sites, r2, _rat(synth.frac_of_float(case['frac']) ** 2), clist(pos), zlist(st), zlist(inn), cbool(case['mode'] == 'auto'))


def nontrivial(case, out):
    if 'states' not in out:
        return False
    w = np.array(out['wrapped'])
    st = np.array(out['states'])
    for t in range(st.shape[0]):
        for a in range(st.shape[1]):
            k = st[t][a]
            if k >= 0:
                s = np.array(case['sites8'][k]) * 512
                if (np.abs(w[t][a] - s) > DEN / 2).any():
                    return True
    return False


def classify(case, out):
    if case.get('many'):
        return [f'large-site-set({case["many"]["n"] ** 3} sites)']
    tags = [f'orient={case["orient"]}', f'mode={case["mode"]}', f'frac={case["frac"]}']
    if out.get('too_close'):
        tags.append('sites-too-close-error')
    if 'states' in out:
        an = _analyse(case, out)
        tags += ['guard-band-excluded'] * sum(1 for row in an for x in row if x[2])
        visited = {k for row in out['states'] for k in row if k >= 0}
        for lab in set(case['labels']):
            grp = [k for k, l in enumerate(case['labels']) if l == lab]
            if any(k in visited for k in grp) and any(k not in visited for k in grp):
                tags.append('label-group-with-unvisited-member')
                break
    return tags


def sample(case, out):
    return {'m': case['m'], 'orient': case['orient'], 'sites8': case['sites8'], 'labels': case['labels'], 'radius': case['radius'],
            'pos0': case['pos'][0] if case['pos'] else case.get('many'), 'states0': out.get('states', [None])[0]}
