"""C18 -- orientation vectors are minimum-image bonds; transforms/autocorrelation exact."""
import math
import os
import random
import subprocess
from fractions import Fraction as Fr

import numpy as np

import synth
from vcore import COQ, clist, z

TIE = 'Tie.C18'
DEN = 1024
SHARD = 30
KINDS = ['cubic', 'ortho', 'mono', 'hex', 'tri', 'tri_full']
GROUPS = ['1', '-1', '2', 'm', '2/m', '222', 'mm2', 'mmm', '4', '-4', '4/m', '422', '4mm', '-42m', '4/mmm', '23', 'm-3', '432', '-43m', 'm-3m']
RULE = ('cases = 1-2 tetrahedral centre/satellite clusters (P with 4 S, bond 1.4-1.7 A, random orientation, slow rotation over 3-8 frames, positions on the '
        '2^-10 grid) placed anywhere in the cell incl. next to faces so that bonds cross them, in 5 lattice classes (integer matrices; cells large enough that '
        'the bond is well below half the cell width) x all 20 non-hexagonal point groups (operation matrices exported from pymatgen, orthogonality and closure '
        'under transpose checked in Coq) on integer test vectors x integer 3x3 transform matrices; autocorrelation compared with the definition and with an '
        'independent re-implementation; spherical representation inverted with interval certificates; non-trivial = at least one bond crossing a cell face')
TRUSTED = ['pymatgen point-group tables are imported per case; numpy FFT is not verified (known finding D15 concerns its use)',
           'Interval tactic for the spherical round-trip certificates']
ASSUMPTIONS = ['bond length well below half the smallest perpendicular cell width (hypothesis of the property)']


def _tetra(rng):
    v = np.array([[1, 1, 1], [1, -1, -1], [-1, 1, -1], [-1, -1, 1]], dtype=float) / math.sqrt(3)
    return v @ synth.rotation(rng).T


def pre_build():
    import translate
    return [translate.gen_bond_wrap(), translate.gen_bond_match_shape()]


def gen_cases(rng, tier):
    n = {'quick': 70, 'thorough': 1400, 'search': 50}[tier]
    cases = []
    while len(cases) < n:
        kind = rng.choice(KINDS)
        m = synth.int_lattice(rng, kind, maxK=2)
        M = np.array(m, dtype=float)
        det = abs(np.linalg.det(M))
        widths = [det / np.linalg.norm(np.cross(M[(i + 1) % 3], M[(i + 2) % 3])) for i in range(3)]
        bond = rng.uniform(1.4, 1.7)
        if min(widths) < 4.6 * bond:
            m = (np.array(m) * 2).tolist()
            M = M * 2
        nc = rng.randint(1, 2)
        T = rng.randint(3, 8)
        centres = [[rng.choice([0.02, 0.5, 0.97, rng.random()]) for _ in range(3)] for _ in range(nc)]
        if nc == 2:
            centres[1] = [(centres[0][k] + 0.5) % 1 for k in range(3)]
        Minv = np.linalg.inv(M)
        frames = []
        base = [_tetra(rng) * bond for _ in range(nc)]
        # satellite-species atoms that belong to no centre (another molecule of the same element), listed BEFORE the bonded ones
        decoys = []
        for _try in range(40 if rng.random() < 0.5 else 0):
            q = [rng.random() for _ in range(3)]
            far = True
            for c in centres:
                dv = np.array([(q[k] - c[k] + 0.5) % 1 - 0.5 for k in range(3)]) @ M
                # all 27 neighbouring images, generously
                if min(np.linalg.norm(dv + np.array([i, j, l]) @ M) for i in (-1, 0, 1) for j in (-1, 0, 1) for l in (-1, 0, 1)) < 2.6 * bond:
                    far = False
            if far:
                decoys.append([int(round(x * DEN)) % DEN for x in q])
                if len(decoys) == 2:
                    break
        for t in range(T):
            cents, sats = [], [list(dq) for dq in decoys]
            for c in range(nc):
                cc = [(centres[c][k] + 0.003 * t * (k + 1)) % 1 for k in range(3)]
                cents.append([int(round(x * DEN)) % DEN for x in cc])
                ang = 0.05 * t
                R = np.array([[math.cos(ang), -math.sin(ang), 0], [math.sin(ang), math.cos(ang), 0], [0, 0, 1]])
                for v in base[c] @ R.T:
                    f = v @ Minv
                    sats.append([int(round((cents[-1][k] / DEN + f[k]) * DEN)) % DEN for k in range(3)])
            frames.append([cents, sats])
        vecs = [[rng.randint(-5, 5) for _ in range(3)] for _ in range(rng.randint(1, 4))]
        tm = [[rng.randint(-3, 3) for _ in range(3)] for _ in range(3)]
        cases.append({'m': m, 'frames': frames, 'group': rng.choice(GROUPS), 'vecs': vecs, 'tmat': tm, 'aseed': rng.randrange(10**6), 'plots': rng.random() < 0.15,
                      'images': rng.randrange(10**6) if rng.random() < 0.3 else None})
    # a large system: more centre atoms than an 8-bit index can address and more than 256 satellites (oracle only)
    cases.append({'big': {'grid': [7, 6, 7], 'bond': 1.5, 'seed': rng.randrange(10**6)}, 'm': [[42, 0, 0], [0, 36, 0], [0, 0, 42]], 'frames': [], 'group': 'mmm', 'vecs': [], 'tmat': []})
    return cases


def _impl_big(case):
    """7 x 6 x 7 = 294 tetrahedral clusters on a 6 A grid of an orthorhombic cell (some bonds cross the faces); every vector must be a bond"""
    from gemdat.orientations import Orientations
    b = case['big']
    rr = np.random.default_rng(b['seed'])
    g = np.array([[i, j, k] for i in range(b['grid'][0]) for j in range(b['grid'][1]) for k in range(b['grid'][2])], dtype=float)
    M = np.array(case['m'], dtype=float)
    cents = (g * 6.0 + 0.3) / np.diag(M)
    tet = np.array([[1, 1, 1], [1, -1, -1], [-1, 1, -1], [-1, -1, 1]], dtype=float) / math.sqrt(3) * b['bond']
    T = 3
    frames = []
    for t in range(T):
        ang = 0.07 * t
        R = np.array([[math.cos(ang), -math.sin(ang), 0], [math.sin(ang), math.cos(ang), 0], [0, 0, 1]])
        sats = (cents[:, None, :] + ((tet @ R.T) / np.diag(M))[None, :, :]).reshape(-1, 3)
        frames.append(np.mod(np.concatenate([cents, sats], axis=0), 1))
    nc = len(cents)
    traj = synth.make_traj(case['m'], ['P'] * nc + ['S'] * (4 * nc), np.array(frames))
    ori = Orientations(trajectory=traj, center_type='P', satellite_type='S')
    vec = np.array(ori.vectors)
    return {'big_shape': list(vec.shape), 'big_lengths_minmax': [float(np.linalg.norm(vec, axis=-1).min()), float(np.linalg.norm(vec, axis=-1).max())], 'n_centres': nc}


def _autocorr_def(v):
    """time-origin averaged dot product, normalised at lag 0; v: (T, n, 3)"""
    T = v.shape[0]
    out = np.zeros((v.shape[1], T))
    for tau in range(T):
        out[:, tau] = np.einsum('tni,tni->n', v[: T - tau], v[tau:]) / (T - tau)
    return out / out[:, :1]


def _autocorr_as_coded(v):
    """independent re-implementation of what the code computes (zero-padded rfft of length 2T-1, inverse of default length 2T-2)"""
    T = v.shape[0]
    acc = np.zeros((v.shape[1], T))
    for c in range(3):
        f = np.fft.rfft(v[:, :, c], n=2 * T - 1, axis=0)
        p = np.abs(f) ** 2
        a = np.fft.irfft(p, axis=0)[:T]
        acc += a.T / np.arange(T, 0, -1)
    return acc / acc[:, :1]


def impl(case):
    if case.get('big'):
        return _impl_big(case)
    from gemdat.orientations import Orientations
    from gemdat.utils import cartesian_to_spherical, fft_autocorrelation
    from pymatgen.symmetry.groups import PointGroup
    frames = case['frames']
    nc, ns = len(frames[0][0]), len(frames[0][1])
    coords = np.array([f[0] + f[1] for f in frames], dtype=float) / DEN
    traj = synth.make_traj(case['m'], ['P'] * nc + ['S'] * ns, coords, images=case.get('images'))
    guard = synth.InputGuard(trajectory=traj)
    ori = Orientations(trajectory=traj, center_type='P', satellite_type='S')
    if case.get('plots'):
        synth.call_plots(ori, ['plot_rectilinear', 'plot_polar', 'plot_bond_length_distribution', 'plot_autocorrelation'])
    lat = traj.get_lattice()
    vec = np.array(ori.vectors)
    frac = lat.get_fractional_coords(vec.reshape(-1, 3)).reshape(vec.shape)
    out = {'frac': (frac * DEN).tolist(), 'lengths': np.linalg.norm(vec, axis=-1).tolist()}
    nrm = np.array(ori.normalize().vectors)
    ori.transform(np.eye(3) * 2.0)
    ori.symmetrize(sym_group='mmm')
    _ = ori.vectors_spherical
    out['source_unchanged'] = bool(np.array_equal(np.array(ori.vectors), vec))
    out['norm_ok'] = bool(np.allclose(np.linalg.norm(nrm, axis=-1), 1, atol=1e-12)
                          and np.allclose(nrm * np.linalg.norm(vec, axis=-1, keepdims=True), vec, atol=1e-12))
    # symmetrize / transform on integer vectors
    iv = np.array(case['vecs'], dtype=float).reshape(1, -1, 3)
    o2 = Orientations(trajectory=traj, center_type='P', satellite_type='S', in_vectors=iv)
    sym = o2.symmetrize(sym_group=case['group']).vectors
    g = PointGroup(case['group'])
    opsm = [np.rint(e.rotation_matrix).astype(int).tolist() for e in g.symmetry_ops]
    nops = len(opsm)
    out['ops'] = opsm
    out['sym'] = sym.reshape(len(case['vecs']), nops, 3).tolist()
    # explicit operations override a group name given along with them (the documented meaning of passing both)
    ops_arr = np.array(opsm, dtype=float).transpose(1, 2, 0)
    other = 'm-3m' if case['group'] != 'm-3m' else '2/m'
    only = o2.symmetrize(sym_ops=ops_arr).vectors
    both = o2.symmetrize(sym_group=other, sym_ops=ops_arr).vectors
    out['sym_ops_ok'] = bool(only.shape == sym.shape and np.array_equal(only, sym))
    out['sym_both_ok'] = bool(both.shape == only.shape and np.array_equal(both, only))
    tm = np.array(case['tmat'], dtype=float)
    out['tout'] = o2.transform(tm).vectors.reshape(-1, 3).tolist()
    # spherical representation and autocorrelation of the bond vectors
    sph = cartesian_to_spherical(vec, degrees=True)
    special = np.array([[0, 0, 1.5], [0, 0, -2.0], [1.0, 0, 0], [-1.0, 0, 0], [0, 2.0, 0], [0, -1.0, 0], [0, 1.0, 1.0], [1.0, 0, -1.0], [-1.0, -1.0, 0]]
                       + [[float(c) for c in v] for v in case['vecs'] if any(v)])
    sph_s = cartesian_to_spherical(special.reshape(1, -1, 3), degrees=True).reshape(-1, 3)
    out['sph'] = sph.reshape(-1, 3)[:3].tolist() + sph_s.tolist()
    out['cart'] = vec.reshape(-1, 3)[:3].tolist() + special.tolist()
    ac = ori.autocorrelation()
    out['ac'] = np.asarray(ac).tolist()
    out['ac_def'] = _autocorr_def(vec).tolist()
    out['ac_coded'] = _autocorr_as_coded(vec).tolist()
    out['inputs_changed'] = guard.changed()
    return out


def _exact_bonds(case):
    """exact expected fractional bond numerators per frame using the frame-0 matching and exact minimum images"""
    G = synth.gram(case['m'])
    c0, s0 = case['frames'][0]
    d2 = [[synth.min_image_d2(G, [Fr(s[k] - c[k], DEN) for k in range(3)], 2) for s in s0] for c in c0]
    dmin = min(min(r) for r in d2)
    match = [[j for j in range(len(s0)) if 4 * d2[i][j] < 9 * dmin][:4] for i in range(len(c0))]
    res, crosses = [], False
    for cents, sats in case['frames']:
        fr = []
        for i, c in enumerate(cents):
            for j in match[i]:
                v = []
                for k in range(3):
                    d = sats[j][k] - c[k]
                    if abs(2 * d) > DEN:
                        crosses = True
                    d = d - DEN if 2 * d > DEN else d + DEN if 2 * d < -DEN else d
                    v.append(d)
                fr.append(v)
        res.append(fr)
    return res, crosses, match


def oracle(case, out):
    if case.get('big'):
        if 'big_shape' not in out:
            return [('c18/harness-error', f"{out.get('error')}: {out.get('msg')} {out.get('tb', '')[-500:]}")]
        fs = []
        if out['big_shape'] != [3, 4 * out['n_centres'], 3]:
            fs.append(('orient/not-minimum-image-bond', f'{out["n_centres"]} centres with 4 satellites each over 3 frames give vectors of shape {out["big_shape"]}'))
        lo, hi = out['big_lengths_minmax']
        if abs(lo - case['big']['bond']) > 1e-6 or abs(hi - case['big']['bond']) > 1e-6:
            fs.append(('orient/length-not-periodic-distance', f'{out["n_centres"]} clusters with bond length {case["big"]["bond"]}: vector lengths range from {lo} to {hi}'))
        return fs
    if 'frac' not in out:
        return [('c18/harness-error', f"{out.get('error')}: {out.get('msg')} {out.get('tb', '')[-500:]}")]
    fs = synth.inputs_clause(out, 'Orientations')
    G = synth.gram(case['m'])
    want, _, match = _exact_bonds(case)
    got = np.array(out['frac'])
    if got.shape != np.array(want).shape or np.abs(got - np.array(want)).max() > 1e-6:
        fs.append(('orient/not-minimum-image-bond', f'orientation vectors differ from the minimum-image centre-satellite vectors (lattice {case["m"]})'))
    else:
        # lengths equal the periodic distances
        for t, (cents, sats) in enumerate(case['frames']):
            k = 0
            for i, c in enumerate(cents):
                for j in match[i]:
                    d = math.sqrt(float(synth.min_image_d2(G, [Fr(sats[j][q] - c[q], DEN) for q in range(3)], 2)))
                    if abs(out['lengths'][t][k] - d) > 1e-9:
                        fs.append(('orient/length-not-periodic-distance', f'bond length {out["lengths"][t][k]} but periodic distance {d}'))
                        return fs
                    k += 1
    if not out.get('source_unchanged', True):
        fs.append(('orient/derived-call-mutates-source', 'normalize()/transform()/symmetrize() changed the vectors of the object they were called on'))
    if not out['norm_ok']:
        fs.append(('orient/normalize', 'normalize() does not give unit vectors with the same directions'))
    ops = [np.array(o) for o in out['ops']]
    for v, grp in zip(case['vecs'], out['sym']):
        wantg = sorted(tuple(int(x) for x in o @ np.array(v)) for o in ops)
        gotg = sorted(tuple(int(round(x)) for x in w) for w in grp)
        if wantg != gotg or np.abs(np.array(grp) - np.rint(grp)).max() > 1e-9:
            fs.append(('orient/symmetrize', f'symmetrize({case["group"]}) of {v} is not the set of its images under the group'))
            break
    if out.get('sym_ops_ok') is False:
        fs.append(('orient/symmetrize', f'symmetrize(sym_ops=operations of {case["group"]}) differs from symmetrize(sym_group={case["group"]!r})'))
    if out.get('sym_both_ok') is False:
        fs.append(('orient/symmetrize', f'symmetrize(sym_group=<another group>, sym_ops=operations of {case["group"]}) does not use the operations given (they override the name)'))
    tw = (np.array(case['tmat']) @ np.array(case['vecs']).T).T.tolist()
    if not np.allclose(out['tout'], tw, atol=1e-9):
        fs.append(('orient/transform', 'transform(matrix) is not the matrix applied to every vector'))
    for (az, el, r), (x, y, zz) in zip(out['sph'], out['cart']):
        a, e = math.radians(az), math.radians(el)
        back = (r * math.cos(e) * math.cos(a), r * math.cos(e) * math.sin(a), r * math.sin(e))
        if max(abs(back[0] - x), abs(back[1] - y), abs(back[2] - zz)) > 1e-9:
            fs.append(('orient/spherical-not-invertible', f'spherical {(az, el, r)} does not map back to {(x, y, zz)}'))
            break
    ac, acd, acc = np.array(out['ac']), np.array(out['ac_def']), np.array(out['ac_coded'])
    if not np.allclose(ac, acc, atol=1e-9):
        fs.append(('autocorr/changed-behaviour', 'autocorrelation differs from the zero-padded rfft(2T-1)/irfft(default length) computation it is known to perform'))
    elif not np.allclose(ac, acd, atol=1e-9):
        fs.append(('autocorr/not-definition', f'autocorrelation differs from the time-origin-averaged dot product by up to {np.abs(ac - acd).max():.3g} '
                   f'(T = {ac.shape[1]}): np.fft.irfft is called without n = 2T-1'))
    return fs


def coq_term(case, out):
    if 'frac' not in out or case.get('big'):
        return None
    V = lambda v: '(P %s %s %s)' % tuple(z(int(x)) for x in v)
    Mx = lambda m: '(Mx %s %s %s)' % tuple(V(r) for r in m)
    got = np.array(out['frac'])
    rg = np.rint(got)
    if np.abs(got - rg).max() > 1e-6:
        rg = np.full_like(rg, -777)
    frames = clist('(%s, %s)' % (clist(V(c) for c in f[0]), clist(V(s) for s in f[1])) for f in case['frames'])
    sym = clist(clist(V(np.rint(w)) for w in grp) for grp in out['sym'])
    return '{| D := %d; M := %s; K := 2; frames := %s; vectors := %s; ops := %s; in_vectors := %s; sym_out := %s; tmat := %s; t_out := %s |}' % (
        DEN, Mx(case['m']), frames, clist(clist(V(v) for v in fr) for fr in rg), clist(Mx(o) for o in out['ops']),
        clist(V(v) for v in case['vecs']), sym, Mx(case['tmat']), clist(V(np.rint(v)) for v in out['tout']))


def extra_coq(cases, outs, builddir):
    """interval certificates: the spherical representation (degrees) maps back to the Cartesian vector"""
    items = []
    for o in outs:
        if 'sph' in o and len(items) < 12:
            items.append((o['sph'][0], o['cart'][0]))
    if not items:
        return []
    d = os.path.join(builddir, 'cert')
    os.makedirs(d, exist_ok=True)
    q = lambda x: (lambda f: f'({f.numerator} / {f.denominator})' if f.denominator != 1 else f'({f.numerator})')(synth.frac_of_float(x))
    lines = ['From Coq Require Import Reals.', 'From Interval Require Import Tactic.', 'Open Scope R_scope.']
    for (az, el, r), (x, y, zz) in items:
        A, E = f'({q(az)} * PI / 180)', f'({q(el)} * PI / 180)'
        lines.append(f'Goal Rabs ({q(r)} * cos {E} * cos {A} - {q(x)}) <= 1 / 1000000000 /\\ Rabs ({q(r)} * cos {E} * sin {A} - {q(y)}) <= 1 / 1000000000 '
                     f'/\\ Rabs ({q(r)} * sin {E} - {q(zz)}) <= 1 / 1000000000.')
        lines.append('Proof. repeat split; interval with (i_prec 100). Qed.')
    path = os.path.join(d, 'CertSph.v')
    open(path, 'w').write('\n'.join(lines) + '\n')
    pr = subprocess.run(['timeout', '600', 'coqc', '-R', COQ, 'GV', path], cwd=d, stdout=subprocess.PIPE, stderr=subprocess.STDOUT, text=True)
    ok = pr.returncode == 0
    return [(f'CertSph#{i}', ok, '' if ok else pr.stdout[-600:]) for i in range(len(items))]


def nontrivial(case, out):
    if case.get('big'):
        return True
    return _exact_bonds(case)[1]


def classify(case, out):
    if case.get('big'):
        return ['large-system(294 clusters)']
    return ['group:' + case['group'], f'T={len(case["frames"])}', f'clusters={len(case["frames"][0][0])}']


def sample(case, out):
    if case.get('big'):
        return {'big': case['big'], 'out': out}
    return {'m': case['m'], 'group': case['group'], 'frame0': case['frames'][0], 'vectors0': out.get('frac', [None])[0]}
