"""C16 -- trajectory caching is faithful and survives an interrupted cache write."""
import os
import pathlib
import pickle
import shutil
import tempfile

import numpy as np

import synthfiles
import translate
from vcore import cbool, clist, z

TIE = 'Tie.C16'
CASE_TIMEOUT = 90
RULE = ('fault enumeration: (a) EVERY prefix length of the real cache file of a synthetic LAMMPS run and of a synthetic vasprun.xml '
        '(quick: every length for LAMMPS, every 7th + the last 40 for vasprun; thorough: every length for both and for 3 file variants), '
        'plus empty and garbage files; (b) random fault/recover cycles (Load with varying arguments, Crash k, Garbage, Remove) compared '
        'with the Coq model; (c) loader argument pairs that differ in one parser option sharing a directory; (d) to_cache/from_cache round trip; '
        'non-trivial = a strict, non-empty prefix or an argument pair that differs')
TRUSTED = ['pickle round trip and prefix failure, json/sha1 cache naming and the file system are assumptions of the theorems (validated here)',
           'translator unit cachekey (harness/translate.py) for the generated key_separates theorems',
           'from_gromacs is covered only by the generated cache-key theorem (binary xtc inputs cannot be synthesised offline)']
ASSUMPTIONS = ['SHA-1 of the serialised argument dict is collision free']

LAMMPS_OPTS = [
    {}, {'type_mapping': {'LI': 'Na', 'S': 'O'}}, {'temperature': 800}, {'time_step': 1.0},
    {'type_mapping': {'LI': 'K', 'S': 'S'}}, {'atom_style': 'atomic'},
]
VASP_OPTS = [{}, {'constant_lattice': False}, {'exception_on_bad_xml': False}]


def pre_build():
    note, _ = translate.gen_cache_key()
    return [note]


def gen_cases(rng, tier):
    cases = []
    if tier == 'search':
        for _ in range(30):
            cases.append(_cycle_case(rng))
        return cases
    # (a) prefixes -- length is only known at run time: cases carry a stride/offset
    nchunk = 28
    for loader in ('lammps', 'vasprun'):
        stride = 1 if (loader == 'lammps' or tier == 'thorough') else 7
        for c in range(nchunk):
            cases.append({'kind': 'prefix', 'loader': loader, 'chunk': c, 'nchunk': nchunk, 'stride': stride, 'variant': 0})
    if tier == 'thorough':
        for variant in (1, 2):
            for loader in ('lammps', 'vasprun'):
                for c in range(nchunk):
                    cases.append({'kind': 'prefix', 'loader': loader, 'chunk': c, 'nchunk': nchunk, 'stride': 1, 'variant': variant})
    for loader in ('lammps', 'vasprun'):
        cases.append({'kind': 'garbage', 'loader': loader, 'seed': rng.randrange(10**6)})
    # (b) cycles
    for _ in range(40 if tier == 'quick' else 400):
        cases.append(_cycle_case(rng))
    # (c) argument pairs
    for loader, opts in (('lammps', LAMMPS_OPTS), ('vasprun', VASP_OPTS)):
        for i in range(len(opts)):
            for j in range(len(opts)):
                if i != j:
                    cases.append({'kind': 'args', 'loader': loader, 'first': i, 'second': j})
    # (c2) sibling source files in one folder
    for names in (['vasprun.300K.xml', 'vasprun.600K.xml'], ['run1.vasprun.xml', 'run2.vasprun.xml'], ['a.xml', 'a.b.xml'], ['vasprun.xml', 'vasprun.old.xml']):
        cases.append({'kind': 'siblings', 'names': names})
    # (d) roundtrip
    for k in range(6 if tier == 'quick' else 60):
        cases.append({'kind': 'roundtrip', 'seed': rng.randrange(10**6)})
    return cases


def _cycle_case(rng):
    loader = rng.choice(['lammps', 'lammps', 'vasprun'])
    nopt = len(LAMMPS_OPTS) if loader == 'lammps' else len(VASP_OPTS)
    evs = []
    for _ in range(rng.randint(3, 10)):
        r = rng.random()
        o = rng.randrange(nopt) if rng.random() < 0.5 else 0
        if r < 0.5:
            evs.append(['Load', o])
        elif r < 0.75:
            evs.append(['Crash', o, rng.random()])     # fraction of the file that was written (1.0 = complete)
        elif r < 0.9:
            evs.append(['Garbage', o, rng.randrange(4)])
        else:
            evs.append(['Remove', o])
    if rng.random() < 0.3:
        evs.append(['Crash', 0, 1.0])
    evs.append(['Load', rng.randrange(nopt)])
    return {'kind': 'cycle', 'loader': loader, 'events': evs}


# ---------------------------------------------------------------- implementation side
def _sig(t):
    # the stored state first (read without any converting accessor: a cache hit must hand back what a parse hands back), then the positions
    bp = getattr(t, 'base_positions', None)
    raw = (np.asarray(t.coords).tobytes(), None if bp is None else np.asarray(bp).tobytes())
    return (raw, tuple(str(s) for s in t.species), t.positions.tobytes(), np.asarray(t.lattice).tobytes(), repr(t.time_step),
            repr(sorted(t.metadata.items())), bool(t.constant_lattice), bool(t.coords_are_displacement))


def _rawsig(t):
    """the stored state, read without any converting accessor"""
    bp = getattr(t, 'base_positions', None)
    return (tuple(str(s) for s in t.species), np.asarray(t.coords).tobytes(), bool(t.coords_are_displacement),
            None if bp is None else np.asarray(bp).tobytes(), np.asarray(t.lattice).tobytes(), repr(t.time_step),
            repr(sorted(t.metadata.items())), bool(t.constant_lattice))


def _mk(d, loader, variant=0):
    if loader == 'lammps':
        c, dat = synthfiles.write_lammps(d, n_frames=5 + 2 * variant, shift=0.1 + 0.05 * variant)
        return {'coords_file': c, 'data_file': dat, 'temperature': 700, 'time_step': 2.0}
    p = synthfiles.write_vasprun(d / 'vasprun.xml', n_frames=4 + variant)
    return {'xml_file': p}


def _load(loader, base, opts, cache=None):
    from gemdat.trajectory import Trajectory
    kw = dict(base)
    kw.update(opts)
    if cache is not None:
        kw['cache'] = cache
    if loader == 'lammps':
        return Trajectory.from_lammps(**kw)
    if 'cache' in kw and 'xml_file' in kw:
        # the file and its cache are the first two parameters: callers pass them by position
        return Trajectory.from_vasprun(kw.pop('xml_file'), kw.pop('cache'), **kw)
    return Trajectory.from_vasprun(**kw)


def _default_cache(d):
    fs = [f for f in os.listdir(d) if f.endswith('.cache')]
    return fs


def _fresh(loader, base, opts):
    """reference: parse the source with these arguments (cache in a private scratch file)"""
    with tempfile.TemporaryDirectory() as td:
        return _load(loader, base, opts, cache=pathlib.Path(td) / 'ref.cache')


def cleanup():
    import glob
    import shutil
    # only this run's own scratch directories: another check of C16 may be running at the same time
    for d in glob.glob(os.path.join(tempfile.gettempdir(), 'verif_c16_%s_*' % os.environ.get('VERIF_RUN_TAG', 'x'))):
        shutil.rmtree(d, ignore_errors=True)


def impl(case):
    import contextlib
    import io
    with tempfile.TemporaryDirectory(prefix='verif_c16_%s_' % os.environ.get('VERIF_RUN_TAG', 'x')) as td, contextlib.redirect_stdout(io.StringIO()):
        d = pathlib.Path(td)
        return getattr(_Impl, case['kind'])(case, d)


class _Impl:
    @staticmethod
    def prefix(case, d):
        loader = case['loader']
        base = _mk(d, loader, case['variant'])
        ref = _load(loader, base, {})
        (cf,) = _default_cache(d)
        full = (d / cf).read_bytes()
        n = len(full)
        warm = _load(loader, base, {})        # a successful load from the intact cache precedes the crash, as in a long-lived session
        if _sig(warm) != _sig(ref):
            return {'n': n, 'res': [[-1, False, True, None]]}
        ks = [k for k in range(0, n, case['stride'])] + ([k for k in range(max(0, n - 40), n)] if case['stride'] > 1 else [])
        ks = sorted(set(ks))
        ks = [k for i, k in enumerate(ks) if i % case['nchunk'] == case['chunk']]
        res = []
        for k in ks:
            (d / cf).write_bytes(full[:k])
            try:
                t = _load(loader, base, {})
                same = _sig(t) == _sig(ref)
                after = (d / cf).read_bytes()
                try:
                    back = pickle.loads(after)
                    complete = _sig(back) == _sig(ref)
                except Exception:
                    complete = False
                res.append([k, same, complete, None])
            except Exception as e:
                res.append([k, False, False, type(e).__name__])
        return {'n': n, 'res': res}

    @staticmethod
    def garbage(case, d):
        loader = case['loader']
        base = _mk(d, loader)
        ref = _load(loader, base, {})
        (cf,) = _default_cache(d)
        full = (d / cf).read_bytes()
        r = np.random.default_rng(case['seed'])
        blobs = [b'', b'\x00', b'garbage', full[:-1] + b'\xff' if False else full[: len(full) // 2] + b'\x00' * 10,
                 bytes(r.integers(0, 256, 200, dtype=np.uint8)), full[1:], b'\x80\x04' + full[5:50]]
        res = []
        for k, b in enumerate(blobs):
            (d / cf).write_bytes(b)
            try:
                t = _load(loader, base, {})
                ok = _sig(t) == _sig(ref)
                comp = _sig(pickle.loads((d / cf).read_bytes())) == _sig(ref)
                res.append([k, ok, comp, None])
            except Exception as e:
                res.append([k, False, False, type(e).__name__])
        return {'n': len(full), 'res': res}

    @staticmethod
    def cycle(case, d):
        loader = case['loader']
        base = _mk(d, loader)
        opts = LAMMPS_OPTS if loader == 'lammps' else VASP_OPTS
        refs = [_fresh(loader, base, o) for o in opts]
        sigs = [_sig(t) for t in refs]
        tid = []                       # trajectory id = index of first option with the same parse result
        for s in sigs:
            tid.append(sigs.index(s))
        # default cache name of each option set: observe it by loading in a scratch copy
        names = []
        for o in opts:
            for f in _default_cache(d):
                os.remove(d / f)
            _load(loader, base, o)
            (cf,) = _default_cache(d)
            names.append(cf)
        nid = [sorted(set(names)).index(n) for n in names]
        for f in _default_cache(d):
            os.remove(d / f)
        outs = []
        for e in case['events']:
            o = e[1]
            cf = d / names[o]
            if e[0] == 'Load':
                try:
                    t = _load(loader, base, opts[o])
                    s = _sig(t)
                    outs.append(sigs.index(s) if s in sigs else -2)
                except Exception as ex:
                    outs.append(-3)
            elif e[0] == 'Crash':
                full = pickle.dumps(refs[o])
                k = len(full) if e[2] >= 1.0 else int(e[2] * (len(full) - 1))
                cf.write_bytes(full[:k])
                outs.append(-1)
            elif e[0] == 'Garbage':
                cf.write_bytes([b'', b'xx', b'\x80\x04\x95', b'\x00' * 64][e[2]])
                outs.append(-1)
            else:
                if cf.exists():
                    os.remove(cf)
                outs.append(-1)
        return {'outs': outs, 'nid': nid, 'tid': tid}

    @staticmethod
    def args(case, d):
        loader = case['loader']
        base = _mk(d, loader)
        opts = LAMMPS_OPTS if loader == 'lammps' else VASP_OPTS
        a, b = opts[case['first']], opts[case['second']]
        ref_b = _fresh(loader, base, b)
        ref_a = _fresh(loader, base, a)
        _load(loader, base, a)
        n1 = sorted(_default_cache(d))
        t = _load(loader, base, b)
        n2 = sorted(_default_cache(d))
        return {'same_as_source': _sig(t) == _sig(ref_b), 'parses_differ': _sig(ref_a) != _sig(ref_b),
                'n_cache_files': len(n2), 'opts': [repr(a), repr(b)]}

    @staticmethod
    def siblings(case, d):
        """two source files side by side in one folder whose names differ only in an inner part (run.300K.xml / run.600K.xml):
        each has its own default cache, and a cached load of one never returns the other"""
        names = case['names']
        files = []
        for k, nm in enumerate(names):
            pth = synthfiles.write_vasprun(d / nm, n_frames=4 + k, tebeg=300.0 * (k + 1))
            files.append({'xml_file': pth})
        refs = [_fresh('vasprun', f, {}) for f in files]
        ok = True
        for rnd in range(2):
            for f, ref in zip(files, refs):
                ok = ok and _sig(_load('vasprun', f, {})) == _sig(ref)
        return {'siblings_ok': ok, 'refs_differ': _sig(refs[0]) != _sig(refs[1]), 'n_cache_files': len(_default_cache(d)), 'names': names}

    @staticmethod
    def roundtrip(case, d):
        from gemdat.trajectory import Trajectory
        import synth
        r = np.random.default_rng(case['seed'])
        T, na = int(r.integers(1, 8)), int(r.integers(1, 5))
        coords = r.random((T, na, 3)) * 3 - 1
        t = synth.make_traj([[5, 0, 0], [1, 6, 0], [0, 1, 7]], ['Li'] * na, coords, time_step=float(r.random()) * 1e-15, mode='asis')
        mode = int(r.integers(0, 3))
        if mode == 1:
            t.to_displacements()
        elif mode == 2:
            t.to_positions()
        # the file name is the caller's: with the usual extension, another one, several dots, or none
        cname = ['x.cache', 'run.pickle', 'cachefile', 'traj.v2.pkl', 'x.cache'][case['seed'] % 5]
        before = _rawsig(t)
        t.to_cache(d / cname)
        saved_unchanged = _rawsig(t) == before
        t2 = Trajectory.from_cache(d / cname)
        identical = _rawsig(t2) == before and _sig(t) == _sig(t2) and type(t2) is type(t)
        # the same file is then overwritten with another trajectory: loading it must give the new one
        other = synth.make_traj([[5, 0, 0], [1, 6, 0], [0, 1, 7]], ['Li'] * na, r.random((T + 1, na, 3)), time_step=1e-15, mode='asis')
        want_other = _rawsig(other)
        other.to_cache(d / cname)
        resave_ok = _rawsig(Trajectory.from_cache(d / cname)) == want_other
        # and what was loaded earlier is an object of its own: converting it does not affect a later load
        _ = t2.displacements
        again_ok = _rawsig(Trajectory.from_cache(d / cname)) == want_other
        return {'resave_ok': resave_ok, 'again_ok': again_ok, 'identical': identical, 'saved_unchanged': saved_unchanged, 'mode': mode}


def oracle(case, out):
    kind = case['kind']
    if 'error' in out and not any(k in out for k in ('res', 'outs', 'same_as_source', 'identical', 'siblings_ok')):
        return [('c16/harness-error', f"{out.get('error')}: {out.get('msg')} {out.get('tb', '')[-500:]}")]
    fs = []
    if kind in ('prefix', 'garbage'):
        for k, same, complete, err in out['res']:
            what = f'{case["loader"]}: cache truncated to {k}/{out["n"]} bytes' if kind == 'prefix' else f'{case["loader"]}: garbage cache #{k}'
            if err:
                fs.append(('cache/load-raises', f'{what}: loading raised {err}'))
            elif not same:
                fs.append(('cache/wrong-trajectory-after-fault', f'{what}: loaded trajectory differs from the source'))
            elif not complete:
                fs.append(('cache/incomplete-cache-left', f'{what}: no complete cache left behind'))
            if fs:
                break
    elif kind == 'cycle':
        opts = LAMMPS_OPTS if case['loader'] == 'lammps' else VASP_OPTS
        for e, o in zip(case['events'], out['outs']):
            if e[0] == 'Load' and o != out['tid'][e[1]]:
                fs.append(('cache/wrong-trajectory-for-arguments',
                           f'{case["loader"]}: Load with {opts[e[1]]!r} returned trajectory #{o} instead of the source parse #{out["tid"][e[1]]} '
                           f'(events {case["events"]})'))
                break
    elif kind == 'args':
        if not out['same_as_source']:
            fs.append(('cache/wrong-trajectory-for-arguments',
                       f'{case["loader"]}: after loading with {out["opts"][0]}, loading with {out["opts"][1]} returns the cached trajectory of the first call'))
    elif kind == 'siblings':
        if not out.get('siblings_ok') or out.get('n_cache_files', 2) < 2:
            fs.append(('cache/wrong-trajectory-for-source-file', f'source files {out.get("names")} in one folder: a cached load returns another file\'s trajectory '
                       f'({out.get("n_cache_files")} default cache file(s) for 2 sources)'))
    elif kind == 'roundtrip':
        if not out['identical']:
            fs.append(('cache/roundtrip', f'to_cache / from_cache does not return a trajectory identical to the one that was saved (storage mode {out.get("mode")}: 0 as built, 1 displacements, 2 positions)'))
        if out.get('resave_ok') is False:
            fs.append(('cache/stale-after-resave', 'after another trajectory was saved to the same cache file, from_cache still returns the earlier one'))
        if out.get('again_ok') is False:
            fs.append(('cache/loads-share-state', 'a second from_cache of an untouched file differs from the first (the earlier loaded object had been converted in place)'))
        if out.get('saved_unchanged') is False:
            fs.append(('cache/save-alters-object', f'to_cache changed the stored state of the trajectory it saved (storage mode {out.get("mode")})'))
    return fs


def coq_term(case, out):
    if case['kind'] != 'cycle' or 'outs' not in out:
        return None
    evs = []
    for e in case['events']:
        n, t = out['nid'][e[1]], out['tid'][e[1]]
        if e[0] == 'Load':
            evs.append(f'L {z(n)} {z(t)}')
        elif e[0] == 'Crash':
            evs.append(f'Cr {z(n)} {z(t)} {cbool(e[2] >= 1.0)}')
        elif e[0] == 'Garbage':
            evs.append(f'Ga {z(n)} {z(t)}')
        else:
            evs.append(f'Rm {z(n)} {z(t)}')
    return f'({clist(evs)}, {clist(z(o) for o in out["outs"])})'


def nontrivial(case, out):
    if case['kind'] == 'prefix':
        return any(0 < r[0] < out.get('n', 0) for r in out.get('res', []))
    if case['kind'] == 'args':
        return bool(out.get('parses_differ'))
    return True


def case_key(case):
    return repr(sorted(case.items()))


def classify(case, out):
    tags = [case['kind'] + ':' + case.get('loader', '')]
    if case['kind'] in ('prefix', 'garbage'):
        tags += ['fault-point'] * len(out.get('res', []))
    return tags


def sample(case, out):
    o = dict(out)
    if 'res' in o:
        o['res'] = o['res'][:4]
    return {'case': case, 'out': o}
