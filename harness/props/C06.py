"""C06 -- mean squared displacement and tracer diffusivity equal their definitions."""
import random
from fractions import Fraction as Fr

import numpy as np

import synth
from vcore import clist, z, zlist

TIE = 'Tie.C06'
DEN = 4096
SHARD = 50
KINDS = ['cubic', 'ortho', 'mono', 'hexlike', 'hex', 'tri', 'tri_full']
RULE = ('cases = trajectories (1-3 atoms, 2-48 frames, coordinates on the 2^-12 grid, steps up to 0.45 cell so that atoms cross cell faces many times '
        'and travel several cells) in 6 lattice classes (integer matrices, optionally rigidly rotated) x dimensions 1-3 x time steps; MSD for every lag and '
        'tracer diffusivity compared (1e-9) with the exact rational value of the definition; non-trivial = an unwrapped excursion of more than one cell')
TRUSTED = ['numpy FFT (pocketfft), BLAS and sqrt are not verified: the autocorrelation term is DEFINED as the sum it should compute and the numerical '
           'agreement is checked by the tie (tolerance regime)']
ASSUMPTIONS = ['steps are below half a cell (otherwise unwrapping is ambiguous)']


def pre_build():
    import translate
    return [translate.gen_msd_shape()]


def gen_cases(rng, tier):
    n = {'quick': 120, 'thorough': 2500, 'search': 80}[tier]
    cases = []
    for _ in range(n):
        m = synth.int_lattice(rng, rng.choice(KINDS))
        T = rng.choice([2, 3, 4, 7, 8, 16, 17, 31, 48])
        na = rng.randint(1, 3)
        atoms = []
        for _a in range(na):
            axes = []
            for _k in range(3):
                x = rng.randint(-DEN, 2 * DEN)
                step = rng.choice([60, 400, 1800])
                drift = rng.choice([0, 0, 700, -900])
                col = []
                for _t in range(T):
                    col.append(x)
                    x += max(-1840, min(1840, drift + rng.randint(-step, step)))
                axes.append(col)
            atoms.append(axes)
        cases.append({'m': m, 'rot': rng.random() < 0.4, 'rseed': rng.randrange(10**6), 'atoms': atoms,
                      'dim': rng.randint(1, 3), 'dt': rng.choice([1e-15, 2e-15, 0.5e-15]),
                      # call history before the observed calls: 0 = fresh object; k > 0 = the object first holds frames [0,k), is analysed, and is then
                      # extended by the remaining frames (a continuation run)
                      'pre': rng.randint(1, T - 1) if (T >= 3 and rng.random() < 0.3) else 0, 'plots': rng.random() < 0.15, 'derived_first': rng.random() < 0.3})
    # a trajectory *given* as per-frame displacements (as a drift-corrected run is), with single steps longer than half a cell: what it says is
    # the unwrapped path, no image convention is involved (oracle only)
    for _ in range({'quick': 6, 'thorough': 60, 'search': 3}[tier]):
        T, na = rng.randint(4, 10), rng.randint(1, 3)
        disp = [[[0.0, 0.0, 0.0] for _a in range(na)]] + [[[rng.choice([0.02, -0.03, 0.11, 0.7, -0.62, 0.55]) if rng.random() < 0.5 else rng.uniform(-0.1, 0.1)
                                                            for _k in range(3)] for _a in range(na)] for _t in range(T - 1)]
        cases.append({'kind': 'given_disp', 'm': synth.int_lattice(rng, rng.choice(KINDS)), 'disp': disp, 'base': [[rng.random() for _k in range(3)] for _a in range(na)],
                      'dim': rng.randint(1, 3), 'dt': 1e-15})
    return cases


def _impl_given(case):
    from gemdat.trajectory import Trajectory
    from pymatgen.core import Element
    d = np.array(case['disp'], dtype=float)
    lat = synth.make_lattice(case['m'])
    t = Trajectory(species=[Element('Li')] * d.shape[1], coords=d, coords_are_displacement=True, base_positions=np.array(case['base'], dtype=float), lattice=lat,
                   time_step=case['dt'], metadata={'temperature': 300})
    dist = np.array(t.distances_from_base_position())
    msd = np.array(t.mean_squared_displacement())
    msd2 = np.array(t.mean_squared_displacement())
    td = float(t.metrics().tracer_diffusivity(dimensions=case['dim']))
    # definitions on the unwrapped path the input states
    r = np.cumsum(d, axis=0) @ np.array(lat.matrix)                       # frames, atoms, 3 (Cartesian, relative to the start)
    T = r.shape[0]
    want_dist = np.linalg.norm(r, axis=-1).T
    want_msd = np.array([[np.mean(np.sum((r[tau:, a] - r[:T - tau, a]) ** 2, axis=-1)) for tau in range(T)] for a in range(r.shape[1])])
    want_td = float(np.mean(want_dist[:, -1] ** 2) * 1e-20 / (2 * case['dim'] * T * case['dt']))
    sc = max(1.0, float(want_msd.max()))
    return {'g_dist': float(np.abs(dist - want_dist).max()), 'g_msd': float(np.abs(msd - want_msd).max() / sc), 'g_msd2': float(np.abs(msd2 - want_msd).max() / sc),
            'g_td': [td, want_td], 'g_maxstep': float(np.abs(d).max())}


def impl(case):
    if case.get('kind') == 'given_disp':
        return _impl_given(case)
    rot = synth.rotation(random.Random(case['rseed'])) if case['rot'] else None
    c = np.array(case['atoms'], dtype=float).transpose(2, 0, 1) / DEN
    k = case.get('pre', 0)
    if k:
        traj = synth.make_traj(case['m'], ['Li'] * c.shape[1], c[:k], time_step=case['dt'], rot=rot)
        traj.mean_squared_displacement(), traj.distances_from_base_position(), traj.metrics().tracer_diffusivity(dimensions=case['dim'])
        traj.extend(synth.make_traj(case['m'], ['Li'] * c.shape[1], c[k:], time_step=case['dt'], rot=rot))
    else:
        traj = synth.make_traj(case['m'], ['Li'] * c.shape[1], c, time_step=case['dt'], rot=rot)
    if case.get('derived_first'):
        # a drift-corrected copy / centre of mass / selection is made first and kept: the original must still answer by its own frames
        _kept = (traj.apply_drift_correction(), traj.center_of_mass(), traj.filter('Li'), traj[1:])
        # a shape analysis that folds a 2 x 1 x 2 supercell onto one cell reads the positions; it is not an operation on the trajectory
        try:
            from gemdat.shape import ShapeAnalyzer
            from pymatgen.core import PeriodicSite
            from pymatgen.symmetry.groups import SpaceGroup
            lat_ = traj.get_lattice()
            ShapeAnalyzer(sites=[PeriodicSite('Li', [0.1, 0.2, 0.3], lat_, label='s')], lattice=lat_, spacegroup=SpaceGroup('P-1')).analyze_trajectory(
                traj, supercell=(2, 1, 2), radius=0.5)
        except (ValueError, IndexError):
            pass
    if case.get('plots'):
        synth.call_plots(traj, ['plot_displacement_per_atom', 'plot_displacement_per_element', 'plot_msd_per_element', 'plot_displacement_histogram', 'plot_frequency_vs_occurence', 'plot_vibrational_amplitudes'])          # figures are views: what follows must read the same
    guard = synth.InputGuard(trajectory=traj)
    msd = traj.mean_squared_displacement()
    dist = traj.distances_from_base_position()
    mt = traj.metrics()
    order = [case['dim']] + [d for d in (3, 1, 2) if d != case['dim']]
    by_dim = {d: float(mt.tracer_diffusivity(dimensions=d)) for d in order}        # one metrics object asked for every dimensionality in turn
    td = by_dim[case['dim']]
    return {'msd': msd.tolist(), 'dist_last': dist[:, -1].tolist(), 'tracer': float(td), 'tracer_by_dim': [[d, by_dim[d]] for d in order],
            'inputs_changed': guard.changed()}


def _unwrapped(case):
    """exact unwrapped fractional displacement numerators per atom: frames x 3 (python ints)"""
    res = []
    for axes in case['atoms']:
        cols = []
        for col in axes:
            w = [x % DEN for x in col]
            cum, acc = [0], 0
            for a, b in zip(w, w[1:]):
                d = ((b - a + DEN // 2) % DEN) - DEN // 2          # steps are below half a cell: no ties
                acc += d
                cum.append(acc)
            cols.append(cum)
        res.append(list(zip(*cols)))
    return res


def _exact(case):
    G = synth.gram(case['m'])
    out = []
    for fr in _unwrapped(case):
        T = len(fr)
        row = []
        for tau in range(T):
            s = sum(synth.qf(G, [fr[t + tau][k] - fr[t][k] for k in range(3)]) for t in range(T - tau))
            row.append(Fr(s, (T - tau) * DEN * DEN))
        out.append(row)
    return out


def oracle(case, out):
    if case.get('kind') == 'given_disp':
        if 'g_dist' not in out:
            return [('c06/harness-error', f"{out.get('error')}: {out.get('msg')} {out.get('tb', '')[-400:]}")]
        fs = []
        where = f'trajectory given as displacements with single steps up to {out["g_maxstep"]:.2f} cell'
        if not out['g_dist'] <= 1e-9:
            fs.append(('distance/base-position', f'distances from the start differ from the length of the summed displacements by {out["g_dist"]} A ({where})'))
        if not out['g_msd'] <= 1e-9:
            fs.append(('msd/definition', f'MSD differs from its definition on the stated path by {out["g_msd"]} (relative; {where})'))
        if not out['g_msd2'] <= 1e-9:
            fs.append(('msd/definition', f'MSD asked a second time differs from its definition by {out["g_msd2"]} (relative; {where})'))
        td, want = out['g_td']
        if abs(td - want) > 1e-9 * max(abs(want), 1e-300):
            fs.append(('tracer/formula', f'tracer diffusivity {td}, formula on the stated path {want} ({where})'))
        return fs
    if 'msd' not in out:
        return [('c06/harness-error', f"{out.get('error')}: {out.get('msg')} {out.get('tb', '')[-400:]}")]
    fs = synth.inputs_clause(out, 'mean_squared_displacement / distances_from_base_position / tracer_diffusivity')
    ex = _exact(case)
    for a, (row, got) in enumerate(zip(ex, out['msd'])):
        scale = max(1.0, max(float(v) for v in row))
        for tau, (w, g) in enumerate(zip(row, got)):
            if abs(g - float(w)) > 1e-9 * scale:
                fs.append(('msd/definition', f'atom {a} lag {tau}: MSD {g} but the definition gives {float(w)} (lattice {case["m"]})'))
                return fs
        if abs(got[0]) > 1e-9 * scale:
            fs.append(('msd/lag0', f'MSD at lag 0 is {got[0]}'))
        T = len(row)
        d2 = float(row[T - 1])
        if abs(out['dist_last'][a] ** 2 - d2) > 1e-9 * max(1.0, d2):
            fs.append(('distance/definition', f'atom {a}: distance from start {out["dist_last"][a]} but the unwrapped displacement has length^2 {d2}'))
    T = len(case['atoms'][0][0])
    want = sum(float(row[T - 1]) for row in ex) / len(ex) * 1e-20 / (2 * case['dim'] * T * case['dt'])
    if abs(out['tracer'] - want) > 1e-9 * abs(want) + 1e-40:
        fs.append(('tracer/definition', f'tracer diffusivity {out["tracer"]} expected {want}'))
    for d, v in out.get('tracer_by_dim', []):
        wd = want * case['dim'] / d
        if abs(v - wd) > 1e-9 * abs(wd) + 1e-40:
            fs.append(('tracer/definition-per-dimension', f'tracer_diffusivity(dimensions={d}) = {v} on a metrics object first asked for dimensions={case["dim"]}; the definition gives {wd}'))
            break
    return fs


def coq_term(case, out):
    if case.get('kind') == 'given_disp' or 'msd' not in out:
        return None
    m = case['m']
    V = lambda v: '(%s, %s, %s)' % tuple(z(x) for x in v)
    M = '{| ra := %s; rb := %s; rc := %s |}' % (V(m[0]), V(m[1]), V(m[2]))
    atoms = clist(clist(zlist(ax) for ax in a) for a in case['atoms'])
    msd = clist(clist('(%s, %s)' % tuple(z(x) for x in synth.dyadic(v)) for v in row) for row in out['msd'])
    tols = []
    for row in out['msd']:
        t = Fr(1, 10**9) * max(Fr(1), synth.frac_of_float(max(abs(v) for v in row)))
        tols.append(f'({z(t.numerator)}, {z(t.denominator)})')
    T = len(case['atoms'][0][0])
    fac = Fr(1, 10**20) / (2 * case['dim'] * T * synth.frac_of_float(case['dt']))
    return '{| D := %d; M := %s; atoms := %s; msd := %s; tol := %s; tracer := (%s, %s); fac := (%s, %s) |}' % (
        DEN, M, atoms, msd, clist(tols), *[z(x) for x in synth.dyadic(out['tracer'])], z(fac.numerator), z(fac.denominator))


def nontrivial(case, out):
    if case.get('kind') == 'given_disp':
        return out.get('g_maxstep', 0) > 0.5
    return any(abs(v) > DEN for fr in _unwrapped(case) for p in fr for v in p)


def classify(case, out):
    if case.get('kind') == 'given_disp':
        return ['kind=given-displacements']
    return ['rotated' if case['rot'] else 'aligned', f'T={len(case["atoms"][0][0])}', 'analysed-then-extended' if case.get('pre') else 'fresh-object']


def sample(case, out):
    if case.get('kind') == 'given_disp':
        return {'kind': 'given_disp', 'm': case['m'], 'maxstep': out.get('g_maxstep'), 'td': out.get('g_td')}
    return {'m': case['m'], 'axes_atom0': [ax[:6] for ax in case['atoms'][0]], 'msd_atom0': out.get('msd', [[]])[0][:5]}
