"""C09 -- free energy is -kT ln(probability) and stays finite."""
import os
import subprocess
from fractions import Fraction as Fr

import numpy as np

import synth
from vcore import COQ, cbool, clist, z, zlist

TIE = 'Tie.C09'
RULE = ('cases = integer density grids (1-5 voxels per axis, 0-70% unvisited voxels, counts 1..5000 with repeated and extreme values, 35% of the grids with one dominant voxel of 3e8..1e13 counts so that visited probabilities go down to 1e-13) x temperatures in (0, 2000] '
        'x thresholds; discrete part (exact max-float for unvisited voxels, node set) through the Coq tie; numeric part by per-voxel interval-arithmetic '
        'certificates |F_impl - (-k_B T ln(c/N))| <= tol proved by Coq (deduplicated on (c, N, T), capped per run), plus one certificate that the k_B used '
        'by the code is the SI-exact quotient 1.380649e-23 / 1.602176634e-19; non-trivial = >= 1 unvisited and >= 2 distinct visited densities')
TRUSTED = ['Interval tactic (interval arithmetic inside Coq) for the per-case certificates; stdlib real-number axioms',
           'libm log is tied only through the certificates (1e-12 relative)']
ASSUMPTIONS = []
MAXF = float(np.finfo(float).max)


def pre_build():
    import translate
    return [translate.gen_formulas_c09()]


def gen_cases(rng, tier):
    n = {'quick': 40, 'thorough': 400, 'search': 40}[tier]
    cases = []
    for _ in range(n):
        dims = [rng.randint(1, 5) for _ in range(3)]
        nv = dims[0] * dims[1] * dims[2]
        p0 = rng.choice([0.0, 0.3, 0.5, 0.7])
        data = []
        for _k in range(nv):
            if rng.random() < p0:
                data.append(0)
            else:
                data.append(rng.choice([1, 1, 2, 3, 9, 10, 100, 4999, rng.randint(1, 5000)]))
        if not any(data):
            data[rng.randrange(nv)] = rng.randint(1, 50)
        # wide dynamic range (a long run with one dominant voxel and rarely visited ones: probabilities down to 1e-13)
        wide = rng.random() < 0.35
        if wide:
            data[rng.randrange(nv)] = rng.choice([5 * 10**9, 10**12, 3 * 10**8 + 1, 10**13])
        cases.append({'dims': dims, 'data': data, 'T': rng.choice([1.0, 77.0, 300.0, 650.0, 1000.0, 2000.0, rng.uniform(0.5, 2000)]),
                      'thr': rng.choice([1e20, 1e7, 1.0, 0.2]), 'pre_call': rng.random() < 0.5, 'layout': rng.choice(['C', 'C', 'F', 'view']),
                      # densities read from files are floating point, sometimes single precision; thr None = the default threshold of the graph builder
                      'dtype': rng.choice(['int', 'int', 'float64', 'float32'])})
        if rng.random() < 0.3:
            cases[-1]['thr'] = None
    return cases


def impl(case):
    from gemdat.volume import Volume
    from scipy.constants import physical_constants
    lat = synth.make_lattice([[5, 0, 0], [0, 6, 0], [0, 0, 7]])
    arr = np.array(case['data'], dtype={'int': int, 'float64': np.float64, 'float32': np.float32}[case.get('dtype', 'int')]).reshape(case['dims'])
    # the same grid in another memory layout (Fortran order, or a transposed view): values by index are identical
    if case.get('layout') == 'F':
        arr = np.asfortranarray(arr)
    elif case.get('layout') == 'view':
        arr = np.ascontiguousarray(arr.transpose(2, 0, 1)).transpose(1, 2, 0)
    vol = Volume(data=arr, lattice=lat)
    # a figure of the density is a view of it: drawing it first (half of the cases) must leave the density as it is
    if case.get('pre_call') and arr.ndim == 3 and min(arr.shape) >= 2:
        try:
            _fig = vol.plot_3d()
        except Exception:
            pass
    with np.errstate(divide='ignore'):
        fe = vol.get_free_energy(case['T'])
    if case.get('pre_call'):
        # an earlier graph request on the same object with other settings (as optimal_path makes) must not influence this one
        fe.free_energy_graph(max_energy_threshold=1e7)
    G = fe.free_energy_graph(diagonal=False) if case['thr'] is None else fe.free_energy_graph(max_energy_threshold=case['thr'], diagonal=False)
    nodes = set(G.nodes)
    idx = list(np.ndindex(*case['dims']))
    return {'fe': [float(v) for v in fe.data.ravel()], 'nodes': [tuple(i) in nodes for i in idx],
            'energy_attr_ok': all(G.nodes[n]['energy'] == fe.data[n] for n in nodes),
            'kB': float(physical_constants['Boltzmann constant in eV/K'][0]), 'type': type(fe).__name__}


def oracle(case, out):
    if 'fe' not in out:
        return [('c09/harness-error', f"{out.get('error')}: {out.get('msg')} {out.get('tb', '')[-400:]}")]
    fs = []
    fe = np.array(out['fe'])
    data = np.array(case['data'])
    if not np.isfinite(fe).all():
        fs.append(('free-energy/not-finite', 'free energy contains NaN or inf'))
        return fs
    N = data.sum()
    kT = out['kB'] * case['T']
    vis = data > 0
    want = -kT * np.log(data[vis] / N)
    f32 = case.get('dtype') == 'float32'
    thr = 1e20 if case['thr'] is None else case['thr']          # 1e20 is the documented default threshold
    maxf = float(np.finfo(np.float32).max) if f32 else MAXF      # "largest finite value" of the precision the density came in
    if not np.allclose(fe[vis], want, rtol=2e-6 if f32 else 1e-12, atol=2e-6 * kT if f32 else 1e-15):
        fs.append(('free-energy/formula', f'F differs from -kT ln p by {np.abs(fe[vis] - want).max()}'))
    rec = np.exp(-fe[vis] / kT)
    if abs(rec.sum() - 1) > (1e-4 if f32 else 1e-9) or not np.allclose(rec, data[vis] / N, rtol=1e-4 if f32 else 1e-9):
        fs.append(('free-energy/exp-recovers', 'exp(-F/kT) does not recover the probabilities'))
    order = np.argsort(data[vis])
    f_sorted = fe[vis][order]
    d_sorted = data[vis][order]
    for a in range(len(order) - 1):
        if d_sorted[a] < d_sorted[a + 1] and f_sorted[a] < f_sorted[a + 1] - (1e-6 * abs(f_sorted[a + 1]) if f32 else 0.0):
            fs.append(('free-energy/monotone', 'a denser voxel has a higher free energy'))
            break
    if (fe[~vis] != maxf).any():
        fs.append(('free-energy/unvisited-value', 'an unvisited voxel does not carry the largest finite value'))
    nodes = np.array(out['nodes'])
    if thr <= 1e20 and nodes[~vis].any():
        fs.append(('graph/unvisited-node', 'an unvisited voxel is a node of the free-energy graph'))
    if not np.array_equal(nodes, (fe >= 0) & (fe < thr)):
        fs.append(('graph/node-set', 'node set differs from {0 <= F < threshold}'))
    if not out['energy_attr_ok']:
        fs.append(('graph/energy-attribute', 'node energy attribute differs from the free energy of the voxel'))
    return fs


def coq_term(case, out):
    if 'fe' not in out or not np.isfinite(np.array(out['fe'])).all() or case.get('dtype') == 'float32':
        return None          # single-precision densities: decided by the oracle at single-precision tolerance; the exact tie is for double precision
    fe = clist('(%s, %s)' % tuple(z(v) for v in synth.dyadic(f)) for f in out['fe'])
    thr = '(%s, %s)' % tuple(z(v) for v in synth.dyadic(1e20 if case['thr'] is None else case['thr']))
    return '{| counts := %s; fe := %s; thr := %s; nodes := %s |}' % (zlist(case['data']), fe, thr, clist(cbool(b) for b in out['nodes']))


def _q(f: Fr) -> str:
    return f'({f.numerator} / {f.denominator})' if f.denominator != 1 else f'{f.numerator}'


def extra_coq(cases, outs, builddir):
    """Per-run obligations: interval certificates that the implementation's free energies equal -k_B T ln(c/N)."""
    certs = {}
    kB = None
    for c, o in zip(cases, outs):
        if 'fe' not in o or c.get('dtype') == 'float32':
            continue
        kB = o['kB']
        N = sum(c['data'])
        for cnt, f in zip(c['data'], o['fe']):
            if cnt > 0:
                certs.setdefault((cnt, N, c['T']), f)
    items = sorted(certs.items())[:240]
    if kB is None:
        return []
    kBq = synth.frac_of_float(kB)
    d = os.path.join(builddir, 'cert')
    os.makedirs(d, exist_ok=True)
    res = []
    files = []
    for k in range(0, len(items), 40):
        lines = ['From Coq Require Import Reals.', 'From Interval Require Import Tactic.', 'Open Scope R_scope.']
        if k == 0:
            lines += ['(* the Boltzmann constant used by the code is the SI-exact quotient (CODATA 2018 exact values) *)',
                      f'Goal Rabs ({_q(kBq)} - 1380649 / 16021766340) <= 1 / 10000000000000000000.',
                      'Proof. interval with (i_prec 120). Qed.']
        for (cnt, N, T), f in items[k:k + 40]:
            Tq, fq = synth.frac_of_float(T), synth.frac_of_float(f)
            tol = Fr(1, 10**13) + abs(fq) / 10**12
            lines.append(f'Goal Rabs ({_q(fq)} - (- ({_q(kBq)} * {_q(Tq)}) * ln ({cnt} / {N}))) <= {_q(tol)}.')
            lines.append('Proof. interval with (i_prec 100). Qed.')
        path = os.path.join(d, f'Cert{k // 40}.v')
        open(path, 'w').write('\n'.join(lines) + '\n')
        files.append((path, len(items[k:k + 40]) + (1 if k == 0 else 0)))
    procs = [(p, n, subprocess.Popen(['timeout', '600', 'coqc', '-R', COQ, 'GV', p], cwd=d, stdout=subprocess.PIPE,
                                    stderr=subprocess.STDOUT, text=True)) for p, n in files]
    for p, n, pr in procs:
        out = pr.communicate()[0]
        ok = pr.returncode == 0
        for i in range(n):
            res.append((f'{os.path.basename(p)}#{i}', ok, '' if ok else out[-600:]))
    return res


def nontrivial(case, out):
    vis = sorted(set(v for v in case['data'] if v))
    return 0 in case['data'] and len(vis) >= 2


def classify(case, out):
    return [f'thr={case["thr"]:g}' if case['thr'] is not None else 'thr=default', 'dtype:' + case.get('dtype', 'int'), 'has-unvisited' if 0 in case['data'] else 'all-visited', 'wide-range' if max(case['data']) >= 10**8 else 'narrow-range', 'graph-after-other-graph-request' if case.get('pre_call') else 'first-graph-request', 'layout:' + case.get('layout', 'C')]


def sample(case, out):
    return {'dims': case['dims'], 'data': case['data'][:12], 'T': case['T'], 'fe': out.get('fe', [])[:6]}
