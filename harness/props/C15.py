"""C15 -- select/slice/split/extend and read-only queries never alter the data."""
import itertools

import numpy as np

import synth
from vcore import cbool, clist, nat, z, zlist

TIE = 'Tie.C15'
DEN = 4096
SYMS = ['Li', 'Na', 'S']
RULE = ('cases = (a) random operation sequences (length <= 40) on the real Trajectory API: positions / displacements / cumulative / distances / '
        'to_volume, apply_drift_correction, mean_squared_displacement, center_of_mass, metrics and transitions_between_sites calls, slices with arbitrary start/stop/step (None, negative, out of range, step 0), filter by species subsets, split, extend, '
        'on trajectories created in position mode (raw, unwrapped coordinates on the 2^-12 grid) and in displacement mode, every returned array compared '
        'exactly with the Coq store machine; (b) exhaustive comparison of the slice model with CPython slice.indices for len <= 5 (quick) / 8 (thorough) '
        'and start/stop/step in {None, -7..7} / {None, -10..10}; non-trivial = at least 2 representation switches and one derived trajectory')
TRUSTED = ['numpy arithmetic is exact on the dyadic grid (exact regime)',
           'translator unit trajcore (AST of Trajectory.to_positions, positions, displacements, __getitem__, filter -> Gen/TrajCore.v); pymatgen to_positions/to_displacements/__getitem__/extend modelled']
ASSUMPTIONS = ['queries on displacements are compared away from exact half-cell steps only where the theorem needs it; the tie itself is exact everywhere']


def _opt(rng, lo, hi):
    return None if rng.random() < 0.3 else rng.randint(lo, hi)


def pre_build():
    import translate
    return [translate.gen_traj_core()]


def gen_cases(rng, tier):
    n = {'quick': 200, 'thorough': 4000, 'search': 120}[tier]
    cases = []
    for _ in range(n):
        T, na = rng.randint(2, 9), rng.randint(1, 4)
        species = [rng.choice(SYMS) for _ in range(na)]
        coords = []
        x = [[rng.randint(-2 * DEN, 2 * DEN) for _ in range(3)] for _ in range(na)]
        for _t in range(T):
            fr = []
            for a in range(na):
                for k in range(3):
                    r = rng.random()
                    if r < 0.1:
                        x[a][k] = rng.choice([0, DEN, -DEN, DEN - 1, 1])
                    elif r < 0.3:
                        x[a][k] += rng.randint(-DEN, DEN)
                    else:
                        x[a][k] += rng.randint(-400, 400)
                    fr.append(x[a][k])
            coords.append(fr)
        as_disp = rng.random() < 0.3
        ops = []
        objs = [{'species': list(species), 'frames': T}]
        for _k in range(rng.randint(3, 40)):
            i = rng.randrange(len(objs))
            r = rng.random()
            if r < 0.45:
                ops.append([rng.choice(['pos', 'disp', 'cum', 'dist', 'vol', 'driftcorr', 'msd', 'com', 'metrics', 'transitions', 'shape']), i])
            elif r < 0.65:
                L = objs[i]['frames']
                ops.append(['slice', i, _opt(rng, -L - 2, L + 2), _opt(rng, -L - 2, L + 2), rng.choice([None, None, 1, 2, 3, -1, -2, 0])])
                objs.append({'species': objs[i]['species'], 'frames': None})   # frames resolved at run time
            elif r < 0.8:
                present = sorted(set(objs[i]['species']))
                sub = [s for s in present if rng.random() < 0.6] or [present[0]]
                ops.append(['filter', i, sub])
                objs.append({'species': [s for s in objs[i]['species'] if s in sub], 'frames': objs[i]['frames']})
            elif r < 0.9:
                ops.append(['split', i, rng.randint(1, 3), rng.random() < 0.3])
                objs.append(None)   # placeholder: number of new objects is only known at run time
            else:
                ops.append(['extend', i, rng.randrange(len(objs))])
            # keep the generator's view simple: run-time bookkeeping decides applicability
            objs = [o if o is not None else {'species': species, 'frames': None} for o in objs]
            for o in objs:
                if o['frames'] is None:
                    o['frames'] = rng.randint(1, T)
        cases.append({'kind': 'ops', 'species': species, 'coords': coords, 'as_disp': as_disp, 'ops': ops})
    vals = [None] + list(range(-7, 8)) if tier != 'thorough' else [None] + list(range(-10, 11))
    maxlen = 5 if tier != 'thorough' else 8
    combos = [(a, b, c, L) for L in range(0, maxlen + 1) for a in vals for b in vals for c in vals]
    if tier == 'search':
        combos = rng.sample(combos, 2000)
    for k in range(0, len(combos), 2000):
        cases.append({'kind': 'pyslice', 'combos': combos[k:k + 2000]})
    # coordinates within rounding distance of (but not on) the cell faces, off the dyadic grid: decided by the oracle alone
    for _ in range({'quick': 6, 'thorough': 60, 'search': 4}[tier]):
        T, na = rng.randint(3, 6), rng.randint(1, 3)
        near = [1 - 5e-6, 1 - 1e-7, 2 - 3e-6, -1e-6, 1e-6, 0.5, 1 - 2e-5, -1 + 4e-6, 0.999999, 3e-9]
        cases.append({'kind': 'nearface', 'coords': [[[rng.choice(near) if rng.random() < 0.6 else rng.random() for _k in range(3)] for _a in range(na)] for _t in range(T)]})
    return cases


def _arr(a):
    """(frames, atoms, 3) float array -> frames x flat comps integer numerators (None if off grid)"""
    v = np.asarray(a) * DEN
    r = np.rint(v)
    if not np.array_equal(v, r):
        return None
    return r.astype(np.int64).reshape(r.shape[0], -1).tolist()


def _impl_nearface(case):
    raw = np.array(case['coords'], dtype=float)
    want = np.mod(raw, 1.0)
    want[want == 1.0] = 0.0
    t = synth.make_traj([[5, 0, 0], [1, 6, 0], [0, 1, 7]], ['Li'] * raw.shape[1], raw, mode='asis')

    def dev(p, w):
        d = np.abs(np.asarray(p) - w)
        return float(np.minimum(d, 1 - d).max())
    devs = {'fresh': dev(t.positions, want)}
    _ = t.displacements
    t.distances_from_base_position()
    devs['after displacement queries'] = dev(t.positions, want)
    devs['slice'] = dev(t[1:].positions, want[1:])
    devs['filter'] = dev(t.filter('Li').positions, want)
    devs['split'] = max(dev(p.positions, want[a:a + len(p)]) for a, p in zip([0, (len(raw) - 1) // 2], t.split(2))) if len(raw) >= 3 else 0.0
    return {'nearface_dev': devs}


def impl(case):
    if case['kind'] == 'nearface':
        return _impl_nearface(case)
    if case['kind'] == 'pyslice':
        res = []
        for a, b, c, L in case['combos']:
            try:
                res.append(list(range(*slice(a, b, c).indices(L))))
            except ValueError:
                res.append(None)
        return {'res': res}
    from gemdat.trajectory import Trajectory
    from pymatgen.core import Element
    m = [[5, 0, 0], [1, 6, 0], [0, 1, 7]]
    c = np.array(case['coords'], dtype=float).reshape(len(case['coords']), -1, 3) / DEN
    sp = [Element(s) for s in case['species']]
    if case['as_disp']:
        base = c[0].copy()
        d = np.diff(c, axis=0, prepend=c[:1])
        d = d - np.around(d)
        t0 = Trajectory(species=sp, coords=d, lattice=synth.make_lattice(m), time_step=1e-15,
                        coords_are_displacement=True, base_positions=base)
        store0 = [[True, _arr(d), (base * DEN).reshape(-1).astype(np.int64).tolist()]]
    else:
        t0 = Trajectory(species=sp, coords=c, lattice=synth.make_lattice(m), time_step=1e-15)
        store0 = [[False, [list(f) for f in case['coords']], list(case['coords'][0])]]
    objs = [t0]
    lat0, dt0 = np.asarray(t0.lattice).copy(), float(t0.time_step)
    species = [list(case['species'])]
    mops, results = [], []

    def new(t, spc, val):
        if not np.array_equal(np.asarray(t.lattice), lat0) or float(t.time_step) != dt0:
            stale.append(f'op {len(mops)}: the derived trajectory has lattice {np.asarray(t.lattice).round(6).tolist()} / time step {t.time_step}, the source {lat0.round(6).tolist()} / {dt0}')
        objs.append(t)
        species.append(spc)
        results.append(['val', val])

    stale = []
    for op in case['ops']:
        i = op[1]
        if i >= len(objs):
            continue
        t = objs[i]
        kind = op[0]
        if kind in ('pos', 'vol'):
            if kind == 'vol':
                t.to_volume(resolution=1.0)
            mops.append(['QPos', i])
            results.append(['val', _arr(t.positions)])
        elif kind == 'disp':
            mops.append(['QDisp', i])
            results.append(['val', _arr(t.displacements)])
        elif kind in ('cum', 'dist'):
            if kind == 'dist':
                t.distances_from_base_position()
            mops.append(['QCum', i])
            results.append(['val', _arr(t.cumulative_displacements)])
        elif kind == 'transitions':
            # a site analysis of the first species (reads positions); it may reject the input (no atom ever changes state), which is not our concern here
            from pymatgen.core import Structure
            lat = t.get_lattice()
            try:
                t.transitions_between_sites(Structure(lattice=lat, species=['Li', 'Li'], coords=[[0.1, 0.1, 0.1], [0.6, 0.6, 0.6]], labels=['A', 'B']),
                                            species[i][0], site_radius=0.8)
            except ValueError:
                pass
            mops.append(['QPos', i])
            results.append(['val', _arr(t.positions)])
        elif kind == 'shape':
            # a shape analysis that folds a supercell onto one cell (reads positions; a C-contiguous coordinate array is what constructors and slices hold)
            from gemdat.shape import ShapeAnalyzer
            from pymatgen.core import PeriodicSite
            from pymatgen.symmetry.groups import SpaceGroup
            lat = t.get_lattice()
            try:
                ShapeAnalyzer(sites=[PeriodicSite('Li', [0.1, 0.2, 0.3], lat, label='s')], lattice=lat, spacegroup=SpaceGroup('P-1')).analyze_trajectory(
                    t, supercell=(2, 1, 2), radius=0.5)
            except (ValueError, IndexError):
                pass
            mops.append(['QPos', i])
            results.append(['val', _arr(t.positions)])
        elif kind == 'metrics':
            mt = t.metrics()
            got = [np.array(mt.speed()), float(mt.tracer_diffusivity(dimensions=3)), float(mt.vibration_amplitude()), float(mt.particle_density())]
            # the same queries on a freshly built trajectory with the same frames: whatever was asked of t before must not matter
            import copy
            fresh = type(t)(species=list(t.species), coords=np.array(copy.deepcopy(t).positions), lattice=t.get_lattice(), time_step=t.time_step,
                            metadata=copy.deepcopy(t.metadata))
            fm = fresh.metrics()
            want = [np.array(fm.speed()), float(fm.tracer_diffusivity(dimensions=3)), float(fm.vibration_amplitude()), float(fm.particle_density())]
            if not (got[0].shape == want[0].shape and np.allclose(got[0], want[0], rtol=1e-9, atol=1e-9)
                    and all(abs(a - b) <= 1e-9 * max(abs(a), abs(b)) + 1e-300 for a, b in zip(got[1:], want[1:]))):
                stale.append(f'op {len(mops)}: metrics of object {i} (speed shape {got[0].shape}, D {got[1]}) differ from the metrics of a fresh trajectory '
                             f'with the same {len(t)} frames (speed shape {want[0].shape}, D {want[1]})')
            mops.append(['QDisp', i])
            results.append(['val', _arr(t.displacements)])
        elif kind in ('driftcorr', 'msd', 'com'):
            # derived quantities / derived trajectories that must leave their source untouched: the source ends up in
            # displacement mode (they read .displacements), which the model sees as a displacement query
            if kind == 'driftcorr':
                dobj = t.apply_drift_correction()
            elif kind == 'msd':
                t.mean_squared_displacement()
                dobj = None
            else:
                dobj = t.center_of_mass()
            if dobj is not None and (not np.array_equal(np.asarray(dobj.lattice), lat0) or float(dobj.time_step) != dt0):
                stale.append(f'op {len(mops)}: {kind} returns a trajectory with lattice {np.asarray(dobj.lattice).round(6).tolist()}, the source has {lat0.round(6).tolist()}')
            mops.append(['QDisp', i])
            results.append(['val', _arr(t.coords) if t.coords_are_displacement else None])
        elif kind == 'slice':
            mops.append(['OSlice', i, op[2], op[3], op[4]])
            try:
                nt = t[op[2]:op[3]:op[4]]
                new(nt, species[i], _arr(nt.coords))
            except (ValueError, IndexError):
                results.append(['err'])
        elif kind == 'filter':
            mask = [s in op[2] for s in species[i] for _ in range(3)]
            if not any(mask):
                continue          # selecting no atom at all is outside the property (zero-size arrays downstream)
            mops.append(['OFilter', i, mask])
            # the selection may be given in any collection type (or as a plain string for one species)
            kind_ = (len(mops) + len(op[2])) % 6
            sel = {0: list, 1: tuple, 2: set, 3: frozenset, 4: (lambda x: dict.fromkeys(x).keys()), 5: list}[kind_](op[2])
            if kind_ == 5 and len(op[2]) == 1:
                sel = op[2][0]
            nt = t.filter(sel)
            new(nt, [s for s in species[i] if s in op[2]], _arr(nt.coords))
        elif kind == 'split':
            n = op[2]
            L = len(t)
            if n > L - 1:
                continue
            parts = t.split(n, equal_parts=op[3])
            interval = np.linspace(0, L - 1, n + 1, dtype=int)
            sizes = [int(b - a) for a, b in itertools.pairwise(interval)]
            ms = min([L] + sizes)
            # Trajectory.split is a list of plain slices; with equal_parts each part is trimmed to the
            # smallest size, i.e. t[a:b][0:ms] = t[a:min(b, a+ms)]
            for (a, b), p in zip(itertools.pairwise(interval), parts):
                hi = int(b) if not op[3] else int(min(b, a + ms))
                mops.append(['OSlice', i, int(a), hi, None])
                new(p, species[i], _arr(p.coords))
        elif kind == 'extend':
            j = op[2]
            if j >= len(objs) or j == i or objs[j] is None or t is None or species[i] != species[j]:
                continue
            mops.append(['OExtend', i, j])
            t.extend(objs[j])
            results.append(['none'])
    return {'store0': store0, 'mops': mops, 'results': results, 'stale': stale[:3]}


def oracle(case, out):
    if case['kind'] == 'nearface':
        if 'nearface_dev' not in out:
            return [('c15/harness-error', f"{out.get('error')}: {out.get('msg')} {out.get('tb', '')[-400:]}")]
        bad = {k: v for k, v in out['nearface_dev'].items() if v > 1e-12}
        return [('ops/positions-changed', f'coordinates next to a cell face: positions differ from the input modulo 1 by {bad} (fractional units)')] if bad else []
    if case['kind'] == 'pyslice':
        return []
    if 'mops' not in out:
        return [('c15/harness-error', f"{out.get('error')}: {out.get('msg')} {out.get('tb', '')[-400:]}")]
    fs = [('ops/derived-lattice-or-time-step-changed' if 'lattice' in m else 'ops/stale-derived-result', m) for m in out.get('stale', [])]
    c0 = np.array(case['coords'], dtype=np.int64)
    truth = [np.mod(c0, DEN)]
    mutated = set()
    for op, r in zip(out['mops'], out['results']):
        if r[0] == 'val' and r[1] is None:
            fs.append(('ops/off-grid', f'{op[0]} returned values that are not on the input grid (exact regime)'))
            break
        k = op[0]
        if k in ('QPos', 'QDisp', 'QCum'):
            tr = truth[op[1]]
            if tr is None:
                continue
            v = np.array(r[1], dtype=np.int64).reshape(len(r[1]), -1) if len(r[1]) else np.zeros((0, 0), dtype=np.int64)
            if k == 'QPos':
                if not np.array_equal(v, tr):
                    fs.append(('ops/positions-changed', f'positions of object {op[1]} differ from the corresponding frames/atoms of the source'))
                    break
            else:
                d = np.diff(tr, axis=0, prepend=tr[:1])
                tie = (np.mod(2 * d, 2 * DEN) == DEN)
                dm = np.mod(d + DEN // 2, DEN) - DEN // 2
                want = dm if k == 'QDisp' else np.cumsum(dm, axis=0)
                okcols = ~tie.any(axis=0)
                if v.shape != want.shape or not np.array_equal(v[:, okcols], want[:, okcols]):
                    fs.append(('ops/displacements-changed', f'{k} of object {op[1]} is not the minimum-image displacement of its positions'))
                    break
        elif k == 'OSlice':
            if r[0] == 'err':
                continue
            tr = truth[op[1]]
            idx = list(range(*slice(op[2], op[3], op[4]).indices(len(tr)))) if tr is not None else None
            new = np.array(r[1], dtype=np.int64)
            if tr is not None and not np.array_equal(new, tr[idx]):
                fs.append(('ops/slice-wrong-frames', f'slice {op[2:]} of object {op[1]} does not contain the corresponding frames'))
                break
            truth.append(new if tr is None else tr[idx])
        elif k == 'OFilter':
            tr = truth[op[1]]
            new = np.array(r[1], dtype=np.int64)
            want = tr[:, np.array(op[2], dtype=bool)] if tr is not None else new
            if not np.array_equal(new, want):
                fs.append(('ops/filter-wrong-atoms', f'filter of object {op[1]} does not contain the selected atoms'))
                break
            truth.append(want)
        elif k == 'OExtend':
            i, j = op[1], op[2]
            if truth[i] is not None and truth[j] is not None:
                truth[i] = np.concatenate([truth[i], truth[j]])
    return fs


def _oz(v):
    return 'None' if v is None else f'(Some {z(v)})'


def coq_term(case, out):
    if case['kind'] == 'nearface':
        return None
    if case['kind'] == 'pyslice':
        sl = clist(f'({_oz(a)}, {_oz(b)}, {_oz(c)}, {nat(L)}, {"None" if r is None else "(Some " + zlist(r) + ")"})'
                   for (a, b, c, L), r in zip(case['combos'], out['res']))
        return '{| D := 1; store0 := []; ops := []; results := []; slices := %s |}' % sl
    if 'mops' not in out:
        return None
    st = clist(f'(T {cbool(m)} {clist(zlist(f) for f in c)} {zlist(b)})' for m, c, b in out['store0'])
    ops, res = [], []
    for op, r in zip(out['mops'], out['results']):
        k = op[0]
        if k in ('QPos', 'QDisp', 'QCum'):
            ops.append(f'{k} {nat(op[1])}')
        elif k == 'OSlice':
            ops.append(f'OSlice {nat(op[1])} {_oz(op[2])} {_oz(op[3])} {_oz(op[4])}')
        elif k == 'OFilter':
            ops.append(f'OFilter {nat(op[1])} {clist(cbool(b) for b in op[2])}')
        else:
            ops.append(f'OExtend {nat(op[1])} {nat(op[2])}')
        if r[0] == 'err':
            res.append('RErr')
        elif r[0] == 'none':
            res.append('RNone')
        else:
            v = r[1] if r[1] is not None else [[-777]]
            res.append(f'(RVal {clist(zlist(f) for f in v)})')
    return '{| D := %d; store0 := %s; ops := %s; results := %s; slices := [] |}' % (DEN, st, clist(ops), clist(res))


def nontrivial(case, out):
    if case['kind'] in ('pyslice', 'nearface'):
        return True
    ms = out.get('mops', [])
    switches = sum(1 for a, b in zip(ms, ms[1:]) if {a[0], b[0]} & {'QPos'} and {a[0], b[0]} & {'QDisp', 'QCum'})
    return switches >= 2 and any(m[0] in ('OSlice', 'OFilter') for m in ms)


def classify(case, out):
    if case['kind'] == 'nearface':
        return ['coordinates-next-to-cell-faces']
    if case['kind'] == 'pyslice':
        return ['pyslice'] + ['pyslice-combo'] * (len(case['combos']) // 100)
    tags = ['ops', 'start-in-displacement-mode' if case['as_disp'] else 'start-in-position-mode']
    for m in out.get('mops', []):
        tags.append('op:' + m[0])
    for r in out.get('results', []):
        if r[0] == 'err':
            tags.append('error-exit')
    return tags


def sample(case, out):
    if case['kind'] == 'nearface':
        return {'coords': case['coords'][:2], 'deviation': out.get('nearface_dev')}
    if case['kind'] == 'pyslice':
        return {'combos': case['combos'][:5], 'res': out.get('res', [])[:5]}
    return {'species': case['species'], 'as_disp': case['as_disp'], 'ops': out.get('mops', [])[:10]}
