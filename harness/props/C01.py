"""C01 -- periodic positions/displacements are exact, wrapped, lattice-shift invariant."""
import math
import struct
from fractions import Fraction as Fr

import numpy as np

import synth
from vcore import cbool, clist, z, zlist

TIE = 'Tie.C01'
DEN = 4096
RULE = ('cases = (a) trajectories (1-3 atoms, 2-12 frames) with coordinates on the 2^-12 grid in [-3, 3] incl. exact 0, +-1, half-cell steps, '
        'in 6 lattice classes (integer matrices, optionally rigidly rotated), each paired with a copy shifted by random whole lattice vectors per '
        'coordinate and frame (exact regime: numpy arithmetic is exact, outputs must be identical to the integer model); '
        '(b) face-adjacent float stream (0, -0.0, +-2^-k, -1e-17, 1-2^-53, k+-ulp, denormals ...) compared bit for bit with the PrimFloat twin of np.mod; '
        'non-trivial = at least one wrap and one coordinate outside [0,1)')
TRUSTED = ['numpy add/sub/mod/around/cumsum follow IEEE-754 binary64 (exact on the dyadic grid; bit-exact tie for np.mod)',
           'primitive floats of the Coq kernel (PrimFloat) for the executable twin',
           'translator unit trajcore (AST of Trajectory.to_positions and the properties around it -> Gen/TrajCore.v); pymatgen Trajectory.to_positions/to_displacements modelled']
ASSUMPTIONS = ['shift invariance is claimed away from exact half-cell steps (both +-1/2 are minimum images there)']
KINDS = ['cubic', 'ortho', 'mono', 'hexlike', 'hex', 'tri', 'tri_full']


def _bits(x):
    return struct.unpack('<Q', struct.pack('<d', x))[0]


def fl3(x):
    """(sign, mantissa, exponent) with x = (-1)^s * m * 2^e exactly"""
    x = float(x)
    s = math.copysign(1.0, x) < 0
    if x == 0:
        return [s, 0, 0]
    m, e = math.frexp(abs(x))
    m = int(m * 2**53)
    e -= 53
    while m % 2 == 0:
        m //= 2
        e += 1
    return [s, m, e]


SPECIAL = [0.0, -0.0, 1.0, -1.0, 2.0, -1e-17, 1e-17, -2.0**-60, 2.0**-60, -2.0**-53, -2.0**-54, -2.0**-55, 1 - 2.0**-53, -(1 - 2.0**-53),
           1 + 2.0**-52, -(1 + 2.0**-52), 0.5, -0.5, 5e-324, -5e-324, 2.2250738585072014e-308, -2.2250738585072014e-308,
           3 - 2.0**-51, -3 + 2.0**-51, 123456.75, -123456.75, 1e15 + 0.5, -1e15 - 0.5, 0.1, -0.1, 0.9999999999999999, -0.9999999999999999]


def pre_build():
    import translate
    return [translate.gen_traj_core()]


def gen_cases(rng, tier):
    n = {'quick': 220, 'thorough': 4000, 'search': 120}[tier]
    cases = []
    for _ in range(n):
        kind = rng.choice(KINDS)
        m = synth.int_lattice(rng, kind)
        T, na = rng.randint(2, 12), rng.randint(1, 3)
        coords = []
        for _a in range(na):
            atom = []
            for _ax in range(3):
                x = rng.randint(-3 * DEN, 3 * DEN)
                col = []
                for _t in range(T):
                    r = rng.random()
                    if r < 0.08:
                        x = rng.choice([0, DEN, -DEN, 2 * DEN, 1, -1, DEN - 1])
                    elif r < 0.14:
                        x += rng.choice([DEN // 2, -DEN // 2])          # exact half-cell step (tie)
                    elif r < 0.3:
                        x += rng.randint(-DEN, DEN)
                    else:
                        x += rng.randint(-300, 300)
                    col.append(x)
                atom.append(col)
            coords.append(atom)
        shifts = [[[rng.randint(-3, 3) for _ in range(T)] for _ in range(3)] for _ in range(na)]
        cases.append({'kind': 'exact', 'm': m, 'rot': rng.random() < 0.4, 'rseed': rng.randrange(10**6), 'coords': coords, 'shifts': shifts,
                      'pre': rng.randint(1, T - 1) if (T >= 3 and rng.random() < 0.25) else 0})
    nf = {'quick': 12, 'thorough': 300, 'search': 6}[tier]
    for k in range(nf):
        xs = list(SPECIAL) if k == 0 else []
        while len(xs) < 60:
            r = rng.random()
            if r < 0.3:
                xs.append(rng.choice([-1, 1]) * 2.0 ** -rng.randint(1, 1074))
            elif r < 0.5:
                base = float(rng.randint(-5, 5))
                xs.append(np.nextafter(base, base + rng.choice([-1, 1])).item())
            elif r < 0.7:
                xs.append(rng.uniform(-4, 4))
            elif r < 0.85:
                xs.append(rng.choice([-1, 1]) * (rng.randint(0, 3) + 1 - 2.0 ** -rng.randint(40, 53)))
            else:
                xs.append(rng.uniform(-1e-15, 1e-15))
        xs = xs[: (len(xs) // 3) * 3]
        cases.append({'kind': 'float', 'xs': [fl3(x) for x in xs]})
    return cases


def _from_fl3(f):
    s, m, e = f
    v = math.ldexp(m, e)
    return -v if s else v


def _obs(traj):
    pos = np.array(traj.positions)
    disp = np.array(traj.displacements)
    cum = np.array(traj.cumulative_displacements)
    dist = traj.distances_from_base_position()
    pos2 = np.array(traj.positions)
    return pos, disp, cum, dist, pos2


def impl(case):
    if case['kind'] == 'float':
        xs = np.array([_from_fl3(f) for f in case['xs']]).reshape(-1, 1, 3)
        traj = synth.make_traj([[5, 0, 0], [0, 5, 0], [0, 0, 5]], ['Li'], xs, mode='asis')
        p1 = np.array(traj.positions).reshape(-1)
        p2 = np.array(traj.positions).reshape(-1)
        try:
            traj.to_volume(resolution=1.0)
            vol = None
        except AssertionError:
            vol = 'AssertionError'
        return {'p1': [fl3(v) for v in p1], 'v1': [float(v) for v in p1], 'v2': [float(v) for v in p2], 'vol': vol}
    m = case['m']
    import random
    rot = synth.rotation(random.Random(case['rseed'])) if case['rot'] else None
    c = np.array(case['coords'], dtype=float).transpose(2, 0, 1) / DEN        # frames, atoms, axes
    s = np.array(case['shifts'], dtype=float).transpose(2, 0, 1)
    out = {}
    for name, arr in (('a', c), ('b', c + s)):
        k = case.get('pre', 0)
        if k:
            # a restarted run: the first k frames are analysed, the continuation is appended with extend(), then everything is observed
            traj = synth.make_traj(m, ['Li'] * arr.shape[1], arr[:k], rot=rot)
            _obs(traj)
            traj.extend(synth.make_traj(m, ['Li'] * arr.shape[1], arr[k:], rot=rot))
        else:
            traj = synth.make_traj(m, ['Li'] * arr.shape[1], arr, rot=rot)
        pos, disp, cum, dist, pos2 = _obs(traj)
        # calls that derive other objects (drift-corrected copy, centre of mass, selections, slices, MSD) must leave every observable of this one unchanged
        nfr = arr.shape[0]
        traj.apply_drift_correction(), traj.center_of_mass(), traj.filter('Li'), traj.mean_squared_displacement(), traj[1:], traj[::2]
        if nfr >= 3:
            traj.split(2)
        # analyses that read the trajectory as a whole: density volume, shape analysis of a folded supercell, site transitions
        try:
            from gemdat.shape import ShapeAnalyzer
            from pymatgen.core import PeriodicSite
            from pymatgen.symmetry.groups import SpaceGroup
            import warnings
            with warnings.catch_warnings():
                warnings.simplefilter('ignore')
                ShapeAnalyzer(sites=[PeriodicSite('Li', [0.1, 0.2, 0.3], traj.get_lattice())], lattice=traj.get_lattice(),
                              spacegroup=SpaceGroup('P-1')).analyze_trajectory(traj, supercell=(2, 1, 1), radius=1.0)
            traj.to_volume(resolution=1.0)
        except (ValueError, AssertionError, IndexError, TypeError):
            pass
        pos3, disp3, cum3, dist3, _ = _obs(traj)
        same3 = bool(np.array_equal(pos, pos3) and np.array_equal(disp, disp3) and np.array_equal(cum, cum3) and np.allclose(dist, dist3, rtol=1e-12, atol=1e-12))
        # a slice that starts after frame 0, asked for displacements and then for positions: its frames are the parent's frames
        slice_ok = True
        if nfr >= 3:
            ks = 1 + (nfr - 2) // 2
            sl = traj[ks:]
            _ = np.array(sl.displacements)
            slice_ok = bool(np.array_equal(np.array(sl.positions), pos[ks:]))
            sl2 = traj[::2]
            _ = np.array(sl2.cumulative_displacements)
            slice_ok = slice_ok and bool(np.array_equal(np.array(sl2.positions), pos[::2]))
        # a fresh object asked for the displacement-based quantities FIRST (before any positions query wrapped its coordinates)
        fresh = synth.make_traj(m, ['Li'] * arr.shape[1], arr, rot=rot, mode='asis')
        cum_first = np.array(fresh.cumulative_displacements)
        dist_first = np.array(fresh.distances_from_base_position())
        out[name] = {'slice_ok': slice_ok, 'cum_first': (cum_first * DEN).transpose(1, 2, 0).tolist(), 'dist_first': dist_first.tolist(), 'after_derived_same': same3, 'pos': (pos * DEN).transpose(1, 2, 0).tolist(), 'disp': (disp * DEN).transpose(1, 2, 0).tolist(),
                     'cum': (cum * DEN).transpose(1, 2, 0).tolist(), 'dist': dist.tolist(),
                     'pos2_same': bool(np.array_equal(pos, pos2))}
    return out


def _ints(a):
    """nested float lists that must be exact integers -> ints, else None"""
    arr = np.array(a)
    r = np.rint(arr)
    if not np.array_equal(arr, r):
        return None
    return r.astype(np.int64).tolist()


def oracle(case, out):
    fs = []
    if case['kind'] == 'float':
        if 'p1' not in out:
            return [('c01/harness-error', f"{out.get('error')}: {out.get('msg')} {out.get('tb', '')[-300:]}")]
        for f, v1, v2 in zip(case['xs'], out['v1'], out['v2']):
            x = _from_fl3(f)
            if not (0 <= v1 < 1):
                fs.append(('positions/outside-unit-cell', f'coordinate {x!r} ({float(x).hex()}) is reported as {v1!r}'))
                break
            k = round(x - v1)
            if abs((v1 + k) - x) > 2.3e-16 * max(1.0, abs(x)):
                fs.append(('positions/not-congruent', f'coordinate {x!r} reported as {v1!r}: not a whole-cell translate'))
                break
            if v1 != v2:
                fs.append(('positions/second-read-differs', f'coordinate {x!r}: first read {v1!r}, second read {v2!r}'))
                break
        if out['vol'] and not fs:
            fs.append(('positions/volume-asserts', 'trajectory_to_volume raises AssertionError on these positions'))
        return fs
    if 'a' not in out:
        return [('c01/harness-error', f"{out.get('error')}: {out.get('msg')} {out.get('tb', '')[-300:]}")]
    c = np.array(case['coords'])
    for name in ('a', 'b'):
        o = out[name]
        pos, disp, cum = np.array(o['pos']), np.array(o['disp']), np.array(o['cum'])
        x = c if name == 'a' else c + DEN * np.array(case['shifts'])
        if not ((pos >= 0).all() and (pos < DEN).all()):
            fs.append(('positions/outside-unit-cell', 'a position lies outside [0, 1)'))
        if not np.array_equal(np.mod(pos - x, DEN), np.zeros_like(pos)):
            fs.append(('positions/not-congruent', 'a position is not a whole-cell translate of the input'))
        if (np.abs(disp) * 2 > DEN).any():
            fs.append(('displacements/not-minimum-image', 'a displacement component exceeds half a cell'))
        rec = x[:, :, :1] + np.cumsum(disp, axis=2)
        if not np.array_equal(np.mod(rec - x, DEN), np.zeros_like(rec)):
            fs.append(('displacements/reconstruction', 'first frame + running sum of displacements does not reproduce the frames modulo 1'))
        if not np.array_equal(np.cumsum(disp, axis=2), cum):
            fs.append(('displacements/cumulative', 'cumulative_displacements is not the running sum of displacements'))
        # distance from the starting position = Cartesian length of the cumulative displacement (exact Gram matrix of the cell, any orientation)
        G = np.array(synth.gram(case['m']), dtype=float)
        want_d = np.sqrt(np.einsum('atk,kl,atl->at', cum.transpose(0, 2, 1), G, cum.transpose(0, 2, 1))) / DEN
        got_d = np.array(o['dist'])
        if got_d.shape != want_d.shape or not np.allclose(got_d, want_d, rtol=1e-9, atol=1e-9):
            bad = np.argwhere(~np.isclose(got_d, want_d, rtol=1e-9, atol=1e-9))[0] if got_d.shape == want_d.shape else (0, 0)
            fs.append(('distance/not-length-of-cumulative-displacement',
                       f'atom {bad[0]} frame {bad[1]}: distance from base {got_d[tuple(bad)] if got_d.shape == want_d.shape else got_d.shape} but the cumulative displacement has length '
                       f'{want_d[tuple(bad)]} (lattice {case["m"]}, rotated={case["rot"]})'))
        if not o['pos2_same']:
            fs.append(('positions/second-read-differs', 'positions changed after reading displacements / distances'))
        if o.get('slice_ok') is False:
            fs.append(('positions/slice-differs-from-parent', 'a slice starting after the first frame (or a strided one), asked for displacements and then for positions, does not return the frames of its parent'))
        if not o.get('after_derived_same', True):
            fs.append(('positions/changed-by-derived-call', 'positions / displacements / cumulative displacements / distances of a trajectory changed after '
                       'apply_drift_correction(), center_of_mass(), filter(), mean_squared_displacement(), slicing or split() were called on it'))
    # shift invariance away from ties
    d = np.diff(c, axis=2)
    tie_atoms = (np.mod(2 * d, 2 * DEN) == DEN).any(axis=(1, 2))
    for a in range(c.shape[0]):
        if tie_atoms[a]:
            continue
        for name in ('a', 'b'):
            if 'cum_first' in out[name] and (out[name]['cum_first'][a] != out[name]['cum'][a]
                                             or not np.allclose(out[name]['dist_first'][a], out[name]['dist'][a], rtol=1e-12, atol=1e-12)):
                fs.append(('displacements/depend-on-query-order', f'atom {a} (input {"with" if name == "b" else "without"} whole-cell shifts): cumulative displacements / distances '
                           'asked of a fresh trajectory first differ from those obtained after a positions query'))
                break
        if 'cum_first' in out['a'] and out['a']['cum_first'][a] != out['b']['cum_first'][a]:
            fs.append(('shift/cumulative-displacements-change', f'atom {a}: cumulative displacements (asked first, before any positions query) change under whole-cell shifts'))
        if out['a']['cum'][a] != out['b']['cum'][a]:
            fs.append(('shift/cumulative-displacements-change', f'atom {a}: cumulative displacements change under whole-cell shifts'))
        da, db = np.array(out['a']['dist'][a]), np.array(out['b']['dist'][a])
        if not np.allclose(da, db, rtol=1e-12, atol=1e-12):
            fs.append(('shift/distances-change', f'atom {a}: distances from base change under whole-cell shifts'))
    return fs


def coq_term(case, out):
    if case['kind'] == 'float':
        if 'p1' not in out:
            return None
        f = lambda t: f'({cbool(t[0])}, {z(t[1])}, {z(t[2])})'
        fl = clist(f'({f(a)}, {f(b)})' for a, b in zip(case['xs'], out['p1']))
        e = '{| o_pos := []; o_disp := []; o_cum := []; o_dist := [] |}'
        return '{| D := 1; G := []; gden := 1; coords := []; shifted := []; out1 := %s; out2 := %s; floats := %s |}' % (e, e, fl)
    if 'a' not in out:
        return None
    G = synth.gram(case['m'])
    c = np.array(case['coords'])
    sh = c + DEN * np.array(case['shifts'])
    l3 = lambda a: clist(clist(zlist(ax) for ax in atom) for atom in a)
    obs = []
    for name in ('a', 'b'):
        o = out[name]
        pos, disp, cum = _ints(o['pos']), _ints(o['disp']), _ints(o['cum'])
        if pos is None or disp is None or cum is None:
            pos = disp = cum = [[[-777]]]          # not on the grid: forces a disagreement (exact regime must be exact)
        dist = clist(clist('(%s, %s)' % tuple(z(v) for v in synth.dyadic(d)) for d in atom) for atom in o['dist'])
        obs.append('{| o_pos := %s; o_disp := %s; o_cum := %s; o_dist := %s |}' % (l3(pos), l3(disp), l3(cum), dist))
    return '{| D := %d; G := %s; gden := 1; coords := %s; shifted := %s; out1 := %s; out2 := %s; floats := [] |}' % (
        DEN, clist(zlist([int(v) for v in row]) for row in G), l3(c.tolist()), l3(sh.tolist()), obs[0], obs[1])


def nontrivial(case, out):
    if case['kind'] == 'float':
        return True
    c = np.array(case['coords'])
    return bool(((c < 0) | (c >= DEN)).any())


def classify(case, out):
    if case['kind'] == 'float':
        return ['float-stream'] + ['float-value'] * len(case['xs'])
    tags = ['exact', 'lattice:' + ('rotated' if case['rot'] else 'aligned')]
    c = np.array(case['coords'])
    d = np.diff(c, axis=2)
    if (np.mod(2 * d, 2 * DEN) == DEN).any():
        tags.append('has-half-cell-tie')
    if (np.mod(c, DEN) == 0).any():
        tags.append('coordinate-on-cell-face')
    return tags


def sample(case, out):
    if case['kind'] == 'float':
        return {'xs': [_from_fl3(f) for f in case['xs'][:8]], 'positions': out.get('v1', [])[:8]}
    return {'m': case['m'], 'rot': case['rot'], 'coords_over_4096': case['coords'][0], 'cum': out.get('a', {}).get('cum', [None])[0]}
