"""C04 -- jumps are exactly the changes of visited site; stricter settings only remove."""
import itertools

import numpy as np

import synth

from vcore import clist, z, zlist

TIE = 'Tie.C04'
RULE = ('cases = multi-atom (outer, inner) histories x minimal_residence in 0..4; exhaustive single-atom histories over '
        'sites {-1,0,1} with every inner variant (inner in {-1, outer}) up to length 5 (quick: all of length<=4 + sample of 5; '
        'thorough: all <=6, plus 3-site histories), packed 8 atoms per case, plus random long histories; '
        'non-trivial = at least one default jump')
TRUSTED = ['translator unit jumpstep (harness/translate.py): the loop body is regenerated from the source and proved to refine Model.C04.step on every run', 'pandas groupby/iterrows row order and Series aliasing in the scan loop (value semantics in the model; validated by the tie)']
ASSUMPTIONS = ['events are those of C03 (events_from); the scan loop is modelled with value semantics']
MRS = [0, 1, 2, 3, 5]
HEADER = '''From GV Require Import Gen.JumpStepDef.
(* the loop body regenerated from the source, evaluated on the same inputs as the hand-written model *)
Fixpoint gen_agrees_atoms (mr a : Z) (atoms : list (list Z * list Z)) : bool :=
  match atoms with
  | [] => true
  | (o, i) :: r => list_eqb jump_eqb (gen_scan mr (events_from a 0 o i)) (scan mr (events_from a 0 o i)) && gen_agrees_atoms mr (a + 1) r
  end.
Definition bad (cs : list case) : list nat :=
  false_idx (map (fun c => check c && forallb (fun r => gen_agrees_atoms (fst r) 0 (fst c)) (snd c)) cs).'''


def pre_build():
    import translate
    js = translate.gen_jump_step()
    return [js, translate.gen_pipeline()] if js[1] else [js]


class _Sites:
    is_ordered = True

    def __len__(self):
        return 4


def _frames(T, sites):
    opts = [(-1, -1)]
    for s in sites:
        opts += [(s, s), (s, -1)]
    for combo in itertools.product(opts, repeat=T):
        yield [c[0] for c in combo], [c[1] for c in combo]


def _pack(singles, n, kind):
    by_len = {}
    for o, i in singles:
        by_len.setdefault(len(o), []).append((o, i))
    cases = []
    for T, lst in by_len.items():
        for k in range(0, len(lst), n):
            chunk = lst[k:k + n]
            cases.append({'outer': [c[0] for c in chunk], 'inner': [c[1] for c in chunk], 'kind': kind})
    return cases

def _long_history(rng):
    """a long run: frame numbers beyond 16-bit range, few changes, some of them late"""
    T = rng.choice([70000, 66000, 131100])
    outer = []
    for _a in range(2):
        times = sorted(set([rng.randrange(T - 1) for _ in range(6)] + [T - 2, 32767, 32768, 65535, 65536, T - 70]))
        o, cur, k = [], rng.randint(0, 2), 0
        for t in range(T):
            o.append(cur)
            if k < len(times) and t == times[k]:
                cur = rng.choice([v for v in (-1, 0, 1, 2) if v != cur])
                k += 1
        outer.append(o)
    return outer, [list(o) for o in outer]


def gen_cases(rng, tier):
    cases = []
    singles = []
    if tier == 'quick':
        for T in range(2, 5):
            singles.extend(_frames(T, [0, 1]))
        singles.extend(rng.sample(list(_frames(5, [0, 1])), 700))
        nrand = 250
    elif tier == 'thorough':
        for T in range(2, 7):
            singles.extend(_frames(T, [0, 1]))
        for T in range(2, 5):
            singles.extend(_frames(T, [0, 1, 2]))
        nrand = 4000
    else:
        nrand = 200
    cases.extend(_pack(singles, 8, 'exhaustive'))
    for _ in range(nrand):
        T = rng.choice([3, 5, 8, 13, 30, 80, 200])
        n_atoms = rng.randint(1, 5)
        n_sites = rng.randint(2, 5)
        outer, inner = [], []
        for _a in range(n_atoms):
            o, i = [], []
            cur = rng.randint(-1, n_sites - 1)
            p_move = rng.choice([0.05, 0.2, 0.5, 0.9])
            p_in = rng.choice([0.0, 0.3, 0.7, 1.0])
            for _t in range(T):
                if rng.random() < p_move:
                    cur = rng.choice([-1, -1] + list(range(n_sites)))
                o.append(cur)
                i.append(cur if (cur != -1 and rng.random() < p_in) else -1)
            outer.append(o)
            inner.append(i)
        cases.append({'outer': outer, 'inner': inner, 'kind': 'random'})
    for _ in range({'quick': 1, 'thorough': 3, 'search': 1}.get(tier, 1)):
        o, i = _long_history(rng)
        cases.append({'outer': o, 'inner': i, 'kind': 'long'})
    # cases in which nothing changes cannot build an event table at all; drop them
    cases = [c for c in cases if any(len(set(zip(o, i))) > 1 for o, i in zip(c['outer'], c['inner']))]
    return cases


def impl(case):
    from gemdat.jumps import Jumps
    from gemdat.transitions import Transitions, _calculate_transition_events
    states = np.array(case['outer'], dtype=int).T
    inner = np.array(case['inner'], dtype=int).T
    ev = _calculate_transition_events(atom_sites=states, atom_inner_sites=inner)
    tr = Transitions(trajectory=None, diff_trajectory=None, sites=_Sites(), events=ev,
                     states=states, inner_states=inner)
    guard = synth.InputGuard(transitions=tr, states=states, inner=inner)
    runs = {}
    for mr in MRS:
        try:
            j = Jumps(tr, minimal_residence=mr)
            d = j.data
            rows = [[int(r[c]) for c in ('atom index', 'start site', 'destination site', 'start time', 'stop time')]
                    for _, r in d.iterrows()]
            assert j.n_jumps == len(rows)
        except ValueError as e:
            if 'No jumps found' not in str(e):
                raise
            rows = []
        runs[str(mr)] = rows
    return {'runs': runs, 'inputs_changed': guard.changed()}


def default_jumps(a, o):
    out, last = [], None
    for t, s in enumerate(o):
        if s == -1:
            continue
        if last is not None and last[0] != s:
            out.append((a, last[0], s, last[1], t))
        last = (s, t)
    return out


def oracle(case, out):
    if 'runs' not in out:
        return [('jumps/harness-error', f"{out.get('error')}: {out.get('msg')}")]
    fs = synth.inputs_clause(out, 'Jumps(transitions, minimal_residence=...)')
    dflt = []
    for a, o in enumerate(case['outer']):
        dflt.extend(default_jumps(a, o))
    same_inner = case['outer'] == case['inner']
    keys = {d[:4] for d in dflt}
    prev = None
    for mr in MRS:
        rows = [tuple(r) for r in out['runs'][str(mr)]]
        if mr == 0 and same_inner:
            if sorted(rows) != sorted(dflt):
                fs.append(('jumps/default-not-exact', f'default jumps {sorted(rows)[:4]} expected {sorted(dflt)[:4]}'))
        for r in rows:
            if r[:4] not in keys:
                fs.append(('jumps/not-a-default-jump', f'mr={mr}: jump {r} is not a default jump'))
                break
            a, f, t, s, e = r
            o = case['outer'][a]
            if not (0 <= s < e < len(o)) or o[s] != f or o[e] != t:
                fs.append(('jumps/inconsistent-with-states', f'mr={mr}: jump {r} does not match the recorded states'))
                break
        if len(set(rows)) != len(rows):
            fs.append(('jumps/duplicate', f'mr={mr}: duplicate jump'))
        elif len({r[:4] for r in rows}) != len(rows):
            dup = sorted(r for r in rows if sum(1 for q in rows if q[:4] == r[:4]) > 1)[:2]
            fs.append(('jumps/same-default-jump-twice', f'mr={mr}: one change of visited site (atom, origin, destination, start time) is reported as several jumps: {dup}'))
        if prev is not None and not set(rows) <= prev:
            fs.append(('jumps/residence-not-monotone', f'raising minimal residence to {mr} added {sorted(set(rows) - prev)[:3]}'))
        prev = set(rows)
    return fs


def coq_term(case, out):
    if 'runs' not in out or case.get('kind') == 'long':
        return None          # long runs: oracle only
    atoms = clist(f'({zlist(o)}, {zlist(i)})' for o, i in zip(case['outer'], case['inner']))
    runs = clist(f'({z(mr)}, {clist("J " + " ".join(z(v) for v in r) for r in out["runs"][str(mr)])})' for mr in MRS)
    return f'({atoms}, {runs})'


def nontrivial(case, out):
    return any(default_jumps(a, o) for a, o in enumerate(case['outer']))


def classify(case, out):
    tags = [case.get('kind', 'corpus'), f'T={len(case["outer"][0])}']
    if case['outer'] == case['inner']:
        tags.append('inner=outer')
    if 'runs' in out:
        n0, n5 = len(out['runs']['0']), len(out['runs']['5'])
        if n5 < n0:
            tags.append('residence-removes-jumps')
    return tags


def sample(case, out):
    return {'outer': [o[:40] for o in case['outer'][:2]], 'inner': [i[:40] for i in case['inner'][:2]], 'jumps_mr0': out.get('runs', {}).get('0', [])[:5]}
