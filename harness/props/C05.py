"""C05 -- jump/occupancy bookkeeping conserves counts; jump diffusivity matches formula."""
from collections import Counter
from fractions import Fraction as Fr

import numpy as np

import synth
from vcore import clist, z, zlist

TIE = 'Tie.C05'
RULE = ('cases = random site sets (2-7 sites, 1-3 labels, coordinates on the 1/8 grid of an integer cubic/orthorhombic/triclinic cell) x '
        'multi-atom (outer, inner) histories (at most one atom per site and frame) x minimal residence 0-2 x dimensions 1-3; '
        'non-trivial = at least 2 distinct (origin, destination) site pairs among the jumps')
TRUSTED = ['pymatgen Structure/Composition containers; Lattice.get_all_distances is compared with an exact rational minimum-image search in the harness']
ASSUMPTIONS = ['fancy-index assignment with repeated cells is modelled as last-writer-wins in np.unique (lexicographic) order']
LABELS = ['A', 'B', 'C']


def pre_build():
    import translate
    return [translate.gen_formulas_c05(), translate.gen_rates(), translate.gen_occupancy()]


def gen_cases(rng, tier):
    n = {'quick': 260, 'thorough': 5000, 'search': 150}[tier]
    cases = []
    while len(cases) < n:
        kind = rng.choice(['cubic', 'ortho', 'hex', 'mono', 'tri'])
        m = synth.int_lattice(rng, kind)
        ns = rng.randint(2, 7)
        pts = set()
        while len(pts) < ns:
            pts.add(tuple(rng.randint(0, 7) for _ in range(3)))
        pts = sorted(pts)
        rng.shuffle(pts)
        nl = rng.randint(1, 3)
        labels = [rng.randrange(nl) for _ in range(ns)]
        T = rng.choice([4, 6, 10, 20, 40])
        na = rng.randint(1, 4)
        outer = [[-1] * T for _ in range(na)]
        inner = [[-1] * T for _ in range(na)]
        cur = [rng.randint(-1, ns - 1) for _ in range(na)]
        p_move = rng.choice([0.1, 0.3, 0.6])
        p_in = rng.choice([0.3, 0.8, 1.0])
        for t in range(T):
            used = set()
            for a in range(na):
                if rng.random() < p_move:
                    cur[a] = rng.choice([-1] + list(range(ns)))
                s = cur[a]
                if s in used:
                    s = -1
                if s != -1:
                    used.add(s)
                outer[a][t] = s
                inner[a][t] = s if (s != -1 and rng.random() < p_in) else -1
        if not any(len(set(zip(o, i))) > 1 for o, i in zip(outer, inner)):
            continue
        cases.append({'m': m, 'sites8': [list(p) for p in pts], 'labels': labels, 'outer': outer, 'inner': inner,
                      'mr': rng.choice([0, 0, 1, 2, 3, 5]), 'dim': rng.randint(1, 3), 'tseed': rng.randrange(10**6),
                      'dt': rng.choice([1e-15, 2e-15, 2.5e-15]), 'site_scale': rng.choice([1.0, 1.0, 1.05]), 'plots': rng.random() < 0.2})
    # the whole chain from coordinates on a structure with more sites than an 8-bit index can address (oracle only)
    for _ in range({'quick': 2, 'thorough': 12, 'search': 1}[tier]):
        g = rng.choice([[6, 6, 5], [7, 5, 6], [5, 8, 7]])
        nsites = g[0] * g[1] * g[2]
        pairs = [[5, 6], [rng.randrange(130, nsites - 1)] * 2, [rng.randrange(200 if nsites > 256 else 130, nsites - 1)] * 2]
        pairs = [[a, a + 1] if a == b else [a, b] for a, b in pairs]
        cases.append({'kind': 'many', 'grid': g, 'pairs': pairs, 'period': rng.choice([4, 5, 7]), 'T': rng.choice([40, 60])})
    return cases


def _many_sites(case):
    g = case['grid']
    return [[i / g[0], j / g[1], k / g[2]] for i in range(g[0]) for j in range(g[1]) for k in range(g[2])]


def _many_schedule(case):
    """site of atom a at frame t (-1: in transit, one frame at every change)"""
    T, per = case['T'], case['period']
    sched = []
    for a, (s0, s1) in enumerate(case['pairs']):
        row = []
        for t in range(T):
            ph = (t + a) % (2 * per)
            row.append(-1 if ph in (per - 1, 2 * per - 1) else (s0 if ph < per else s1))
        sched.append(row)
    return sched


def _impl_many(case):
    from gemdat.jumps import Jumps
    g = case['grid']
    m = [[4 * g[0], 0, 0], [0, 4 * g[1], 0], [0, 0, 4 * g[2]]]
    frac = _many_sites(case)
    labels = ['A' if k % 2 == 0 else 'B' for k in range(len(frac))]
    sites = synth.make_sites(m, frac, labels=labels)
    sched = _many_schedule(case)
    T = case['T']
    coords = np.zeros((T, len(sched), 3))
    for a, row in enumerate(sched):
        s0, s1 = case['pairs'][a]
        mid = (np.array(frac[s0]) + np.array(frac[s1])) / 2
        for t, s in enumerate(row):
            coords[t, a] = (np.array(frac[s]) if s >= 0 else mid) + 0.002 * np.sin(0.7 * t + a)
    traj = synth.make_traj(m, ['Li'] * len(sched), np.mod(coords, 1))
    tr = traj.transitions_between_sites(sites, 'Li', site_radius=1.0)
    j = Jumps(tr)
    occ = tr.occupancy()
    return {'many_states': np.asarray(tr.states).T.tolist(), 'many_occ': [float(s.species.num_atoms) for s in occ],
            'many_tmat_nz': sorted([int(a), int(b), int(tr.matrix()[a, b])] for a, b in zip(*np.nonzero(tr.matrix()))),
            'many_jmat_nz': sorted([int(a), int(b), int(j.matrix()[a, b])] for a, b in zip(*np.nonzero(j.matrix()))),
            'many_counter': sorted([a, b, int(c)] for (a, b), c in j.counter().items()),
            'many_locations': {k: float(v) for k, v in tr.atom_locations().items()}, 'many_njumps': int(j.n_jumps)}


def _oracle_many(case, out):
    if 'many_states' not in out:
        return [('c05/harness-error', f"{out.get('error')}: {out.get('msg')} {out.get('tb', '')[-300:]}")]
    fs = []
    sched = _many_schedule(case)
    n = len(_many_sites(case))
    where = f'{n} sites, atoms hopping between {case["pairs"]}'
    if out['many_states'] != sched:
        a = next(i for i, (x, y) in enumerate(zip(out['many_states'], sched)) if x != y)
        fs.append(('matrix/many-sites', f'states of atom {a} are {sorted(set(out["many_states"][a]))}, the atom visits {sorted(set(sched[a]))} ({where})'))
    T = case['T']
    want_occ = [sum(row.count(k) for row in sched) / T for k in range(n)]
    if len(out['many_occ']) != n or any(abs(x - y) > 1e-12 for x, y in zip(out['many_occ'], want_occ)):
        fs.append(('occupancy/per-site', f'occupancies sum to {sum(out["many_occ"])}, expected {sum(want_occ)} ({where})'))
    jumps = Counter()
    for row in sched:
        seq = [s for s in row if s >= 0]
        for x, y in zip(seq, seq[1:]):
            if x != y:
                jumps[(x, y)] += 1
    want_nz = sorted([a, b, c] for (a, b), c in jumps.items())
    if out['many_jmat_nz'] != want_nz:
        fs.append(('matrix/many-sites', f'non-zero entries of the jump matrix {out["many_jmat_nz"][:6]}, expected {want_nz[:6]} ({where})'))
    if out['many_njumps'] != sum(jumps.values()):
        fs.append(('jumps/count-conservation', f'n_jumps {out["many_njumps"]}, the atoms change site {sum(jumps.values())} times ({where})'))
    lab = lambda k: 'A' if k % 2 == 0 else 'B'
    cnt = Counter()
    for (a, b), c in jumps.items():
        cnt[(lab(a), lab(b))] += c
    if out['many_counter'] != sorted([a, b, c] for (a, b), c in cnt.items()):
        fs.append(('counter/aggregation', f'counter {out["many_counter"]}, expected {sorted(cnt.items())} ({where})'))
    for L in ('A', 'B'):
        want = sum(want_occ[k] for k in range(n) if lab(k) == L) / len(sched)
        if abs(out['many_locations'].get(L, 0.0) - want) > 1e-12:
            fs.append(('occupancy/atom-locations', f'atom_locations[{L}] = {out["many_locations"].get(L)}, expected {want} ({where})'))
    return fs


def impl(case):
    if case.get('kind') == 'many':
        return _impl_many(case)
    from gemdat.jumps import Jumps
    from gemdat.transitions import Transitions, _calculate_transition_events
    m = case['m']
    frac = [[c / 8 for c in p] for p in case['sites8']]
    # the site structure may be given in a slightly different cell than the simulation; distances are those of the simulation cell
    sc = case.get('site_scale', 1.0)
    sites = synth.make_sites([[v * sc for v in row] for row in m], frac, labels=[LABELS[k] for k in case['labels']])
    states = np.array(case['outer'], dtype=int).T
    inner = np.array(case['inner'], dtype=int).T
    T, na = states.shape
    r = np.random.default_rng(case['tseed'])
    coords = np.mod(np.cumsum(r.normal(0, 0.01, size=(T, na, 3)), axis=0) + r.random((1, na, 3)), 1)
    traj = synth.make_traj(m, ['Li'] * na, coords, time_step=case['dt'], images=synth.image_seed(case))
    ev = _calculate_transition_events(atom_sites=states, atom_inner_sites=inner)
    tr = Transitions(trajectory=traj, diff_trajectory=traj, sites=sites, events=ev, states=states, inner_states=inner)
    out = {'events': [[int(v) for v in row] for row in ev[['start site', 'destination site']].to_numpy()]}
    guard = synth.InputGuard(transitions=tr, trajectory=traj, sites=sites)
    out['tmat'] = tr.matrix().tolist()
    occ = tr.occupancy()
    out['occ'] = [float(s.species.num_atoms) for s in occ]
    out['atom_locations'] = {k: float(v) for k, v in tr.atom_locations().items()}
    out['occ_by_type'] = {k: float(v) for k, v in tr.occupancy_by_site_type().items()}
    try:
        j = Jumps(tr, minimal_residence=case['mr'])
    except ValueError as e:
        if 'No jumps found' not in str(e):
            raise
        out['nojumps'] = True
        out['inputs_changed'] = guard.changed()
        return out
    d = j.data
    out['jumps'] = [[int(v) for v in row] for row in d[['start site', 'destination site']].to_numpy()]
    out['n_jumps'] = int(j.n_jumps)
    out['jmat'] = j.matrix().tolist()
    if case.get('plots'):
        # figures made in between are views: the bookkeeping must read the same afterwards
        out['plots_called'] = synth.call_plots(j, ['plot_jumps_3d', 'plot_jumps_vs_distance', 'plot_jumps_vs_time', 'plot_collective_jumps'])
        out['jmat_after_plots'] = j.matrix().tolist()
        out['tmat_after_plots'] = tr.matrix().tolist()
    out['_counter'] = sorted([int(a), int(b), int(c)] for (a, b), c in j._counter().items())
    out['counter'] = sorted([a, b, int(c)] for (a, b), c in j.counter().items())
    out['diff'] = float(j.jump_diffusivity(case['dim']))
    g = j.to_graph()
    out['edges'] = sorted([int(a), int(b)] for a, b in g.edges())
    out['nodes'] = sorted(int(x) for x in g.nodes())
    out['pdist2'] = (traj.get_lattice().get_all_distances(sites.frac_coords, sites.frac_coords) ** 2).tolist()
    # rates: per label pair, mean and sample standard deviation over the time parts of (jumps of that pair in the part) / (atoms x part duration)
    npart = 2
    try:
        pc = []
        pe = []
        for part in tr.split(npart):
            pe.append(sorted([int(v) for v in row] for row in part.events[['atom index', 'start site', 'destination site', 'time']].to_numpy()))
            c = Jumps(part, minimal_residence=case['mr']).counter()
            pc.append({f'{a}>{b}': int(v) for (a, b), v in c.items()})
        out['rates_part_events'] = pe
        df = j.rates(npart)      # every part has jumps under the settings of the whole, so rates() has no reason to reject
        out['rates'] = {f'{a}>{b}': [float(r['rates']), float(r['std'])] for (a, b), r in df.iterrows()}
        out['rates_parts'] = pc
        out['total_time'] = float(traj.total_time)
    except ValueError as e:
        if 'No jumps found' not in str(e) and 'Not enough transitions' not in str(e):
            raise
        out['rates_skipped'] = str(e)[:60]
    out['inputs_changed'] = guard.changed()
    return out


def _d2(case):
    G = synth.gram(case['m'])
    K = 1
    while not synth.window_ok(case['m'], K):
        K += 1
    pts = case['sites8']
    n = len(pts)
    return [[synth.min_image_d2(G, [Fr(pts[j][k] - pts[i][k], 8) for k in range(3)], K) for j in range(n)] for i in range(n)]


def _factor(case):
    T, na = len(case['outer'][0]), len(case['outer'])
    total_time = Fr(T) * synth.frac_of_float(case['dt'])
    return Fr(1, 10**20) / (2 * case['dim'] * na * total_time)


def oracle(case, out):
    if case.get('kind') == 'many':
        return _oracle_many(case, out)
    if 'tmat' not in out:
        return [('c05/harness-error', f"{out.get('error')}: {out.get('msg')} {out.get('tb', '')[-300:]}")]
    fs = synth.inputs_clause(out, 'Transitions / Jumps bookkeeping')
    n = len(case['sites8'])
    T, na = len(case['outer'][0]), len(case['outer'])
    # Transitions.matrix: entry (i,j) = number of recorded moves i -> j
    evc = Counter(tuple(e) for e in out['events'])
    tm = out['tmat']
    wrong = [(i, j) for i in range(n) for j in range(n) if tm[i][j] != evc.get((i, j), 0)]
    if wrong:
        has_nosite = any(-1 in e for e in out['events'])
        if has_nosite and all(i == n - 1 or j == n - 1 for i, j in wrong):
            fs.append(('tmatrix/nosite-folded-into-last-site',
                       f'Transitions.matrix() entry {wrong[0]} = {tm[wrong[0][0]][wrong[0][1]]} but {evc.get(wrong[0], 0)} events move between these sites'))
        else:
            fs.append(('tmatrix/count', f'Transitions.matrix() entry {wrong[0]} = {tm[wrong[0][0]][wrong[0][1]]}, recorded moves {evc.get(wrong[0], 0)}'))
    # occupancy
    for k in range(n):
        cnt = sum(o.count(k) for o in case['outer'])
        if abs(out['occ'][k] * T - cnt) > 1e-9 * max(1, cnt):
            fs.append(('occupancy/fraction', f'site {k}: occupancy {out["occ"][k]} expected {cnt}/{T}'))
            break
    visited = sum(1 for o in case['outer'] for s in o if s != -1)
    if abs(sum(out['occ']) * T - visited) > 1e-9 * max(1, visited):
        fs.append(('occupancy/sum', 'occupancies do not add up to the atom-frames spent at sites'))
    for lab in set(case['labels']):
        cnt = sum(o.count(k) for o in case['outer'] for k in range(n) if case['labels'][k] == lab)
        if abs(out['atom_locations'].get(LABELS[lab], 0) * T * na - cnt) > 1e-9 * max(1, cnt):
            fs.append(('occupancy/atom-locations', f'atom_locations[{LABELS[lab]}] wrong'))
        nl = case['labels'].count(lab)
        if abs(out['occ_by_type'].get(LABELS[lab], 0) * T * nl - cnt) > 1e-9 * max(1, cnt):
            fs.append(('occupancy/by-site-type', f'occupancy_by_site_type[{LABELS[lab]}] wrong'))
    if 'jumps' not in out:
        return fs
    jc = Counter(tuple(e) for e in out['jumps'])
    jm = out['jmat']
    for i in range(n):
        for j in range(n):
            if jm[i][j] != jc.get((i, j), 0):
                fs.append(('jmatrix/count', f'Jumps.matrix() entry {(i, j)} = {jm[i][j]}, jumps {jc.get((i, j), 0)}'))
                break
    if 'jmat_after_plots' in out and (out['jmat_after_plots'] != jm or out['tmat_after_plots'] != tm):
        fs.append(('jmatrix/changed-by-plot', f'after {out.get("plots_called")} plotting calls the count matrices read differently: jump matrix sum {sum(map(sum, out["jmat_after_plots"]))} '
                   f'(before: {sum(map(sum, jm))}, jumps: {out["n_jumps"]})'))
    if sum(map(sum, jm)) != out['n_jumps'] or out['n_jumps'] != len(out['jumps']):
        fs.append(('jmatrix/sum', 'matrix sum differs from the number of jumps'))
    if any(jm[i][i] for i in range(n)):
        fs.append(('jmatrix/diagonal', 'non-empty diagonal'))
    if sorted([a, b, c] for (a, b), c in jc.items()) != out['_counter']:
        fs.append(('counter/index', '_counter() differs from the jump table'))
    lc = Counter()
    for (a, b), c in jc.items():
        lc[LABELS[case['labels'][a]], LABELS[case['labels'][b]]] += c
    if sorted([a, b, c] for (a, b), c in lc.items()) != out['counter']:
        fs.append(('counter/label', 'counter() is not the per-label aggregation of the matrix'))
    if out['edges'] != sorted([a, b] for (a, b) in jc) or out['nodes'] != list(range(n)):
        fs.append(('graph/edges', 'jump graph edge set differs from the support of the matrix'))
    if 'rates_part_events' in out:
        # the time parts behind the rates: part k holds exactly the events with bounds[k] <= t < bounds[k+1], times re-based to the part
        T_ = len(case['outer'][0])
        npart_ = len(out['rates_part_events'])
        bounds = [int(v) for v in np.linspace(0, T_ + 1, npart_ + 1, dtype=int)]
        allev = [(a, o[t], o[t + 1], t) for a, (o, i) in enumerate(zip(case['outer'], case['inner'])) for t in range(T_ - 1) if o[t] != o[t + 1] or i[t] != i[t + 1]]
        for k_ in range(npart_):
            wantp = sorted([a, s0, s1, t - bounds[k_]] for a, s0, s1, t in allev if bounds[k_] <= t < bounds[k_ + 1])
            if wantp != out['rates_part_events'][k_]:
                fs.append(('rates/parts-not-a-partition', f'time part {k_} of {npart_} (frames {bounds[k_]}..{bounds[k_ + 1]}) holds {len(out["rates_part_events"][k_])} events, '
                           f'{len(wantp)} events of the history fall into it'))
                break
    if 'rates' in out:
        na_ = len(case['outer'])
        denom = na_ * out['total_time'] / len(out['rates_parts'])
        labs = sorted({LABELS[k] for k in case['labels']})
        if sorted(out['rates']) != sorted(f'{a}>{b}' for a in labs for b in labs):
            fs.append(('rates/pairs', f'rates table rows {sorted(out["rates"])} are not all ordered pairs of the site labels {labs}'))
        for key, (rate, std) in out['rates'].items():
            counts = [pc.get(key, 0) for pc in out['rates_parts']]
            wr, ws = float(np.mean(counts)) / denom, float(np.std(counts, ddof=1)) / denom
            if abs(rate - wr) > 1e-9 * max(abs(wr), 1e-300) or abs(std - ws) > 1e-9 * max(abs(ws), abs(wr), 1e-300):
                fs.append(('rates/aggregation', f'rate of {key}: {rate} +- {std}, but the parts hold {counts} such jumps: expected {wr} +- {ws}'))
                break
    d2 = _d2(case)
    want = sum(d2[a][b] * c for (a, b), c in jc.items()) * _factor(case)
    if abs(out['diff'] - float(want)) > 1e-9 * abs(float(want)):
        fs.append(('diffusivity/formula', f'jump_diffusivity {out["diff"]} expected {float(want)}'))
    return fs


def coq_term(case, out):
    if case.get('kind') == 'many' or 'tmat' not in out or 'jumps' not in out:
        return None
    n = len(case['sites8'])
    d2 = _d2(case)
    den = 1
    for row in d2:
        for v in row:
            den = den * v.denominator // __import__('math').gcd(den, v.denominator)
    d2i = [[int(v * den) for v in row] for row in d2]
    f = _factor(case)
    dn, dd = synth.dyadic(out['diff'])
    T = len(case['outer'][0])
    occ = []
    for v in out['occ']:
        k = round(v * T)
        if abs(v * T - k) > 1e-9:
            k = -12345
        occ.append(k)
    lab_code = {LABELS[k]: k for k in range(3)}
    nl = sorted(set(case['labels']))
    cmap = {(a, b): c for a, b, c in out['counter']}
    ctab = clist(f'({z(a)}, {z(b)}, {z(cmap.get((LABELS[a], LABELS[b]), 0))})' for a in nl for b in nl)
    atoms = clist(f'({zlist(o)}, {zlist(i)})' for o, i in zip(case['outer'], case['inner']))
    return ('{| n_sites := %d%%nat; labels := %s; atoms := %s; mr := %s; tmat := %s; jmat := %s; ctab := %s; edges := %s; '
            'occ := %s; d2 := %s; d2den := %s; dnum := %s; dden := %s; fnum := %s; fden := %s |}') % (
        n, zlist(case['labels']), atoms, z(case['mr']), clist(zlist(r) for r in out['tmat']),
        clist(zlist(r) for r in out['jmat']), ctab, clist(f'({z(a)}, {z(b)})' for a, b in out['edges']),
        zlist(occ), clist(zlist(r) for r in d2i), z(den), z(dn), z(dd), z(f.numerator), z(f.denominator))


def nontrivial(case, out):
    if case.get('kind') == 'many':
        return 'many_states' in out
    return 'jumps' in out and len({tuple(j) for j in out['jumps']}) >= 2


def classify(case, out):
    if case.get('kind') == 'many':
        return ['kind=many-sites']
    tags = [f'sites={len(case["sites8"])}', f'mr={case["mr"]}']
    if any(-1 in e for e in out.get('events', [])):
        tags.append('events-with-nosite')
    if out.get('nojumps'):
        tags.append('no-jumps')
    if 'rates' in out:
        tags.append('rates-checked')
    return tags


def sample(case, out):
    if case.get('kind') == 'many':
        return {'kind': 'many', 'grid': case['grid'], 'pairs': case['pairs'], 'counter': out.get('many_counter')}
    return {'sites8': case['sites8'], 'labels': case['labels'], 'outer': case['outer'][:2], 'jmat': out.get('jmat'), 'diff': out.get('diff')}
