"""C11 -- radial distributions equal brute-force histograms and partition over states."""
import math
import os
import random
import subprocess
from fractions import Fraction as Fr

import numpy as np

import synth
from vcore import COQ, clist, z, zlist

TIE = 'Tie.C11'
DEN = 4096
SHARD = 30
LABELS = ['A', 'B', 'C']
SYMS = ['Li', 'S', 'P', 'O']
KINDS = ['cubic', 'ortho', 'mono', 'hexlike', 'hex', 'tri', 'tri_full']
RULE = ('cases = trajectories with 1-3 diffusing Li atoms and 1-4 framework atoms of 1-3 other species (2^-12 grid, 3-7 frames) in 6 lattice classes '
        '(optionally rotated), site sets with 1-3 labels whose order differs from the site order, Li atoms hopping between sites and the transit region, '
        'x cut-off x resolution; cases in which some distance lies within 1e-9 of a bin edge are excluded and counted; per-state counts and the '
        'species-pair raw counts are compared exactly with the model on exact minimum-image distances, the shell normalisation by interval certificates; '
        'non-trivial = >= 2 states and >= 3 non-empty bins')
TRUSTED = ['translator unit statecode (harness/translate.py)', 'Lattice.get_all_distances is replaced by the exact minimum-image search; bin-edge decisions are guard-banded',
           'Interval tactic for the normalisation certificates (pi)']
ASSUMPTIONS = ['self pairs at distance 0 are counted as the code counts them (bin 0)']


def pre_build():
    import translate
    return [translate.gen_state_code(), translate.gen_rdf_shape()]


def gen_cases(rng, tier):
    n = {'quick': 60, 'thorough': 1200, 'search': 50}[tier]
    cases = []
    while len(cases) < n:
        m = synth.int_lattice(rng, rng.choice(KINDS), maxK=2)
        nli, nfw = rng.randint(1, 3), rng.randint(1, 4)
        fw_syms = rng.sample(SYMS[1:], rng.randint(1, 3))
        species = ['Li'] * nli + [rng.choice(fw_syms) for _ in range(nfw)]
        order = list(range(len(species)))
        rng.shuffle(order)
        species = [species[i] for i in order]
        ns = rng.randint(2, 5)
        pts = set()
        while len(pts) < ns:
            pts.add(tuple(rng.randint(0, 7) for _ in range(3)))
        pts = sorted(pts)
        rng.shuffle(pts)
        labels = [rng.choice(LABELS[:rng.randint(1, 3)]) for _ in range(ns)]
        T = rng.randint(3, 7)
        fw = {a: [rng.randint(0, DEN - 1) for _ in range(3)] for a, s in enumerate(species) if s != 'Li'}
        coords = []
        cur = {a: rng.randrange(ns) for a, s in enumerate(species) if s == 'Li'}
        for _t in range(T):
            fr = []
            for a, s in enumerate(species):
                if s == 'Li':
                    if rng.random() < 0.5:
                        cur[a] = rng.choice([-1] + list(range(ns)))
                    if cur[a] == -1:
                        fr.append([rng.randint(0, DEN - 1) for _ in range(3)])
                    else:
                        fr.append([pts[cur[a]][k] * 512 + rng.randint(-60, 60) for k in range(3)])
                else:
                    fr.append([fw[a][k] + rng.randint(-40, 40) for k in range(3)])
            coords.append(fr)
        cases.append({'frac': rng.choice([1.0, 0.5, 0.3, 0.3]), 'flip': rng.random() < 0.5, 'site_scale': rng.choice([1.0, 1.0, 0.97, 1.04]), 'm': m, 'rot': rng.random() < 0.3, 'rseed': rng.randrange(10**6), 'species': species, 'sites8': [list(p) for p in pts],
                      'labels': labels, 'coords': coords, 'max_dist': rng.choice([2.0, 3.5, 5.0]), 'res': rng.choice([0.5, 0.25, 0.7]),
                      'radius': rng.choice([0.5, 0.8])})
    # ideal-crystal inputs: atoms on a 0.1 A grid of a 10 A cubic cell and shells 0.1 A wide, so that many distances sit exactly on shell edges
    # (decided by recomputing the shells from the returned edges with the same float distances, see _impl_ideal)
    for _ in range({'quick': 24, 'thorough': 200, 'search': 12}[tier]):
        T = rng.randint(2, 4)
        sites = [[10, 10, 10], [40, 10, 10], [10, 40, 10]]
        # framework atoms on the axes through the sites, whole multiples of 0.1 A away (3, 6, 7, 12, 14, 24, 29 ...): distances k x 0.1 A
        fw = []
        for _f in range(rng.randint(6, 10)):
            b = sites[rng.randrange(3)]
            ax, kk = rng.randrange(3), rng.choice([3, 6, 7, 9, 12, 14, 21, 24, 27, 29]) * rng.choice([1, -1])
            fw.append([(b[k] + (kk if k == ax else 0)) % 100 for k in range(3)])
        frames = []
        cur = rng.randrange(3)
        for _t in range(T):
            if rng.random() < 0.5:
                cur = rng.randrange(3)
            off = rng.choice([[0, 0, 0], [0, 0, 0], [3, 0, 0], [0, -4, 0], [0, 0, 6], [3, 4, 0]])
            frames.append([[sites[cur][k] + off[k] for k in range(3)]] + [list(f) for f in fw])
        cases.append({'ideal': True, 'coords100': frames, 'species': ['Li'] + [rng.choice(['O', 'S']) for _ in fw], 'sites100': sites, 'labels': ['A', 'B', 'A'],
                      'res': rng.choice([0.1, 0.1, 0.3]), 'max_dist': 3.0})
    return cases


def _impl_ideal(case):
    from pymatgen.core import Structure
    m = [[10, 0, 0], [0, 10, 0], [0, 0, 10]]
    c = np.array(case['coords100'], dtype=float) / 100
    traj = synth.make_traj(m, case['species'], c)
    lat = traj.get_lattice()
    sites = Structure(lattice=lat, species=['Li'] * 3, coords=np.array(case['sites100'], dtype=float) / 100, labels=case['labels'])
    try:
        tr = traj.transitions_between_sites(sites, 'Li', site_radius=1.0)
    except ValueError as e:
        if 'at least one array' in str(e):
            return {'no_events': True}
        raise
    rd = tr.radial_distribution(floating_specie='Li', max_dist=case['max_dist'], resolution=case['res'])
    got, edges = {}, None
    for state, coll in rd.items():
        for r in coll:
            got[r.label] = got.get(r.label, 0) + np.array(r.y, dtype=int)
            edges = np.array(r.x, dtype=float)
    # the same float distances (same function, same coordinate arrays) sorted into the shells (x[k-1], x[k]] of the RETURNED edges
    pos = np.array(traj.positions)
    li = np.array(traj.filter('Li').positions)
    syms = [str(sp.symbol) for sp in traj.species]
    bad = []
    for sym in sorted(set(syms)):
        cols = [k for k, v in enumerate(syms) if v == sym]
        want = np.zeros(len(edges), dtype=int)
        for t in range(len(pos)):
            d = lat.get_all_distances(li[t], pos[t][cols]).ravel()
            idx = np.digitize(d, edges, right=True)
            want += np.bincount(idx[idx < len(edges)], minlength=len(edges))
        if sym not in got or not np.array_equal(want, got[sym]):
            k = int(np.argmax(want != got.get(sym, np.zeros_like(want)))) if sym in got else -1
            bad.append([sym, k, int(want[k]) if k >= 0 else None, int(got[sym][k]) if sym in got and k >= 0 else None, float(edges[k]) if k >= 0 else None])
    return {'ideal_bad': bad}


def impl(case):
    if case.get('ideal'):
        return _impl_ideal(case)
    from gemdat.rdf import radial_distribution_between_species
    from pymatgen.core import Structure
    rot = synth.rotation(random.Random(case['rseed'])) if case['rot'] else None
    c = np.array(case['coords'], dtype=float) / DEN
    traj = synth.make_traj(case['m'], case['species'], c, rot=rot, images=synth.image_seed(case))
    lat = traj.get_lattice()
    # the site structure may come in a slightly different cell than the simulation (same fractional coordinates)
    from pymatgen.core import Lattice
    slat = lat if case.get('site_scale', 1.0) == 1.0 else Lattice(np.array(lat.matrix) * case['site_scale'])
    sites = Structure(lattice=slat, species=['Li'] * len(case['sites8']), coords=np.array(case['sites8'], dtype=float) / 8, labels=case['labels'])
    try:
        # the inner fraction does not enter the state names (they are built from the full-radius states)
        tr = traj.transitions_between_sites(sites, 'Li', site_radius=case['radius'], site_inner_fraction=case.get('frac', 1.0))
    except ValueError as e:
        if 'at least one array' in str(e):
            return {'no_events': True}
        raise
    if case.get('flip'):
        # displacement-based analyses made in between leave the trajectories held by the transitions object in displacement mode
        tr.diff_trajectory.mean_squared_displacement()
        _ = tr.trajectory.displacements
    guard = synth.InputGuard(trajectory=traj, transitions=tr, sites=sites)
    rd = tr.radial_distribution(floating_specie='Li', max_dist=case['max_dist'], resolution=case['res'])
    table = []
    for state, coll in rd.items():
        for r in coll:
            table.append([state, r.label, [int(v) for v in r.y]])
    out = {'states': tr.states.T.tolist(), 'table': table, 'nbins': len(np.arange(0, case['max_dist'] + case['res'], case['res'])),
           'edges': [float(e) for e in np.arange(0, case['max_dist'] + case['res'], case['res'])],
           'unique_last': list(set(case['labels']))[-1], 'positions': (np.array(traj.positions) * DEN).tolist(), 'volume': float(lat.volume)}
    others = sorted(set(case['species']) - {'Li'})
    s2 = others[0]
    r12 = radial_distribution_between_species(trajectory=traj, specie_1='Li', specie_2=s2, max_dist=case['max_dist'], resolution=case['res'])
    r21 = radial_distribution_between_species(trajectory=traj, specie_1=s2, specie_2='Li', max_dist=case['max_dist'], resolution=case['res'])
    out['inputs_changed'] = guard.changed()
    out['bs'] = {'s2': s2, 'y12': [float(v) for v in r12.y], 'y21': [float(v) for v in r21.y], 'x': [float(v) for v in r12.x]}
    return out


def _exact_d2(case, out):
    """[t][a][b] exact squared distances between wrapped positions (a: diffusing atoms in trajectory order, b: all atoms)"""
    G = synth.gram(case['m'])
    pos = np.rint(np.array(out['positions'])).astype(np.int64)
    li = [a for a, s in enumerate(case['species']) if s == 'Li']
    res = []
    for t in range(pos.shape[0]):
        rows = []
        for a in li:
            rows.append([synth.min_image_d2(G, [Fr(int(pos[t][a][k] - pos[t][b][k]), DEN) for k in range(3)], 2) for b in range(pos.shape[1])])
        res.append(rows)
    return res


_CACHE = {}


def _prep(case, out):
    key = (id(case), id(out))
    if key in _CACHE:
        return _CACHE[key]
    _CACHE.clear()
    d2 = _exact_d2(case, out)
    edges = out['edges']
    near = False
    for rows in d2:
        for row in rows:
            for v in row:
                if v == 0:
                    continue          # self pair: 0 <= 0.0 is decided exactly
                d = math.sqrt(float(v))
                if any(abs(d - e) <= 1e-9 * max(1.0, e) for e in edges):
                    near = True
    _CACHE[key] = (d2, near)
    return _CACHE[key]


def _parse_state(s, uniq):
    if s.startswith('@'):
        return ('At', uniq.index(s[1:]))
    if s.startswith('~>'):
        return ('Leaving', uniq.index(s[2:]))
    a, b = s.split('->')
    return ('Transit', uniq.index(a), uniq.index(b))


def _model_table(case, out, d2):
    """independent Python reference: per (state kind, symbol) counts per bin"""
    uniq = sorted(set(case['labels']))
    lab = [uniq.index(l) for l in case['labels']]
    edges = out['edges']
    li = [a for a, s in enumerate(case['species']) if s == 'Li']
    tab = {}
    over = 0
    for ai, a in enumerate(li):
        hist = out['states'][ai]
        for t, s in enumerate(hist):
            prev = next((x for x in reversed(hist[:t + 1]) if x != -1), -1)
            nxt = next((x for x in hist[t:] if x != -1), -1)
            if s != -1:
                name = ('At', lab[s])
            elif prev == -1 or nxt == -1:
                name = ('Leaving', uniq.index(out['unique_last']) if prev == -1 else lab[prev])
            else:
                name = ('Transit', lab[prev], lab[nxt])
            for b, sym in enumerate(case['species']):
                d = math.sqrt(float(d2[t][ai][b]))
                k = sum(1 for e in edges if e < d)
                if k >= len(edges):
                    over += 1
                    continue
                tab.setdefault((name, sym), [0] * len(edges))[k] += 1
    return tab, over


def oracle(case, out):
    if out.get('no_events'):
        return []
    if case.get('ideal'):
        if 'ideal_bad' not in out:
            return [('c11/harness-error', f"{out.get('error')}: {out.get('msg')} {out.get('tb', '')[-400:]}")]
        return [('rdf/shell-differs-from-returned-edges', f'ideal crystal, shells of {case["res"]} A: species {b[0]}: shell ending at {b[4]} A holds {b[3]} pairs, '
                 f'{b[2]} pair distances lie in (previous edge, {b[4]}]') for b in out['ideal_bad'][:1]]
    if 'table' not in out:
        return [('c11/harness-error', f"{out.get('error')}: {out.get('msg')} {out.get('tb', '')[-400:]}")]
    d2, near = _prep(case, out)
    if near:
        return []
    fs = synth.inputs_clause(out, 'radial_distribution / radial_distribution_between_species')
    uniq = sorted(set(case['labels']))
    want, over = _model_table(case, out, d2)
    got = {}
    for state, sym, cnt in out['table']:
        got[(_parse_state(state, uniq), sym)] = cnt
    T = len(case['coords'])
    nli = sum(1 for s in case['species'] if s == 'Li')
    total = sum(sum(c) for c in got.values())
    if total + over != T * nli * len(case['species']):
        fs.append(('rdf/partition', f'{total} counted pairs + {over} beyond the cut-off != frames x diffusing atoms x atoms = {T * nli * len(case["species"])}'))
    for key in sorted(set(want) | set(got), key=str):
        w, g = want.get(key, [0] * out['nbins']), got.get(key, [0] * out['nbins'])
        if w != g:
            kind = key[0][0]
            clause = {'At': 'rdf/at-state-wrong-frames', 'Transit': 'rdf/transit-state-wrong-frames', 'Leaving': 'rdf/other-state-counts'}[kind]
            fs.append((clause, f'state {key[0]} (labels {uniq}) species {key[1]}: counts {g} but the frames in that state give {w}; site labels {case["labels"]}, '
                       f'states of the diffusing atoms {out["states"]}'))
            break
    # species-pair distribution
    bs = out['bs']
    s2 = bs['s2']
    li = [a for a, s in enumerate(case['species']) if s == 'Li']
    ot = [b for b, s in enumerate(case['species']) if s == s2]
    edges = out['edges']
    res = case['res']
    raw = [0] * (len(edges) - 1)
    for t in range(T):
        for ai in range(len(li)):
            for b in ot:
                d = math.sqrt(float(d2[t][ai][b]))
                k = sum(1 for e in edges if e <= d) - 1
                if k == len(edges) - 1 and d == edges[-1]:
                    k -= 1
                if 0 <= k < len(edges) - 1:
                    raw[k] += 1
    for name, y, n2 in (('y12', bs['y12'], len(ot)), ('y21', bs['y21'], len(li))):
        rho = n2 / out['volume']
        for k, (c, yk) in enumerate(zip(raw, y)):
            norm = rho * (4 / 3) * math.pi * ((edges[k] + res) ** 3 - edges[k] ** 3)
            if abs(yk * norm - c) > 1e-9 * max(1, c):
                fs.append(('rdf/species-pair-histogram', f'{name} bin {k}: y * ideal-gas shell count = {yk * norm} but {c} pairs have their distance in that bin'))
                return fs
    return fs


def _sq(e):
    f = synth.frac_of_float(e) ** 2
    return f'({z(f.numerator)}, {z(f.denominator)})'


def _d2(v):
    return f'({z(v.numerator)}, {z(v.denominator)})'


def coq_term(case, out):
    if 'table' not in out or case.get('ideal'):
        return None
    d2, near = _prep(case, out)
    if near:
        return None
    uniq = sorted(set(case['labels']))
    lab = [uniq.index(l) for l in case['labels']]
    syms = sorted(set(case['species']))
    symidx = [syms.index(s) for s in case['species']]
    tab = []
    for state, sym, cnt in out['table']:
        p = _parse_state(state, uniq)
        nm = {'At': 'At %s', 'Leaving': 'Leaving %s', 'Transit': 'Transit %s %s'}[p[0]] % tuple(z(x) for x in p[1:])
        tab.append(f'({nm}, {z(syms.index(sym))}, {zlist(cnt)})')
    dists = clist(clist(clist(_d2(v) for v in row) for row in rows) for rows in d2)
    bs = out['bs']
    li = [a for a, s in enumerate(case['species']) if s == 'Li']
    ot = [b for b, s in enumerate(case['species']) if s == bs['s2']]
    ds = [d2[t][ai][b] for t in range(len(d2)) for ai in range(len(li)) for b in ot]
    rho = len(ot) / out['volume']
    raw = []
    for k, yk in enumerate(bs['y12']):
        e = out['edges'][k]
        raw.append(int(round(yk * rho * (4 / 3) * math.pi * ((e + case['res']) ** 3 - e ** 3))))
    return ('{| last_label := %s; labels := %s; hists := %s; symbols := %s; edges2 := %s; dists := %s; table := %s; bs_ds := %s; bs_edges2 := %s; bs_counts := %s |}' % (
        z(uniq.index(out['unique_last'])), zlist(lab), clist(zlist(h) for h in out['states']), zlist(symidx), clist(_sq(e) for e in out['edges']), dists,
        clist(tab), clist(_d2(v) for v in ds), clist(_sq(e) for e in out['edges']), zlist(raw)))


def extra_coq(cases, outs, builddir):
    """interval certificates for the shell normalisation: y_k * rho * 4/3 pi ((r+res)^3 - r^3) = raw count (1e-9)"""
    items = []
    for c, o in zip(cases, outs):
        if 'bs' not in o:
            continue
        n2 = sum(1 for s in c['species'] if s == o['bs']['s2'])
        for k, yk in enumerate(o['bs']['y12']):
            if yk > 0 and len(items) < 16:
                e = o['edges'][k]
                cnt = round(yk * (n2 / o['volume']) * (4 / 3) * math.pi * ((e + c['res']) ** 3 - e ** 3))
                items.append((yk, n2, o['volume'], e, c['res'], cnt))
                break
    if not items:
        return []
    d = os.path.join(builddir, 'cert')
    os.makedirs(d, exist_ok=True)
    q = lambda x: (lambda f: f'({f.numerator} / {f.denominator})' if f.denominator != 1 else f'{f.numerator}')(synth.frac_of_float(x))
    lines = ['From Coq Require Import Reals.', 'From Interval Require Import Tactic.', 'Open Scope R_scope.']
    for yk, n2, vol, e, res, cnt in items:
        lines.append(f'Goal Rabs ({q(yk)} * ({n2} / {q(vol)} * (4 / 3) * PI * (({q(e)} + {q(res)}) * ({q(e)} + {q(res)}) * ({q(e)} + {q(res)}) - {q(e)} * {q(e)} * {q(e)})) - {cnt}) <= {cnt} / 1000000000.')
        lines.append('Proof. interval with (i_prec 100). Qed.')
    path = os.path.join(d, 'CertNorm.v')
    open(path, 'w').write('\n'.join(lines) + '\n')
    pr = subprocess.run(['timeout', '600', 'coqc', '-R', COQ, 'GV', path], cwd=d, stdout=subprocess.PIPE, stderr=subprocess.STDOUT, text=True)
    ok = pr.returncode == 0
    return [(f'CertNorm#{i}', ok, '' if ok else pr.stdout[-600:]) for i in range(len(items))]


def nontrivial(case, out):
    if case.get('ideal'):
        return 'ideal_bad' in out
    if 'table' not in out:
        return False
    states = {s for s, _, _ in out['table']}
    nonempty = sum(1 for _, _, c in out['table'] for v in c if v)
    return len(states) >= 2 and nonempty >= 3


def classify(case, out):
    if case.get('ideal'):
        return ['ideal-crystal(on-edge distances)']
    tags = []
    if out.get('no_events'):
        tags.append('no-events')
    if 'table' in out:
        if _prep(case, out)[1]:
            tags.append('distance-on-bin-edge-excluded')
        for s in {s for s, _, _ in out['table']}:
            tags.append('state:' + ('at' if s.startswith('@') else 'leaving' if s.startswith('~>') else 'transit'))
    return tags


def sample(case, out):
    if case.get('ideal'):
        return {'ideal': case['coords100'][:1], 'res': case['res'], 'out': out}
    return {'m': case['m'], 'species': case['species'], 'labels': case['labels'], 'states': out.get('states'), 'table': out.get('table', [])[:3]}
