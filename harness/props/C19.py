"""C19 -- time partitioning for statistics conserves states and events."""
import numpy as np

import synth
from vcore import clist, z, zlist

TIE = 'Tie.C19'
RULE = ('cases = multi-atom (outer, inner) histories x n_parts (every value from 1 to the number of events for short histories, sampled '
        'for long ones) x minimal residence; plus Trajectory.split(n, equal_parts) on a trajectory whose coordinates encode the frame index; '
        'non-trivial = n_parts >= 2 and some event falls on the first or last frame of a part')
TRUSTED = ['numpy linspace is modelled in binary64 (PrimFloat, kernel primitive floats); pandas boolean-mask filtering keeps row order']
ASSUMPTIONS = ['Jumps(part) raising "No jumps found" for a part without jumps is accepted as that part having no jumps']


def _history(rng, T, na, ns):
    outer, inner = [], []
    for _ in range(na):
        o, i = [], []
        cur = rng.randint(-1, ns - 1)
        p_move = rng.choice([0.1, 0.3, 0.7])
        p_in = rng.choice([0.4, 1.0])
        for _t in range(T):
            if rng.random() < p_move:
                cur = rng.choice([-1] + list(range(ns)))
            o.append(cur)
            i.append(cur if (cur != -1 and rng.random() < p_in) else -1)
        outer.append(o)
        inner.append(i)
    return outer, inner


def _nev(outer, inner):
    return sum(1 for o, i in zip(outer, inner) for t in range(len(o) - 1) if o[t] != o[t + 1] or i[t] != i[t + 1])


def pre_build():
    import translate
    return [translate.gen_split_windows()]


def gen_cases(rng, tier):
    n = {'quick': 60, 'thorough': 1200, 'search': 40}[tier]
    cases = []
    k = 0
    while k < n:
        T = rng.choice([3, 4, 5, 7, 10, 11, 17, 29, 30, 64, 101])
        na = rng.randint(1, 3)
        outer, inner = _history(rng, T, na, rng.randint(2, 4))
        # force events at the first and last possible frame now and then
        if rng.random() < 0.5 and T >= 3:
            outer[0][0], inner[0][0] = 0, 0
            outer[0][1], inner[0][1] = 1, 1
            outer[0][-2], inner[0][-2] = 0, 0
            outer[0][-1], inner[0][-1] = 1, 1
        ne = _nev(outer, inner)
        if ne < 1:
            continue
        k += 1
        parts = list(range(1, ne + 1)) if ne <= 8 else sorted(set([1, 2, 3, ne, ne - 1] + [rng.randint(2, ne) for _ in range(3)]))
        for npart in parts:
            if npart > T - 1:  # Trajectory.split needs n_parts <= frames - 1 (it never uses the last frame); beyond that
                continue       # pymatgen cannot build an empty trajectory (error exit, outside the property's domain)
            cases.append({'outer': outer, 'inner': inner, 'n_parts': npart, 'mr': rng.choice([0, 0, 1, 2, 3, 5, 8]),
                          'tlen': max(npart + 1, rng.choice([T, T + 1, 2 * T + 3, 57, 100]))})
    # a long run (frame numbers beyond 16-bit range), oracle only
    T = rng.choice([70000, 131100])
    outer = []
    for _a in range(2):
        times = sorted(set([rng.randrange(T - 1) for _ in range(6)] + [T - 2, 32767, 32768, 65535, 65536, T - 70]))
        o, cur, kk = [], rng.randint(0, 2), 0
        for t in range(T):
            o.append(cur)
            if kk < len(times) and t == times[kk]:
                cur = rng.choice([v for v in (-1, 0, 1, 2) if v != cur])
                kk += 1
        outer.append(o)
    cases.append({'outer': outer, 'inner': [list(o) for o in outer], 'n_parts': rng.choice([2, 3]), 'mr': 0, 'tlen': 100, 'long': True})
    return cases


class _Sites:
    is_ordered = True
    labels = ['A', 'B', 'A', 'B']

    def __len__(self):
        return 4


def impl(case):
    from gemdat.jumps import Jumps
    from gemdat.transitions import Transitions, _calculate_transition_events
    states = np.array(case['outer'], dtype=int).T
    inner = np.array(case['inner'], dtype=int).T
    T, na = states.shape
    m = [[5, 0, 0], [0, 5, 0], [0, 0, 5]]
    coords = np.zeros((T, na, 3))
    coords[:, :, 0] = (np.arange(T) / 1024)[:, None]
    traj = synth.make_traj(m, ['Li'] * na, coords, images=synth.image_seed(case))
    ev = _calculate_transition_events(atom_sites=states, atom_inner_sites=inner)
    tr = Transitions(trajectory=traj, diff_trajectory=traj, sites=_Sites(), events=ev, states=states, inner_states=inner)
    out = {}
    guard = synth.InputGuard(transitions=tr, trajectory=traj)
    try:
        parts = tr.split(case['n_parts'])
    except ValueError as e:
        return {'split_error': str(e)[:100]}
    out['n'] = len(parts)
    out['st'] = [p.states.T.tolist() for p in parts]
    out['in'] = [p.inner_states.T.tolist() for p in parts]
    out['ev'] = [[[int(v) for v in row] for row in p.events.to_numpy()] for p in parts]
    out['traj_frames'] = [[int(round(v * 1024)) for v in p.trajectory.positions[:, 0, 0]] for p in parts]
    jp, ok = [], True
    for p in parts:
        try:
            j = Jumps(p, minimal_residence=case['mr'])
            jp.append([[int(r[c]) for c in ('atom index', 'start site', 'destination site', 'start time', 'stop time')]
                       for _, r in j.data.iterrows()])
        except ValueError as e:
            if 'No jumps found' not in str(e):
                raise
            jp.append([])
            ok = False
    out['jp'] = jp
    try:
        whole = Jumps(tr, minimal_residence=case['mr'])
        out['n_whole'] = int(whole.n_jumps)
    except ValueError as e:
        if 'No jumps found' not in str(e):
            raise
        out['n_whole'] = 0
        whole = None
    if whole is not None:
        try:
            sp = whole.split(case['n_parts'])
            out['jsplit_n'] = [int(p.n_jumps) for p in sp]
            out['jsplit_mr'] = [int(p.minimal_residence) for p in sp]
            # rates: per label pair the mean over the parts of (jumps of that pair in the part) / (atoms x part duration)
            df = whole.rates(case['n_parts'])
            out['rates'] = {f'{a}>{b}': float(r['rates']) for (a, b), r in df.iterrows()}
            out['rates_parts'] = [{f'{a}>{b}': int(v) for (a, b), v in p.counter().items()} for p in sp]
            out['rates_denom'] = float(na * traj.total_time / case['n_parts'])
            # the same counts taken from the jump tables of the parts and the labels of the sites (several sites share a label)
            lab_ = list(tr.sites.labels)
            byd = []
            for p in sp:
                c_ = {}
                for a, b in p.data[['start site', 'destination site']].to_numpy():
                    k_ = f'{lab_[int(a)]}>{lab_[int(b)]}'
                    c_[k_] = c_.get(k_, 0) + 1
                byd.append(c_)
            out['rates_parts_data'] = byd
        except ValueError as e:
            if 'No jumps found' not in str(e):
                raise
            out['jsplit_raises'] = True      # some part has no jumps (accepted, see ASSUMPTIONS); must agree with the per-part construction
    # Trajectory.split
    L = case['tlen']
    c2 = np.zeros((L, 1, 3))
    c2[:, 0, 0] = np.arange(L) / 1024
    t2 = synth.make_traj(m, ['Li'], c2)
    out['tp'] = [[int(round(v * 1024)) for v in p.positions[:, 0, 0]] for p in t2.split(case['n_parts'])]
    out['te'] = [[int(round(v * 1024)) for v in p.positions[:, 0, 0]] for p in t2.split(case['n_parts'], equal_parts=True)]
    # a part is a trajectory of its own: after a displacement-based query it still reads as the frames it was cut from
    parts3 = t2.split(case['n_parts'])
    for p in parts3:
        p.distances_from_base_position()
        _ = p.cumulative_displacements
    out['tp_after_disp'] = [[int(round(v * 1024)) for v in p.positions[:, 0, 0]] for p in parts3]
    out['inputs_changed'] = guard.changed()
    return out


def oracle(case, out):
    if 'split_error' in out:
        ne = _nev(case['outer'], case['inner'])
        if ne >= case['n_parts']:
            return [('split/raises', f'split({case["n_parts"]}) raised although there are {ne} events: {out["split_error"]}')]
        return []
    if 'st' not in out:
        return [('c19/harness-error', f"{out.get('error')}: {out.get('msg')} {out.get('tb', '')[-300:]}")]
    fs = synth.inputs_clause(out, 'Transitions.split / Jumps.split / Trajectory.split')
    n = case['n_parts']
    if 'tp_after_disp' in out and out['tp_after_disp'] != out['tp']:
        k = next(i for i, (a, b) in enumerate(zip(out['tp_after_disp'], out['tp'])) if a != b)
        fs.append(('split/part-not-self-contained', f'part {k} of Trajectory.split reads as frames {out["tp_after_disp"][k][:4]}... after a displacement query, it was cut from {out["tp"][k][:4]}... (x 1/1024)'))
    if out['n'] != n or len(out['tp']) != n:
        fs.append(('split/number-of-parts', f'{out["n"]} parts for n_parts={n}'))
    na = len(case['outer'])
    for a in range(na):
        if sum((p[a] for p in out['st']), []) != case['outer'][a] or sum((p[a] for p in out['in']), []) != case['inner'][a]:
            fs.append(('split/states-concat', f'state arrays of atom {a} do not concatenate to the original'))
            break
    want = sorted((a, o[t], o[t + 1], i[t], i[t + 1], t) for a, (o, i) in enumerate(zip(case['outer'], case['inner']))
                  for t in range(len(o) - 1) if o[t] != o[t + 1] or i[t] != i[t + 1])
    got = []
    neg = False
    for p in out['ev']:
        for r in p:
            if r[5] < 0:
                neg = True
            got.append(tuple(r[:5]))
    if sorted(got) != sorted(w[:5] for w in want):
        fs.append(('split/events-partition', 'the parts do not contain every original event exactly once'))
    if neg:
        fs.append(('split/negative-time', 're-based event time is negative'))
    # chronological order of parts: rebased times + offsets must be recoverable as increasing windows
    if sum(len(p) for p in out['jp']) > out['n_whole']:
        fs.append(('split/jumps-exceed-total', f'parts have {sum(len(p) for p in out["jp"])} jumps, whole has {out["n_whole"]}'))
    # trajectory parts: contiguous, non-overlapping, ordered ranges of the source
    L = case['tlen']
    flat = sum(out['tp'], [])
    if flat != list(range(flat[0], flat[0] + len(flat))) if flat else False:
        fs.append(('split/traj-contiguous', 'trajectory parts are not contiguous ordered frame ranges'))
    if any(f >= L for f in flat):
        fs.append(('split/traj-range', 'frame outside the source'))
    if len({len(p) for p in out['te']}) > 1:
        fs.append(('split/equal-parts', 'equal_parts=True gives parts of different length'))
    for p, q in zip(out['tp'], out['te']):
        if q != p[:len(q)]:
            fs.append(('split/equal-parts-content', 'equal part is not a prefix of the part'))
            break
    if 'jsplit_n' in out and out['jsplit_n'] != [len(p) for p in out['jp']]:
        fs.append(('split/jumps-split', f'Jumps.split gives {out["jsplit_n"]} jumps per part, Jumps(part, minimal_residence={case["mr"]}) of Transitions.split gives {[len(p) for p in out["jp"]]}'))
    for key, rate in out.get('rates', {}).items():
        counts = [pc.get(key, 0) for pc in out['rates_parts']]
        want = float(np.mean(counts)) / out['rates_denom']
        if abs(rate - want) > 1e-9 * max(abs(want), 1e-300):
            fs.append(('split/rates-not-mean-of-parts', f'rate of {key} is {rate}, the parts hold {counts} such jumps: mean / (atoms x part duration) = {want}'))
            break
    if 'rates_parts_data' in out and [{k: v for k, v in pc.items() if v} for pc in out['rates_parts']] != out['rates_parts_data']:
        fs.append(('split/counter-by-label', f'the label-pair counts of the parts {out["rates_parts"]} are not the jumps of their tables counted by label {out["rates_parts_data"]}'))
    if 'jsplit_mr' in out and any(v != case['mr'] for v in out['jsplit_mr']):
        fs.append(('split/jumps-split-settings', f'the parts of Jumps.split use minimal_residence {out["jsplit_mr"]}, the whole uses {case["mr"]}'))
    if out.get('jsplit_raises') and all(len(p) > 0 for p in out['jp']):
        fs.append(('split/jumps-split', 'Jumps.split raises "No jumps found" although every part has jumps under the settings of the whole'))
    return fs


def coq_term(case, out):
    if 'st' not in out or case.get('long'):
        return None          # long run: oracle only
    atoms = clist(f'({zlist(o)}, {zlist(i)})' for o, i in zip(case['outer'], case['inner']))
    st = clist(clist(zlist(a) for a in p) for p in out['st'])
    inn = clist(clist(zlist(a) for a in p) for p in out['in'])
    ev = clist(clist('R ' + ' '.join(z(v) for v in r) for r in p) for p in out['ev'])
    jp = clist(clist('J ' + ' '.join(z(v) for v in r) for r in p) for p in out['jp'])
    return ('{| atoms := %s; n_parts := %d%%nat; mr := %s; st_parts := %s; in_parts := %s; ev_parts := %s; j_parts := %s; '
            'tlen := %d%%nat; t_parts := %s; t_equal := %s |}') % (
        atoms, case['n_parts'], z(case['mr']), st, inn, ev, jp, case['tlen'],
        clist(zlist(p) for p in out['tp']), clist(zlist(p) for p in out['te']))


def nontrivial(case, out):
    if 'ev' not in out or case['n_parts'] < 2:
        return False
    T = len(case['outer'][0])
    bins = np.linspace(0, T + 1, case['n_parts'] + 1, dtype=int)
    for p, lo, hi in zip(out['ev'], bins[:-1], bins[1:]):
        for r in p:
            if r[5] == 0 or r[5] == hi - lo - 1:
                return True
    return False


def classify(case, out):
    tags = [f'n_parts={min(case["n_parts"], 9)}{"+" if case["n_parts"] > 9 else ""}']
    if 'split_error' in out:
        tags.append('split-error')
    if 'jp' in out and any(len(p) == 0 for p in out['jp']):
        tags.append('part-without-jumps')
    return tags


def sample(case, out):
    return {'outer': [o[:40] for o in case['outer'][:2]], 'n_parts': case['n_parts'], 'ev_parts': out.get('ev', [])[:2], 'traj_parts': out.get('tp', [])[:3]}
