"""C14 -- derived metrics obey their formulas and physical scaling laws."""
import math
import random
from fractions import Fraction as Fr

import numpy as np

import synth
from vcore import clist, z, zlist

TIE = 'Tie.C14'
DEN = 4096
SHARD = 60
KINDS = ['cubic', 'ortho', 'mono', 'hexlike', 'hex', 'tri', 'tri_full']
SYMS = ['Li', 'Na', 'S', 'O']
RULE = ('cases = trajectories (2-4 atoms of different masses, 8-40 frames, 2^-12 grid, steps below 0.3 cell) in 6 lattice classes (optionally rotated) x ion charge '
        '1-3 x dimensions 1-3 x temperature x time step x integer/dyadic cell scale k and time scale s; the rational metrics (density, molarity, tracer and '
        'centre-of-mass diffusivity, Haven ratio, conductivity) are compared with exact rational formulas in Coq, the sqrt/periodogram based ones (speed, '
        'amplitudes, vibration amplitude, attempt frequency, Std variants) by recomputation from their definitions and by the scaling laws on the '
        'implementation itself (k and s exact powers of two times small integers); non-trivial = >= 2 atoms with different masses')
TRUSTED = ['scipy.signal.periodogram is abstracted (degree-2 homogeneity and frequency grid proportional to fs are the only assumptions of the theorems); '
           'numpy sqrt/mean/std numerics are checked in the tolerance regime']
ASSUMPTIONS = ['CODATA exact SI constants for e, k_B, N_A']


def pre_build():
    import translate
    return [translate.gen_formulas_c14(), translate.gen_amp_shape(), translate.gen_meanfreq()]


def gen_cases(rng, tier):
    n = {'quick': 90, 'thorough': 2000, 'search': 60}[tier]
    cases = []
    while len(cases) < n:
        m = synth.int_lattice(rng, rng.choice(KINDS))
        na = rng.randint(2, 4)
        species = [rng.choice(SYMS) for _ in range(na)]
        T = rng.choice([8, 12, 20, 40])
        identical = rng.random() < 0.15
        atoms = []
        steps = [[rng.randint(-1200, 1200) for _ in range(3)] for _ in range(T)]
        for _a in range(na):
            axes = []
            for k in range(3):
                x = rng.randint(0, DEN)
                col = []
                for t in range(T):
                    col.append(x)
                    x += steps[t][k] if identical else rng.randint(-1200, 1200)
                axes.append(col)
            atoms.append(axes)
        cases.append({'m': m, 'rot': rng.random() < 0.3, 'rseed': rng.randrange(10**6), 'species': species, 'atoms': atoms, 'identical': identical,
                      'dim': rng.randint(1, 3), 'z': rng.randint(1, 3), 'temp': rng.choice([300.0, 650.0, 1000.5]), 'dt': rng.choice([1e-15, 2e-15]),
                      'k': rng.choice([2, 3, 0.5, 1.5, 2.0 ** -13, 2.0 ** -17]), 's': rng.choice([2.0, 0.5, 4.0]),
                      'plots': rng.random() < 0.15, 'as_disp': rng.random() < 0.2, 'base_off': [[rng.randint(-400, 400) for _ in range(3)] for _ in range(na)]})
        if identical:
            cases[-1]['base_off'] = [cases[-1]['base_off'][0]] * na          # identical motion includes the step from the base position
    return cases


def _metrics(case, k=1.0, s=1.0):
    rot = synth.rotation(random.Random(case['rseed'])) if case['rot'] else None
    c = np.array(case['atoms'], dtype=float).transpose(2, 0, 1) / DEN
    m = (np.array(case['m'], dtype=float) * k).tolist()
    if case.get('as_disp'):
        # the trajectory is handed over as displacements from explicit base positions that differ from the first frame
        # (legitimate pymatgen input): the distance from the starting point is then non-zero already at frame 0
        off = np.array(case['base_off'], dtype=float) / DEN                      # atoms x 3
        d = np.diff(c, axis=0, prepend=(c[:1] - off[None]))
        traj = synth.make_traj(m, case['species'], d, time_step=case['dt'] * s, temperature=case['temp'], rot=rot,
                               coords_are_displacement=True, base_positions=np.mod(c[0] - off, 1))
    else:
        traj = synth.make_traj(m, case['species'], c, time_step=case['dt'] * s, temperature=case['temp'], rot=rot)
    # (not for the displacement-mode hand-over with base positions off the first frame: pymatgen's own positions <-> displacements round trip
    #  re-bases such a trajectory on its first frame, so any positions query -- figures slice the trajectory -- legitimately changes its distances)
    if case.get('plots') and not case.get('as_disp') and k == 1.0 and s == 1.0:
        synth.call_plots(traj, ['plot_displacement_per_atom', 'plot_displacement_per_element', 'plot_msd_per_element', 'plot_displacement_histogram', 'plot_frequency_vs_occurence', 'plot_vibrational_amplitudes'])
    if case.get('plots') is False and not case.get('as_disp') and k == 1.0 and s == 1.0 and case.get('rseed', 0) % 3 == 0:
        # derived trajectories (drift-corrected, selection, centre of mass) are made first and kept: the source still answers by its own frames
        _kept = (traj.apply_drift_correction(), traj.filter(str(traj.species[0])), traj.center_of_mass())
    mt = traj.metrics()
    out = {'density': float(mt.particle_density()), 'molarity': float(mt.mol_per_liter()),
           'dtracer': float(mt.tracer_diffusivity(dimensions=case['dim'])),
           'dcom': float(mt.tracer_diffusivity_center_of_mass(dimensions=case['dim'])),
           'haven': float(mt.haven_ratio(dimensions=case['dim'])),
           'conduct': float(mt.tracer_conductivity(z_ion=case['z'], dimensions=case['dim'])),
           'freq': float(mt.attempt_frequency()[0]), 'freq_std': float(mt.attempt_frequency()[1]),
           'vib': float(mt.vibration_amplitude()), 'amps': mt.amplitudes().tolist(), 'speed': mt.speed().tolist(),
           'dist': traj.distances_from_base_position().tolist(),
           'masses': [float(sp.atomic_mass) for sp in traj.species]}
    return out, traj


def impl(case):
    from gemdat.metrics import TrajectoryMetricsStd
    base, traj = _metrics(case)
    guard = synth.InputGuard(trajectory=traj)
    out = {'base': base, 'cell': _metrics(case, k=case['k'])[0], 'time': _metrics(case, s=case['s'])[0]}
    parts = traj.split(2, equal_parts=True)
    st = TrajectoryMetricsStd(parts)
    d = st.tracer_diffusivity(dimensions=case['dim'])
    v = st.vibration_amplitude()
    c = st.tracer_conductivity(z_ion=case['z'], dimensions=case['dim'])
    pm = [p.metrics() for p in parts]
    out['std'] = {'d': [d.n, d.s], 'v': [v.n, v.s], 'c': [c.n, c.s],
                  'd_parts': [float(x.tracer_diffusivity(dimensions=case['dim'])) for x in pm],
                  'v_parts': [float(x.vibration_amplitude()) for x in pm],
                  'c_parts': [float(x.tracer_conductivity(z_ion=case['z'], dimensions=case['dim'])) for x in pm]}
    # ... and over parts of unequal length (three windows of the run, the middle one longer): every part counts as it is
    if not case.get('as_disp') and len(traj) >= 9:
        n = len(traj)
        a, b = n // 4, n - n // 4
        wins = [traj[0:a + 1], traj[a:b], traj[b - 1:n]]
        if all(len(w) >= 3 for w in wins):
            s3 = TrajectoryMetricsStd(wins)
            d3, v3, c3 = s3.tracer_diffusivity(dimensions=case['dim']), s3.vibration_amplitude(), s3.tracer_conductivity(z_ion=case['z'], dimensions=case['dim'])
            pm3 = [w.metrics() for w in wins]
            out['std3'] = {'d': [d3.n, d3.s], 'v': [v3.n, v3.s], 'c': [c3.n, c3.s], 'lengths': [len(w) for w in wins],
                           'd_parts': [float(x.tracer_diffusivity(dimensions=case['dim'])) for x in pm3],
                           'v_parts': [float(x.vibration_amplitude()) for x in pm3],
                           'c_parts': [float(x.tracer_conductivity(z_ion=case['z'], dimensions=case['dim'])) for x in pm3]}
    # mean / standard deviation over trajectories that differ in cell volume and temperature (replicas, heating-ramp segments)
    if case.get('as_disp'):
        # (not for the displacement hand-over with base positions off the first frame: after split() converted it to positions, the next
        #  displacement query re-bases it -- pymatgen keeps the old base positions -- which is that input class's own fragility, see D20)
        out['inputs_changed'] = guard.changed()
        return out
    other_case = dict(case, temp=case['temp'] + 217.0)
    t_other = _metrics(other_case, k=case['k'])[1]
    het = TrajectoryMetricsStd([traj, t_other])
    hc = het.tracer_conductivity(z_ion=case['z'], dimensions=case['dim'])
    hd = het.tracer_diffusivity(dimensions=case['dim'])
    hv = het.vibration_amplitude()
    ind = [t.metrics() for t in (traj, t_other)]
    out['het'] = {'c': [hc.n, hc.s], 'd': [hd.n, hd.s], 'v': [hv.n, hv.s],
                  'c_parts': [float(x.tracer_conductivity(z_ion=case['z'], dimensions=case['dim'])) for x in ind],
                  'd_parts': [float(x.tracer_diffusivity(dimensions=case['dim'])) for x in ind],
                  'v_parts': [float(x.vibration_amplitude()) for x in ind]}
    out['inputs_changed'] = guard.changed()
    # a run analysed, then extended in place, then analysed again: the second analysis is that of the long run
    from gemdat.trajectory import Trajectory
    whole = np.array(traj.positions)
    h = max(2, whole.shape[0] // 2)
    if whole.shape[0] - h >= 1:
        def mk(c):
            return Trajectory(species=list(traj.species), coords=np.array(c), lattice=traj.get_lattice(), time_step=traj.time_step, metadata=dict(traj.metadata))

        def vals(t):
            q = t.metrics()
            return [float(q.tracer_diffusivity(dimensions=case['dim'])), float(q.tracer_diffusivity_center_of_mass(dimensions=case['dim'])),
                    float(q.vibration_amplitude()), float(q.attempt_frequency()[0]), float(np.abs(q.speed()).sum()), float(q.speed().shape[1])]
        grown = mk(whole[:h])
        _first = vals(grown)
        grown.extend(mk(whole[h:]))
        out['grown'] = {'got': vals(grown), 'want': vals(mk(whole))}
    return out


def _close(a, b, rel=1e-9):
    return abs(a - b) <= rel * max(abs(a), abs(b)) + 1e-300


def oracle(case, out):
    if 'base' not in out:
        return [('c14/harness-error', f"{out.get('error')}: {out.get('msg')} {out.get('tb', '')[-400:]}")]
    fs = synth.inputs_clause(out, 'TrajectoryMetrics / TrajectoryMetricsStd')
    b, c, t = out['base'], out['cell'], out['time']
    amp_scale0 = max([abs(x) for x in np.ravel(b.get('amps') or [0.0])] + [0.0])
    k, s = case['k'], case['s']
    # formulas on the implementation's own intermediates
    vol = abs(float(np.linalg.det(np.array(case['m'], dtype=float))))
    n_at = len(case['species'])
    if not _close(b['density'], n_at / (vol * 1e-30), 1e-9):
        fs.append(('metrics/particle-density', f'particle density {b["density"]} but N / V = {n_at / (vol * 1e-30)} (lattice {case["m"]})'))
    if not _close(b['molarity'], b['density'] * 1e-3 / 6.02214076e23, 1e-9):
        fs.append(('metrics/molarity', f'mol/l {b["molarity"]} inconsistent with the particle density'))
    want_c = (1.602176634e-19 ** 2) * case['z'] ** 2 * b['dtracer'] * (n_at / (vol * 1e-30)) / (1.380649e-23 * case['temp'])
    if not _close(b['conduct'], want_c, 1e-9):
        fs.append(('metrics/nernst-einstein', f'tracer conductivity {b["conduct"]} but the Nernst-Einstein formula gives {want_c}'))
    if b['dcom'] and not _close(b['haven'], b['dtracer'] / b['dcom'], 1e-9):
        fs.append(('metrics/haven', 'Haven ratio is not tracer diffusivity / centre-of-mass diffusivity'))
    dist = np.array(b['dist'])
    # distance from the starting point = Cartesian length of the unwrapped displacement (exact Gram matrix; steps are below 0.3 cell)
    G = np.array(synth.gram(case['m']), dtype=float)
    at = np.array(case['atoms'], dtype=float)                  # atoms x axes x frames, numerators over DEN
    start = at[:, :, :1] - (np.array(case['base_off'], dtype=float)[:, :, None] if case.get('as_disp') else 0.0)
    u = (at - start) / DEN
    want_dist = np.sqrt(np.einsum('akt,kl,alt->at', u, G, u))
    if dist.shape != want_dist.shape or not np.allclose(dist, want_dist, rtol=1e-9, atol=1e-9):
        fs.append(('metrics/distance-not-cartesian-length', f'distances from the starting point differ from the Cartesian length of the unwrapped displacement '
                   f'by up to {np.abs(dist - want_dist).max() if dist.shape == want_dist.shape else "shape"} (lattice {case["m"]}, rotated={case["rot"]})'))
    sp = np.diff(dist, prepend=0)
    if not np.allclose(sp, np.array(b['speed']), rtol=1e-12, atol=1e-15):
        fs.append(('metrics/speed', 'speed is not the frame-to-frame change of the distance from the start'))
    amps = np.array(b['amps'])
    if abs(amps.sum() - dist[:, -1].sum()) > 1e-9 * max(1.0, abs(dist[:, -1]).sum()):
        fs.append(('metrics/amplitudes-sum', f'amplitudes sum to {amps.sum()} but the final distances sum to {dist[:, -1].sum()}'))
    if not _close(b['vib'], float(np.std(amps))):
        fs.append(('metrics/vibration-amplitude', 'vibration amplitude is not the standard deviation of the amplitudes'))
    if case['identical'] and not _close(b['haven'], 1.0, 1e-9):
        if case.get('as_disp'):
            # D20: the centre-of-mass trajectory is rebuilt from unwrapped positions, so its distances are measured from its first frame,
            # while the atoms' distances are measured from their base positions (which this input places off the first frame)
            fs.append(('metrics/haven-identical-motion:base-positions-off-first-frame',
                       f'trajectory given as displacements from base positions {case["base_off"][0]}/4096 before the first frame; all atoms move identically '
                       f'(including the step from the base) but the Haven ratio is {b["haven"]}'))
        else:
            fs.append(('metrics/haven-identical-motion', f'all atoms move identically but the Haven ratio is {b["haven"]}'))
    gr = out.get('grown')
    if gr:
        for name, got, want in zip(('dtracer', 'dcom', 'vib', 'freq', 'speed', 'frames'), gr['got'], gr['want']):
            if not _close(got, want, 1e-8) and abs(got - want) > 1e-9 * amp_scale0:
                fs.append((f'metrics/after-extend:{name}', f'{name} of a run analysed, extended in place and analysed again is {got}; the same frames analysed afresh give {want}'))
    # scaling laws
    laws = [('density', c['density'], b['density'] / k**3), ('dtracer', c['dtracer'], b['dtracer'] * k * k), ('dcom', c['dcom'], b['dcom'] * k * k),
            ('vib', c['vib'], b['vib'] * k), ('freq', c['freq'], b['freq']), ('haven', c['haven'], b['haven']),
            ('conduct', c['conduct'], b['conduct'] / k)]
    # the vibration amplitude is the spread of the per-atom amplitudes: when they all agree it is rounding noise of their size, not a small number
    amp_scale = max([abs(x) for x in np.ravel(b.get('amps') or [0.0])] + [0.0])
    for name, got, want in laws:
        if name == 'vib' and abs(got - want) <= 1e-9 * k * amp_scale:
            continue
        if not _close(got, want, 1e-8):
            fs.append((f'scaling/cell:{name}', f'scaling the cell by {k}: {name} = {got}, expected {want}'))
    laws = [('dtracer', t['dtracer'], b['dtracer'] / s), ('freq', t['freq'], b['freq'] / s), ('density', t['density'], b['density']),
            ('vib', t['vib'], b['vib']), ('conduct', t['conduct'], b['conduct'] / s)]
    for name, got, want in laws:
        if name == 'vib' and abs(got - want) <= 1e-9 * amp_scale:
            continue
        if not _close(got, want, 1e-8):
            fs.append((f'scaling/time:{name}', f'scaling the time step by {s}: {name} = {got}, expected {want}'))
    for name_, st in (('sub-trajectories', out['std']), ('trajectories of different cell volume and temperature', out.get('het')),
                      ('windows of unequal length', out.get('std3'))):
      if st is None:
        continue
      for key in ('d', 'v', 'c'):
        parts = st[key + '_parts']
        if not (_close(st[key][0], float(np.mean(parts))) and abs(st[key][1] - float(np.std(parts))) <= 1e-9 * abs(float(np.mean(parts))) + 1e-300):
            fs.append(('metrics/std-variant', f'TrajectoryMetricsStd over {name_}, {key}: {st[key]} is not mean/std of {parts}'))
    return fs


def coq_term(case, out):
    if 'base' not in out or case.get('as_disp'):
        return None          # displacement-mode input with explicit base positions: decided by the oracle clauses (the exact tie models frames only)
    b = out['base']
    m = case['m']
    V = lambda v: '(%s, %s, %s)' % tuple(z(x) for x in v)
    M = '{| ra := %s; rb := %s; rc := %s |}' % (V(m[0]), V(m[1]), V(m[2]))
    mq = [synth.frac_of_float(x) for x in b['masses']]
    den = 1
    for q in mq:
        den = den * q.denominator // math.gcd(den, q.denominator)
    masses = [int(q * den) for q in mq]
    dy = lambda v: '(%s, %s)' % tuple(z(x) for x in synth.dyadic(v))
    rq = lambda v: '(%s, %s)' % (z(synth.frac_of_float(v).numerator), z(synth.frac_of_float(v).denominator))
    T = len(case['atoms'][0][0])
    return ('{| D := %d; M := %s; atoms := %s; masses := %s; nframes := %d; dim := %d; z_ion := %d; dt := %s; temp := %s; density := %s; molarity := %s; '
            'dtracer := %s; dcom := %s; haven := %s; conduct := %s |}') % (
        DEN, M, clist(clist(zlist(ax) for ax in a) for a in case['atoms']), zlist(masses), T, case['dim'], case['z'], rq(case['dt']), rq(case['temp']),
        dy(b['density']), dy(b['molarity']), dy(b['dtracer']), dy(b['dcom']), dy(b['haven']), dy(b['conduct']))


def nontrivial(case, out):
    return len(set(case['species'])) >= 2


def classify(case, out):
    return ['displacement-mode-input' if case.get('as_disp') else 'position-input', 'identical-motion' if case['identical'] else 'independent-motion', f'k={case["k"]}', f's={case["s"]}']


def sample(case, out):
    b = out.get('base', {})
    return {'m': case['m'], 'species': case['species'], 'k': case['k'], 's': case['s'],
            'base': {x: b.get(x) for x in ('density', 'dtracer', 'dcom', 'haven', 'conduct', 'freq', 'vib')}}
