#!/bin/bash
# ./harness/try_seed.sh <Cxx> <dir with patch.diff demo.py> [tier]  -- apply a seeded change to /repo, confirm it (tests green, demo red),
# run the check, undo.  /repo is restored in every case.
set -u
export VERIF_EVIDENCE_DIR=$(mktemp -d /var/tmp/seed_evidence.XXXXXX)   # never overwrite the committed evidence with a run on modified code
pid=$1; d=$2; tier=${3:-quick}
cd /repo || exit 2
if ! git diff --quiet; then echo "repo not clean"; exit 2; fi
restore() { git -C /repo checkout -- . ; rm -rf "$VERIF_EVIDENCE_DIR"; }
trap restore EXIT
echo "== demo on the original code"
PYTHONPATH=/repo/src timeout 600 /venv/bin/python "$d/demo.py" > /tmp/demo0.out 2>&1; echo "exit $?"
git apply "$d/patch.diff" || { echo "patch does not apply"; exit 3; }
echo "== baseline tests with the change"
/venv/bin/python -m pytest -q -p no:cacheprovider --timeout=900 --continue-on-collection-errors tests 2>&1 | tail -1
echo "== demo with the change"
PYTHONPATH=/repo/src timeout 600 /venv/bin/python "$d/demo.py" > /tmp/demo1.out 2>&1; echo "exit $?"; tail -3 /tmp/demo1.out
echo "== check $pid ($tier)"
cd /verif && ./check $pid --tier $tier 2>&1 | grep -v "running impl" | tail -4 | cut -c1-400
echo "check exit: ${PIPESTATUS[0]}"
