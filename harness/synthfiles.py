"""Synthetic simulation files that load through the real GEMDAT loaders."""
import numpy as np


def write_lammps(d, n_frames=5, elements=('Li', 'Li', 'S', 'S'), box=6.0, shift=0.1):
    types = {e: k + 1 for k, e in enumerate(dict.fromkeys(elements))}
    # one atom starts outside the box and another one leaves it during the run: dumps are not wrapped
    base = np.array([[-0.4, 0, 0], [3, 0, 0], [0, 5.9, 0], [3, 3, 3]], float)[:len(elements)]
    lines = ['LAMMPS data file', '', f'{len(elements)} atoms', f'{len(types)} atom types', '',
             f'0.0 {box} xlo xhi', f'0.0 {box} ylo yhi', f'0.0 {box} zlo zhi', '', 'Masses', '']
    for e, k in types.items():
        lines.append(f'{k} {6.94 if k == 1 else 32.06}')
    lines += ['', 'Atoms # atomic', '']
    for i, (e, p) in enumerate(zip(elements, base)):
        lines.append(f'{i + 1} {types[e]} {p[0]} {p[1]} {p[2]}')
    (d / 'data.lmp').write_text('\n'.join(lines) + '\n')
    out = []
    for t in range(n_frames):
        out.append(str(len(elements)))
        out.append(f'frame {t}')
        for e, p in zip(elements, base + shift * t):
            out.append(f'{e} {p[0]:.4f} {p[1]:.4f} {p[2]:.4f}')
    (d / 'coords.xyz').write_text('\n'.join(out) + '\n')
    return d / 'coords.xyz', d / 'data.lmp'


def _varray(name, rows, indent='   '):
    s = [f'{indent}<varray name="{name}" >']
    for r in rows:
        s.append(f'{indent} <v> ' + ' '.join(f'{x:.8f}' for x in r) + ' </v>')
    s.append(f'{indent}</varray>')
    return '\n'.join(s)


def _structure(name, lat, pos):
    nm = f' name="{name}"' if name else ''
    return '\n'.join([
        f'  <structure{nm} >', '   <crystal>', _varray('basis', lat, '    '), '    <i name="volume"> 216.0 </i>',
        _varray('rec_basis', np.linalg.inv(lat).T, '    '), '   </crystal>', _varray('positions', pos), '  </structure>'])


def write_vasprun(path, n_frames=4, a=6.0, potim=2.0, tebeg=600.0):
    lat = np.eye(3) * a
    base = np.array([[0.0, 0.0, 0.0], [0.5, 0.0, 0.0], [0.0, 0.5, 0.0]])
    unwrapped = np.array([[0.0, -0.02, 0.0], [0.0, 0.0, 0.0], [0.0, 0.0, 0.99]])     # written as they are: one atom below 0, one crossing 1
    elements = ['Li', 'Li', 'S']
    x = ['<?xml version="1.0" encoding="ISO-8859-1"?>', '<modeling>', ' <generator>',
         '  <i name="program" type="string">vasp </i>', '  <i name="version" type="string">6.3.0  </i>', ' </generator>',
         ' <incar>', f'  <i name="POTIM"> {potim}</i>', f'  <i name="TEBEG"> {tebeg}</i>', '  <i type="int" name="IBRION"> 0</i>',
         f'  <i type="int" name="NSW"> {n_frames}</i>', ' </incar>',
         ' <kpoints>', '  <generation param="Gamma">', '   <v type="int" name="divisions"> 1 1 1 </v>',
         '   <v name="usershift"> 0.0 0.0 0.0 </v>', '  </generation>',
         '  <varray name="kpointlist" >', '   <v> 0.0 0.0 0.0 </v>', '  </varray>',
         '  <varray name="weights" >', '   <v> 1.0 </v>', '  </varray>', ' </kpoints>',
         ' <parameters>', f'  <i name="POTIM"> {potim}</i>', f'  <i name="TEBEG"> {tebeg}</i>', '  <i type="int" name="IBRION"> 0</i>',
         f'  <i type="int" name="NSW"> {n_frames}</i>', '  <i type="int" name="NELM"> 60</i>', '  <i name="EDIFF"> 0.0001</i>',
         '  <i name="EDIFFG"> 0.001</i>', '  <i type="int" name="ISPIN"> 1</i>', '  <i type="logical" name="LSORBIT"> F </i>',
         '  <i type="logical" name="LNONCOLLINEAR"> F </i>', ' </parameters>',
         ' <atominfo>', f'  <atoms> {len(elements)} </atoms>', '  <types> 2 </types>', '  <array name="atoms" >',
         '   <dimension dim="1">ion</dimension>', '   <field type="string">element</field>', '   <field type="int">atomtype</field>', '   <set>']
    for e in elements:
        x.append(f'    <rc><c>{e:<2}</c><c>{1 if e == "Li" else 2:>4}</c></rc>')
    x += ['   </set>', '  </array>', '  <array name="atomtypes" >', '   <dimension dim="1">type</dimension>',
          '   <field type="int">atomspertype</field>', '   <field type="string">element</field>', '   <field>mass</field>',
          '   <field>valence</field>', '   <field type="string">pseudopotential</field>', '   <set>',
          '    <rc><c>   2</c><c>Li</c><c>      6.94</c><c>      1.0</c><c>  PAW_PBE Li 17Jan2003 </c></rc>',
          '    <rc><c>   1</c><c>S </c><c>     32.06</c><c>      6.0</c><c>  PAW_PBE S 06Sep2000 </c></rc>',
          '   </set>', '  </array>', ' </atominfo>', _structure('initialpos', lat, base).replace('\n', '\n')]
    for t in range(n_frames):
        pos = base + 0.01 * t + unwrapped
        x += [' <calculation>', '  <scstep>', '   <energy>', '    <i name="e_fr_energy"> -10.0 </i>', '    <i name="e_wo_entrp"> -10.0 </i>',
              '    <i name="e_0_energy"> -10.0 </i>', '   </energy>', '  </scstep>', _structure('', lat, pos),
              '  <energy>', '   <i name="e_fr_energy"> -10.0 </i>', '   <i name="e_wo_entrp"> -10.0 </i>', '   <i name="e_0_energy"> -10.0 </i>',
              '  </energy>', ' </calculation>']
    x += [_structure('finalpos', lat, base + 0.01 * (n_frames - 1) + unwrapped), '</modeling>']
    open(path, 'w').write('\n'.join(x) + '\n')
    return path
