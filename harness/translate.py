"""Fail-closed translators from /repo/src/gemdat/*.py to Gallina (written to coq/Gen/).

Each unit returns (name, ok, detail).  Any construct outside the small whitelist of a
unit raises Unsupported, which makes that unit report ok=False ("translator:
unsupported <node>"); nothing is ever guessed.
"""
from __future__ import annotations

import ast
import os
import subprocess

_V = os.path.dirname(os.path.dirname(os.path.abspath(__file__)))
SRC = os.path.join(os.environ.get('VERIF_REPO', '/repo'), 'src', 'gemdat')
GEN = os.path.join(_V, 'coq', 'Gen')
COQ = os.path.join(_V, 'coq')


class Unsupported(Exception):
    pass


def _parse(fname):
    return ast.parse(open(os.path.join(SRC, fname)).read())


def _find_func(tree, cls, name):
    for node in ast.walk(tree):
        if isinstance(node, ast.ClassDef) and node.name == cls:
            for f in node.body:
                if isinstance(f, ast.FunctionDef) and f.name == name:
                    return f
    for node in tree.body:
        if cls is None and isinstance(node, ast.FunctionDef) and node.name == name:
            return node
    raise Unsupported(f'function {cls}.{name} not found')


def _coq_strs(xs):
    return '[' + '; '.join('"%s"' % x for x in xs) + ']%string'


def compile_gen(fname, timeout=300):
    p = subprocess.run(['timeout', str(timeout), 'coqc', '-R', COQ, 'GV', os.path.join(GEN, fname)],
                       cwd=GEN, stdout=subprocess.PIPE, stderr=subprocess.STDOUT, text=True)
    return p.returncode == 0, p.stdout[-2000:]


# ---------------------------------------------------------------- unit: cache key (C16)
def _names_in(node):
    return {n.id for n in ast.walk(node) if isinstance(n, ast.Name)}


def cache_key_unit():
    """For the three loaders: which parameters determine the default cache file name, and
    which parameters are read by the parsing part of the function."""
    tree = _parse('trajectory.py')
    out = {}
    for fn in ('from_vasprun', 'from_lammps', 'from_gromacs'):
        f = _find_func(tree, 'Trajectory', fn)
        params = [a.arg for a in f.args.args + f.args.kwonlyargs if a.arg not in ('cls', 'cache')]
        varkw = f.args.kwarg.arg if f.args.kwarg else None
        # locate "if not cache:" block
        blk = None
        rest = []
        for st in f.body:
            if (isinstance(st, ast.If) and isinstance(st.test, ast.UnaryOp) and isinstance(st.test.op, ast.Not)
                    and isinstance(st.test.operand, ast.Name) and st.test.operand.id == 'cache'):
                if blk is not None:
                    raise Unsupported('two "if not cache" blocks')
                blk = st
            else:
                rest.append(st)
        if blk is None or blk.orelse:
            raise Unsupported(f'{fn}: no plain "if not cache:" block')
        hashed = set()
        dict_name = None
        for st in blk.body:
            if isinstance(st, ast.Assign) and len(st.targets) == 1 and isinstance(st.targets[0], ast.Name):
                tgt = st.targets[0].id
                if isinstance(st.value, ast.Dict):
                    for k, v in zip(st.value.keys, st.value.values):
                        if not (isinstance(k, ast.Constant) and isinstance(k.value, str) and isinstance(v, ast.Name) and v.id == k.value):
                            raise Unsupported(f'{fn}: dict entry is not "name": name')
                        hashed.add('**' + v.id if v.id == varkw else v.id)
                    dict_name = tgt
                elif tgt == 'serialized':
                    # json.dumps(<dict>, sort_keys=True).encode()
                    names = _names_in(st.value) - {'json'}
                    if dict_name is None:
                        if varkw is None or names != {varkw}:
                            raise Unsupported(f'{fn}: serialized from {names}')
                        hashed.add('**' + varkw)
                    elif names != {dict_name}:
                        raise Unsupported(f'{fn}: serialized from {names}')
                elif tgt == 'hashid':
                    if _names_in(st.value) != {'hashlib', 'serialized'}:
                        raise Unsupported(f'{fn}: hashid')
                elif tgt == 'cache':
                    for n in _names_in(st.value) - {'Path', 'hashid'}:
                        if n not in params:
                            raise Unsupported(f'{fn}: cache name uses {n}')
                        hashed.add(n)
                else:
                    raise Unsupported(f'{fn}: assignment to {tgt} in cache-name block')
            else:
                raise Unsupported(f'{fn}: statement {type(st).__name__} in cache-name block')
        # setdefault calls on **kwargs before the block are part of the hashed dict (vasprun)
        used = set()
        for st in rest:
            if isinstance(st, ast.Expr) and isinstance(st.value, ast.Constant):
                continue   # docstring
            used |= _names_in(st)
        relevant = [p for p in params if p in used]
        if varkw and varkw in used:
            relevant.append('**' + varkw)
        out[fn] = {'params': params, 'hashed': sorted(hashed), 'relevant': relevant}
    return out


def _loader_signatures():
    """the call interface of the loaders and the cache functions: which argument is the cache (callers pass it second to from_vasprun)"""
    tree = _parse('trajectory.py')
    want = {'from_vasprun': (['cls', 'xml_file', 'cache', 'constant_lattice'], [], ['None', 'True']),
            'from_lammps': (['cls'], ['coords_file', 'data_file', 'temperature', 'time_step', 'coords_format', 'atom_style', 'type_mapping', 'cache', 'constant_lattice'], []),
            'from_gromacs': (['cls'], ['topology_file', 'coords_file', 'constant_lattice', 'temperature', 'extract_edr', 'edr_file', 'cache'], []),
            'from_cache': (['cls', 'cache'], [], []), 'to_cache': (['self', 'cache'], [], [])}
    for fn, (pos, kwo, dfl) in want.items():
        a = _find_func(tree, 'Trajectory', fn).args
        got = ([x.arg for x in a.args], [x.arg for x in a.kwonlyargs], [ast.unparse(d) for d in a.defaults])
        if got != (pos, kwo, dfl):
            raise Unsupported(f'{fn}: call interface changed: positional {got[0]}, keyword-only {got[1]}, defaults {got[2]}')


def gen_cache_key():
    os.makedirs(GEN, exist_ok=True)
    try:
        info = cache_key_unit()
        _loader_signatures()
    except Unsupported as e:
        return ('cachekey', False, f'translator: unsupported {e}'), None
    lines = ['(* GENERATED from /repo/src/gemdat/trajectory.py on every run -- do not edit *)',
             'From Coq Require Import List String Bool.', 'Import ListNotations.', 'Open Scope string_scope.', '']
    for fn, d in info.items():
        lines.append(f'Definition {fn}_in_name : list string := {_coq_strs(d["hashed"])}.')
        lines.append(f'Definition {fn}_relevant : list string := {_coq_strs(d["relevant"])}.')
    lines += ['', 'Definition covers (hashed relevant : list string) : bool :=',
              '  forallb (fun p => existsb (String.eqb p) hashed) relevant.', '',
              '(* every argument that the parsing code reads is part of the default cache file name *)']
    for fn in info:
        lines.append(f'Theorem {fn}_key_separates : covers {fn}_in_name {fn}_relevant = true.')
        lines.append('Proof. vm_compute. reflexivity. Qed.')
    open(os.path.join(GEN, 'CacheKey.v'), 'w').write('\n'.join(lines) + '\n')
    ok, log = compile_gen('CacheKey.v')
    missing = {fn: [p for p in d['relevant'] if p not in d['hashed']] for fn, d in info.items()}
    return ('cachekey: generated key_separates theorems', ok, f'arguments read by the parser but not in the cache name: {missing}' if not ok else 'ok'), info


# ---------------------------------------------------------------- unit: voxel / site index expressions (C08, C10)
_BINOPS = {ast.Add: '+', ast.Sub: '-', ast.Mult: '*', ast.Mod: 'mod', ast.FloorDiv: '/'}


def _zexpr(node, env):
    """integer expression over names in env -> Gallina Z term"""
    if isinstance(node, ast.Name):
        if node.id not in env:
            raise Unsupported(f'name {node.id}')
        return env[node.id]
    if isinstance(node, ast.Constant) and isinstance(node.value, int) and not isinstance(node.value, bool):
        return f'({node.value})' if node.value < 0 else str(node.value)
    if isinstance(node, ast.BinOp) and type(node.op) in _BINOPS:
        return f'({_zexpr(node.left, env)} {_BINOPS[type(node.op)]} {_zexpr(node.right, env)})'
    if isinstance(node, ast.UnaryOp) and isinstance(node.op, ast.USub):
        return f'(- {_zexpr(node.operand, env)})'
    raise Unsupported(ast.dump(node)[:80])


def wrapped_sites_unit():
    """Pathway.wrapped_sites: `xdim, ydim, zdim = self.dims; return [(e1, e2, e3) for x, y, z in self.sites]`"""
    f = _find_func(_parse('path.py'), 'Pathway', 'wrapped_sites')
    body = [st for st in f.body if not (isinstance(st, ast.Expr) and isinstance(st.value, ast.Constant))]
    # optional guard `if not self.dims: raise ...`
    if body and isinstance(body[0], ast.If):
        if not (len(body[0].body) == 1 and isinstance(body[0].body[0], ast.Raise) and not body[0].orelse):
            raise Unsupported('guard is not a plain raise')
        body = body[1:]
    if len(body) != 2:
        raise Unsupported(f'{len(body)} statements')
    unpack, ret = body
    if not (isinstance(unpack, ast.Assign) and isinstance(unpack.targets[0], ast.Tuple) and len(unpack.targets[0].elts) == 3
            and isinstance(unpack.value, ast.Attribute) and unpack.value.attr == 'dims'):
        raise Unsupported('dims unpacking')
    dnames = [e.id for e in unpack.targets[0].elts]
    if not (isinstance(ret, ast.Return) and isinstance(ret.value, ast.ListComp) and len(ret.value.generators) == 1):
        raise Unsupported('return is not a list comprehension')
    gen = ret.value.generators[0]
    if gen.ifs or not (isinstance(gen.target, ast.Tuple) and len(gen.target.elts) == 3
                       and isinstance(gen.iter, ast.Attribute) and gen.iter.attr == 'sites'):
        raise Unsupported('comprehension shape')
    snames = [e.id for e in gen.target.elts]
    elt = ret.value.elt
    if not (isinstance(elt, ast.Tuple) and len(elt.elts) == 3):
        raise Unsupported('element is not a 3-tuple')
    env = {n: n for n in dnames + snames}
    exprs = [_zexpr(e, env) for e in elt.elts]
    return dnames, snames, exprs


def frac_sites_unit():
    """Pathway.frac_sites: `sites = self.wrapped_sites(); return (np.array(sites) + 0.5) / np.array(self.dims)`"""
    f = _find_func(_parse('path.py'), 'Pathway', 'frac_sites')
    body = [st for st in f.body if not (isinstance(st, ast.Expr) and isinstance(st.value, ast.Constant))]
    if body and isinstance(body[0], ast.If):
        body = body[1:]
    if len(body) != 2:
        raise Unsupported('frac_sites shape')
    a, r = body
    if not (isinstance(a, ast.Assign) and isinstance(a.value, ast.Call) and isinstance(a.value.func, ast.Attribute)
            and a.value.func.attr == 'wrapped_sites' and not a.value.args):
        raise Unsupported('sites = self.wrapped_sites()')
    v = r.value
    ok = (isinstance(r, ast.Return) and isinstance(v, ast.BinOp) and isinstance(v.op, ast.Div)
          and isinstance(v.left, ast.BinOp) and isinstance(v.left.op, ast.Add)
          and isinstance(v.left.right, ast.Constant) and v.left.right.value == 0.5
          and isinstance(v.left.left, ast.Call) and getattr(v.left.left.func, 'attr', '') == 'array'
          and isinstance(v.left.left.args[0], ast.Name) and v.left.left.args[0].id == a.targets[0].id
          and isinstance(v.right, ast.Call) and getattr(v.right.func, 'attr', '') == 'array'
          and isinstance(v.right.args[0], ast.Attribute) and v.right.args[0].attr == 'dims')
    if not ok:
        raise Unsupported('frac_sites expression')
    return True


def volume_index_unit():
    """Volume.voxel_to_frac_coords = (np.array(voxel) + 0.5) / np.array(self.dims);
    Volume.frac_coords_to_voxel = (np.array(frac_coords) * np.array(self.dims)).astype(int)"""
    tree = _parse('volume.py')
    f1 = _find_func(tree, 'Volume', 'voxel_to_frac_coords')
    r = [st for st in f1.body if isinstance(st, ast.Return)]
    v = r[0].value if len(r) == 1 else None
    ok1 = (v is not None and isinstance(v, ast.BinOp) and isinstance(v.op, ast.Div) and isinstance(v.left, ast.BinOp)
           and isinstance(v.left.op, ast.Add) and isinstance(v.left.right, ast.Constant) and v.left.right.value == 0.5
           and isinstance(v.left.left, ast.Call) and v.left.left.args and isinstance(v.left.left.args[0], ast.Name)
           and v.left.left.args[0].id == 'voxel' and isinstance(v.right, ast.Call)
           and isinstance(v.right.args[0], ast.Attribute) and v.right.args[0].attr == 'dims')
    f2 = _find_func(tree, 'Volume', 'frac_coords_to_voxel')
    r = [st for st in f2.body if isinstance(st, ast.Return)]
    v = r[0].value if len(r) == 1 else None
    ok2 = (v is not None and isinstance(v, ast.Call) and isinstance(v.func, ast.Attribute) and v.func.attr == 'astype'
           and len(v.args) == 1 and isinstance(v.args[0], ast.Name) and v.args[0].id == 'int'
           and isinstance(v.func.value, ast.BinOp) and isinstance(v.func.value.op, ast.Mult)
           and isinstance(v.func.value.left, ast.Call) and v.func.value.left.args[0].id == 'frac_coords'
           and isinstance(v.func.value.right, ast.Call) and v.func.value.right.args[0].attr == 'dims')
    if not (ok1 and ok2):
        raise Unsupported(f'voxel_to_frac_coords ok={ok1} frac_coords_to_voxel ok={ok2}')
    return True


def gen_voxel():
    os.makedirs(GEN, exist_ok=True)
    try:
        dn, sn, ex = wrapped_sites_unit()
        frac_sites_unit()
        volume_index_unit()
    except Unsupported as e:
        return ('voxel', False, f'translator: unsupported {e}')
    defs = ['(* GENERATED from /repo/src/gemdat/path.py and volume.py on every run -- do not edit *)',
            'From GV Require Import Base.Prelude.', '',
            'Definition wrapped_site (dims s : Z * Z * Z) : Z * Z * Z :=',
            f"  let '({dn[0]}, {dn[1]}, {dn[2]}) := dims in let '({sn[0]}, {sn[1]}, {sn[2]}) := s in",
            f'  ({ex[0]}, {ex[1]}, {ex[2]}).', '',
            '(* frac_sites = (wrapped + 0.5) / dims, voxel_to_frac_coords = (voxel + 0.5) / dims: numerator, denominator per axis *)',
            'Definition frac_site (dims s : Z * Z * Z) : (Z * Z) * (Z * Z) * (Z * Z) :=',
            "  let '(nx, ny, nz) := dims in let '(x, y, z) := wrapped_site dims s in",
            '  ((2 * x + 1, 2 * nx), (2 * y + 1, 2 * ny), (2 * z + 1, 2 * nz)).']
    open(os.path.join(GEN, 'VoxelDef.v'), 'w').write('\n'.join(defs) + '\n')
    okd, logd = compile_gen('VoxelDef.v')
    if not okd:
        return ('voxel', False, 'generated definitions do not compile: ' + logd[-400:])
    lines = ['(* GENERATED on every run -- theorems about the generated definitions *)',
             'From GV Require Import Base.Prelude Gen.VoxelDef.', '',
             '(* wrapped voxel coordinates lie inside the original grid along every axis *)',
             'Theorem wrapped_in_grid : forall nx ny nz x y z, 0 < nx -> 0 < ny -> 0 < nz ->',
             "  let '(a, b, c) := wrapped_site (nx, ny, nz) (x, y, z) in",
             '  0 <= a < nx /\\ 0 <= b < ny /\\ 0 <= c < nz.',
             'Proof. intros nx ny nz x y z Hx Hy Hz. unfold wrapped_site. repeat split; lia. Qed.', '',
             '(* and they are the same voxel modulo the grid *)',
             'Theorem wrapped_congruent : forall nx ny nz x y z, 0 < nx -> 0 < ny -> 0 < nz ->',
             "  let '(a, b, c) := wrapped_site (nx, ny, nz) (x, y, z) in",
             '  (exists k, a = x + k * nx) /\\ (exists k, b = y + k * ny) /\\ (exists k, c = z + k * nz).',
             'Proof. intros nx ny nz x y z Hx Hy Hz. unfold wrapped_site. repeat split;',
             '  [exists (- (x / nx)) | exists (- (y / ny)) | exists (- (z / nz))]; lia. Qed.', '',
             '(* fractional coordinates of the wrapped sites lie strictly inside the unit cell *)',
             'Theorem frac_in_cell : forall nx ny nz x y z, 0 < nx -> 0 < ny -> 0 < nz ->',
             "  let '((a, da), (b, db), (c, dc)) := frac_site (nx, ny, nz) (x, y, z) in",
             '  0 < a < da /\\ 0 < b < db /\\ 0 < c < dc.',
             'Proof. intros nx ny nz x y z Hx Hy Hz. unfold frac_site, wrapped_site. repeat split; lia. Qed.']
    open(os.path.join(GEN, 'Voxel.v'), 'w').write('\n'.join(lines) + '\n')
    ok, log = compile_gen('Voxel.v')
    return ('voxel: generated wrapped_site/frac_site + wrapped_in_grid, wrapped_congruent, frac_in_cell', ok,
            'ok' if ok else 'generated definition: wrapped_site = (' + ', '.join(ex) + ') -- theorem does not go through: ' + log[-600:])


# ---------------------------------------------------------------- unit: optimal_path method dispatch (C10)
def dispatch_unit():
    """Symbolically execute the method-dispatch prefix/suffix of optimal_path for each method literal."""
    f = _find_func(_parse('path.py'), None, 'optimal_path')
    methods = ['dijkstra', 'bellman-ford', 'minmax-energy', 'dijkstra-exp', 'simple']
    table = {}

    def cond(test, env):
        if isinstance(test, ast.Compare) and len(test.ops) == 1 and isinstance(test.left, ast.Name) and test.left.id == 'method':
            c = test.comparators[0]
            if isinstance(test.ops[0], ast.Eq) and isinstance(c, ast.Constant):
                return env['method'] == c.value
            if isinstance(test.ops[0], (ast.In, ast.NotIn)) and isinstance(c, ast.Tuple) and all(isinstance(e, ast.Constant) for e in c.elts):
                r = env['method'] in [e.value for e in c.elts]
                return r if isinstance(test.ops[0], ast.In) else not r
        raise Unsupported('condition ' + ast.dump(test)[:80])

    def run(stmts, env):
        for st in stmts:
            if isinstance(st, ast.Expr) and isinstance(st.value, ast.Constant):
                continue
            if isinstance(st, ast.If):
                run(st.body if cond(st.test, env) else st.orelse, env)
            elif isinstance(st, ast.Assign) and len(st.targets) == 1 and isinstance(st.targets[0], ast.Name):
                t = st.targets[0].id
                if t in ('weight', 'method') and isinstance(st.value, ast.Constant):
                    env[t] = st.value.value
                elif t in ('start', 'stop'):
                    pass
                elif t == 'optimal_path' and isinstance(st.value, ast.Call):
                    fn = st.value.func
                    name = fn.attr if isinstance(fn, ast.Attribute) else fn.id
                    if name == 'shortest_path':
                        kw = {k.arg: k.value for k in st.value.keywords}
                        if not (isinstance(kw.get('weight'), ast.Name) and kw['weight'].id == 'weight'
                                and isinstance(kw.get('method'), ast.Name) and kw['method'].id == 'method'):
                            raise Unsupported('shortest_path keywords')
                        env['algo'] = env['method']
                        env['w'] = env['weight']
                    elif name == '_optimal_path_minmax_energy':
                        env['post'] = True
                    else:
                        raise Unsupported('call ' + name)
                elif t in ('path_energy', 'path'):
                    pass
                else:
                    raise Unsupported('assign ' + t)
            elif isinstance(st, ast.Raise):
                env['raises'] = True
            elif isinstance(st, ast.Return):
                pass
            else:
                raise Unsupported('statement ' + type(st).__name__)

    for m in methods:
        env = {'method': m, 'weight': 'UNSET', 'post': False, 'raises': False}
        run(f.body, env)
        table[m] = (env.get('w'), env.get('algo'), env['post'], env['raises'])
    return table


def gen_dispatch():
    os.makedirs(GEN, exist_ok=True)
    try:
        table = dispatch_unit()
    except Unsupported as e:
        return ('dispatch', False, f'translator: unsupported {e}'), None
    def s(v):
        return 'None' if v is None else f'(Some "{v}")'
    lines = ['(* GENERATED from /repo/src/gemdat/path.py (optimal_path) on every run -- do not edit *)',
             'From Coq Require Import String List Bool.', 'Import ListNotations.', 'Open Scope string_scope.', '',
             '(* method -> (edge attribute used as weight, networkx algorithm, min-max post-processing reached, raises) *)',
             'Definition dispatch (m : string) : option string * option string * bool * bool :=']
    for m, (w, algo, post, raises) in table.items():
        lines.append(f'  if String.eqb m "{m}" then ({s(w)}, {s(algo)}, {str(post).lower()}, {str(raises).lower()}) else')
    lines.append('  (None, None, false, true).')
    lines += ['', '(* the requested criterion reaches the solver: weights and algorithm per method *)',
              'Theorem dispatch_respects_method :',
              '  dispatch "dijkstra" = (Some "weight", Some "dijkstra", false, false) /\\',
              '  dispatch "bellman-ford" = (Some "weight", Some "bellman-ford", false, false) /\\',
              '  dispatch "dijkstra-exp" = (Some "weight_exp", Some "dijkstra", false, false) /\\',
              '  dispatch "simple" = (None, Some "dijkstra", false, false).',
              'Proof. repeat split; reflexivity. Qed.']
    open(os.path.join(GEN, 'Dispatch.v'), 'w').write('\n'.join(lines) + '\n')
    ok, log = compile_gen('Dispatch.v')
    return ('dispatch: generated method table + dispatch_respects_method', ok, 'ok' if ok else log[-600:]), table


# ---------------------------------------------------------------- unit: movement lists of free_energy_graph (C10)
def gen_moves():
    os.makedirs(GEN, exist_ok=True)
    try:
        f = _find_func(_parse('path.py'), None, 'free_energy_graph')
        lists = {}
        for st in ast.walk(f):
            if isinstance(st, ast.Assign) and isinstance(st.targets[0], ast.Name) and st.targets[0].id in ('movements', 'diagonal_movements'):
                v = st.value
                if isinstance(v, ast.Call) and getattr(v.func, 'attr', '') == 'array' and isinstance(v.args[0], ast.List):
                    tl = []
                    for e in v.args[0].elts:
                        if not (isinstance(e, ast.Tuple) and len(e.elts) == 3):
                            raise Unsupported('move is not a 3-tuple')
                        tl.append(tuple(ast.literal_eval(x) for x in e.elts))
                    lists.setdefault(st.targets[0].id, tl)
                elif isinstance(v, ast.Call) and getattr(v.func, 'attr', '') == 'vstack':
                    pass
                else:
                    raise Unsupported('movements assignment')
        if set(lists) != {'movements', 'diagonal_movements'}:
            raise Unsupported(f'movement lists found: {sorted(lists)}')
    except Unsupported as e:
        return ('moves', False, f'translator: unsupported {e}'), None
    fm = lambda l: '[' + '; '.join('(%d, %d, %d)' % t for t in l) + ']'
    lines = ['(* GENERATED from /repo/src/gemdat/path.py (free_energy_graph) on every run -- do not edit *)',
             'From GV Require Import Base.Prelude.',
             f'Definition gen_face_moves : list (Z * Z * Z) := {fm(lists["movements"])}.',
             f'Definition gen_diag_moves : list (Z * Z * Z) := {fm(lists["diagonal_movements"])}.',
             'Definition gen_moves (diagonal : bool) : list (Z * Z * Z) := if diagonal then gen_face_moves ++ gen_diag_moves else gen_face_moves.',
             '(* every move is a unit step to a face, edge or corner neighbour, and the list is closed under negation *)',
             'Definition unit_move (m : Z * Z * Z) : bool := let \'(a, b, c) := m in',
             '  (Z.abs a <=? 1) && (Z.abs b <=? 1) && (Z.abs c <=? 1) && negb ((a =? 0) && (b =? 0) && (c =? 0)).',
             'Definition has (l : list (Z * Z * Z)) (m : Z * Z * Z) : bool :=',
             '  existsb (fun x => let \'(a, b, c) := x in let \'(d, e, f) := m in (a =? d) && (b =? e) && (c =? f)) l.',
             'Theorem moves_are_neighbour_steps : forallb unit_move (gen_moves true) = true /\\',
             '  forallb (fun m => let \'(a, b, c) := m in has (gen_moves true) (- a, - b, - c)) (gen_moves true) = true /\\',
             '  forallb (fun m => let \'(a, b, c) := m in (Z.abs a + Z.abs b + Z.abs c =? 1)) (gen_moves false) = true /\\',
             '  length (gen_moves false) = 6%nat.',
             'Proof. vm_compute. repeat split; reflexivity. Qed.']
    open(os.path.join(GEN, 'MovesDef.v'), 'w').write('\n'.join(lines) + '\n')
    ok, log = compile_gen('MovesDef.v')
    return ('moves: generated movement lists + moves_are_neighbour_steps', ok, 'ok' if ok else log[-600:]), lists


# ---------------------------------------------------------------- unit: the per-event body of the jump scan (C04)
_COLS = {'atom index': 'g_atom', 'start site': 'g_s', 'destination site': 'g_d', 'start inner site': 'g_si',
         'destination inner site': 'g_di', 'start time': 'g_t0', 'stop time': 'g_t1'}
_VARS = ['event', 'fromevent', 'candidate_jump', 'jumps']


class _JS:
    """state-passing compiler for the whitelisted statement forms of the scan loop"""

    def __init__(self):
        self.n = 0

    def fresh(self, base):
        self.n += 1
        return f'{base}{self.n}'

    def tup(self):
        return '(event, fromevent, candidate_jump, jumps)'

    def field(self, node, known):
        # X['col'] where X is `event` (a row) or an option variable known to be Some (bound name in `known`)
        if not (isinstance(node, ast.Subscript) and isinstance(node.value, ast.Name) and isinstance(node.slice, ast.Constant)
                and node.slice.value in _COLS):
            raise Unsupported('field access ' + ast.dump(node)[:60])
        v = node.value.id
        if v == 'event':
            return f'({_COLS[node.slice.value]} event)'
        if v in known:
            return f'({_COLS[node.slice.value]} {known[v]})'
        raise Unsupported(f'read of {v}[...] where {v} is not known to be set')

    def expr(self, node, known):
        if isinstance(node, ast.Subscript):
            return self.field(node, known)
        if isinstance(node, ast.Name) and node.id == 'minimal_residence':
            return 'mr'
        if isinstance(node, ast.Constant) and isinstance(node.value, int):
            return f'({node.value})' if node.value < 0 else str(node.value)
        if isinstance(node, ast.UnaryOp) and isinstance(node.op, ast.USub):
            if isinstance(node.operand, ast.Constant) and isinstance(node.operand.value, int):
                return f'(-{node.operand.value})'
            return f'(- {self.expr(node.operand, known)})'
        if isinstance(node, ast.BinOp) and type(node.op) in (ast.Add, ast.Sub):
            return f'({self.expr(node.left, known)} {"+" if isinstance(node.op, ast.Add) else "-"} {self.expr(node.right, known)})'
        raise Unsupported('expression ' + ast.dump(node)[:60])

    def cond(self, node, known):
        if isinstance(node, ast.Compare) and len(node.ops) == 1:
            a, b = self.expr(node.left, known), self.expr(node.comparators[0], known)
            op = node.ops[0]
            if isinstance(op, ast.Eq):
                return f'({a} =? {b})'
            if isinstance(op, ast.NotEq):
                return f'(negb ({a} =? {b}))'
            if isinstance(op, ast.GtE):
                return f'({a} >=? {b})'
        raise Unsupported('condition ' + ast.dump(node)[:60])

    def block(self, stmts, known):
        """returns a Gallina expression of the 4-tuple type"""
        if not stmts:
            return self.tup()
        st, rest = stmts[0], stmts[1:]
        if isinstance(st, ast.If):
            t = st.test
            # `X is not None`
            if (isinstance(t, ast.Compare) and len(t.ops) == 1 and isinstance(t.ops[0], ast.IsNot) and isinstance(t.left, ast.Name)
                    and t.left.id in ('fromevent', 'candidate_jump') and isinstance(t.comparators[0], ast.Constant) and t.comparators[0].value is None):
                v = t.left.id
                b = self.fresh('v')
                body = self.block(st.body, {**known, v: b})
                other = self.block(st.orelse, known)
                head = f"match {v} with Some {b} => {body} | None => {other} end"
            else:
                c = self.cond(t, known)
                head = f'if {c} then {self.block(st.body, known)} else {self.block(st.orelse, known)}'
            # knowledge about option variables is dropped after a merge (fail-closed)
            return f"let '{self.tup()} := {head} in {self.block(rest, {})}"
        if isinstance(st, ast.Assign) and len(st.targets) == 1:
            tg, val = st.targets[0], st.value
            if isinstance(tg, ast.Name) and tg.id in ('fromevent', 'candidate_jump'):
                if isinstance(val, ast.Constant) and val.value is None:
                    k2 = {k: v for k, v in known.items() if k != tg.id}
                    return f'let {tg.id} : option grow := None in {self.block(rest, k2)}'
                if isinstance(val, ast.Name) and val.id == 'event':
                    b = self.fresh('w')
                    return f'let {b} := event in let {tg.id} := Some {b} in {self.block(rest, {**known, tg.id: "event"})}'
                raise Unsupported('assignment to ' + tg.id)
            if isinstance(tg, ast.Subscript) and isinstance(tg.value, ast.Name) and tg.value.id == 'event' and tg.slice.value in _COLS:
                # event[col] = expr : functional field update.  Any option variable currently bound to this very row
                # object (fromevent = event earlier in this iteration) would alias it; the code only writes after
                # rebinding, which the value semantics below shares (checked by the tie).
                new = self.expr(val, known)
                k2 = {k: (v if v != 'event' else None) for k, v in known.items()}
                if any(v is None for v in k2.values()):
                    raise Unsupported('write to event while an alias of it is still read')
                return f'let event := set_{_COLS[tg.slice.value]} event {new} in {self.block(rest, known)}'
        if isinstance(st, ast.Expr) and isinstance(st.value, ast.Call) and isinstance(st.value.func, ast.Attribute) \
                and st.value.func.attr == 'append' and isinstance(st.value.func.value, ast.Name) and st.value.func.value.id == 'jumps':
            a = st.value.args[0]
            if isinstance(a, ast.Name) and a.id == 'event':
                return f'let jumps := jumps ++ [event] in {self.block(rest, known)}'
            if isinstance(a, ast.Name) and a.id in known:
                return f'let jumps := jumps ++ [{known[a.id]}] in {self.block(rest, known)}'
            raise Unsupported('append of something not known to be set')
        raise Unsupported('statement ' + ast.dump(st)[:80])


def jump_step_unit():
    f = _find_func(_parse('jumps.py'), None, '_generic_transitions_to_jumps')
    loops = [n for n in ast.walk(f) if isinstance(n, ast.For) and isinstance(n.iter, ast.Call)
             and getattr(n.iter.func, 'attr', '') == 'iterrows']
    if len(loops) != 1:
        raise Unsupported(f'{len(loops)} iterrows loops')
    loop = loops[0]
    if not (isinstance(loop.target, ast.Tuple) and len(loop.target.elts) == 2 and loop.target.elts[1].id == 'event'):
        raise Unsupported('loop target')
    # the final filter `jumps[jumps['start site'] != jumps['destination site']]` must still be there
    src = ast.unparse(f)
    if "jumps[jumps['start site'] != jumps['destination site']]" not in src:
        raise Unsupported('final start != destination filter not found')
    if "events['stop time'] = events['time'] + 1" not in src:
        raise Unsupported("events['stop time'] = events['time'] + 1 not found")
    return _JS().block(loop.body, {})


def gen_jump_step():
    os.makedirs(GEN, exist_ok=True)
    try:
        body = jump_step_unit()
    except Unsupported as e:
        return ('jumpstep', False, f'translator: unsupported {e}')
    recs = ''.join(f'Definition set_{c} (r : grow) (x : Z) : grow := {{| ' + '; '.join(f'{d} := ' + ('x' if d == c else f'{d} r') for d in _COLS.values()) + ' |}.\n'
                   for c in _COLS.values())
    defs = f'''(* GENERATED from /repo/src/gemdat/jumps.py (_generic_transitions_to_jumps, body of the per-event loop) on every run -- do not edit *)
From GV Require Import Base.Prelude Model.C03 Model.C04.
Record grow := {{ {"; ".join(c + " : Z" for c in _COLS.values())} }}.
{recs}
Definition gstate := (option grow * option grow * list grow)%type.
Definition gen_step (mr : Z) (s : gstate) (event : grow) : gstate :=
  let '(fromevent, candidate_jump, jumps) := s in
  let '(event, fromevent, candidate_jump, jumps) := {body} in
  (fromevent, candidate_jump, jumps).

(* an event row of the table: 'stop time' = 'time' + 1 *)
Definition grow_of_row (r : row) : grow :=
  {{| g_atom := r_atom r; g_s := r_s r; g_d := r_d r; g_si := r_si r; g_di := r_di r; g_t0 := r_t r; g_t1 := r_t r + 1 |}}.
Definition jump_of_grow (g : grow) : jump :=
  {{| j_atom := g_atom g; j_from := g_s g; j_to := g_d g; j_start := g_t0 g; j_stop := g_t1 g |}}.
Definition gen_scan (mr : Z) (es : list row) : list jump :=
  let '(_, _, js) := fold_left (gen_step mr) (map grow_of_row es) (None, None, []) in
  map jump_of_grow (filter (fun g => negb (g_s g =? g_d g)) js).
'''
    open(os.path.join(GEN, 'JumpStepDef.v'), 'w').write(defs)
    ok, log = compile_gen('JumpStepDef.v')
    if not ok:
        return ('jumpstep', False, 'generated definition does not compile: ' + log[-500:])
    thm = '''(* GENERATED on every run: the generated loop body refines the hand-written model step on which the theorems are proved *)
From GV Require Import Base.Prelude Model.C03 Model.C04 Gen.JumpStepDef.

Definition abs_pend (g : grow) : pend := {| p_s := g_s g; p_d := g_d g; p_t := g_t0 g |}.
Definition abs_cand (g : grow) : cand := {| c_s := g_s g; c_d := g_d g; c_t := g_t0 g; c_stop := g_t1 g |}.
Definition abs_st (s : gstate) : st :=
  let '(f, c, js) := s in {| fe := option_map abs_pend f; ca := option_map abs_cand c; out := map jump_of_grow js |}.

(* a pending row keeps its own atom; the model takes the atom of an emitted jump from the triggering row, so the
   refinement is stated for rows of one atom (the scan is run per atom) *)
Definition one_atom (a : Z) (s : gstate) : Prop :=
  let '(f, c, js) := s in
  (forall g, f = Some g -> g_atom g = a) /\\ (forall g, c = Some g -> g_atom g = a).

Ltac split_ifs :=
  repeat (match goal with
          | |- context [?x =? ?y] => let E := fresh "E" in destruct (x =? y) eqn:E
          | |- context [?x >=? ?y] => let E := fresh "E" in destruct (x >=? y) eqn:E
          end; cbn).

Theorem gen_step_refines : forall mr a s r, one_atom a s -> r_atom r = a ->
  abs_st (gen_step mr s (grow_of_row r)) = step mr (abs_st s) r /\\ one_atom a (gen_step mr s (grow_of_row r)).
Proof.
  intros mr a [[f c] js] r [Hf Hc] Ha.
  destruct r as [ra rs rd rsi rdi rt]. cbn [r_atom] in Ha. subst a.
  destruct f as [f|]; destruct c as [c|];
    try (specialize (Hf f eq_refl)); try (specialize (Hc c eq_refl));
    try (destruct f as [fa fs fd fsi fdi ft0 ft1]; cbn [g_atom] in Hf; subst fa);
    try (destruct c as [ca cs cd csi cdi ct0 ct1]; cbn [g_atom] in Hc; subst ca);
    unfold gen_step, step, abs_st, one_atom, grow_of_row, abs_pend, abs_cand, jump_of_grow,
           set_g_atom, set_g_s, set_g_d, set_g_si, set_g_di, set_g_t0, set_g_t1;
    cbn; split_ifs; cbn;
    (split; [ rewrite ?map_app; cbn; try reflexivity; try congruence
            | split; intros g Hg; try discriminate; inversion Hg; subst; cbn; congruence ]).
Qed.
'''
    open(os.path.join(GEN, 'JumpStep.v'), 'w').write(thm)
    ok, log = compile_gen('JumpStep.v', timeout=600)
    return ('jumpstep: generated loop body + gen_step_refines (refines Model.C04.step)', ok, 'ok' if ok else log[-1500:])


# ---------------------------------------------------------------- unit: rdf state code and state naming (C11)
def _num(node):
    if isinstance(node, ast.Constant) and isinstance(node.value, (int, float)) and float(node.value) == int(node.value):
        return int(node.value)
    raise Unsupported('constant ' + ast.dump(node)[:40])


def _linear3(node, names):
    """a*1eX + b*1eY + c  ->  coefficients for the three names (fail-closed)"""
    coef = {}

    def term(n):
        if isinstance(n, ast.Name) and n.id in names:
            coef[n.id] = coef.get(n.id, 0) + 1
        elif isinstance(n, ast.BinOp) and isinstance(n.op, ast.Mult) and isinstance(n.left, ast.Name) and n.left.id in names:
            coef[n.left.id] = coef.get(n.left.id, 0) + _num(n.right)
        elif isinstance(n, ast.BinOp) and isinstance(n.op, ast.Add):
            term(n.left)
            term(n.right)
        else:
            raise Unsupported('state code term ' + ast.dump(n)[:60])
    term(node)
    if set(coef) != set(names):
        raise Unsupported(f'state code uses {sorted(coef)}')
    return [coef[n] for n in names]


def state_code_unit():
    tree = _parse('rdf.py')
    f = _find_func(tree, None, '_get_states')
    # innermost loop body: if i != -1 ... elif j == -1 or k == -1 ... else ...; states[int(<code>)] = state
    loops = [n for n in ast.walk(f) if isinstance(n, ast.For)]
    if [l.target.id for l in loops if isinstance(l.target, ast.Name)] != ['i', 'j', 'k']:
        raise Unsupported('loop nest over i, j, k')
    body = loops[-1].body
    if len(body) != 2 or not isinstance(body[0], ast.If) or not isinstance(body[1], ast.Assign):
        raise Unsupported('innermost body shape')
    iff, asg = body

    def is_cmp(t, name, op, val):
        return (isinstance(t, ast.Compare) and isinstance(t.left, ast.Name) and t.left.id == name and isinstance(t.ops[0], op)
                and isinstance(t.comparators[0], ast.UnaryOp) and _num(t.comparators[0].operand) == val)

    def label_expr(n):
        # '@' + unique_labels[i]  |  '~>' + unique_labels[j]  |  unique_labels[j] + '->' + unique_labels[k]
        def lab(x):
            if isinstance(x, ast.Subscript) and isinstance(x.value, ast.Name) and x.value.id == 'unique_labels' and isinstance(x.slice, ast.Name):
                return x.slice.id
            raise Unsupported('label reference')
        if isinstance(n, ast.BinOp) and isinstance(n.op, ast.Add):
            if isinstance(n.left, ast.Constant) and n.left.value == '@':
                return ('At', lab(n.right))
            if isinstance(n.left, ast.Constant) and n.left.value == '~>':
                return ('Leaving', lab(n.right))
            if isinstance(n.left, ast.BinOp) and isinstance(n.left.right, ast.Constant) and n.left.right.value == '->':
                return ('Transit', lab(n.left.left), lab(n.right))
        raise Unsupported('state name expression')

    if not is_cmp(iff.test, 'i', ast.NotEq, 1):
        raise Unsupported('first branch test')
    b1 = label_expr(iff.body[0].value)
    el = iff.orelse[0]
    if not (isinstance(el, ast.If) and isinstance(el.test, ast.BoolOp) and isinstance(el.test.op, ast.Or)
            and is_cmp(el.test.values[0], 'j', ast.Eq, 1) and is_cmp(el.test.values[1], 'k', ast.Eq, 1)):
        raise Unsupported('second branch test')
    b2 = label_expr(el.body[0].value)
    b3 = label_expr(el.orelse[0].value)
    if (b1, b2, b3) != (('At', 'i'), ('Leaving', 'j'), ('Transit', 'j', 'k')):
        raise Unsupported(f'naming branches {b1} {b2} {b3}')
    key = asg.targets[0].slice
    if not (isinstance(key, ast.Call) and getattr(key.func, 'id', '') == 'int'):
        raise Unsupported('state key is not int(...)')
    c1 = _linear3(key.args[0], ['i', 'j', 'k'])
    # _get_states_array must use the same coefficients
    g = _find_func(tree, None, '_get_states_array')
    ret = [n for n in ast.walk(g) if isinstance(n, ast.Assign) and isinstance(n.targets[0], ast.Name) and n.targets[0].id == 'states_array']
    v = ret[0].value
    if not (isinstance(v, ast.Call) and getattr(v.func, 'attr', '') == 'astype'):
        raise Unsupported('states_array expression')
    c2 = _linear3(v.func.value, ['states', 'states_prev', 'states_next'])
    # _uniqify_labels: mapping = [-1] + [...]; return mapping[arr + 1]
    u = _find_func(tree, None, '_uniqify_labels')
    src = ast.unparse(u)
    if 'np.array([-1] + [unique_labels.index(label) for label in labels])' not in src or 'return mapping[np.asarray(arr) + 1]' not in src:
        raise Unsupported('_uniqify_labels body')
    return c1, c2


def gen_state_code():
    os.makedirs(GEN, exist_ok=True)
    try:
        c1, c2 = state_code_unit()
    except Unsupported as e:
        return ('statecode', False, f'translator: unsupported {e}')
    lines = ['(* GENERATED from /repo/src/gemdat/rdf.py (_get_states, _get_states_array, _uniqify_labels) on every run -- do not edit *)',
             'From GV Require Import Base.Prelude Model.C11.',
             f'Definition gen_code_names (i j k : Z) : Z := i * {c1[0]} + j * {c1[1]} + k * {c1[2]}.',
             f'Definition gen_code_array (s p n : Z) : Z := s * {c2[0]} + p * {c2[1]} + n * {c2[2]}.',
             '(* the table of names and the array of states use the same code, which is the injective one of the model *)',
             'Theorem gen_code_is_model : forall i j k, gen_code_names i j k = code i j k /\\ gen_code_array i j k = code i j k.',
             'Proof. intros. unfold gen_code_names, gen_code_array, code. split; lia. Qed.']
    open(os.path.join(GEN, 'StateCode.v'), 'w').write('\n'.join(lines) + '\n')
    ok, log = compile_gen('StateCode.v')
    return ('statecode: state code of names and of the state array + naming branches + label map shape', ok,
            'ok' if ok else f'generated codes {c1} / {c2}: ' + log[-400:])


# ---------------------------------------------------------------- unit: scalar formulas (C14, C09, C05)
class _Formula:
    """Symbolic evaluation of a straight-line scalar method body into a Coq real expression.

    atoms: {normalised source text of an opaque sub-expression (local names expanded): Coq text}
    names: {python name: Coq text} (parameters and constants)
    Statements allowed: docstring, `x = expr`, `x *= expr`, `return expr`.
    Expressions allowed: atoms, names, int/float literals, + - * /, ** small int, unary -,
    FloatWithUnit(e, '<unit>') (a float subclass: value e)."""

    def __init__(self, atoms, names):
        self.atoms, self.names = atoms, names
        self.env = {}     # local name -> Coq text
        self.envast = {}  # local name -> ast (for expanding opaque expressions)

    def expand(self, node):
        envast = self.envast

        class T(ast.NodeTransformer):
            def visit_Name(self, n):
                return envast.get(n.id, n)
        import copy
        return ast.unparse(T().visit(copy.deepcopy(node)))

    def ev(self, node):
        txt = self.expand(node)
        if txt in self.atoms:
            return self.atoms[txt]
        if isinstance(node, ast.Name):
            if node.id in self.env:
                return self.env[node.id]
            if node.id in self.names:
                return self.names[node.id]
            raise Unsupported(f'name {node.id}')
        if isinstance(node, ast.Constant) and isinstance(node.value, (int, float)) and not isinstance(node.value, bool):
            from fractions import Fraction
            q = Fraction(repr(node.value))
            return f'({q.numerator})' if q.denominator == 1 else f'({q.numerator} / {q.denominator})'
        if isinstance(node, ast.BinOp):
            if isinstance(node.op, ast.Pow):
                if isinstance(node.right, ast.Constant) and node.right.value in (2, 3):
                    return f'({self.ev(node.left)} ^ {node.right.value})'
                raise Unsupported('power ' + ast.unparse(node))
            ops = {ast.Add: '+', ast.Sub: '-', ast.Mult: '*', ast.Div: '/'}
            if type(node.op) not in ops:
                raise Unsupported('operator ' + ast.unparse(node))
            return f'({self.ev(node.left)} {ops[type(node.op)]} {self.ev(node.right)})'
        if isinstance(node, ast.UnaryOp) and isinstance(node.op, ast.USub):
            return f'(- {self.ev(node.operand)})'
        if (isinstance(node, ast.Call) and isinstance(node.func, ast.Name) and node.func.id == 'FloatWithUnit' and len(node.args) == 2
                and not node.keywords and isinstance(node.args[1], ast.Constant)):
            return self.ev(node.args[0])
        raise Unsupported('expression ' + txt)

    def run(self, f):
        body = list(f.body)
        if body and isinstance(body[0], ast.Expr) and isinstance(body[0].value, ast.Constant) and isinstance(body[0].value.value, str):
            body = body[1:]
        for st in body:
            if isinstance(st, ast.Assign) and len(st.targets) == 1 and isinstance(st.targets[0], ast.Name):
                name = st.targets[0].id
                try:
                    self.env[name] = self.ev(st.value)
                    self.envast.pop(name, None)
                except Unsupported:
                    # opaque so far: keep the (expanded) source, it must become part of an atom later
                    self.envast[name] = ast.parse(self.expand(st.value), mode='eval').body
                    self.env.pop(name, None)
            elif isinstance(st, ast.AugAssign) and isinstance(st.target, ast.Name) and isinstance(st.op, ast.Mult) and st.target.id in self.env:
                self.env[st.target.id] = f'({self.env[st.target.id]} * {self.ev(st.value)})'
            elif isinstance(st, ast.Return):
                return self.ev(st.value)
            else:
                raise Unsupported('statement ' + ast.unparse(st)[:80])
        raise Unsupported('no return')


_CONSTS = {'angstrom': 'angstrom', 'Avogadro': 'N_A', 'Boltzmann': 'k_B', 'elementary_charge': 'e_charge'}


def formulas_c14_unit():
    tree = _parse('metrics.py')
    imp = [n for n in tree.body if isinstance(n, ast.ImportFrom) and n.module == 'scipy.constants']
    if not imp or sorted(a.name for a in imp[0].names) != ['Avogadro', 'Boltzmann', 'angstrom', 'elementary_charge'] or any(a.asname for a in imp[0].names):
        raise Unsupported('scipy.constants import')
    out = {}
    F = lambda atoms, names: _Formula(atoms, {**_CONSTS, **names})
    out['particle_density'] = F({'len(self.trajectory.species)': 'n', 'self.trajectory.get_lattice().volume': 'vol'}, {}).run(
        _find_func(tree, 'TrajectoryMetrics', 'particle_density'))
    out['mol_per_liter'] = F({'self.particle_density()': 'rho'}, {}).run(_find_func(tree, 'TrajectoryMetrics', 'mol_per_liter'))
    out['tracer_diffusivity'] = F({'np.mean(self.trajectory.distances_from_base_position()[:, -1] ** 2)': 'msd', 'self.trajectory.total_time': 'total_time'},
                                  {'dimensions': 'dim'}).run(_find_func(tree, 'TrajectoryMetrics', 'tracer_diffusivity'))
    out['haven_ratio'] = F({'self.tracer_diffusivity(dimensions=dimensions)': 'd_tracer', 'self.tracer_diffusivity_center_of_mass(dimensions=dimensions)': 'd_com'},
                           {}).run(_find_func(tree, 'TrajectoryMetrics', 'haven_ratio'))
    out['tracer_conductivity'] = F({"self.trajectory.metadata['temperature']": 'temperature', 'self.tracer_diffusivity(dimensions=dimensions)': 'diff',
                                    'self.particle_density()': 'rho'}, {'z_ion': 'z_ion'}).run(_find_func(tree, 'TrajectoryMetrics', 'tracer_conductivity'))
    com = _find_func(tree, 'TrajectoryMetrics', 'tracer_diffusivity_center_of_mass')
    src = [ast.unparse(s) for s in com.body if not (isinstance(s, ast.Expr) and isinstance(s.value, ast.Constant))]
    if src != ['center_of_mass = self.trajectory.center_of_mass()', 'metrics = TrajectoryMetrics(center_of_mass)',
               'return metrics.tracer_diffusivity(dimensions=dimensions)']:
        raise Unsupported('tracer_diffusivity_center_of_mass body')
    sp = _find_func(tree, 'TrajectoryMetrics', 'speed')
    src = [ast.unparse(s) for s in sp.body if not (isinstance(s, ast.Expr) and isinstance(s.value, ast.Constant))]
    if src != ['distances = self.trajectory.distances_from_base_position()', 'return np.diff(distances, prepend=0)']:
        raise Unsupported('speed body')
    return out


def gen_formulas_c14():
    os.makedirs(GEN, exist_ok=True)
    try:
        f = formulas_c14_unit()
    except Unsupported as e:
        return ('formulas14', False, f'translator: unsupported {e}')
    sig = {'particle_density': 'n vol', 'mol_per_liter': 'rho', 'tracer_diffusivity': 'msd dim total_time', 'haven_ratio': 'd_tracer d_com',
           'tracer_conductivity': 'z_ion diff rho temperature'}
    hyp = {'particle_density': 'vol <> 0', 'mol_per_liter': 'True', 'tracer_diffusivity': 'dim <> 0 -> total_time <> 0', 'haven_ratio': 'd_com <> 0',
           'tracer_conductivity': 'temperature <> 0'}
    lines = ['(* GENERATED from /repo/src/gemdat/metrics.py on every run -- do not edit *)', 'From Coq Require Import Reals Lra.', 'From GV Require Import Model.C14.',
             'Open Scope R_scope.']
    for k, params in sig.items():
        lines.append(f'Definition gen_{k} ({params} : R) : R := {f[k]}.')
        lines.append(f'Lemma gen_{k}_is_model : forall {params}, {hyp[k]} -> gen_{k} {params} = {k} {params}.')
        lines.append(f'Proof. intros. unfold gen_{k}, {k}, angstrom, N_A, k_B, e_charge. field; repeat split; try assumption; try lra. Qed.')
    open(os.path.join(GEN, 'Formulas14.v'), 'w').write('\n'.join(lines) + '\n')
    ok, log = compile_gen('Formulas14.v')
    return ('formulas14: the five closed-form metrics of metrics.py, regenerated, equal the model formulas (field)', ok, 'ok' if ok else log[-600:])


# ---------------------------------------------------------------- unit: free-energy formula (C09)
def formulas_c09_unit():
    tree = _parse('volume.py')
    if not any(isinstance(n, ast.ImportFrom) and n.module == 'scipy.constants' and 'physical_constants' in [a.name for a in n.names if not a.asname]
               for n in tree.body):
        raise Unsupported('volume.py: from scipy.constants import physical_constants')
    pr = _find_func(tree, 'Volume', 'probability')
    pe = _Formula({'self.data': 'c', 'self.data.sum()': 'total'}, {}).run(pr)
    fe = _find_func(tree, 'Volume', 'get_free_energy')
    body = [s for s in fe.body if not (isinstance(s, ast.Expr) and isinstance(s.value, ast.Constant))]
    if len(body) != 3:
        raise Unsupported('get_free_energy has %d statements' % len(body))
    if ast.unparse(body[0]) != 'prob = self.probability()':
        raise Unsupported('get_free_energy: ' + ast.unparse(body[0]))
    fm = _Formula({"physical_constants['Boltzmann constant in eV/K'][0]": 'kB', 'np.log(self.probability())': '(ln p)'}, {'temperature': 'temperature'})
    fm.envast['prob'] = ast.parse('self.probability()', mode='eval').body
    if not (isinstance(body[1], ast.Assign) and ast.unparse(body[1].targets[0]) == 'free_energy'):
        raise Unsupported('get_free_energy: ' + ast.unparse(body[1])[:60])
    fexpr = fm.ev(body[1].value)
    ret = ast.unparse(body[2])
    if ret != 'return FreeEnergyVolume(data=np.nan_to_num(free_energy), lattice=self.lattice)':
        raise Unsupported('get_free_energy return: ' + ret)
    return pe, fexpr


def gen_formulas_c09():
    os.makedirs(GEN, exist_ok=True)
    try:
        pe, fe = formulas_c09_unit()
    except Unsupported as e:
        return ('formulas09', False, f'translator: unsupported {e}')
    lines = ['(* GENERATED from /repo/src/gemdat/volume.py (Volume.probability, Volume.get_free_energy) on every run -- do not edit *)',
             'From Coq Require Import Reals Lra.', 'From GV Require Import Model.C09.', 'Open Scope R_scope.',
             f'Definition gen_prob (c total : R) : R := {pe}.',
             'Lemma gen_prob_is_model : forall c total, gen_prob c total = prob c total.',
             'Proof. intros. reflexivity. Qed.',
             '(* the expression handed to np.nan_to_num, per voxel with probability p > 0; for p = 0 numpy evaluates log(0) = -inf, the product +inf,',
             '   and nan_to_num maps +inf to the largest finite double: that case is the BIG branch of the model and is tied by the discrete part of the check *)',
             f'Definition gen_free_energy_visited (temperature kB p : R) : R := {fe}.',
             'Lemma gen_free_energy_is_model : forall temperature kB p, p <> 0 -> gen_free_energy_visited temperature kB p = free_energy (temperature * kB) p.',
             'Proof. intros. unfold gen_free_energy_visited, free_energy. destruct (Req_EM_T p 0); [contradiction | ring]. Qed.']
    open(os.path.join(GEN, 'Formulas09.v'), 'w').write('\n'.join(lines) + '\n')
    ok, log = compile_gen('Formulas09.v')
    return ('formulas09: Volume.probability and the expression of get_free_energy, regenerated, equal the model (nan_to_num applied last, to the product)', ok,
            'ok' if ok else log[-600:])


# ---------------------------------------------------------------- unit: jump diffusivity formula (C05)
def formulas_c05_unit():
    tree = _parse('jumps.py')
    if not any(isinstance(n, ast.ImportFrom) and n.module == 'scipy.constants' and 'angstrom' in [a.name for a in n.names if not a.asname]
               for n in tree.body):
        raise Unsupported('jumps.py: from scipy.constants import angstrom')
    f = _find_func(tree, 'Jumps', 'jump_diffusivity')
    fm = _Formula({'np.sum(self.trajectory.get_lattice().get_all_distances(self.sites.frac_coords, self.sites.frac_coords) ** 2 * self.matrix())': 'sumd2',
                   'self.n_floating': 'n_floating', 'self.trajectory.total_time': 'total_time'}, {'dimensions': 'dim', 'angstrom': '(/ 10000000000)'})
    return fm.run(f)


def gen_formulas_c05():
    os.makedirs(GEN, exist_ok=True)
    try:
        e = formulas_c05_unit()
    except Unsupported as ex:
        return ('formulas05', False, f'translator: unsupported {ex}')
    lines = ['(* GENERATED from /repo/src/gemdat/jumps.py (Jumps.jump_diffusivity) on every run -- do not edit *)',
             'From Coq Require Import Reals Lra.', 'Open Scope R_scope.',
             f'Definition gen_jump_diffusivity (sumd2 dim n_floating total_time : R) : R := {e}.',
             '(* sumd2 = sum over site pairs of (periodic distance)^2 * number of jumps, in A^2: the quantity the integer model C05 computes exactly *)',
             'Lemma gen_jump_diffusivity_is_formula : forall sumd2 dim n_floating total_time, dim <> 0 -> n_floating <> 0 -> total_time <> 0 ->',
             '  gen_jump_diffusivity sumd2 dim n_floating total_time = sumd2 / 100000000000000000000 / (2 * dim * n_floating * total_time).',
             'Proof. intros. unfold gen_jump_diffusivity. field. repeat split; assumption. Qed.']
    open(os.path.join(GEN, 'Formulas05.v'), 'w').write('\n'.join(lines) + '\n')
    ok, log = compile_gen('Formulas05.v')
    return ('formulas05: jump_diffusivity = sum(d^2 * counts) * 1e-20 / (2 * dimensions * n_floating * total_time), regenerated (field)', ok, 'ok' if ok else log[-600:])


# ---------------------------------------------------------------- unit: pairwise scan of Collective._compute (C12)
_JCOL = {'stop time': 'j_stop', 'start time': 'j_start', 'atom index': 'j_atom', 'start site': 'j_from', 'destination site': 'j_to'}


def _cexpr(node):
    """integer expression over event_i[...], event_j[...], max_steps, max_transit"""
    if isinstance(node, ast.Subscript) and isinstance(node.value, ast.Name) and node.value.id in ('event_i', 'event_j') \
            and isinstance(node.slice, ast.Constant) and node.slice.value in _JCOL:
        return f'{_JCOL[node.slice.value]} e{node.value.id[-1]}'
    if isinstance(node, ast.Name) and node.id in ('max_steps', 'max_transit'):
        return {'max_steps': 'W', 'max_transit': 'mt'}[node.id]
    if isinstance(node, ast.BinOp) and isinstance(node.op, (ast.Add, ast.Sub)):
        return f'{_cexpr(node.left)} {"+" if isinstance(node.op, ast.Add) else "-"} {_cexpr(node.right)}'
    raise Unsupported('scan expression ' + ast.unparse(node))


def _ccond(node):
    if isinstance(node, ast.Compare) and len(node.ops) == 1:
        l, r = _cexpr(node.left), _cexpr(node.comparators[0])
        op = {ast.Gt: '>?', ast.GtE: '>=?', ast.Lt: '<?', ast.LtE: '<=?', ast.Eq: '=?'}.get(type(node.ops[0]))
        if op:
            return f'({l} {op} {r})'
    raise Unsupported('scan condition ' + ast.unparse(node))


def collective_scan_unit():
    tree = _parse('collective.py')
    f = _find_func(tree, 'Collective', '_compute')
    src = ast.unparse(f)
    for need in ("events = events.sort_values(['stop time', 'start time'], ignore_index=True)",
                 "max_transit = (events['stop time'] - events['start time']).max() if len(events) else 0",
                 "self.n_solo_jumps = len(events) - np.any(collective_matrix, axis=0).sum()",
                 "self.n_coll_jumps = len(events) - self.n_solo_jumps", "self.collective = collective", "self.coll_jumps = coll_jumps",
                 "max_steps = self.max_steps", "max_dist = self.max_dist", "events = self.jumps.data"):
        if need not in src:
            raise Unsupported('Collective._compute: missing `%s`' % need)
    loops = [n for n in f.body if isinstance(n, ast.For)]
    if len(loops) != 1 or ast.unparse(loops[0].target) != '(i, event_i)' or ast.unparse(loops[0].iter) != 'events[:-1].iterrows()':
        raise Unsupported('outer loop header')
    ob = loops[0].body
    if len(ob) != 1 or not isinstance(ob[0], ast.For) or ast.unparse(ob[0].target) != '(j, event_j)' or ast.unparse(ob[0].iter) != 'events[i + 1:].iterrows()':
        raise Unsupported('inner loop header')
    body = ob[0].body
    guards = []
    k = 0
    while k < len(body) and isinstance(body[k], ast.If) and len(body[k].body) == 1 and not body[k].orelse and isinstance(body[k].body[0], (ast.Break, ast.Continue)):
        guards.append((_ccond(body[k].test), 'break' if isinstance(body[k].body[0], ast.Break) else 'continue'))
        k += 1
    rest = [ast.unparse(s) for s in body[k:]]
    want = ["a = sites.frac_coords[[event_i['start site'], event_i['destination site']]]",
            "b = sites.frac_coords[[event_j['start site'], event_j['destination site']]]",
            'dists = lattice.get_all_distances(a, b)']
    if rest[:3] != want or len(rest) != 4:
        raise Unsupported('distance block of the scan: ' + ' ; '.join(rest[:3])[:200])
    last = body[k + 3]
    if not (isinstance(last, ast.If) and ast.unparse(last.test) == 'np.any(dists < max_dist)' and not last.orelse):
        raise Unsupported('closeness test: ' + ast.unparse(last.test))
    acts = [ast.unparse(s) for s in last.body]
    if acts != ['collective.append((event_i, event_j))',
                "coll_jumps.append(((event_i['start site'], event_i['destination site']), (event_j['start site'], event_j['destination site'])))",
                'collective_matrix[i, j] = True', 'collective_matrix[j, i] = True']:
        raise Unsupported('actions of a collective pair: ' + ' ; '.join(acts)[:300])
    return guards


def gen_collective_scan():
    os.makedirs(GEN, exist_ok=True)
    try:
        guards = collective_scan_unit()
    except Unsupported as e:
        return ('collscan', False, f'translator: unsupported {e}')
    chain = ''
    for cond, act in guards:
        chain += f'        if {cond} then {"[]" if act == "break" else "gen_inner mt ei r"}\n        else '
    lines = ['(* GENERATED from /repo/src/gemdat/collective.py (Collective._compute) on every run -- do not edit *)',
             'From GV Require Import Base.Prelude Model.C04 Model.C12.',
             'Section Gen.', '  Variable W : Z.', '  Variable d2 : list (list Z).', '  Variable maxd2 : Z.',
             '  Fixpoint gen_inner (mt : Z) (ei : jump) (rest : list jump) : list (jump * jump) :=',
             '    match rest with', '    | [] => []', '    | ej :: r =>', chain + 'if close d2 maxd2 ei ej then (ei, ej) :: gen_inner mt ei r else gen_inner mt ei r',
             '    end.',
             '  Fixpoint gen_outer (mt : Z) (l : list jump) : list (jump * jump) :=',
             '    match l with [] => [] | ei :: r => gen_inner mt ei r ++ gen_outer mt r end.',
             '  Lemma gen_inner_is_model : forall mt ei rest, gen_inner mt ei rest = inner W d2 maxd2 mt ei rest.',
             '  Proof. intros mt ei rest. induction rest as [|ej r IH]; [reflexivity|]. cbn [gen_inner inner]. rewrite IH. reflexivity. Qed.',
             '  Theorem gen_outer_is_model : forall mt l, gen_outer mt l = outer W d2 maxd2 mt l.',
             '  Proof. intros mt l. induction l as [|ei r IH]; [reflexivity|]. cbn [gen_outer outer]. rewrite IH, gen_inner_is_model. reflexivity. Qed.',
             'End Gen.']
    open(os.path.join(GEN, 'CollScan.v'), 'w').write('\n'.join(lines) + '\n')
    ok, log = compile_gen('CollScan.v')
    return ('collscan: the pairwise scan of Collective._compute (sort keys, guards with break/continue in source order, closeness test, bookkeeping) '
            'regenerated and proved equal to Model.C12.outer', ok, 'ok' if ok else log[-600:])


# ---------------------------------------------------------------- unit: time windows of split (C19)
def split_windows_unit():
    tree = _parse('transitions.py')
    f = _find_func(tree, None, '_split_transitions_events')
    body = [s for s in f.body if not (isinstance(s, ast.Expr) and isinstance(s.value, ast.Constant))]
    defaults = {a.arg: ast.unparse(d) for a, d in zip(f.args.args[-len(f.args.defaults):], f.args.defaults)}
    if defaults.get('split_key') != "'time'" or defaults.get('dependent_keys') != "'time'":
        raise Unsupported('split key defaults ' + str(defaults))
    if len(body) != 5:
        raise Unsupported('_split_transitions_events has %d statements' % len(body))
    g = body[0]
    if not (isinstance(g, ast.If) and ast.unparse(g.test) == 'len(events) < n_parts' and isinstance(g.body[0], ast.Raise) and not g.orelse):
        raise Unsupported('guard ' + ast.unparse(g)[:80])
    b = body[1]
    if not (isinstance(b, ast.Assign) and ast.unparse(b.targets[0]) == 'bins' and isinstance(b.value, ast.Call) and ast.unparse(b.value.func) == 'np.linspace'
            and len(b.value.args) == 3 and ast.unparse(b.value.args[0]) == '0' and ast.unparse(b.value.args[2]) == 'n_parts + 1'
            and [(k.arg, ast.unparse(k.value)) for k in b.value.keywords] == [('dtype', 'int')]):
        raise Unsupported('bins: ' + ast.unparse(b))
    top = _zexpr(b.value.args[1], {'n_states': 'n_states'})
    p = body[2]
    if not (isinstance(p, ast.Assign) and ast.unparse(p.targets[0]) == 'parts' and isinstance(p.value, ast.ListComp) and len(p.value.generators) == 1):
        raise Unsupported('parts: ' + ast.unparse(p)[:80])
    gen = p.value.generators[0]
    if ast.unparse(gen.target) != '(start, stop)' or ast.unparse(gen.iter) != 'pairwise(bins)' or gen.ifs:
        raise Unsupported('parts generator: ' + ast.unparse(gen.iter))
    elt = p.value.elt
    if not (isinstance(elt, ast.Call) and ast.unparse(elt.func).endswith('.copy') and isinstance(elt.func.value, ast.Subscript)
            and ast.unparse(elt.func.value.value) == 'events' and isinstance(elt.func.value.slice, ast.BinOp) and isinstance(elt.func.value.slice.op, ast.BitAnd)):
        raise Unsupported('mask: ' + ast.unparse(elt)[:100])

    def side(n):
        if not (isinstance(n, ast.Compare) and len(n.ops) == 1 and ast.unparse(n.left) == 'events[split_key]' and isinstance(n.comparators[0], ast.Name)
                and n.comparators[0].id in ('start', 'stop')):
            raise Unsupported('mask side: ' + ast.unparse(n))
        op = {ast.Gt: '>?', ast.GtE: '>=?', ast.Lt: '<?', ast.LtE: '<=?'}.get(type(n.ops[0]))
        if op is None:
            raise Unsupported('mask operator: ' + ast.unparse(n))
        return f'(r_t r {op} {n.comparators[0].id})'
    mask = f'{side(elt.func.value.slice.left)} && {side(elt.func.value.slice.right)}'
    lp = body[3]
    if not (isinstance(lp, ast.For) and ast.unparse(lp.target) == '(offset, part)' and ast.unparse(lp.iter) == 'zip(bins[:-1], parts)'
            and [ast.unparse(s) for s in lp.body] == ['part[dependent_keys] -= offset']):
        raise Unsupported('re-basing loop: ' + ast.unparse(lp)[:120])
    if ast.unparse(body[4]) != 'return parts':
        raise Unsupported('return')
    # Transitions.split: which arrays are cut how, and which upper bound is used for the event windows
    sp = ast.unparse(_find_func(tree, 'Transitions', 'split'))
    for need in ('split_states = np.array_split(self.states, n_parts)', 'split_inner_states = np.array_split(self.inner_states, n_parts)',
                 'split_events = _split_transitions_events(self.events, self.n_states, n_parts)', 'split_trajectory = self.trajectory.split(n_parts)',
                 'states=split_states[i]', 'inner_states=split_inner_states[i]', 'events=split_events[i]', 'trajectory=split_trajectory[i]'):
        if need not in sp:
            raise Unsupported('Transitions.split: missing `%s`' % need)
    ns = ast.unparse(_find_func(tree, 'Transitions', 'n_states'))
    if 'return len(self.states)' not in ns:
        raise Unsupported('Transitions.n_states')
    # Trajectory.split
    tt = _parse('trajectory.py')
    ts = ast.unparse(_find_func(tt, 'Trajectory', 'split'))
    for need in ('interval = np.linspace(0, len(self) - 1, n_parts + 1, dtype=int)', 'subtrajectories = [self[start:stop] for start, stop in pairwise(interval)]',
                 'minsize = len(self)', 'size = stop - start', 'minsize = min(minsize, size)', 'subtrajectories = [trajectory[0:minsize] for trajectory in subtrajectories]'):
        if need not in ts:
            raise Unsupported('Trajectory.split: missing `%s`' % need)
    return top, mask


def gen_split_windows():
    os.makedirs(GEN, exist_ok=True)
    try:
        top, mask = split_windows_unit()
    except Unsupported as e:
        return ('splitwin', False, f'translator: unsupported {e}')
    lines = ['(* GENERATED from /repo/src/gemdat/transitions.py (_split_transitions_events, Transitions.split) and trajectory.py (Trajectory.split) on every run -- do not edit *)',
             'From GV Require Import Base.Prelude Model.C03 Model.C04 Model.C19.',
             f'Definition gen_top (n_states : Z) : Z := {top}.',
             f'Definition gen_in_win (start stop : Z) (r : row) : bool := {mask}.',
             'Definition gen_split_events (bs : list Z) (evs : list row) : list (list row) :=',
             '  map (fun w => map (shift_row (fst w)) (filter (gen_in_win (fst w) (snd w)) evs)) (pairwise bs).',
             'Lemma gen_in_win_is_model : forall lo hi r, gen_in_win lo hi r = in_win lo hi r.',
             'Proof. intros. unfold gen_in_win, in_win. rewrite ?Z.geb_leb, ?Z.gtb_ltb. reflexivity. Qed.',
             'Theorem gen_split_events_is_model : forall bs evs, gen_split_events bs evs = split_events bs evs.',
             'Proof. intros. unfold gen_split_events, split_events. apply map_ext. intros w. f_equal. apply filter_ext. intros r. apply gen_in_win_is_model. Qed.',
             'Theorem gen_top_is_model : forall n, gen_top n = n + 1.',
             'Proof. intros. unfold gen_top. lia. Qed.']
    open(os.path.join(GEN, 'SplitWin.v'), 'w').write('\n'.join(lines) + '\n')
    ok, log = compile_gen('SplitWin.v')
    return ('splitwin: window test, upper bound and re-basing of _split_transitions_events regenerated and proved equal to Model.C19.split_events; '
            'shape of Transitions.split / Trajectory.split checked', ok, 'ok' if ok else log[-600:])


# ---------------------------------------------------------------- unit: per-atom event extraction (C03)
_EVCOLS = {'atom index': 'r_atom', 'start site': 'r_s', 'destination site': 'r_d', 'start inner site': 'r_si', 'destination inner site': 'r_di', 'time': 'r_t'}


def events_unit():
    tree = _parse('transitions.py')
    f = _find_func(tree, None, '_calculate_transition_events')
    body = [s for s in f.body if not (isinstance(s, ast.Expr) and isinstance(s.value, ast.Constant))]
    if [type(s).__name__ for s in body] != ['Assign', 'For', 'Assign', 'Assign', 'Return'] or ast.unparse(body[0]) != 'events = []':
        raise Unsupported('_calculate_transition_events: statement kinds ' + str([type(s).__name__ for s in body]))
    loop = body[1]
    if ast.unparse(loop.target) != '(atom_index, site)' or ast.unparse(loop.iter) != 'enumerate(zip(atom_sites.T, atom_inner_sites.T))':
        raise Unsupported('atom loop header: ' + ast.unparse(loop.iter))
    if ast.unparse(body[2]) != 'events = np.vstack(events)' or ast.unparse(body[4]) != 'return events':
        raise Unsupported('tail of _calculate_transition_events')
    df = body[3]
    cols = None
    if isinstance(df.value, ast.Call) and ast.unparse(df.value.func) == 'pd.DataFrame':
        kw = {k.arg: k.value for k in df.value.keywords}
        if ast.unparse(kw.get('data')) == 'events' and isinstance(kw.get('columns'), ast.List):
            cols = [c.value for c in kw['columns'].elts]
    if cols is None or sorted(cols) != sorted(_EVCOLS):
        raise Unsupported('DataFrame columns')
    env = {}       # python name -> Coq term (list Z)
    seq = {'atom_site': 'o', 'atom_inner_site': 'i'}
    rows = None
    st = loop.body
    if ast.unparse(st[0]) != 'atom_site, atom_inner_site = site':
        raise Unsupported('unpacking of site')
    k = 1
    while k < len(st):
        s = st[k]
        src = ast.unparse(s)
        if isinstance(s, ast.Assign) and isinstance(s.targets[0], ast.Tuple) and len(s.targets[0].elts) == 1 and isinstance(s.value, ast.Call) \
                and ast.unparse(s.value.func) == 'np.nonzero' and len(s.value.args) == 1:
            a = s.value.args[0]
            if isinstance(a, ast.Compare) and isinstance(a.ops[0], ast.NotEq) and isinstance(a.left, ast.Name) and a.left.id in seq \
                    and ast.unparse(a.comparators[0]) == f'np.roll({a.left.id}, shift=-1)':
                env[s.targets[0].elts[0].id] = f'(change_idx {seq[a.left.id]})'
            else:
                raise Unsupported('nonzero argument: ' + ast.unparse(a))
        elif isinstance(s, ast.If) and not s.orelse and len(s.body) == 1:
            t = ast.unparse(s.test)
            done = False
            for v in list(env):
                for sq in seq:
                    if t == f'len({v}) > 0 and {v}[-1] == len({sq}) - 1' and ast.unparse(s.body[0]) == f'{v} = {v}[:-1]':
                        env[v] = f'(drop_wrap (Z.of_nat (length {seq[sq]})) {env[v]})'
                        done = True
            if not done:
                if 'time' in env and t == 'len(time) < 1' and isinstance(s.body[0], ast.Continue):
                    done = True      # an empty `time` contributes no rows either way
            if not done:
                raise Unsupported('conditional: ' + src[:100])
        elif isinstance(s, ast.Assign) and ast.unparse(s.targets[0]) == 'time':
            v = s.value
            if isinstance(v, ast.Call) and ast.unparse(v.func) == 'np.unique' and isinstance(v.args[0], ast.Call) and ast.unparse(v.args[0].func) == 'np.concatenate' \
                    and isinstance(v.args[0].args[0], ast.Tuple) and all(isinstance(e, ast.Name) and e.id in env for e in v.args[0].args[0].elts):
                env['time'] = '(unique_below (length o) (' + ' ++ '.join(env[e.id] for e in v.args[0].args[0].elts) + '))'
            else:
                raise Unsupported('time: ' + src[:100])
        elif isinstance(s, ast.Assign) and ast.unparse(s.targets[0]) == 'transitions':
            v = s.value
            if not (isinstance(v, ast.Attribute) and v.attr == 'T' and isinstance(v.value, ast.Call) and ast.unparse(v.value.func) == 'np.vstack'
                    and isinstance(v.value.args[0], ast.List) and len(v.value.args[0].elts) == 6 and 'time' in env):
                raise Unsupported('transitions: ' + src[:100])
            fields = []
            for e in v.value.args[0].elts:
                u = ast.unparse(e)
                if u == 'np.ones_like(time) * atom_index':
                    fields.append('a')
                elif u == 'time':
                    fields.append('t')
                elif isinstance(e, ast.Subscript) and isinstance(e.value, ast.Name) and e.value.id in seq and ast.unparse(e.slice) in ('time', 'time + 1'):
                    fields.append(f'znth 0 {seq[e.value.id]} ' + ('t' if ast.unparse(e.slice) == 'time' else '(t + 1)'))
                else:
                    raise Unsupported('row entry: ' + u)
            rows = '(map (fun t => {| ' + '; '.join(f'{_EVCOLS[c]} := {fv}' for c, fv in zip(cols, fields)) + ' |}) ' + env['time'] + ')'
        elif src == 'events.append(transitions)' and rows is not None:
            pass
        else:
            raise Unsupported('statement: ' + src[:100])
        k += 1
    if rows is None:
        raise Unsupported('no rows built')
    # ffill / bfill (utils.py): shape check of the three numpy lines the model transcribes
    ut = _parse('utils.py')
    ff = [ast.unparse(s) for s in _find_func(ut, None, 'ffill').body][1:]
    if ff[-3:] != ['idx = np.where(arr != fill_val, np.arange(arr.shape[1]), 0)', 'np.maximum.accumulate(idx, axis=1, out=idx)',
                   'return arr[np.arange(idx.shape[0])[:, None], idx]']:
        raise Unsupported('ffill body')
    bf = [ast.unparse(s) for s in _find_func(ut, None, 'bfill').body][1:]
    if bf[-1] != 'return np.fliplr(ffill(np.fliplr(arr), fill_val=fill_val))':
        raise Unsupported('bfill body')
    tr = ast.unparse(_find_func(tree, 'Transitions', 'states_prev')) + ast.unparse(_find_func(tree, 'Transitions', 'states_next'))
    if 'return ffill(self.states, fill_val=NOSITE, axis=0)' not in tr or 'return bfill(self.states, fill_val=NOSITE, axis=0)' not in tr:
        raise Unsupported('states_prev / states_next')
    return rows


def gen_events():
    os.makedirs(GEN, exist_ok=True)
    try:
        rows = events_unit()
    except Unsupported as e:
        return ('events', False, f'translator: unsupported {e}')
    lines = ['(* GENERATED from /repo/src/gemdat/transitions.py (_calculate_transition_events) on every run -- do not edit *)',
             'From GV Require Import Base.Prelude Model.C03.',
             f'Definition gen_events_atom (a : Z) (o i : list Z) : list row :=\n  {rows}.',
             'Theorem gen_events_atom_is_model : forall a o i, length o = length i -> gen_events_atom a o i = events_atom a o i.',
             'Proof. intros a o i H. unfold gen_events_atom, events_atom, mkrow. rewrite <- ?H. reflexivity. Qed.']
    open(os.path.join(GEN, 'Events.v'), 'w').write('\n'.join(lines) + '\n')
    ok, log = compile_gen('Events.v')
    return ('events: loop body of _calculate_transition_events (np.roll comparison, wrap-around drop with its length guard, unique of the concatenation, '
            'row columns in DataFrame order) regenerated and proved equal to Model.C03.events_atom; shape of ffill/bfill/states_prev/states_next checked', ok,
            'ok' if ok else log[-600:])


# ---------------------------------------------------------------- unit: weak_lru_cache decorator (C20)
def weak_cache_unit():
    """Facts of caching.py the state machine Model.C20 assumes: the cache is functools.lru_cache(maxsize, typed) on a function whose
    first argument is weakref.ref(self) (key = weak reference + arguments, never the object), the wrapped function is called on the
    dereferenced object, and the public wrapper passes arguments through unchanged."""
    tree = _parse('caching.py')
    f = _find_func(tree, None, 'weak_lru_cache')
    args = [(a.arg, ast.unparse(d)) for a, d in zip(f.args.args, f.args.defaults)]
    if args != [('maxsize', '128'), ('typed', 'False')]:
        raise Unsupported('weak_lru_cache signature ' + str(args))
    inner = [s for s in f.body if not (isinstance(s, ast.Expr) and isinstance(s.value, ast.Constant))]
    if len(inner) != 2 or not isinstance(inner[0], ast.FunctionDef) or inner[0].name != 'wrapper' or ast.unparse(inner[1]) != 'return wrapper':
        raise Unsupported('weak_lru_cache body')
    w = inner[0]
    if [a.arg for a in w.args.args] != ['func'] or len(w.body) != 3:
        raise Unsupported('wrapper')
    cached, public, ret = w.body
    if not (isinstance(cached, ast.FunctionDef) and [ast.unparse(d) for d in cached.decorator_list] == ['functools.lru_cache(maxsize, typed)']
            and [a.arg for a in cached.args.args] == ['_self'] and cached.args.vararg and cached.args.kwarg
            and [ast.unparse(s) for s in cached.body] == [f'return func(_self(), *{cached.args.vararg.arg}, **{cached.args.kwarg.arg})']):
        raise Unsupported('cached function: ' + ast.unparse(cached)[:160])
    if not (isinstance(public, ast.FunctionDef) and [ast.unparse(d) for d in public.decorator_list] == ['functools.wraps(func)']
            and [a.arg for a in public.args.args] == ['self'] and public.args.vararg and public.args.kwarg
            and [ast.unparse(s) for s in public.body] == [f'return {cached.name}(weakref.ref(self), *{public.args.vararg.arg}, **{public.args.kwarg.arg})']):
        raise Unsupported('public wrapper: ' + ast.unparse(public)[:160])
    if ast.unparse(ret) != f'return {public.name}':
        raise Unsupported('wrapper return')
    # every use in the library: a bare @weak_lru_cache() on a method (default maxsize)
    uses = {}
    for fn in sorted(os.listdir(SRC)):
        if not fn.endswith('.py'):
            continue
        for node in ast.walk(_parse(fn)):
            if isinstance(node, ast.FunctionDef):
                for d in node.decorator_list:
                    if 'weak_lru_cache' in ast.unparse(d):
                        if ast.unparse(d) != 'weak_lru_cache()':
                            raise Unsupported(f'{fn}:{node.name} decorated with {ast.unparse(d)}')
                        if not node.args.args or node.args.args[0].arg != 'self':
                            raise Unsupported(f'{fn}:{node.name} is not a method')
                        uses[f'{fn[:-3]}.{node.name}'] = True
    return 128, sorted(uses)


def gen_weak_cache():
    os.makedirs(GEN, exist_ok=True)
    try:
        maxsize, uses = weak_cache_unit()
    except Unsupported as e:
        return ('weakcache', False, f'translator: unsupported {e}'), []
    lines = ['(* GENERATED from /repo/src/gemdat/caching.py and every @weak_lru_cache() use on every run -- do not edit *)',
             'From Coq Require Import List String.', 'Import ListNotations.', 'Open Scope string_scope.',
             f'Definition gen_default_maxsize : nat := {maxsize}.',
             f'Definition gen_cached_methods : list string := {_coq_strs(uses)}.',
             'Lemma gen_maxsize_positive : gen_default_maxsize <> 0. Proof. discriminate. Qed.']
    open(os.path.join(GEN, 'WeakCache.v'), 'w').write('\n'.join(lines) + '\n')
    ok, log = compile_gen('WeakCache.v')
    return ('weakcache: decorator structure (lru_cache keyed on weakref.ref(self) + arguments, call on the dereferenced object, pass-through wrapper, '
            f'default maxsize {maxsize}) and the list of {len(uses)} cached methods, regenerated', ok, 'ok' if ok else log[-600:]), uses


# ---------------------------------------------------------------- unit: bond wrap of Orientations._fractional_directions (C18)
def bond_wrap_unit():
    from fractions import Fraction
    tree = _parse('orientations.py')
    f = _find_func(tree, 'Orientations', '_fractional_directions')
    body = [s for s in f.body if not (isinstance(s, ast.Expr) and isinstance(s.value, ast.Constant))]
    src = [ast.unparse(s) for s in body]
    want_head = ['frac_coord_cent = self._trajectory_cent.positions', 'frac_coord_sat = self._trajectory_sat.positions',
                 'combinations = self._central_satellite_matrix(distance, frac_coord_cent)', 'sat = frac_coord_sat[:, combinations[:, 1], :]',
                 'cent = frac_coord_cent[:, combinations[:, 0], :]', 'direction = sat - cent']
    if src[:6] != want_head or src[-1] != 'return direction':
        raise Unsupported('_fractional_directions head/tail')
    steps = []
    for s in body[6:-1]:
        v = s.value if isinstance(s, ast.Assign) and ast.unparse(s.targets[0]) == 'direction' else None
        if not (isinstance(v, ast.Call) and ast.unparse(v.func) == 'np.where' and len(v.args) == 3 and ast.unparse(v.args[2]) == 'direction'
                and isinstance(v.args[0], ast.Compare) and ast.unparse(v.args[0].left) == 'direction' and len(v.args[0].ops) == 1
                and isinstance(v.args[1], ast.BinOp) and ast.unparse(v.args[1].left) == 'direction' and isinstance(v.args[1].op, (ast.Add, ast.Sub))):
            raise Unsupported('wrap step: ' + ast.unparse(s))
        thr = Fraction(repr(ast.literal_eval(v.args[0].comparators[0])))
        shift = Fraction(repr(ast.literal_eval(v.args[1].right)))
        if shift.denominator != 1:
            raise Unsupported('shift ' + str(shift))
        op = {ast.Gt: '>?', ast.GtE: '>=?', ast.Lt: '<?', ast.LtE: '<=?'}.get(type(v.args[0].ops[0]))
        if op is None:
            raise Unsupported('wrap comparison')
        # x/D op p/q  <=>  q*x op p*D   (D > 0, q > 0)
        steps.append((f'({thr.denominator} * x {op} ({thr.numerator}) * D)', '+' if isinstance(v.args[1].op, ast.Add) else '-', shift.numerator))
    if not steps:
        raise Unsupported('no wrap steps')
    return steps


def gen_bond_wrap():
    os.makedirs(GEN, exist_ok=True)
    try:
        steps = bond_wrap_unit()
    except Unsupported as e:
        return ('bondwrap', False, f'translator: unsupported {e}')
    expr = 'd'
    lets = []
    for k, (cond, sign, n) in enumerate(steps):
        lets.append(f'  let d{k + 1} := (fun x => if {cond} then x {sign} {n} * D else x) {"d" if k == 0 else "d%d" % k} in')
        expr = f'd{k + 1}'
    lines = ['(* GENERATED from /repo/src/gemdat/orientations.py (Orientations._fractional_directions) on every run -- do not edit *)',
             'From GV Require Import Base.Prelude Model.Geom Model.C18.',
             'Definition gen_bw (D d : Z) : Z :=', *lets, f'  {expr}.',
             'Theorem gen_bw_is_model : forall D d, 0 < D -> gen_bw D d = bw D d.',
             'Proof. intros D d HD. unfold gen_bw, bw. cbv beta.',
             '  repeat match goal with |- context [if ?c then _ else _] => destruct c eqn:? end; lia. Qed.']
    open(os.path.join(GEN, 'BondWrap.v'), 'w').write('\n'.join(lines) + '\n')
    ok, log = compile_gen('BondWrap.v')
    return ('bondwrap: the component-wise wrap of centre->satellite differences (thresholds, order and shifts of the np.where steps) regenerated and proved '
            'equal to Model.C18.bw; pairing/difference statements checked', ok, 'ok' if ok else log[-600:])


# ---------------------------------------------------------------- unit: automatic site radius (C02)
def site_radius_unit():
    tree = _parse('transitions.py')
    f = _find_func(tree, None, '_compute_site_radius')
    body = [s for s in f.body if not (isinstance(s, ast.Expr) and isinstance(s.value, ast.Constant))]
    src = [ast.unparse(s) for s in body]
    if src[0] != 'lattice = trajectory.get_lattice()' or src[2] != 'site_coords = sites.frac_coords' \
            or src[3] != 'pdist = lattice.get_all_distances(site_coords, site_coords)' \
            or src[4] != 'min_dist = np.min(pdist[np.triu_indices_from(pdist, k=1)])' or src[-1] != 'return site_radius' or len(body) != 7:
        raise Unsupported('_compute_site_radius statements')
    fm = _Formula({}, {'vibration_amplitude': 'vib', 'min_dist': 'dmin'})
    if not (isinstance(body[1], ast.Assign) and ast.unparse(body[1].targets[0]) == 'site_radius'):
        raise Unsupported('initial radius')
    r0 = fm.ev(body[1].value)
    fm.names['site_radius'] = r0
    br = body[5]
    if not (isinstance(br, ast.If) and not br.orelse and isinstance(br.test, ast.Compare) and len(br.test.ops) == 1 and isinstance(br.test.ops[0], ast.Lt)):
        raise Unsupported('overlap test')
    lhs, rhs = fm.ev(br.test.left), fm.ev(br.test.comparators[0])
    inner = [s for s in br.body]
    if not (isinstance(inner[0], ast.Assign) and ast.unparse(inner[0].targets[0]) == 'site_radius' and len(inner) == 2):
        raise Unsupported('shrunk radius')
    r1 = fm.ev(inner[0].value)
    rej = inner[1]
    fm.names['site_radius'] = r1
    if not (isinstance(rej, ast.If) and not rej.orelse and isinstance(rej.test, ast.Compare) and isinstance(rej.test.ops[0], ast.Lt)
            and isinstance(rej.body[-1], ast.Raise) and 'ValueError' in ast.unparse(rej.body[-1])):
        raise Unsupported('too-close rejection')
    rl, rr = fm.ev(rej.test.left), fm.ev(rej.test.comparators[0])
    return r0, (lhs, rhs), r1, (rl, rr)


def gen_site_radius():
    os.makedirs(GEN, exist_ok=True)
    try:
        r0, (lhs, rhs), r1, (rl, rr) = site_radius_unit()
    except Unsupported as e:
        return ('siteradius', False, f'translator: unsupported {e}')
    lines = ['(* GENERATED from /repo/src/gemdat/transitions.py (_compute_site_radius) on every run -- do not edit *)',
             'From Coq Require Import Reals Lra.', 'Open Scope R_scope.',
             '(* vib = vibration amplitude, dmin = smallest periodic distance between two sites (both in Angstrom) *)',
             f'Definition gen_site_radius (vib dmin : R) : R := if Rlt_dec {lhs} {rhs} then {r1} else {r0}.',
             f'Definition gen_rejects (vib dmin : R) : Prop := {lhs} < {rhs} /\\ {rl} < {rr}.',
             '(* the automatic radius never lets two site spheres overlap: twice the radius is at most the smallest site separation,',
             '   which is the hypothesis (4 r^2 <= d^2 for every pair) of C02 auto_radius_adm_unique / spheres_disjoint_unique *)',
             'Theorem gen_site_radius_disjoint : forall vib dmin, 2 * gen_site_radius vib dmin <= dmin.',
             'Proof. intros. unfold gen_site_radius. destruct (Rlt_dec _ _); lra. Qed.',
             'Theorem gen_site_radius_accepted_lower_bound : forall vib dmin, ~ gen_rejects vib dmin -> 0 <= vib -> dmin < 2 * (2 * vib) -> 1 / 4 <= gen_site_radius vib dmin.',
             'Proof. intros vib dmin H Hv Hd. unfold gen_site_radius, gen_rejects in *. destruct (Rlt_dec _ _); lra. Qed.']
    open(os.path.join(GEN, 'SiteRadius.v'), 'w').write('\n'.join(lines) + '\n')
    ok, log = compile_gen('SiteRadius.v')
    return ('siteradius: _compute_site_radius (2 x vibration amplitude, shrunk to half the smallest site distance minus 0.005 when spheres would overlap, '
            'rejection below 0.25 A) regenerated; proved: twice the radius never exceeds the smallest site distance', ok, 'ok' if ok else log[-600:])


# ---------------------------------------------------------------- unit: composition events -> jumps (C03 + C04)
def gen_pipeline():
    """Needs Gen/Events.vo and Gen/JumpStep.vo of this run.  The proof text is static (harness/pipeline_proof.v.txt); what it proves is about
    the definitions generated in this run: gen_scan 0 (gen_events_atom a o o) = default_jumps a o, and the subset property for stricter settings."""
    os.makedirs(GEN, exist_ok=True)
    e = gen_events()
    if not e[1]:
        return ('pipeline', False, 'needs the events unit: ' + e[2])
    src = open(os.path.join(_V, 'harness', 'pipeline_proof.v.txt')).read()
    open(os.path.join(GEN, 'Pipeline.v'), 'w').write(src)
    ok, log = compile_gen('Pipeline.v')
    closed = log.count('Closed under the global context') == 2
    if ok and closed:
        open(os.path.join(GEN, 'Pipeline2.v'), 'w').write(open(os.path.join(_V, 'harness', 'pipeline2_proof.v.txt')).read())
        ok2, log2 = compile_gen('Pipeline2.v')
        closed2 = log2.count('Closed under the global context') == 2
        if not (ok2 and closed2):
            return ('pipeline: composition down to the count matrix (gen_matrix_sum, gen_matrix_diag)', False, log2[-600:])
    return ('pipeline: generated jump scan applied to the generated event extraction = consecutive distinct visited sites (default settings), and a subset of them '
            'for stricter settings (gen_pipeline_default, gen_pipeline_strict); composed with the count-matrix model: the jump matrix sums to the number of changes of '
            'visited site and has an empty diagonal (gen_matrix_sum, gen_matrix_diag); all closed under the global context', ok and closed, 'ok' if ok and closed else log[-600:])


# ---------------------------------------------------------------- unit: shape of mean_squared_displacement (C06)
def gen_msd_shape():
    """Statement-level check of Trajectory.mean_squared_displacement against the structure Model.C06 transcribes (S1 by the cumulative-sum
    recursion, S2 as the zero-padded FFT autocorrelation truncated to n_times lags, both divided by the window n_times - lag, MSD = S1 - 2 S2),
    of distances_from_base_position/_lengths (metric tensor of the cell) and of cumulative_displacements."""
    try:
        tree = _parse('trajectory.py')
        f = _find_func(tree, 'Trajectory', 'mean_squared_displacement')
        src = [ast.unparse(s) for s in f.body if not (isinstance(s, ast.Expr) and isinstance(s.value, ast.Constant))]
        want = ['r = self.cumulative_displacements', 'lattice = self.get_lattice()', 'r = lattice.get_cartesian_coords(r)', 'pos = np.transpose(r, (1, 0, 2))',
                'n_times = pos.shape[1]', 'fft_result = np.fft.ifft(np.abs(np.fft.fft(pos, n=2 * n_times, axis=-2)) ** 2, axis=-2)',
                'fft_result = fft_result[:, :n_times, :].real', 'S2 = np.sum(fft_result, axis=-1) / (n_times - np.arange(n_times)[None, :])',
                'D = np.square(pos).sum(axis=-1)', 'D = np.append(D, np.zeros((pos.shape[0], 1)), axis=-1)', 'double_sum_D = 2 * np.sum(D, axis=-1)[:, None]',
                'cumsum_D = np.cumsum(np.insert(D[:, 0:-1], 0, 0, axis=-1) + np.flip(D, axis=-1), axis=-1)',
                'S1 = (double_sum_D - cumsum_D)[:, :-1] / (n_times - np.arange(n_times)[None, :])', 'msd = S1 - 2 * S2', 'return msd']
        if src != want:
            k = next((i for i, (a, b) in enumerate(zip(src, want)) if a != b), min(len(src), len(want)))
            raise Unsupported('mean_squared_displacement statement %d: %s' % (k, src[k][:120] if k < len(src) else '<missing>'))
        cd = [ast.unparse(s) for s in _find_func(tree, 'Trajectory', 'cumulative_displacements').body][-1]
        if cd != 'return np.cumsum(self.displacements, axis=0)':
            raise Unsupported('cumulative_displacements: ' + cd)
        lf = ast.unparse(_find_func(tree, None, '_lengths'))
        if 'metric_tensor = lattice.metric_tensor' not in lf:
            raise Unsupported('_lengths does not use lattice.metric_tensor')
        cls = next((n for n in tree.body if isinstance(n, ast.ClassDef) and n.name == 'Trajectory'), None)
        own = {f.name for f in cls.body if isinstance(f, ast.FunctionDef)} if cls else set()
        if 'to_displacements' in own:
            # Model.C06 unwraps with pymatgen's to_displacements (round half to even); an own version is not what the model transcribes
            raise Unsupported('Trajectory overrides the library method to_displacements')
        gl = [ast.unparse(x) for x in _stmts(_find_func(tree, 'Trajectory', 'get_lattice'))]
        if gl != ['if self.constant_lattice:\n    return Lattice(self.lattice)', 'latt = self.lattices[idx]', 'return Lattice(latt)']:
            # a pure read: it must not go through accessors that convert the trajectory between positions and displacements
            raise Unsupported('get_lattice: ' + ' | '.join(gl)[:200])
        db = ast.unparse(_find_func(tree, 'Trajectory', 'distances_from_base_position'))
        if 'self.cumulative_displacements' not in db or '_lengths(' not in db:
            raise Unsupported('distances_from_base_position')
    except Unsupported as e:
        return ('msdshape', False, f'translator: unsupported {e}')
    return ('msdshape: statements of mean_squared_displacement (S1 recursion, zero-padded FFT autocorrelation, windows), cumulative_displacements and '
            '_lengths are the ones Model.C06 transcribes', True, 'ok')


# ---------------------------------------------------------------- unit: reference-atom selection of drift / filter (C13)
def drift_selection_unit():
    tree = _parse('trajectory.py')
    d = _find_func(tree, 'Trajectory', 'drift')
    body = [s for s in d.body if not (isinstance(s, ast.Expr) and isinstance(s.value, ast.Constant))]
    if len(body) != 2 or not isinstance(body[0], ast.If) or ast.unparse(body[1]) != 'return np.mean(displacements, axis=1)[:, None, :]':
        raise Unsupported('drift: body shape')
    br = body[0]
    if ast.unparse(br.test) != 'fixed_species' or [ast.unparse(s) for s in br.body] != ['displacements = self.filter(species=fixed_species).displacements']:
        raise Unsupported('drift: fixed branch')
    if len(br.orelse) != 1 or not isinstance(br.orelse[0], ast.If) or ast.unparse(br.orelse[0].test) != 'floating_species':
        raise Unsupported('drift: floating branch')
    fl = br.orelse[0]
    src = [ast.unparse(s) for s in fl.body]
    if len(src) != 4 or src[0] != 'if isinstance(floating_species, str):\n    floating_species = [floating_species]' or src[1] != 'species = set()' \
            or src[3] != 'displacements = self.filter(species=species).displacements':
        raise Unsupported('drift: floating branch statements')
    loop = fl.body[2]
    if not (isinstance(loop, ast.For) and ast.unparse(loop.target) == 'sp' and ast.unparse(loop.iter) == 'self.species' and len(loop.body) == 2
            and isinstance(loop.body[0], ast.Assert) and ast.unparse(loop.body[1]) == 'if sp.symbol not in floating_species:\n    species.add(sp.symbol)'):
        raise Unsupported('drift: loop over species')
    if [ast.unparse(s) for s in fl.orelse] != ['displacements = self.displacements']:
        raise Unsupported('drift: default branch')
    f = _find_func(tree, 'Trajectory', 'filter')
    fst = [ast.unparse(s) for s in f.body]
    for need in ('if isinstance(species, str):\n    species = [species]', 'idx = []', 'new_coords = self.positions[:, idx]',
                 'new_species = list(compress(self.species, idx))'):
        if need not in fst:
            raise Unsupported('filter: missing `%s`' % need.replace('\n', ' '))
    floop = [s for s in f.body if isinstance(s, ast.For)]
    if len(floop) != 1 or ast.unparse(floop[0].iter) != 'self.species' or ast.unparse(floop[0].body[-1]) != 'idx.append(sp.symbol in species)':
        raise Unsupported('filter: loop over species')
    a = ast.unparse(_find_func(tree, 'Trajectory', 'apply_drift_correction'))
    for need in ('drift = self.drift(fixed_species=fixed_species, floating_species=floating_species)', 'coords=self.displacements - drift',
                 'coords_are_displacement=True', 'base_positions=self.base_positions', 'species=self.species', 'time_step=self.time_step', 'metadata=self.metadata'):
        if need not in a:
            raise Unsupported('apply_drift_correction: missing `%s`' % need)


def gen_drift_selection():
    os.makedirs(GEN, exist_ok=True)
    try:
        drift_selection_unit()
    except Unsupported as e:
        return ('driftsel', False, f'translator: unsupported {e}')
    lines = ['(* GENERATED from /repo/src/gemdat/trajectory.py (drift, filter, apply_drift_correction) on every run -- do not edit *)',
             'From GV Require Import Base.Prelude Model.C01 Model.C13.',
             '(* filter(species=S): atom a is kept iff symbol(a) in S *)',
             'Definition gen_filter_mask (S syms : list Z) : list bool := map (fun s => mem s S) syms.',
             '(* fixed_species branch: filter(species=fixed) *)',
             'Definition gen_sel_fixed (fixed syms : list Z) : list bool := gen_filter_mask fixed syms.',
             '(* floating_species branch: species = { sp.symbol | sp in self.species, sp.symbol not in floating }; filter(species=species) *)',
             'Definition gen_sel_floating (floating syms : list Z) : list bool :=',
             '  gen_filter_mask (filter (fun s => negb (mem s floating)) syms) syms.',
             'Lemma mem_filter_in : forall (p : Z -> bool) l s, In s l -> mem s (filter p l) = p s.',
             'Proof.',
             '  intros p l s Hin. unfold mem. destruct (p s) eqn:Hp.',
             '  - apply existsb_exists. exists s. split; [apply filter_In; split; assumption | apply Z.eqb_refl].',
             '  - destruct (existsb (Z.eqb s) (filter p l)) eqn:He; [|reflexivity].',
             '    apply existsb_exists in He. destruct He as [x [Hx Hxs]]. apply Z.eqb_eq in Hxs. subst x.',
             '    apply filter_In in Hx. destruct Hx as [_ Hx]. congruence.',
             'Qed.',
             'Theorem gen_sel_fixed_is_model : forall fixed syms, gen_sel_fixed fixed syms = sel_fixed fixed syms.',
             'Proof. reflexivity. Qed.',
             'Theorem gen_sel_floating_is_model : forall floating syms, gen_sel_floating floating syms = sel_floating floating syms.',
             'Proof. intros. unfold gen_sel_floating, gen_filter_mask, sel_floating. apply map_ext_in. intros s Hs. apply mem_filter_in. exact Hs. Qed.']
    open(os.path.join(GEN, 'DriftSel.v'), 'w').write('\n'.join(lines) + '\n')
    ok, log = compile_gen('DriftSel.v')
    return ('driftsel: branch structure of drift() (fixed / floating with string wrapping and symbol set / all atoms), filter() by symbol and the arguments '
            'apply_drift_correction passes on; the two selections proved equal to Model.C13.sel_fixed / sel_floating', ok, 'ok' if ok else log[-600:])


# ---------------------------------------------------------------- unit: binning of trajectory_to_volume (C08)
def volume_binning_unit():
    tree = _parse('volume.py')
    f = _find_func(tree, None, 'trajectory_to_volume')
    src = [ast.unparse(s) for s in f.body if not (isinstance(s, ast.Expr) and isinstance(s.value, ast.Constant))]
    want = ['lattice = trajectory.get_lattice()', 'coords = trajectory.positions.reshape(-1, 3)', 'assert coords.min() >= 0', 'assert coords.max() < 1',
            'nx = int(1 + lattice.lengths[0] // resolution)', 'ny = int(1 + lattice.lengths[1] // resolution)', 'nz = int(1 + lattice.lengths[2] // resolution)',
            'dims = np.array([nx - 1, ny - 1, nz - 1])', 'digitized_coords = (coords * dims).astype(int)',
            'indices, counts = np.unique(digitized_coords, return_counts=True, axis=0)', 'i, j, k = indices.T',
            'data = np.zeros((nx - 1, ny - 1, nz - 1), dtype=int)', 'data[i, j, k] = counts',
            "return Volume(data=data, lattice=lattice, label='trajectory')"]
    if src != want:
        k = next((i for i, (a, b) in enumerate(zip(src, want)) if a != b), min(len(src), len(want)))
        raise Unsupported('trajectory_to_volume statement %d: %s' % (k, src[k][:120] if k < len(src) else '<missing>'))
    # grid size per axis, as an integer expression over numerators (L / lden) // (r / lden) = L // r
    nxs = f.body[[ast.unparse(s) for s in f.body].index(want[4])]
    e = nxs.value.args[0]          # 1 + lattice.lengths[0] // resolution
    if not (isinstance(e, ast.BinOp) and isinstance(e.op, ast.Add) and ast.unparse(e.left) == '1' and isinstance(e.right, ast.BinOp) and isinstance(e.right.op, ast.FloorDiv)):
        raise Unsupported('grid size expression')
    return True


def gen_volume_binning():
    os.makedirs(GEN, exist_ok=True)
    try:
        volume_binning_unit()
    except Unsupported as e:
        return ('volumebin', False, f'translator: unsupported {e}')
    lines = ['(* GENERATED from /repo/src/gemdat/volume.py (trajectory_to_volume) on every run -- do not edit *)',
             'From GV Require Import Base.Prelude Model.C08.',
             '(* nx = int(1 + L // r); the grid has nx - 1 voxels along the axis; cell length L and resolution r as numerators over one denominator *)',
             'Definition gen_nx (L r : Z) : Z := 1 + L / r.',
             'Definition gen_dims (L r : Z) : Z := gen_nx L r - 1.',
             '(* digitized = (coords * dims).astype(int) on coordinates in [0, 1): truncation = floor; x numerator over D *)',
             'Definition gen_digitize (D n x : Z) : Z := (x * n) / D.',
             'Theorem gen_dims_is_model : forall L r, gen_dims L r = ngrid L r.',
             'Proof. intros. unfold gen_dims, gen_nx, ngrid. lia. Qed.',
             'Theorem gen_digitize_is_model : forall D n x, gen_digitize D n x = voxel D n x.',
             'Proof. reflexivity. Qed.',
             '(* the voxel edge L / n lies in [r, 2r) whenever the resolution does not exceed the cell length *)',
             'Theorem gen_edge_bounds : forall L r, 0 < r -> r <= L -> r * gen_dims L r <= L /\\ L < 2 * r * gen_dims L r.',
             'Proof.',
             '  intros L r Hr HL. unfold gen_dims, gen_nx.',
             '  assert (H1 : 1 <= L / r) by (apply Z.div_le_lower_bound; lia).',
             '  pose proof (Z.mul_div_le L r Hr) as H2. pose proof (Z.mul_succ_div_gt L r Hr) as H3. nia.',
             'Qed.']
    open(os.path.join(GEN, 'VolumeBin.v'), 'w').write('\n'.join(lines) + '\n')
    ok, log = compile_gen('VolumeBin.v')
    return ('volumebin: statements of trajectory_to_volume (range asserts, grid size 1 + L // r minus one, truncating digitisation, np.unique counts assigned once); '
            'grid size and voxel index proved equal to Model.C08.ngrid / voxel, edge bounds r <= L/n < 2r', ok, 'ok' if ok else log[-600:])


# ---------------------------------------------------------------- unit: jump rates (C05)
def rates_unit():
    tree = _parse('jumps.py')
    f = _find_func(tree, 'Jumps', 'rates')
    body = [s for s in f.body if not (isinstance(s, ast.Expr) and isinstance(s.value, ast.Constant))]
    src = [ast.unparse(s) for s in body]
    if src[0] != 'dct = {}' or src[1] != 'parts = [part.counter() for part in self.split(n_parts)]' or src[-1] != 'return df' \
            or src[-2] != "df.columns = ('rates', 'std')" or src[-3] != 'df = pd.DataFrame(dct).T':
        raise Unsupported('rates: frame statements')
    fm = _Formula({'self.trajectory.total_time': 'total_time', 'self.n_floating': 'n_floating'}, {'n_parts': 'n_parts'})
    if not (isinstance(body[2], ast.Assign) and ast.unparse(body[2].targets[0]) == 'part_time'):
        raise Unsupported('rates: part_time')
    fm.env['part_time'] = fm.ev(body[2].value)
    loop = body[3]
    if not (isinstance(loop, ast.For) and ast.unparse(loop.target) == 'site_pair' and ast.unparse(loop.iter) == 'self.site_pairs'):
        raise Unsupported('rates: loop over site pairs')
    ls = [ast.unparse(s) for s in loop.body]
    if ls[0] != 'n_jumps = [part[site_pair] for part in parts]' or ls[-1] != 'dct[site_pair] = (float(jump_freq_mean), float(jump_freq_std))':
        raise Unsupported('rates: loop frame ' + ls[0][:60] + ' / ' + ls[-1][:60])
    fm.atoms['np.mean(n_jumps)'] = 'mean'
    fm.atoms['np.std(n_jumps, ddof=1)'] = 'sdev'
    for st in loop.body[1:-1]:
        if not (isinstance(st, ast.Assign) and isinstance(st.targets[0], ast.Name)):
            raise Unsupported('rates: ' + ast.unparse(st)[:80])
        fm.env[st.targets[0].id] = fm.ev(st.value)
    # the parts are analysed with the settings of the whole: Jumps.split hands minimal_residence and conversion_method on
    sp = [ast.unparse(x) for x in _stmts(_find_func(tree, 'Jumps', 'split'))]
    if sp != ['parts = self.transitions.split(n_parts)',
              'return [Jumps(part, conversion_method=self.conversion_method, minimal_residence=self.minimal_residence) for part in parts]']:
        raise Unsupported('Jumps.split: ' + ' | '.join(sp)[:300])
    return fm.env['jump_freq_mean'], fm.env['jump_freq_std']


def gen_rates():
    os.makedirs(GEN, exist_ok=True)
    try:
        em, es = rates_unit()
    except Unsupported as e:
        return ('rates', False, f'translator: unsupported {e}')
    lines = ['(* GENERATED from /repo/src/gemdat/jumps.py (Jumps.rates) on every run -- do not edit *)',
             'From Coq Require Import Reals Lra.', 'Open Scope R_scope.',
             '(* mean / sdev: mean and sample standard deviation of the per-part jump counts of one label pair *)',
             f'Definition gen_rate (mean n_floating total_time n_parts : R) : R := {em}.',
             f'Definition gen_rate_std (sdev n_floating total_time n_parts : R) : R := {es}.',
             '(* with mean = (sum of the per-part counts) / n_parts: rate x atoms x total time = number of such jumps counted in the parts,',
             '   which by C19 (jumps_parts_le_total) never exceeds the number in the whole run *)',
             'Theorem gen_rate_counts : forall total n_floating total_time n_parts, n_floating <> 0 -> total_time <> 0 -> n_parts <> 0 ->',
             '  gen_rate (total / n_parts) n_floating total_time n_parts * n_floating * total_time = total.',
             'Proof. intros. unfold gen_rate. field. repeat split; assumption. Qed.',
             'Theorem gen_rate_le_whole : forall total whole n_floating total_time n_parts, 0 < n_floating -> 0 < total_time -> 0 < n_parts -> total <= whole ->',
             '  gen_rate (total / n_parts) n_floating total_time n_parts * n_floating * total_time <= whole.',
             'Proof. intros. rewrite gen_rate_counts; lra. Qed.']
    open(os.path.join(GEN, 'Rates.v'), 'w').write('\n'.join(lines) + '\n')
    ok, log = compile_gen('Rates.v')
    return ('rates: Jumps.rates (parts from split, part duration, per-pair mean and sample deviation over atoms x part duration) regenerated; proved: '
            'rate x atoms x total time = jumps counted in the parts (<= jumps of the whole)', ok, 'ok' if ok else log[-600:])


# ---------------------------------------------------------------- unit: GEMDAT's overrides around pymatgen's trajectory (C01, C15)
def _stmts(f):
    return [s for s in f.body if not (isinstance(s, ast.Expr) and isinstance(s.value, ast.Constant))]


def traj_core_unit():
    """returns (modulus, compared value, replacement) of Trajectory.to_positions after checking the statements around it"""
    tree = _parse('trajectory.py')
    cls = next((n for n in tree.body if isinstance(n, ast.ClassDef) and n.name == 'Trajectory'), None)
    if cls is None or [ast.unparse(b) for b in cls.bases] != ['PymatgenTrajectory']:
        raise Unsupported('class Trajectory(PymatgenTrajectory)')
    imp = [ast.unparse(s) for s in tree.body if isinstance(s, ast.ImportFrom) and s.module == 'pymatgen.core.trajectory']
    if imp != ['from pymatgen.core.trajectory import Trajectory as PymatgenTrajectory']:
        raise Unsupported('import of the pymatgen base class: %s' % imp)
    # methods of the library that Model.C15 / Model.C01 describe must not be overridden
    own = {f.name for f in cls.body if isinstance(f, ast.FunctionDef)}
    for name in ('to_displacements', 'extend', '__len__', '__iter__', 'get_structure', '_combine_lattice', '_combine_site_props', '__setattr__', '__getattribute__'):
        if name in own:
            raise Unsupported(f'Trajectory overrides the library method {name}')
    f = _find_func(tree, 'Trajectory', 'to_positions')
    st = _stmts(f)
    src = [ast.unparse(s) for s in st]
    if len(st) != 4 or src[0] != 'super().to_positions()' or src[3] != 'self.coords = coords':
        raise Unsupported('to_positions: ' + ' | '.join(src)[:200])
    a = st[1]
    if not (isinstance(a, ast.Assign) and ast.unparse(a.targets[0]) == 'coords' and isinstance(a.value, ast.Call) and ast.unparse(a.value.func) == 'np.mod'
            and len(a.value.args) == 2 and not a.value.keywords and ast.unparse(a.value.args[0]) == 'self.coords' and isinstance(a.value.args[1], ast.Constant)
            and type(a.value.args[1].value) is int):
        raise Unsupported('to_positions statement 1: ' + src[1])
    modulus = a.value.args[1].value
    b = st[2]
    if not (isinstance(b, ast.Assign) and isinstance(b.targets[0], ast.Subscript) and ast.unparse(b.targets[0].value) == 'coords' and isinstance(b.targets[0].slice, ast.Compare)
            and ast.unparse(b.targets[0].slice.left) == 'coords' and len(b.targets[0].slice.ops) == 1 and isinstance(b.targets[0].slice.ops[0], ast.Eq)
            and isinstance(b.targets[0].slice.comparators[0], ast.Constant) and type(b.targets[0].slice.comparators[0].value) is int
            and isinstance(b.value, ast.Constant) and type(b.value.value) is int):
        raise Unsupported('to_positions statement 2: ' + src[2])
    cmpv, repl = b.targets[0].slice.comparators[0].value, b.value.value
    for prop, call in (('positions', 'self.to_positions()'), ('displacements', 'self.to_displacements()')):
        g = _find_func(tree, 'Trajectory', prop)
        if [ast.unparse(d) for d in g.decorator_list] != ['property'] or [ast.unparse(s) for s in _stmts(g)] != [call, 'return self.coords']:
            raise Unsupported(f'property {prop}')
    g = _find_func(tree, 'Trajectory', 'cumulative_displacements')
    if [ast.unparse(d) for d in g.decorator_list] != ['property'] or [ast.unparse(s) for s in _stmts(g)] != ['return np.cumsum(self.displacements, axis=0)']:
        raise Unsupported('property cumulative_displacements')
    gi = [ast.unparse(s) for s in _stmts(_find_func(tree, 'Trajectory', '__getitem__'))]
    if gi != ['new = super().__getitem__(frames)', 'if isinstance(new, PymatgenTrajectory):\n    new.__class__ = self.__class__',
              "new.metadata = self.metadata if hasattr(self, 'metadata') else {}", 'return new']:
        raise Unsupported('__getitem__: ' + ' | '.join(gi)[:200])
    ini = [ast.unparse(s) for s in _stmts(_find_func(tree, 'Trajectory', '__init__'))]
    if ini != ['super().__init__(**kwargs)', 'self.metadata = metadata if metadata else {}']:
        raise Unsupported('__init__: ' + ' | '.join(ini)[:200])
    fl = ast.unparse(_find_func(tree, 'Trajectory', 'filter'))
    for need in ('new_coords = self.positions[:, idx]', 'coords=new_coords', 'lattice=self.get_lattice()', 'species=new_species', 'time_step=self.time_step', 'metadata=self.metadata'):
        if need not in fl:
            raise Unsupported('filter: missing `%s`' % need)
    if 'coords_are_displacement' in fl or 'base_positions' in fl:
        raise Unsupported('filter builds the new object from something else than positions')
    gl = [ast.unparse(x) for x in _stmts(_find_func(tree, 'Trajectory', 'get_lattice'))]
    if gl != ['if self.constant_lattice:\n    return Lattice(self.lattice)', 'latt = self.lattices[idx]', 'return Lattice(latt)']:
        # a pure read: it must not go through accessors that convert the trajectory between positions and displacements
        raise Unsupported('get_lattice: ' + ' | '.join(gl)[:200])
    cm = [ast.unparse(s) for s in _stmts(_find_func(tree, 'Trajectory', 'center_of_mass'))]
    want = ['weights = []', None, 'positions_no_pbc = self.base_positions + self.cumulative_displacements',
            'center_of_mass = np.average(positions_no_pbc, axis=1, weights=weights).reshape(-1, 1, 3)', None]
    if len(cm) != len(want) or any(w is not None and w != c for w, c in zip(want, cm)) or 'weights.append(s.atomic_mass)' not in cm[1] \
            or not cm[1].startswith('for s in self.species:'):
        raise Unsupported('center_of_mass: ' + ' | '.join(cm)[:300])
    for need in ("species=['X']", 'coords=center_of_mass', 'lattice=self.get_lattice()', 'metadata=self.metadata', 'time_step=self.time_step'):
        if need not in cm[4]:
            raise Unsupported('center_of_mass: missing `%s`' % need)
    return modulus, cmpv, repl


def gen_traj_core():
    os.makedirs(GEN, exist_ok=True)
    try:
        modulus, cmpv, repl = traj_core_unit()
    except Unsupported as e:
        return ('trajcore', False, f'translator: unsupported {e}')
    lines = ['(* GENERATED from /repo/src/gemdat/trajectory.py (Trajectory.to_positions and the properties around it) on every run -- do not edit *)',
             'From GV Require Import Base.Prelude Model.C01 Model.C15.',
             'Section G.',
             '  Variable D : Z.',
             '  (* coords = np.mod(self.coords, m); coords[coords == c] = r   (a coordinate is a numerator over D) *)',
             f'  Definition gen_fix (x : Z) : Z := let y := x mod ({modulus} * D) in if y =? {cmpv} * D then {repl} * D else y.',
             '  (* pymatgen Trajectory.to_positions (library code, modelled): base + running sum when the object holds displacements *)',
             '  Definition pmg_to_positions (t : traj) : traj :=',
             '    match t_mode t with',
             '    | MPos => t',
             '    | MDisp => {| t_mode := MPos; t_coords := map (vadd (t_base t)) (fcumsum (vzero (t_base t)) (t_coords t)); t_base := t_base t |}',
             '    end.',
             '  (* super().to_positions(); coords = fix(self.coords); self.coords = coords *)',
             '  Definition gen_to_positions (t : traj) : traj :=',
             '    let t1 := pmg_to_positions t in {| t_mode := t_mode t1; t_coords := map (map gen_fix) (t_coords t1); t_base := t_base t1 |}.',
             '  (* positions: self.to_positions(); return self.coords *)',
             '  Definition gen_positions (t : traj) : traj * list (list Z) := let t1 := gen_to_positions t in (t1, t_coords t1).',
             '  Hypothesis HD : 0 < D.',
             '  Theorem gen_fix_is_wrap : forall x, gen_fix x = wrapD D x.',
             '  Proof. intros x. unfold gen_fix, wrapD. replace (1 * D) with D by lia. pose proof (Z.mod_pos_bound x D HD) as Hb.',
             '    destruct (x mod D =? D) eqn:E; [apply Z.eqb_eq in E; lia | reflexivity]. Qed.',
             '  Theorem gen_fix_in_cell : forall x, 0 <= gen_fix x < D.',
             '  Proof. intros x. rewrite gen_fix_is_wrap. unfold wrapD. apply Z.mod_pos_bound. exact HD. Qed.',
             '  Theorem gen_fix_congruent : forall x, exists k, gen_fix x = x - k * D.',
             '  Proof. intros x. rewrite gen_fix_is_wrap. unfold wrapD. exists (x / D). pose proof (Z.div_mod x D). lia. Qed.',
             '  Lemma map_gen_fix : forall l, map gen_fix l = vwrap D l.',
             '  Proof. intros l. unfold vwrap. apply map_ext. exact gen_fix_is_wrap. Qed.',
             '  Theorem gen_to_positions_is_model : forall t, gen_to_positions t = to_positions D t.',
             '  Proof. intros t. unfold gen_to_positions, pmg_to_positions, to_positions.',
             '    destruct t as [m c b]; destruct m; cbn [t_mode t_coords t_base]; f_equal; apply map_ext; exact map_gen_fix. Qed.',
             '  Theorem gen_positions_is_model : forall s i, let t := nth i s dummy in',
             '    step D s (QPos i) = (set_nth s i (fst (gen_positions t)), RVal (snd (gen_positions t))).',
             '  Proof. intros s i t. unfold gen_positions. cbn [fst snd step]. subst t. rewrite gen_to_positions_is_model. reflexivity. Qed.',
             'End G.']
    open(os.path.join(GEN, 'TrajCore.v'), 'w').write('\n'.join(lines) + '\n')
    ok, log = compile_gen('TrajCore.v')
    return ('trajcore: Trajectory.to_positions (library call, np.mod, the ==1 repair, assignment), positions/displacements/cumulative_displacements properties, '
            '__getitem__, __init__, filter built from positions, center_of_mass statements; no library method of the model is overridden; generated wrap proved '
            'equal to Model.C01.wrapD, in [0, D), a whole-cell translate; generated to_positions proved equal to Model.C15.to_positions', ok, 'ok' if ok else log[-800:])


# ---------------------------------------------------------------- unit: loop over symmetry operations of ShapeAnalyzer.find_equivalent_positions (C17)
def shape_loop_unit():
    """returns (comparison operator of the selection, (p, q) with the constant added before np.floor equal to p/q)"""
    from fractions import Fraction
    tree = _parse('shape.py')
    f = _find_func(tree, 'ShapeAnalyzer', 'find_equivalent_positions')
    st = _stmts(f)
    src = [ast.unparse(s) for s in st]
    pre = ['lattice = self.lattice', 'spacegroup = self.spacegroup', 'site_coords = site.frac_coords', 'cluster = []']
    post = ['centered = np.vstack(cluster) - site_coords', 'cart_coords = self.lattice.get_cartesian_coords(centered)', 'return cart_coords']
    if src[:4] != pre or src[5:] != post or not isinstance(st[4], ast.For):
        raise Unsupported('find_equivalent_positions: statements around the loop: ' + ' | '.join(src[:4] + src[5:])[:300])
    loop = st[4]
    if ast.unparse(loop.target) != 'op' or ast.unparse(loop.iter) != 'spacegroup' or loop.orelse:
        raise Unsupported('find_equivalent_positions: loop header')
    body = [ast.unparse(s) for s in loop.body]
    want = ['sym_coords = op.operate(site_coords)', 'dists = lattice.get_all_distances(sym_coords, positions)', None, 'close = positions[sel.flatten()]',
            None, 'inversed = op.inverse.operate_multi(close)', 'cluster.append(inversed)']
    if len(body) != len(want) or any(w is not None and w != b for w, b in zip(want, body)):
        k = next((i for i, (w, b) in enumerate(zip(want, body)) if w is not None and w != b), len(body))
        raise Unsupported('find_equivalent_positions loop statement %d: %s' % (k, body[k][:120] if k < len(body) else '<missing>'))
    sel = loop.body[2]
    if not (isinstance(sel, ast.Assign) and ast.unparse(sel.targets[0]) == 'sel' and isinstance(sel.value, ast.Compare) and len(sel.value.ops) == 1
            and ast.unparse(sel.value.left) == 'dists' and ast.unparse(sel.value.comparators[0]) == 'radius'):
        raise Unsupported('selection: ' + body[2])
    cmpop = {ast.Lt: '<?', ast.LtE: '<=?'}.get(type(sel.value.ops[0]))
    if cmpop is None:
        raise Unsupported('selection operator: ' + body[2])
    sh = loop.body[4]
    if not (isinstance(sh, ast.AugAssign) and isinstance(sh.op, ast.Sub) and ast.unparse(sh.target) == 'close' and isinstance(sh.value, ast.Call)
            and ast.unparse(sh.value.func) == 'np.floor' and len(sh.value.args) == 1 and not sh.value.keywords):
        raise Unsupported('re-imaging statement: ' + body[4])
    e = sh.value.args[0]
    if not (isinstance(e, ast.BinOp) and isinstance(e.op, ast.Add) and ast.unparse(e.left) == 'close - sym_coords' and isinstance(e.right, ast.Constant)
            and isinstance(e.right.value, (int, float))):
        raise Unsupported('re-imaging expression: ' + ast.unparse(e))
    c = Fraction(e.right.value)          # exact value of the float literal
    if c.denominator > 1024:
        raise Unsupported('re-imaging constant is not a small dyadic number: %r' % e.right.value)
    return cmpop, (c.numerator, c.denominator)


def gen_shape_loop():
    os.makedirs(GEN, exist_ok=True)
    try:
        cmpop, (p, q) = shape_loop_unit()
    except Unsupported as e:
        return ('shapeloop', False, f'translator: unsupported {e}')
    lines = ['(* GENERATED from /repo/src/gemdat/shape.py (ShapeAnalyzer.find_equivalent_positions) on every run -- do not edit *)',
             'From GV Require Import Base.Prelude Model.C01 Model.Geom Proofs.Geom Model.C17 Proofs.C17.',
             'Section G.',
             '  Variable D : Z.',
             '  Variable G : gram.',
             '  Variable K : Z.',
             '  Variable r2 : Z * Z.',
             '  (* sel = dists < radius   (squared minimum-image distance against radius^2 = fst r2 / snd r2) *)',
             f'  Definition gen_selected (sym p : V3) : bool := min_image_d2 D G K (vsub3 p sym) * snd r2 {cmpop} fst r2.',
             '  (* close -= np.floor(close - sym_coords + c), one component; numerators over D, c = p/q *)',
             f'  Definition gen_shift (c s : Z) : Z := c - D * (({q} * (c - s) + {p} * D) / ({q} * D)).',
             '  Definition gen_shift3 (c s : V3) : V3 :=',
             "    let '(c1, c2, c3) := c in let '(s1, s2, s3) := s in (gen_shift c1 s1, gen_shift c2 s2, gen_shift c3 s3).",
             '  (* one selected position: inversed = op.inverse.operate_multi(close) ... centered = inversed - site_coords *)',
             '  Definition gen_point (o inv : symop) (site p : V3) : V3 :=',
             '    let sym := apply_op o site in vsub3 (apply_op inv (gen_shift3 p sym)) site.',
             '  (* the loop body for one operation, and the loop with np.vstack *)',
             '  Definition gen_points_op (o inv : symop) (site : V3) (positions : list V3) : list V3 :=',
             '    let sym := apply_op o site in map (gen_point o inv site) (filter (gen_selected sym) positions).',
             '  Definition gen_points (ops : list (symop * symop)) (site : V3) (positions : list V3) : list V3 :=',
             '    flat_map (fun oi => gen_points_op (fst oi) (snd oi) site positions) ops.',
             '  (* op.inverse of x |-> W x + w is x |-> W^-1 x - W^-1 w *)',
             '  Definition inverse_of (o inv : symop) : Prop := is_inverse (W inv) (W o) = true /\\ wt inv = vneg3 (mulv (W inv) (wt o)).',
             '',
             '  Theorem gen_selected_is_model : forall sym p, gen_selected sym p = selected D G K r2 sym p.',
             '  Proof. reflexivity. Qed.',
             '  Lemma gen_shift_reim : forall c s, gen_shift c s = s + reim D (c - s).',
             '  Proof. intros c s. unfold gen_shift, reim. replace (1 * D) with D by ring. ring. Qed.',
             '  Lemma gen_shift3_reimage : forall c s, gen_shift3 c s = vadd3 s (reimage D (vsub3 c s)).',
             '  Proof. intros c s. dv c; dv s. cbn [gen_shift3 vsub3 reimage vadd3]. rewrite !gen_shift_reim. reflexivity. Qed.',
             '  Theorem gen_point_is_model : forall o inv site p, inverse_of o inv ->',
             '    gen_point o inv site p = mulv (W inv) (reimage D (vsub3 p (apply_op o site))).',
             '  Proof.',
             '    intros o inv site p [Hinv Hw]. unfold gen_point. rewrite gen_shift3_reimage.',
             '    set (r := reimage D (vsub3 p (apply_op o site))).',
             '    unfold apply_op. rewrite Hw, !mulv_add, (is_inverse_spec _ _ Hinv).',
             '    destruct (mulv (W inv) (wt o)) as [[a1 a2] a3]. destruct (mulv (W inv) r) as [[b1 b2] b3]. dv site. veq.',
             '  Qed.',
             '  Theorem gen_points_op_is_model : forall o inv site positions, inverse_of o inv ->',
             '    gen_points_op o inv site positions = points_op D G K r2 o (W inv) site positions.',
             '  Proof.',
             '    intros o inv site positions H. unfold gen_points_op, points_op. apply map_ext. intros p. apply gen_point_is_model. exact H.',
             '  Qed.',
             '  Theorem gen_points_is_model : forall ops site positions, (forall oi, In oi ops -> inverse_of (fst oi) (snd oi)) ->',
             '    gen_points ops site positions = points D G K r2 (map (fun oi => (fst oi, W (snd oi))) ops) site positions.',
             '  Proof.',
             '    intros ops site positions. induction ops as [|oi ops IH]; intros H; [reflexivity|].',
             '    unfold gen_points, points in *. cbn [flat_map map fst snd]. rewrite gen_points_op_is_model by (apply H; left; reflexivity).',
             '    f_equal. apply IH. intros x Hx. apply H. right. exact Hx.',
             '  Qed.',
             'End G.',
             '(* the hypothesis is satisfiable: a four-fold screw operation and its inverse *)',
             'Example inverse_of_example : inverse_of {| W := W_rot; wt := (50, 0, 25) |} {| W := W_rot_inv; wt := (0, 50, -25) |}.',
             'Proof. split; vm_compute; reflexivity. Qed.']
    open(os.path.join(GEN, 'ShapeLoop.v'), 'w').write('\n'.join(lines) + '\n')
    ok, log = compile_gen('ShapeLoop.v')
    return ('shapeloop: statements of find_equivalent_positions (operate, get_all_distances, strict selection, boolean-mask copy, re-imaging by floor(x + 1/2), '
            'inverse operation, vstack, centring, Cartesian conversion); generated selection = Model.C17.selected; generated per-position result (inverse operation '
            'applied to the re-imaged position, minus the site) proved equal to Model.C17.points for every list of operations paired with their inverses', ok,
            'ok' if ok else log[-900:])


# ---------------------------------------------------------------- unit: occupancy bookkeeping and the dense count matrix (C05)
def occupancy_unit():
    tree = _parse('transitions.py')
    occ = [ast.unparse(s) for s in _stmts(_find_func(tree, 'Transitions', 'occupancy'))]
    want = ['sites = self.sites', 'states = self.states', 'unq, counts = np.unique(states, return_counts=True)', 'counts = counts / len(states)',
            'occupancies = dict(zip(unq, counts))',
            'species = [{site.species.elements[0].name: occupancies.get(i, 0)} for i, site in enumerate(sites)]', None]
    if len(occ) != len(want) or any(w is not None and w != o for w, o in zip(want, occ)):
        k = next((i for i, (w, o) in enumerate(zip(want, occ)) if w is not None and w != o), len(occ))
        raise Unsupported('occupancy statement %d: %s' % (k, occ[k][:140] if k < len(occ) else '<missing>'))
    for need in ('lattice=sites.lattice', 'species=species', 'coords=sites.frac_coords', 'site_properties=sites.site_properties', 'labels=sites.labels'):
        if need not in occ[6]:
            raise Unsupported('occupancy: returned Structure lacks `%s`' % need)
    loop = 'for site in self.occupancy():\n    compositions_by_label[site.label].append(site.species.num_atoms)'
    bt = [ast.unparse(s) for s in _stmts(_find_func(tree, 'Transitions', 'occupancy_by_site_type'))]
    if bt != ['compositions_by_label = defaultdict(list)', loop, 'return {k: sum(v) / len(v) for k, v in compositions_by_label.items()}']:
        raise Unsupported('occupancy_by_site_type: ' + ' | '.join(bt)[:300])
    al = [ast.unparse(s) for s in _stmts(_find_func(tree, 'Transitions', 'atom_locations'))]
    if al != ['n = self.n_floating', 'compositions_by_label = defaultdict(list)', loop, 'return {k: sum(v) / n for k, v in compositions_by_label.items()}']:
        raise Unsupported('atom_locations: ' + ' | '.join(al)[:300])
    nf = _find_func(tree, 'Transitions', 'n_floating')
    if [ast.unparse(d) for d in nf.decorator_list] != ['property'] or [ast.unparse(s) for s in _stmts(nf)] != ['return len(self.diff_trajectory.species)']:
        raise Unsupported('n_floating: ' + ast.unparse(nf)[-80:])
    cm = [ast.unparse(s) for s in _stmts(_find_func(tree, None, '_calculate_transitions_matrix'))]
    if cm != ['transitions = np.zeros((n_sites, n_sites), dtype=int)',
              "idx, counts = np.unique(events[['start site', 'destination site']], return_counts=True, axis=0)",
              'start_idx, stop_idx = idx.T', 'transitions[start_idx, stop_idx] = counts', 'return transitions']:
        raise Unsupported('_calculate_transitions_matrix: ' + ' | '.join(cm)[:300])
    for cls, fn, ret in (('Transitions', 'matrix', 'return _calculate_transitions_matrix(self.events, n_sites=self.n_sites)'),):
        g = [ast.unparse(s) for s in _stmts(_find_func(tree, cls, fn))]
        if g != [ret]:
            raise Unsupported(f'{cls}.{fn}: ' + ' | '.join(g)[:200])
    jt = _parse('jumps.py')
    g = [ast.unparse(s) for s in _stmts(_find_func(jt, 'Jumps', 'matrix'))]
    if g != ['return _calculate_transitions_matrix(self.data, n_sites=self.transitions.n_sites)']:
        raise Unsupported('Jumps.matrix: ' + ' | '.join(g)[:200])


def gen_occupancy():
    os.makedirs(GEN, exist_ok=True)
    try:
        occupancy_unit()
    except Unsupported as e:
        return ('occupancy', False, f'translator: unsupported {e}')
    src = '(* GENERATED (static text harness/occupancy_proof.v.txt, emitted only when the statements of Transitions.occupancy, occupancy_by_site_type,\n' \
          '   atom_locations, n_floating, _calculate_transitions_matrix and the two matrix() methods are the ones it transcribes) -- do not edit *)\n' \
          + open(os.path.join(_V, 'harness', 'occupancy_proof.v.txt')).read()
    open(os.path.join(GEN, 'Occupancy.v'), 'w').write(src)
    ok, log = compile_gen('Occupancy.v')
    return ('occupancy: statements of Transitions.occupancy (np.unique counts over the whole state table / frames, get(i, 0)), occupancy_by_site_type (mean over the '
            'sites of a label), atom_locations (sum over the sites of a label / diffusing atoms), n_floating, _calculate_transitions_matrix and both matrix() methods; '
            'count over the flattened table = Model.C05.occ_count; the per-label sums add up to the visited (frame, atom) entries and the per-label site counts to '
            'the number of sites (gen_label_total, gen_label_sites_total)', ok, 'ok' if ok else log[-800:])


# ---------------------------------------------------------------- unit: optimal_percolating_path (C10)
def percolate_unit():
    tree = _parse('path.py')
    f = _find_func(tree, None, 'optimal_percolating_path')
    st = _stmts(f)
    src = [ast.unparse(s) for s in st]
    want = ["percolate_xyz = np.array([dim in percolate for dim in 'xyz'])", "if not percolate_xyz.any():\n    raise ValueError('percolation is not defined')",
            'F_data_periodic = np.tile(F.data, tuple(1 + percolate_xyz))', 'F_graph = free_energy_graph(F_data_periodic, max_energy_threshold=10000000.0)',
            'image = F.dims * percolate_xyz', "best_cost = float('inf')", 'best_path = None', None, 'if best_path:\n    best_path.dims = F.dims', 'return best_path']
    if len(src) != len(want) or any(w is not None and w != s for w, s in zip(want, src)):
        k = next((i for i, (w, s) in enumerate(zip(want, src)) if w is not None and w != s), len(src))
        raise Unsupported('optimal_percolating_path statement %d: %s' % (k, src[k][:140] if k < len(src) else '<missing>'))
    loop = st[7]
    if not (isinstance(loop, ast.For) and ast.unparse(loop.target) == 'start_point' and ast.unparse(loop.iter) == 'peaks' and not loop.orelse and len(loop.body) == 4):
        raise Unsupported('optimal_percolating_path: loop over the peaks')
    b = [ast.unparse(s) for s in loop.body]
    if b[0] != 'stop_point = start_point + image' or b[2] != 'cost = path.total_energy' \
            or b[1] != 'try:\n    path = optimal_path(F_graph, start=start_point, stop=stop_point)\nexcept nx.NetworkXNoPath:\n    continue' \
            or b[3] != 'if cost < best_cost:\n    best_cost = cost\n    best_path = path':
        raise Unsupported('optimal_percolating_path loop body: ' + ' | '.join(b)[:400])
    # the default criterion of optimal_path is what the search uses: no method argument is passed, so its default must be the additive one
    op = _find_func(tree, None, 'optimal_path')
    dflt = {a.arg: ast.unparse(d) for a, d in zip(op.args.kwonlyargs, op.args.kw_defaults) if d is not None}
    pos_d = {a.arg: ast.unparse(d) for a, d in zip(op.args.args[len(op.args.args) - len(op.args.defaults):], op.args.defaults)}
    m = {**pos_d, **dflt}.get('method')
    if m != "'dijkstra'":
        raise Unsupported('optimal_path: default method is %s' % m)


def gen_percolate():
    os.makedirs(GEN, exist_ok=True)
    try:
        percolate_unit()
    except Unsupported as e:
        return ('percolate', False, f'translator: unsupported {e}')
    src = '(* GENERATED (static text harness/percolate_proof.v.txt, emitted only when the statements of gemdat.path.optimal_percolating_path are the ones it\n' \
          '   transcribes: tiling by 1 + percolate_xyz, image = dims * percolate_xyz, skip on NetworkXNoPath, strict improvement) -- do not edit *)\n' \
          + open(os.path.join(_V, 'harness', 'percolate_proof.v.txt')).read()
    open(os.path.join(GEN, 'Percolate.v'), 'w').write(src)
    ok, log = compile_gen('Percolate.v')
    return ('percolate: statements of optimal_percolating_path (axes from the letters, rejection of no axis, tiling, graph with the default threshold, image of the peak, '
            'loop with skip on no path and strict improvement, dims restored); tiling and image = Model.C10.tile_dims / perc_stop; the selection returns a cost that is '
            'attained and minimal over the peaks that have a path, and nothing iff none has (gen_best_minimal, gen_best_none)', ok, 'ok' if ok else log[-800:])


# ---------------------------------------------------------------- unit: shape of speed / amplitudes / vibration_amplitude (C14)
def gen_amp_shape():
    """Statement-level check against the structure Model.C14 transcribes: speed = np.diff(distances, prepend=0); per atom the signs of the speed, the
    cyclic comparison with the next frame, first and last split dropped, np.array_split at the following index, one sum per piece; vibration amplitude =
    standard deviation of all amplitudes."""
    try:
        tree = _parse('metrics.py')
        sp = [ast.unparse(s) for s in _stmts(_find_func(tree, 'TrajectoryMetrics', 'speed'))]
        if sp != ['distances = self.trajectory.distances_from_base_position()', 'return np.diff(distances, prepend=0)']:
            raise Unsupported('speed: ' + ' | '.join(sp)[:200])
        f = _find_func(tree, 'TrajectoryMetrics', 'amplitudes')
        st = _stmts(f)
        src = [ast.unparse(s) for s in st]
        if len(st) != 4 or src[0] != 'amplitudes = []' or src[1] != 'speed = self.speed()' or src[3] != 'return np.asarray(amplitudes)' or not isinstance(st[2], ast.For):
            raise Unsupported('amplitudes: ' + ' | '.join(src)[:300])
        loop = st[2]
        if ast.unparse(loop.target) != '(i, speed_range)' or ast.unparse(loop.iter) != 'enumerate(speed)':
            raise Unsupported('amplitudes: loop header ' + ast.unparse(loop.target) + ' in ' + ast.unparse(loop.iter))
        body = [ast.unparse(s) for s in loop.body]
        want = ['signs = np.sign(speed_range)', 'splits = np.where(signs != np.roll(signs, shift=-1))[0]', 'subarrays = np.array_split(speed_range, splits[1:-1] + 1)',
                'amplitudes.extend([np.sum(array) for array in subarrays])']
        if body != want:
            k = next((i for i, (a, b) in enumerate(zip(body, want)) if a != b), min(len(body), len(want)))
            raise Unsupported('amplitudes loop statement %d: %s' % (k, body[k][:140] if k < len(body) else '<missing>'))
        va = [ast.unparse(s) for s in _stmts(_find_func(tree, 'TrajectoryMetrics', 'vibration_amplitude'))]
        if 'amplitudes = self.amplitudes()' not in va or 'vibration_amp = np.std(amplitudes)' not in va or va[-1] != 'return vibration_amp' \
                or "vibration_amp = FloatWithUnit(vibration_amp, 'ang')" not in va:
            raise Unsupported('vibration_amplitude: ' + ' | '.join(va)[:300])
    except Unsupported as e:
        return ('ampshape', False, f'translator: unsupported {e}')
    return ('ampshape: statements of TrajectoryMetrics.speed, amplitudes (signs, cyclic comparison with the next frame, first and last split dropped, array_split at '
            'the following index, one sum per piece) and vibration_amplitude (standard deviation of all amplitudes, in Angstrom) are the ones Model.C14 transcribes', True, 'ok')


# ---------------------------------------------------------------- unit: Collective.site_pair_count_matrix (C12)
def coll_matrix_unit():
    tree = _parse('collective.py')
    f = _find_func(tree, 'Collective', 'site_pair_count_matrix')
    st = _stmts(f)
    src = [ast.unparse(s) for s in st]
    if len(st) != 6 or src[:4] != ['labels = self.sites.labels', 'coll_jumps = self.coll_jumps', 'site_pairs = self.site_pair_count_matrix_labels()',
                                   'site_pair_count_matrix = np.zeros((len(site_pairs), len(site_pairs)), dtype=int)'] or src[5] != 'return site_pair_count_matrix':
        raise Unsupported('site_pair_count_matrix: ' + ' | '.join(src[:4] + src[5:])[:400])
    loop = st[4]
    if not (isinstance(loop, ast.For) and ast.unparse(loop.target) == '((start_i, stop_i), (start_j, stop_j))' and ast.unparse(loop.iter) == 'coll_jumps'):
        raise Unsupported('site_pair_count_matrix: loop header ' + ast.unparse(loop.target))
    body = [ast.unparse(s) for s in loop.body]
    want = ['name_start_i = labels[start_i]', 'name_stop_i = labels[stop_i]', 'name_start_j = labels[start_j]', 'name_stop_j = labels[stop_j]',
            'i = site_pairs.index((name_start_i, name_stop_i))', 'j = site_pairs.index((name_start_j, name_stop_j))', 'site_pair_count_matrix[i, j] += 1']
    if body != want:
        k = next((i for i, (a, b) in enumerate(zip(body, want)) if a != b), min(len(body), len(want)))
        raise Unsupported('site_pair_count_matrix loop statement %d: %s' % (k, body[k][:140] if k < len(body) else '<missing>'))
    lb = [ast.unparse(s) for s in _stmts(_find_func(tree, 'Collective', 'site_pair_count_matrix_labels'))]
    if lb != ['labels = self.sites.labels', 'return list({(label1, label2) for label1 in labels for label2 in labels})']:
        raise Unsupported('site_pair_count_matrix_labels: ' + ' | '.join(lb)[:300])
    # what is appended to coll_jumps in _compute: the (start, destination) sites of the two events of a collective pair
    comp = ast.unparse(_find_func(tree, 'Collective', '_compute'))
    if "coll_jumps.append(((event_i['start site'], event_i['destination site']), (event_j['start site'], event_j['destination site'])))" not in comp:
        raise Unsupported('_compute: what is appended to coll_jumps')


def gen_coll_matrix():
    os.makedirs(GEN, exist_ok=True)
    try:
        coll_matrix_unit()
    except Unsupported as e:
        return ('collmatrix', False, f'translator: unsupported {e}')
    src = '(* GENERATED (static text harness/collmatrix_proof.v.txt, emitted only when the statements of Collective.site_pair_count_matrix,\n' \
          '   site_pair_count_matrix_labels and the coll_jumps bookkeeping of _compute are the ones it transcribes) -- do not edit *)\n' \
          + open(os.path.join(_V, 'harness', 'collmatrix_proof.v.txt')).read()
    open(os.path.join(GEN, 'CollMatrix.v'), 'w').write(src)
    ok, log = compile_gen('CollMatrix.v')
    return ('collmatrix: statements of Collective.site_pair_count_matrix (labels of the four sites, index of the two label pairs, += 1), of '
            'site_pair_count_matrix_labels (every pair of labels once) and of the coll_jumps bookkeeping; the matrix counts each collective pair in exactly the cell of '
            'its two label pairs and sums to the number of collective pairs (gen_matrix_total)', ok, 'ok' if ok else log[-800:])


# ---------------------------------------------------------------- unit: shape of the frame-0 matching of Orientations (C18)
def gen_bond_match_shape():
    """Statement-level check: the distance table is lattice.get_all_distances between the base positions of the centre and satellite selections, the cut-off is
    1.5 x the global minimum, and each centre is matched with the first four satellites below it (the structure Model.C18's matching transcribes)."""
    try:
        tree = _parse('orientations.py')
        d = _find_func(tree, 'Orientations', '_distances')
        src = [ast.unparse(s) for s in _stmts(d)]
        want = ['central_start_coord = self._trajectory_cent.base_positions', 'assert central_start_coord is not None',
                'satellite_start_coord = self._trajectory_sat.base_positions', 'assert satellite_start_coord is not None', 'lattice = self.trajectory.get_lattice()',
                'distance = np.array([[lattice.get_all_distances(central, satellite) for satellite in satellite_start_coord] for central in central_start_coord])',
                'return distance']
        if src != want:
            k = next((i for i, (a, b) in enumerate(zip(src, want)) if a != b), min(len(src), len(want)))
            raise Unsupported('_distances statement %d: %s' % (k, src[k][:160] if k < len(src) else '<missing>'))
        m = _find_func(tree, 'Orientations', '_matching_matrix')
        st = _stmts(m)
        src = [ast.unparse(s) for s in st]
        want = ['match_criteria = 1.5 * np.min(distance)', 'distance_match = np.where(distance < match_criteria, distance, 0)',
                'matching_matrix = np.zeros((len(frac_coord_cent[0, :, 0]), 4), dtype=int)',
                'for k in range(len(frac_coord_cent[0, :, 0])):\n    matching_matrix[k, :] = np.where(distance_match[k, :] != 0)[0][:4]', 'return matching_matrix']
        if src != want:
            k = next((i for i, (a, b) in enumerate(zip(src, want)) if a != b), min(len(src), len(want)))
            raise Unsupported('_matching_matrix statement %d: %s' % (k, src[k][:160] if k < len(src) else '<missing>'))
        for prop, sel in (('_trajectory_cent', 'self.center_type'), ('_trajectory_sat', 'self.satellite_type')):
            g = [ast.unparse(s) for s in _stmts(_find_func(tree, 'Orientations', prop))]
            if g != [f'return self.trajectory.filter({sel})']:
                raise Unsupported(f'{prop}: ' + ' | '.join(g)[:200])
    except Unsupported as e:
        return ('bondmatch', False, f'translator: unsupported {e}')
    return ('bondmatch: statements of Orientations._distances (minimum-image distances between the first-frame positions of the two selections), _matching_matrix '
            '(cut-off 1.5 x the smallest distance, first four satellites below it per centre) and the two selections are the ones the C18 oracle and model assume', True, 'ok')


# ---------------------------------------------------------------- unit: shape of the two radial-distribution functions (C11)
def gen_rdf_shape():
    """Statement-level check against what Model.C11 and the C11 oracle transcribe: shell edges np.arange(0, max_dist + resolution, resolution), right-closed
    np.digitize with one overflow bin that is dropped at the end, minimum-image distances from the diffusing atoms to all atoms per frame, one np.bincount per
    (state, symbol); for species pairs np.histogram over the same edges divided by particle density x 4/3 pi ((r + dr)^3 - r^3)."""
    try:
        tree = _parse('rdf.py')
        f = _find_func(tree, None, 'radial_distribution')
        src = [ast.unparse(s) for s in _stmts(f)]
        need = ['trajectory = transitions.trajectory', 'sites = transitions.sites', 'base_structure = trajectory.get_structure(0)', 'lattice = trajectory.get_lattice()',
                'coords = trajectory.positions', 'sp_coords = trajectory.filter(floating_specie).positions', 'states2str = _get_states(sites.labels)',
                'states_array = _get_states_array(transitions, sites.labels)', 'symbol_indices = _get_symbol_indices(base_structure)',
                'bins = np.arange(0, max_dist + resolution, resolution)', 'length = len(bins) + 1', 'n_steps = len(trajectory)', 'return ret']
        for n in need:
            if n not in src:
                raise Unsupported('radial_distribution: missing `%s`' % n)
        loops = [s for s in _stmts(f) if isinstance(s, ast.For)]
        if len(loops) != 2:
            raise Unsupported('radial_distribution: %d loops' % len(loops))
        body = [ast.unparse(s) for s in loops[0].body]
        want = ['t_coords = coords[i]', 't_sp_coords = sp_coords[i]', 'dists = lattice.get_all_distances(t_sp_coords, t_coords)', 'rdf = np.digitize(dists, bins, right=True)',
                'states = np.unique(states_array[i], axis=0)', 't_states = states_array[i]',
                'for state in states:\n    k_idx = np.argwhere(t_states == state)\n    state_str = states2str[state]\n    for symbol, symbol_idx in symbol_indices.items():\n'
                '        rdf_state = rdf[k_idx, symbol_idx].flatten()\n        rdfs[state_str, symbol] += np.bincount(rdf_state, minlength=length)']
        if body != want:
            k = next((i for i, (a, b) in enumerate(zip(body, want)) if a != b), min(len(body), len(want)))
            raise Unsupported('radial_distribution frame loop statement %d: %s' % (k, body[k][:200] if k < len(body) else '<missing>'))
        fin = ast.unparse(loops[1])
        for n in ('for (state, symbol), values in rdfs.items():', 'x=bins', 'y=values[:-1]', 'label=symbol', 'state=state', 'ret.setdefault(state, RDFCollection())',
                  'ret[state].append(rdf_data)'):
            if n not in fin:
                raise Unsupported('radial_distribution result loop: missing `%s`' % n)
        g = _find_func(tree, None, 'radial_distribution_between_species')
        src = [ast.unparse(s) for s in _stmts(g)]
        need = ['coords_1 = trajectory.filter(specie_1).coords', 'coords_2 = trajectory.filter(specie_2).coords', 'lattice = trajectory.get_lattice()',
                'particle_vol = num_atoms / lattice.volume',
                'all_dists = np.concatenate([lattice.get_all_distances(coords_1[t, :, :], coords_2[t, :, :]) for t in range(num_time_steps)])',
                'distances = all_dists.flatten()', 'bins = np.arange(0, max_dist + resolution, resolution)', 'rdf, _ = np.histogram(distances, bins=bins, density=False)',
                'norm = normalize(bins)[:-1]', 'counts = rdf / norm', "return RDFData(x=bins[:-1], y=counts, label=f'{str1}-{str2}', state='')"]
        for n in need:
            if n not in src:
                raise Unsupported('radial_distribution_between_species: missing `%s`' % n[:80])
        nf = [x for x in g.body if isinstance(x, ast.FunctionDef) and x.name == 'normalize']
        if len(nf) != 1 or [ast.unparse(x) for x in _stmts(nf[0])] != ['shell = (radius + resolution) ** 3 - radius ** 3', 'return particle_vol * (4 / 3) * np.pi * shell'] \
                or [a.arg for a in nf[0].args.args] != ['radius']:
            raise Unsupported('radial_distribution_between_species: normalisation')
    except Unsupported as e:
        return ('rdfshape', False, f'translator: unsupported {e}')
    return ('rdfshape: statements of radial_distribution (edges, right-closed digitize with an overflow bin dropped at the end, minimum-image distances per frame, one '
            'bincount per (state, symbol)) and radial_distribution_between_species (histogram over the same edges / (particle density x 4/3 pi ((r + dr)^3 - r^3))) '
            'are the ones Model.C11 and the C11 certificates transcribe', True, 'ok')


# ---------------------------------------------------------------- unit: utils.meanfreq / attempt_frequency (C14)
def meanfreq_unit():
    tree = _parse('utils.py')
    src = [ast.unparse(s) for s in _stmts(_find_func(tree, None, 'meanfreq'))]
    want = ['if x.ndim == 1:\n    x = x.reshape(1, -1)', 'assert x.ndim == 2', 'f, Pxx_den = signal.periodogram(x, fs, axis=-1)', 'width = np.tile(f[1] - f[0], Pxx_den.shape)',
            'P = Pxx_den * width', 'pwr = np.sum(P, axis=1).reshape(-1, 1)', 'f = f.reshape(1, -1)', 'mnfreq = np.dot(P, f.T) / pwr', 'return mnfreq']
    if src != want:
        k = next((i for i, (a, b) in enumerate(zip(src, want)) if a != b), min(len(src), len(want)))
        raise Unsupported('meanfreq statement %d: %s' % (k, src[k][:140] if k < len(src) else '<missing>'))
    mt = _parse('metrics.py')
    af = [ast.unparse(s) for s in _stmts(_find_func(mt, 'TrajectoryMetrics', 'attempt_frequency'))]
    want = ['speed = self.speed()', 'freq_mean = meanfreq(speed, fs=self.trajectory.sampling_frequency)', 'attempt_freq_std = np.std(freq_mean)',
            "attempt_freq_std = FloatWithUnit(attempt_freq_std, 'hz')", 'attempt_freq = np.mean(freq_mean)', "attempt_freq = FloatWithUnit(attempt_freq, 'hz')",
            'return (attempt_freq, attempt_freq_std)']
    if af != want:
        k = next((i for i, (a, b) in enumerate(zip(af, want)) if a != b), min(len(af), len(want)))
        raise Unsupported('attempt_frequency statement %d: %s' % (k, af[k][:140] if k < len(af) else '<missing>'))
    tj = _parse('trajectory.py')
    sf = [ast.unparse(s) for s in _stmts(_find_func(tj, 'Trajectory', 'sampling_frequency'))]
    if sf != ['assert self.time_step', 'return 1 / self.time_step']:
        raise Unsupported('sampling_frequency: ' + ' | '.join(sf)[:200])


def gen_meanfreq():
    os.makedirs(GEN, exist_ok=True)
    try:
        meanfreq_unit()
    except Unsupported as e:
        return ('meanfreq', False, f'translator: unsupported {e}')
    src = '(* GENERATED (static text harness/meanfreq_proof.v.txt, emitted only when the statements of utils.meanfreq, TrajectoryMetrics.attempt_frequency and\n' \
          '   Trajectory.sampling_frequency are the ones it transcribes) -- do not edit *)\n' + open(os.path.join(_V, 'harness', 'meanfreq_proof.v.txt')).read()
    open(os.path.join(GEN, 'MeanFreq.v'), 'w').write(src)
    ok, log = compile_gen('MeanFreq.v')
    return ('meanfreq: statements of utils.meanfreq (periodogram, bin width f[1] - f[0], power x width, weighted mean of the frequency grid), attempt_frequency '
            '(mean and standard deviation over the atoms, in Hz) and sampling_frequency (1 / time step); the literal computation with the bin width in numerator and '
            'denominator proved equal to Model.C14.meanfreq (gen_meanfreq_is_model)', ok, 'ok' if ok else log[-800:])
