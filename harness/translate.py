"""Fail-closed translators from /repo/src/gemdat/*.py to Gallina (written to coq/Gen/).

Each unit returns (name, ok, detail).  Any construct outside the small whitelist of a
unit raises Unsupported, which makes that unit report ok=False ("translator:
unsupported <node>"); nothing is ever guessed.
"""
from __future__ import annotations

import ast
import os
import subprocess

SRC = '/repo/src/gemdat'
GEN = '/verif/coq/Gen'
COQ = '/verif/coq'


class Unsupported(Exception):
    pass


def _parse(fname):
    return ast.parse(open(os.path.join(SRC, fname)).read())


def _find_func(tree, cls, name):
    for node in ast.walk(tree):
        if isinstance(node, ast.ClassDef) and node.name == cls:
            for f in node.body:
                if isinstance(f, ast.FunctionDef) and f.name == name:
                    return f
    for node in tree.body:
        if cls is None and isinstance(node, ast.FunctionDef) and node.name == name:
            return node
    raise Unsupported(f'function {cls}.{name} not found')


def _coq_strs(xs):
    return '[' + '; '.join('"%s"' % x for x in xs) + ']%string'


def compile_gen(fname, timeout=300):
    p = subprocess.run(['timeout', str(timeout), 'coqc', '-R', COQ, 'GV', os.path.join(GEN, fname)],
                       cwd=GEN, stdout=subprocess.PIPE, stderr=subprocess.STDOUT, text=True)
    return p.returncode == 0, p.stdout[-2000:]


# ---------------------------------------------------------------- unit: cache key (C16)
def _names_in(node):
    return {n.id for n in ast.walk(node) if isinstance(n, ast.Name)}


def cache_key_unit():
    """For the three loaders: which parameters determine the default cache file name, and
    which parameters are read by the parsing part of the function."""
    tree = _parse('trajectory.py')
    out = {}
    for fn in ('from_vasprun', 'from_lammps', 'from_gromacs'):
        f = _find_func(tree, 'Trajectory', fn)
        params = [a.arg for a in f.args.args + f.args.kwonlyargs if a.arg not in ('cls', 'cache')]
        varkw = f.args.kwarg.arg if f.args.kwarg else None
        # locate "if not cache:" block
        blk = None
        rest = []
        for st in f.body:
            if (isinstance(st, ast.If) and isinstance(st.test, ast.UnaryOp) and isinstance(st.test.op, ast.Not)
                    and isinstance(st.test.operand, ast.Name) and st.test.operand.id == 'cache'):
                if blk is not None:
                    raise Unsupported('two "if not cache" blocks')
                blk = st
            else:
                rest.append(st)
        if blk is None or blk.orelse:
            raise Unsupported(f'{fn}: no plain "if not cache:" block')
        hashed = set()
        dict_name = None
        for st in blk.body:
            if isinstance(st, ast.Assign) and len(st.targets) == 1 and isinstance(st.targets[0], ast.Name):
                tgt = st.targets[0].id
                if isinstance(st.value, ast.Dict):
                    for k, v in zip(st.value.keys, st.value.values):
                        if not (isinstance(k, ast.Constant) and isinstance(k.value, str) and isinstance(v, ast.Name) and v.id == k.value):
                            raise Unsupported(f'{fn}: dict entry is not "name": name')
                        hashed.add('**' + v.id if v.id == varkw else v.id)
                    dict_name = tgt
                elif tgt == 'serialized':
                    # json.dumps(<dict>, sort_keys=True).encode()
                    names = _names_in(st.value) - {'json'}
                    if dict_name is None:
                        if varkw is None or names != {varkw}:
                            raise Unsupported(f'{fn}: serialized from {names}')
                        hashed.add('**' + varkw)
                    elif names != {dict_name}:
                        raise Unsupported(f'{fn}: serialized from {names}')
                elif tgt == 'hashid':
                    if _names_in(st.value) != {'hashlib', 'serialized'}:
                        raise Unsupported(f'{fn}: hashid')
                elif tgt == 'cache':
                    for n in _names_in(st.value) - {'Path', 'hashid'}:
                        if n not in params:
                            raise Unsupported(f'{fn}: cache name uses {n}')
                        hashed.add(n)
                else:
                    raise Unsupported(f'{fn}: assignment to {tgt} in cache-name block')
            else:
                raise Unsupported(f'{fn}: statement {type(st).__name__} in cache-name block')
        # setdefault calls on **kwargs before the block are part of the hashed dict (vasprun)
        used = set()
        for st in rest:
            if isinstance(st, ast.Expr) and isinstance(st.value, ast.Constant):
                continue   # docstring
            used |= _names_in(st)
        relevant = [p for p in params if p in used]
        if varkw and varkw in used:
            relevant.append('**' + varkw)
        out[fn] = {'params': params, 'hashed': sorted(hashed), 'relevant': relevant}
    return out


def gen_cache_key():
    os.makedirs(GEN, exist_ok=True)
    try:
        info = cache_key_unit()
    except Unsupported as e:
        return ('cachekey', False, f'translator: unsupported {e}'), None
    lines = ['(* GENERATED from /repo/src/gemdat/trajectory.py on every run -- do not edit *)',
             'From Coq Require Import List String Bool.', 'Import ListNotations.', 'Open Scope string_scope.', '']
    for fn, d in info.items():
        lines.append(f'Definition {fn}_in_name : list string := {_coq_strs(d["hashed"])}.')
        lines.append(f'Definition {fn}_relevant : list string := {_coq_strs(d["relevant"])}.')
    lines += ['', 'Definition covers (hashed relevant : list string) : bool :=',
              '  forallb (fun p => existsb (String.eqb p) hashed) relevant.', '',
              '(* every argument that the parsing code reads is part of the default cache file name *)']
    for fn in info:
        lines.append(f'Theorem {fn}_key_separates : covers {fn}_in_name {fn}_relevant = true.')
        lines.append('Proof. vm_compute. reflexivity. Qed.')
    open(os.path.join(GEN, 'CacheKey.v'), 'w').write('\n'.join(lines) + '\n')
    ok, log = compile_gen('CacheKey.v')
    missing = {fn: [p for p in d['relevant'] if p not in d['hashed']] for fn, d in info.items()}
    return ('cachekey: generated key_separates theorems', ok, f'arguments read by the parser but not in the cache name: {missing}' if not ok else 'ok'), info


# ---------------------------------------------------------------- unit: voxel / site index expressions (C08, C10)
_BINOPS = {ast.Add: '+', ast.Sub: '-', ast.Mult: '*', ast.Mod: 'mod', ast.FloorDiv: '/'}


def _zexpr(node, env):
    """integer expression over names in env -> Gallina Z term"""
    if isinstance(node, ast.Name):
        if node.id not in env:
            raise Unsupported(f'name {node.id}')
        return env[node.id]
    if isinstance(node, ast.Constant) and isinstance(node.value, int) and not isinstance(node.value, bool):
        return f'({node.value})' if node.value < 0 else str(node.value)
    if isinstance(node, ast.BinOp) and type(node.op) in _BINOPS:
        return f'({_zexpr(node.left, env)} {_BINOPS[type(node.op)]} {_zexpr(node.right, env)})'
    if isinstance(node, ast.UnaryOp) and isinstance(node.op, ast.USub):
        return f'(- {_zexpr(node.operand, env)})'
    raise Unsupported(ast.dump(node)[:80])


def wrapped_sites_unit():
    """Pathway.wrapped_sites: `xdim, ydim, zdim = self.dims; return [(e1, e2, e3) for x, y, z in self.sites]`"""
    f = _find_func(_parse('path.py'), 'Pathway', 'wrapped_sites')
    body = [st for st in f.body if not (isinstance(st, ast.Expr) and isinstance(st.value, ast.Constant))]
    # optional guard `if not self.dims: raise ...`
    if body and isinstance(body[0], ast.If):
        if not (len(body[0].body) == 1 and isinstance(body[0].body[0], ast.Raise) and not body[0].orelse):
            raise Unsupported('guard is not a plain raise')
        body = body[1:]
    if len(body) != 2:
        raise Unsupported(f'{len(body)} statements')
    unpack, ret = body
    if not (isinstance(unpack, ast.Assign) and isinstance(unpack.targets[0], ast.Tuple) and len(unpack.targets[0].elts) == 3
            and isinstance(unpack.value, ast.Attribute) and unpack.value.attr == 'dims'):
        raise Unsupported('dims unpacking')
    dnames = [e.id for e in unpack.targets[0].elts]
    if not (isinstance(ret, ast.Return) and isinstance(ret.value, ast.ListComp) and len(ret.value.generators) == 1):
        raise Unsupported('return is not a list comprehension')
    gen = ret.value.generators[0]
    if gen.ifs or not (isinstance(gen.target, ast.Tuple) and len(gen.target.elts) == 3
                       and isinstance(gen.iter, ast.Attribute) and gen.iter.attr == 'sites'):
        raise Unsupported('comprehension shape')
    snames = [e.id for e in gen.target.elts]
    elt = ret.value.elt
    if not (isinstance(elt, ast.Tuple) and len(elt.elts) == 3):
        raise Unsupported('element is not a 3-tuple')
    env = {n: n for n in dnames + snames}
    exprs = [_zexpr(e, env) for e in elt.elts]
    return dnames, snames, exprs


def frac_sites_unit():
    """Pathway.frac_sites: `sites = self.wrapped_sites(); return (np.array(sites) + 0.5) / np.array(self.dims)`"""
    f = _find_func(_parse('path.py'), 'Pathway', 'frac_sites')
    body = [st for st in f.body if not (isinstance(st, ast.Expr) and isinstance(st.value, ast.Constant))]
    if body and isinstance(body[0], ast.If):
        body = body[1:]
    if len(body) != 2:
        raise Unsupported('frac_sites shape')
    a, r = body
    if not (isinstance(a, ast.Assign) and isinstance(a.value, ast.Call) and isinstance(a.value.func, ast.Attribute)
            and a.value.func.attr == 'wrapped_sites' and not a.value.args):
        raise Unsupported('sites = self.wrapped_sites()')
    v = r.value
    ok = (isinstance(r, ast.Return) and isinstance(v, ast.BinOp) and isinstance(v.op, ast.Div)
          and isinstance(v.left, ast.BinOp) and isinstance(v.left.op, ast.Add)
          and isinstance(v.left.right, ast.Constant) and v.left.right.value == 0.5
          and isinstance(v.left.left, ast.Call) and getattr(v.left.left.func, 'attr', '') == 'array'
          and isinstance(v.left.left.args[0], ast.Name) and v.left.left.args[0].id == a.targets[0].id
          and isinstance(v.right, ast.Call) and getattr(v.right.func, 'attr', '') == 'array'
          and isinstance(v.right.args[0], ast.Attribute) and v.right.args[0].attr == 'dims')
    if not ok:
        raise Unsupported('frac_sites expression')
    return True


def volume_index_unit():
    """Volume.voxel_to_frac_coords = (np.array(voxel) + 0.5) / np.array(self.dims);
    Volume.frac_coords_to_voxel = (np.array(frac_coords) * np.array(self.dims)).astype(int)"""
    tree = _parse('volume.py')
    f1 = _find_func(tree, 'Volume', 'voxel_to_frac_coords')
    r = [st for st in f1.body if isinstance(st, ast.Return)]
    v = r[0].value if len(r) == 1 else None
    ok1 = (v is not None and isinstance(v, ast.BinOp) and isinstance(v.op, ast.Div) and isinstance(v.left, ast.BinOp)
           and isinstance(v.left.op, ast.Add) and isinstance(v.left.right, ast.Constant) and v.left.right.value == 0.5
           and isinstance(v.left.left, ast.Call) and v.left.left.args and isinstance(v.left.left.args[0], ast.Name)
           and v.left.left.args[0].id == 'voxel' and isinstance(v.right, ast.Call)
           and isinstance(v.right.args[0], ast.Attribute) and v.right.args[0].attr == 'dims')
    f2 = _find_func(tree, 'Volume', 'frac_coords_to_voxel')
    r = [st for st in f2.body if isinstance(st, ast.Return)]
    v = r[0].value if len(r) == 1 else None
    ok2 = (v is not None and isinstance(v, ast.Call) and isinstance(v.func, ast.Attribute) and v.func.attr == 'astype'
           and len(v.args) == 1 and isinstance(v.args[0], ast.Name) and v.args[0].id == 'int'
           and isinstance(v.func.value, ast.BinOp) and isinstance(v.func.value.op, ast.Mult)
           and isinstance(v.func.value.left, ast.Call) and v.func.value.left.args[0].id == 'frac_coords'
           and isinstance(v.func.value.right, ast.Call) and v.func.value.right.args[0].attr == 'dims')
    if not (ok1 and ok2):
        raise Unsupported(f'voxel_to_frac_coords ok={ok1} frac_coords_to_voxel ok={ok2}')
    return True


def gen_voxel():
    os.makedirs(GEN, exist_ok=True)
    try:
        dn, sn, ex = wrapped_sites_unit()
        frac_sites_unit()
        volume_index_unit()
    except Unsupported as e:
        return ('voxel', False, f'translator: unsupported {e}')
    defs = ['(* GENERATED from /repo/src/gemdat/path.py and volume.py on every run -- do not edit *)',
            'From GV Require Import Base.Prelude.', '',
            'Definition wrapped_site (dims s : Z * Z * Z) : Z * Z * Z :=',
            f"  let '({dn[0]}, {dn[1]}, {dn[2]}) := dims in let '({sn[0]}, {sn[1]}, {sn[2]}) := s in",
            f'  ({ex[0]}, {ex[1]}, {ex[2]}).', '',
            '(* frac_sites = (wrapped + 0.5) / dims, voxel_to_frac_coords = (voxel + 0.5) / dims: numerator, denominator per axis *)',
            'Definition frac_site (dims s : Z * Z * Z) : (Z * Z) * (Z * Z) * (Z * Z) :=',
            "  let '(nx, ny, nz) := dims in let '(x, y, z) := wrapped_site dims s in",
            '  ((2 * x + 1, 2 * nx), (2 * y + 1, 2 * ny), (2 * z + 1, 2 * nz)).']
    open(os.path.join(GEN, 'VoxelDef.v'), 'w').write('\n'.join(defs) + '\n')
    okd, logd = compile_gen('VoxelDef.v')
    if not okd:
        return ('voxel', False, 'generated definitions do not compile: ' + logd[-400:])
    lines = ['(* GENERATED on every run -- theorems about the generated definitions *)',
             'From GV Require Import Base.Prelude Gen.VoxelDef.', '',
             '(* wrapped voxel coordinates lie inside the original grid along every axis *)',
             'Theorem wrapped_in_grid : forall nx ny nz x y z, 0 < nx -> 0 < ny -> 0 < nz ->',
             "  let '(a, b, c) := wrapped_site (nx, ny, nz) (x, y, z) in",
             '  0 <= a < nx /\\ 0 <= b < ny /\\ 0 <= c < nz.',
             'Proof. intros nx ny nz x y z Hx Hy Hz. unfold wrapped_site. repeat split; lia. Qed.', '',
             '(* and they are the same voxel modulo the grid *)',
             'Theorem wrapped_congruent : forall nx ny nz x y z, 0 < nx -> 0 < ny -> 0 < nz ->',
             "  let '(a, b, c) := wrapped_site (nx, ny, nz) (x, y, z) in",
             '  (exists k, a = x + k * nx) /\\ (exists k, b = y + k * ny) /\\ (exists k, c = z + k * nz).',
             'Proof. intros nx ny nz x y z Hx Hy Hz. unfold wrapped_site. repeat split;',
             '  [exists (- (x / nx)) | exists (- (y / ny)) | exists (- (z / nz))]; lia. Qed.', '',
             '(* fractional coordinates of the wrapped sites lie strictly inside the unit cell *)',
             'Theorem frac_in_cell : forall nx ny nz x y z, 0 < nx -> 0 < ny -> 0 < nz ->',
             "  let '((a, da), (b, db), (c, dc)) := frac_site (nx, ny, nz) (x, y, z) in",
             '  0 < a < da /\\ 0 < b < db /\\ 0 < c < dc.',
             'Proof. intros nx ny nz x y z Hx Hy Hz. unfold frac_site, wrapped_site. repeat split; lia. Qed.']
    open(os.path.join(GEN, 'Voxel.v'), 'w').write('\n'.join(lines) + '\n')
    ok, log = compile_gen('Voxel.v')
    return ('voxel: generated wrapped_site/frac_site + wrapped_in_grid, wrapped_congruent, frac_in_cell', ok,
            'ok' if ok else 'generated definition: wrapped_site = (' + ', '.join(ex) + ') -- theorem does not go through: ' + log[-600:])


# ---------------------------------------------------------------- unit: optimal_path method dispatch (C10)
def dispatch_unit():
    """Symbolically execute the method-dispatch prefix/suffix of optimal_path for each method literal."""
    f = _find_func(_parse('path.py'), None, 'optimal_path')
    methods = ['dijkstra', 'bellman-ford', 'minmax-energy', 'dijkstra-exp', 'simple']
    table = {}

    def cond(test, env):
        if isinstance(test, ast.Compare) and len(test.ops) == 1 and isinstance(test.left, ast.Name) and test.left.id == 'method':
            c = test.comparators[0]
            if isinstance(test.ops[0], ast.Eq) and isinstance(c, ast.Constant):
                return env['method'] == c.value
            if isinstance(test.ops[0], (ast.In, ast.NotIn)) and isinstance(c, ast.Tuple) and all(isinstance(e, ast.Constant) for e in c.elts):
                r = env['method'] in [e.value for e in c.elts]
                return r if isinstance(test.ops[0], ast.In) else not r
        raise Unsupported('condition ' + ast.dump(test)[:80])

    def run(stmts, env):
        for st in stmts:
            if isinstance(st, ast.Expr) and isinstance(st.value, ast.Constant):
                continue
            if isinstance(st, ast.If):
                run(st.body if cond(st.test, env) else st.orelse, env)
            elif isinstance(st, ast.Assign) and len(st.targets) == 1 and isinstance(st.targets[0], ast.Name):
                t = st.targets[0].id
                if t in ('weight', 'method') and isinstance(st.value, ast.Constant):
                    env[t] = st.value.value
                elif t in ('start', 'stop'):
                    pass
                elif t == 'optimal_path' and isinstance(st.value, ast.Call):
                    fn = st.value.func
                    name = fn.attr if isinstance(fn, ast.Attribute) else fn.id
                    if name == 'shortest_path':
                        kw = {k.arg: k.value for k in st.value.keywords}
                        if not (isinstance(kw.get('weight'), ast.Name) and kw['weight'].id == 'weight'
                                and isinstance(kw.get('method'), ast.Name) and kw['method'].id == 'method'):
                            raise Unsupported('shortest_path keywords')
                        env['algo'] = env['method']
                        env['w'] = env['weight']
                    elif name == '_optimal_path_minmax_energy':
                        env['post'] = True
                    else:
                        raise Unsupported('call ' + name)
                elif t in ('path_energy', 'path'):
                    pass
                else:
                    raise Unsupported('assign ' + t)
            elif isinstance(st, ast.Raise):
                env['raises'] = True
            elif isinstance(st, ast.Return):
                pass
            else:
                raise Unsupported('statement ' + type(st).__name__)

    for m in methods:
        env = {'method': m, 'weight': 'UNSET', 'post': False, 'raises': False}
        run(f.body, env)
        table[m] = (env.get('w'), env.get('algo'), env['post'], env['raises'])
    return table


def gen_dispatch():
    os.makedirs(GEN, exist_ok=True)
    try:
        table = dispatch_unit()
    except Unsupported as e:
        return ('dispatch', False, f'translator: unsupported {e}'), None
    def s(v):
        return 'None' if v is None else f'(Some "{v}")'
    lines = ['(* GENERATED from /repo/src/gemdat/path.py (optimal_path) on every run -- do not edit *)',
             'From Coq Require Import String List Bool.', 'Import ListNotations.', 'Open Scope string_scope.', '',
             '(* method -> (edge attribute used as weight, networkx algorithm, min-max post-processing reached, raises) *)',
             'Definition dispatch (m : string) : option string * option string * bool * bool :=']
    for m, (w, algo, post, raises) in table.items():
        lines.append(f'  if String.eqb m "{m}" then ({s(w)}, {s(algo)}, {str(post).lower()}, {str(raises).lower()}) else')
    lines.append('  (None, None, false, true).')
    lines += ['', '(* the requested criterion reaches the solver: weights and algorithm per method *)',
              'Theorem dispatch_respects_method :',
              '  dispatch "dijkstra" = (Some "weight", Some "dijkstra", false, false) /\\',
              '  dispatch "bellman-ford" = (Some "weight", Some "bellman-ford", false, false) /\\',
              '  dispatch "dijkstra-exp" = (Some "weight_exp", Some "dijkstra", false, false) /\\',
              '  dispatch "simple" = (None, Some "dijkstra", false, false).',
              'Proof. repeat split; reflexivity. Qed.']
    open(os.path.join(GEN, 'Dispatch.v'), 'w').write('\n'.join(lines) + '\n')
    ok, log = compile_gen('Dispatch.v')
    return ('dispatch: generated method table + dispatch_respects_method', ok, 'ok' if ok else log[-600:]), table


# ---------------------------------------------------------------- unit: movement lists of free_energy_graph (C10)
def gen_moves():
    os.makedirs(GEN, exist_ok=True)
    try:
        f = _find_func(_parse('path.py'), None, 'free_energy_graph')
        lists = {}
        for st in ast.walk(f):
            if isinstance(st, ast.Assign) and isinstance(st.targets[0], ast.Name) and st.targets[0].id in ('movements', 'diagonal_movements'):
                v = st.value
                if isinstance(v, ast.Call) and getattr(v.func, 'attr', '') == 'array' and isinstance(v.args[0], ast.List):
                    tl = []
                    for e in v.args[0].elts:
                        if not (isinstance(e, ast.Tuple) and len(e.elts) == 3):
                            raise Unsupported('move is not a 3-tuple')
                        tl.append(tuple(ast.literal_eval(x) for x in e.elts))
                    lists.setdefault(st.targets[0].id, tl)
                elif isinstance(v, ast.Call) and getattr(v.func, 'attr', '') == 'vstack':
                    pass
                else:
                    raise Unsupported('movements assignment')
        if set(lists) != {'movements', 'diagonal_movements'}:
            raise Unsupported(f'movement lists found: {sorted(lists)}')
    except Unsupported as e:
        return ('moves', False, f'translator: unsupported {e}'), None
    fm = lambda l: '[' + '; '.join('(%d, %d, %d)' % t for t in l) + ']'
    lines = ['(* GENERATED from /repo/src/gemdat/path.py (free_energy_graph) on every run -- do not edit *)',
             'From GV Require Import Base.Prelude.',
             f'Definition gen_face_moves : list (Z * Z * Z) := {fm(lists["movements"])}.',
             f'Definition gen_diag_moves : list (Z * Z * Z) := {fm(lists["diagonal_movements"])}.',
             'Definition gen_moves (diagonal : bool) : list (Z * Z * Z) := if diagonal then gen_face_moves ++ gen_diag_moves else gen_face_moves.',
             '(* every move is a unit step to a face, edge or corner neighbour, and the list is closed under negation *)',
             'Definition unit_move (m : Z * Z * Z) : bool := let \'(a, b, c) := m in',
             '  (Z.abs a <=? 1) && (Z.abs b <=? 1) && (Z.abs c <=? 1) && negb ((a =? 0) && (b =? 0) && (c =? 0)).',
             'Definition has (l : list (Z * Z * Z)) (m : Z * Z * Z) : bool :=',
             '  existsb (fun x => let \'(a, b, c) := x in let \'(d, e, f) := m in (a =? d) && (b =? e) && (c =? f)) l.',
             'Theorem moves_are_neighbour_steps : forallb unit_move (gen_moves true) = true /\\',
             '  forallb (fun m => let \'(a, b, c) := m in has (gen_moves true) (- a, - b, - c)) (gen_moves true) = true /\\',
             '  forallb (fun m => let \'(a, b, c) := m in (Z.abs a + Z.abs b + Z.abs c =? 1)) (gen_moves false) = true /\\',
             '  length (gen_moves false) = 6%nat.',
             'Proof. vm_compute. repeat split; reflexivity. Qed.']
    open(os.path.join(GEN, 'MovesDef.v'), 'w').write('\n'.join(lines) + '\n')
    ok, log = compile_gen('MovesDef.v')
    return ('moves: generated movement lists + moves_are_neighbour_steps', ok, 'ok' if ok else log[-600:]), lists
