"""Fail-closed translators from /repo/src/gemdat/*.py to Gallina (written to coq/Gen/).

Each unit returns (name, ok, detail).  Any construct outside the small whitelist of a
unit raises Unsupported, which makes that unit report ok=False ("translator:
unsupported <node>"); nothing is ever guessed.
"""
from __future__ import annotations

import ast
import os
import subprocess

SRC = '/repo/src/gemdat'
GEN = '/verif/coq/Gen'
COQ = '/verif/coq'


class Unsupported(Exception):
    pass


def _parse(fname):
    return ast.parse(open(os.path.join(SRC, fname)).read())


def _find_func(tree, cls, name):
    for node in ast.walk(tree):
        if isinstance(node, ast.ClassDef) and node.name == cls:
            for f in node.body:
                if isinstance(f, ast.FunctionDef) and f.name == name:
                    return f
    for node in tree.body:
        if cls is None and isinstance(node, ast.FunctionDef) and node.name == name:
            return node
    raise Unsupported(f'function {cls}.{name} not found')


def _coq_strs(xs):
    return '[' + '; '.join('"%s"' % x for x in xs) + ']%string'


def compile_gen(fname, timeout=300):
    p = subprocess.run(['timeout', str(timeout), 'coqc', '-R', COQ, 'GV', os.path.join(GEN, fname)],
                       cwd=GEN, stdout=subprocess.PIPE, stderr=subprocess.STDOUT, text=True)
    return p.returncode == 0, p.stdout[-2000:]


# ---------------------------------------------------------------- unit: cache key (C16)
def _names_in(node):
    return {n.id for n in ast.walk(node) if isinstance(n, ast.Name)}


def cache_key_unit():
    """For the three loaders: which parameters determine the default cache file name, and
    which parameters are read by the parsing part of the function."""
    tree = _parse('trajectory.py')
    out = {}
    for fn in ('from_vasprun', 'from_lammps', 'from_gromacs'):
        f = _find_func(tree, 'Trajectory', fn)
        params = [a.arg for a in f.args.args + f.args.kwonlyargs if a.arg not in ('cls', 'cache')]
        varkw = f.args.kwarg.arg if f.args.kwarg else None
        # locate "if not cache:" block
        blk = None
        rest = []
        for st in f.body:
            if (isinstance(st, ast.If) and isinstance(st.test, ast.UnaryOp) and isinstance(st.test.op, ast.Not)
                    and isinstance(st.test.operand, ast.Name) and st.test.operand.id == 'cache'):
                if blk is not None:
                    raise Unsupported('two "if not cache" blocks')
                blk = st
            else:
                rest.append(st)
        if blk is None or blk.orelse:
            raise Unsupported(f'{fn}: no plain "if not cache:" block')
        hashed = set()
        dict_name = None
        for st in blk.body:
            if isinstance(st, ast.Assign) and len(st.targets) == 1 and isinstance(st.targets[0], ast.Name):
                tgt = st.targets[0].id
                if isinstance(st.value, ast.Dict):
                    for k, v in zip(st.value.keys, st.value.values):
                        if not (isinstance(k, ast.Constant) and isinstance(k.value, str) and isinstance(v, ast.Name) and v.id == k.value):
                            raise Unsupported(f'{fn}: dict entry is not "name": name')
                        hashed.add('**' + v.id if v.id == varkw else v.id)
                    dict_name = tgt
                elif tgt == 'serialized':
                    # json.dumps(<dict>, sort_keys=True).encode()
                    names = _names_in(st.value) - {'json'}
                    if dict_name is None:
                        if varkw is None or names != {varkw}:
                            raise Unsupported(f'{fn}: serialized from {names}')
                        hashed.add('**' + varkw)
                    elif names != {dict_name}:
                        raise Unsupported(f'{fn}: serialized from {names}')
                elif tgt == 'hashid':
                    if _names_in(st.value) != {'hashlib', 'serialized'}:
                        raise Unsupported(f'{fn}: hashid')
                elif tgt == 'cache':
                    for n in _names_in(st.value) - {'Path', 'hashid'}:
                        if n not in params:
                            raise Unsupported(f'{fn}: cache name uses {n}')
                        hashed.add(n)
                else:
                    raise Unsupported(f'{fn}: assignment to {tgt} in cache-name block')
            else:
                raise Unsupported(f'{fn}: statement {type(st).__name__} in cache-name block')
        # setdefault calls on **kwargs before the block are part of the hashed dict (vasprun)
        used = set()
        for st in rest:
            if isinstance(st, ast.Expr) and isinstance(st.value, ast.Constant):
                continue   # docstring
            used |= _names_in(st)
        relevant = [p for p in params if p in used]
        if varkw and varkw in used:
            relevant.append('**' + varkw)
        out[fn] = {'params': params, 'hashed': sorted(hashed), 'relevant': relevant}
    return out


def gen_cache_key():
    os.makedirs(GEN, exist_ok=True)
    try:
        info = cache_key_unit()
    except Unsupported as e:
        return ('cachekey', False, f'translator: unsupported {e}'), None
    lines = ['(* GENERATED from /repo/src/gemdat/trajectory.py on every run -- do not edit *)',
             'From Coq Require Import List String Bool.', 'Import ListNotations.', 'Open Scope string_scope.', '']
    for fn, d in info.items():
        lines.append(f'Definition {fn}_in_name : list string := {_coq_strs(d["hashed"])}.')
        lines.append(f'Definition {fn}_relevant : list string := {_coq_strs(d["relevant"])}.')
    lines += ['', 'Definition covers (hashed relevant : list string) : bool :=',
              '  forallb (fun p => existsb (String.eqb p) hashed) relevant.', '',
              '(* every argument that the parsing code reads is part of the default cache file name *)']
    for fn in info:
        lines.append(f'Theorem {fn}_key_separates : covers {fn}_in_name {fn}_relevant = true.')
        lines.append('Proof. vm_compute. reflexivity. Qed.')
    open(os.path.join(GEN, 'CacheKey.v'), 'w').write('\n'.join(lines) + '\n')
    ok, log = compile_gen('CacheKey.v')
    missing = {fn: [p for p in d['relevant'] if p not in d['hashed']] for fn, d in info.items()}
    return ('cachekey: generated key_separates theorems', ok, f'arguments read by the parser but not in the cache name: {missing}' if not ok else 'ok'), info
