#!/usr/bin/env python3
"""Regenerate /verif/MANIFEST.json from the table below (keeps it valid at all times)."""
import json
import os

V = '/verif'
# id -> (technique, level text, level note, design ref)
CLAIMS = {
    'C03': ('Coq theorems (induction over histories) about an executable model of the numpy change-log code + '
            'checked correspondence (model evaluated by vm_compute on the inputs the real code ran on)',
            'Proof: the model of _calculate_transition_events (roll/nonzero/drop-wrap/unique) is proved equal to the change log; '
            'soundness, completeness, uniqueness, replay reconstruction and ffill/bfill meaning are theorems for all histories. '
            'The model is tied to /repo on every run by exhaustive small histories + random long ones.',
            'Trusted: Coq kernel/vm_compute, the Python harness, numpy/pandas container semantics (validated by the tie). '
            'All theorems closed under the global context.', 'DESIGN.md §5 C03'),
    'C04': ('Coq theorems (invariant + induction over the event scan; lock-step simulation for monotonicity) about an executable model of the '
            'fromevent/candidate_jump state machine + checked correspondence (exhaustive small histories, random long ones)',
            'Proof: default_exact (scan of the change log = consecutive distinct visited sites), default_sound/complete (the spec is what the statement says), '
            'strict_subset, scan_consistent and residence_monotone are theorems for all histories and all minimal-residence values.',
            'Trusted: Coq kernel/vm_compute, harness, pandas iterrows/groupby order and Series aliasing (value semantics in the model; validated by the tie). '
            'All theorems closed under the global context.', 'DESIGN.md §5 C04'),
    'C05': ('Coq theorems (generic weighted counting over a partition by key) about a model of the fancy-index matrix assignment, counters and occupancy '
            '+ checked correspondence on generated site sets / histories',
            'Proof: matrix entry = number of moves (for in-range rows), matrix sum, empty diagonal, counter = aggregation of the matrix, counter total, '
            'edge set = support, sum(pdist^2 * matrix) = sum over jumps of d^2, occupancy sum; the no-site folding of Transitions.matrix() is proved as a refutation (known finding D6).',
            'Trusted: Coq kernel/vm_compute, harness (exact rational minimum-image distances for the diffusivity formula), pymatgen containers. Closed under the global context.',
            'DESIGN.md §5 C05'),
    'C12': ('Coq theorems (loop = specification under sortedness; sort is a sorted permutation) about a model of the pairwise scan with early exit '
            '+ checked correspondence on synthetic jump tables with long-transit jumps and through Jumps.collective()',
            'Proof: the repaired scan reports exactly the pairs satisfying the definition (different atoms, window, cut-off), each unordered pair once, '
            'solo + collective = total; the pre-repair loop is proved sound but incomplete (defect D9, fixed).',
            'Trusted: Coq kernel/vm_compute, harness (exact rational site distances, cut-off guard band), pandas stable sort. Closed under the global context.',
            'DESIGN.md §5 C12'),
    'C16': ('Coq theorems about a cache/loader state machine parameterised by the pickle codec (round trip + prefix failure as hypotheses), '
            'generated key_separates theorems (translator over the three loaders) + fault enumeration of every prefix length of real cache files',
            'Proof (partial): load after a crash at any byte, load from any consistent file system, arbitrary fault/recover cycles and '
            'leaves-a-complete-cache are theorems given the codec hypotheses; the cache-name coverage theorem is regenerated from the source on every run. '
            'pickle / file system / SHA-1 are assumed and validated by enumeration.',
            'Trusted: Coq kernel/vm_compute, harness, translator unit cachekey, pickle prefix-failure and round-trip (enumerated, not proved), SHA-1 collision freedom; '
            'from_gromacs only through the generated theorem.', 'DESIGN.md §5 C16'),
    'C19': ('Coq theorems generic in the boundary list (partition, re-basing, sub-log simulation for jumps) + binary64 model of np.linspace '
            '+ checked correspondence for every n_parts',
            'Proof: state arrays concatenate, events are partitioned (Permutation) and re-based into [0, width), per-part counts <= total, '
            'jumps of the parts are an order-preserving sublist of the jumps of the whole (sum <= total), trajectory parts contiguous/ordered, equal parts equal.',
            'Trusted: Coq kernel/vm_compute incl. primitive floats for the linspace model, harness, pandas mask filtering order. Closed under the global context.',
            'DESIGN.md §5 C19'),
    'C20': ('Coq theorems (invariants by induction over operation traces) about a state machine of lru_cache keyed on weak references '
            '+ checked correspondence against the real decorator (value, hit/miss, liveness per operation) and real analysis objects',
            'Proof (partial): transparency, no leak between objects (every hit was computed for the same uid), cache bound, key uniqueness, not-pinned when values do not '
            'refer to their owner, pinned refuted otherwise (known finding D10). CPython weakref/lru_cache/refcount semantics are modelled, not verified.',
            'Trusted: Coq kernel/vm_compute, harness, the CPython semantics stated in Model/C20.v (validated by the tie incl. measured address reuse).',
            'DESIGN.md §5 C20'),
    'C01': ('Coq theorems over integer numerators with a universally quantified denominator (wrap, round-half-even minimum image, telescoping, shift invariance), '
            'Flocq real-number model of np.mod in binary64 with a PrimFloat twin proved to refine it + checked correspondence (exact regime, bit-exact float stream)',
            'Proof: positions in [0,1) and congruent to the input, displacements are (unique away from ties) minimum images, running sum reproduces every frame mod 1, '
            'whole-cell shifts change nothing (no-tie hypothesis stated), and in binary64 the repaired wrap stays in [0,1) within 2^-53 of a lattice translate; the old code is refuted (D1).',
            'Trusted: Coq kernel/vm_compute, stdlib real axioms + FloatAxioms/Uint63 primitive specs (float part only), harness, numpy IEEE-754 arithmetic (bit-exact tie).',
            'DESIGN.md §5 C01'),
    'C08': ('Coq theorems on floor/count arithmetic (partition lemma reused from C05) + kernel-evaluated PrimFloat sweep for the voxel round trip (bound 4096 in the statement) '
            '+ checked correspondence incl. grids where np.linspace edges are off by an ulp',
            'Proof: voxel sum = samples, entry = count of samples with floor(frac*n), digitize = floor, edge length in [res, 2 res), exact and binary64 round trip, roll law.',
            'Trusted: Coq kernel/vm_compute incl. primitive floats for the sweep, harness, numpy exactness on the dyadic grid.', 'DESIGN.md §5 C08'),
    'C09': ('Coq real-analysis theorems (exp/ln, sums) + per-voxel interval-arithmetic certificates generated and proved on every run + discrete tie for max-float / node set',
            'Proof: exp(-F/kT) recovers p and sums to one, monotone, non-negative, unvisited = BIG excluded by any threshold <= 1e20; each sampled implementation value is '
            'certified equal to -k_B T ln(c/N) within 1e-12 by the Interval tactic, and k_B is certified to be the SI-exact quotient.',
            'Trusted: Coq kernel, stdlib real axioms, Interval (uses primitive integers), harness; libm log only through certificates.', 'DESIGN.md §5 C09'),
    'C10': ('Coq certificate theorems (dual potentials => lower bound on every path; closed cuts => unreachable; min-max cuts) checked per case on a grid-graph model '
            'whose move lists, wrapped_sites expression and method dispatch are regenerated from the source + checked correspondence of graph, paths and energies',
            'Proof: a passing check proves the returned path valid and cost-minimal over ALL admissible paths of that grid (all five methods, both neighbourhoods, percolation over all peaks); '
            'wrapped/frac coordinates inside the grid is a theorem about the generated definition. Known findings: minmax-energy (D8), missing corner moves (D17).',
            'Trusted: Coq kernel/vm_compute, translator units voxel/dispatch/moves, harness; networkx and the harness Dijkstra are untrusted (certificates).', 'DESIGN.md §5 C10'),
    'C13': ('Coq theorems (integer identities over scaled means, set logic for species selection) + checked correspondence in the exact regime',
            'Proof: reference mean zero in every frame, first frame unchanged, idempotent, rigid-translation invariant, floating = complement of fixed; tie compares drift and corrected positions exactly.',
            'Trusted: Coq kernel/vm_compute, harness, numpy exact on dyadic grid with power-of-two reference counts. Closed under the global context.', 'DESIGN.md §5 C13'),
    'C15': ('Coq refinement proof: store machine of trajectory objects vs abstraction "wrapped positions per frame" (invariant wf, induction over operation sequences), '
            'Python slice semantics model + checked correspondence on random op sequences and exhaustive slice.indices comparison',
            'Proof: representation switches preserve the abstraction, read-only sequences preserve every object, queries equal their spec on the abstraction (no-tie for displacements), '
            'slice/filter/extend produce exactly the corresponding frames/atoms, slice indices always valid.',
            'Trusted: Coq kernel/vm_compute, harness, numpy exact on dyadic grid. Closed under the global context.', 'DESIGN.md §5 C15'),
    'C02': ('Coq theorems of exact periodic geometry (window sufficiency of the minimum-image search by Cauchy-Schwarz on the face normals, triangle inequality, '
            'invariances) + admissible-set model of the site assignment + checked correspondence over lattice classes and orientations with a float32 guard band',
            'Proof: the search distance is the true minimum image for every lattice passing an integer test; a state is acceptable iff it is an admissible site (or -1 iff none); '
            'inner subset outer; automatic radius => unique assignment; repaired label remap correct, rank-based remap refuted (D3).',
            'Trusted: Coq kernel/vm_compute, harness (guard band 2e-5), MDAnalysis KD-tree replaced by the exact search. Closed under the global context.', 'DESIGN.md §5 C02'),
    'C06': ('Coq theorems on integer series (S1 cumulative-sum recursion - 2 x autocorrelation sum = definition) + checked correspondence (1e-9) against exact rational values',
            'Proof: the decomposition used by the code equals the time-origin average of squared displacements for every series and lag, lag 0 is 0, last lag = squared final displacement, '
            'translation invariance and k^2 scaling. The FFT itself is modelled (defined as the sum it computes) and tied numerically.',
            'Trusted: Coq kernel/vm_compute, harness, numpy FFT/BLAS/sqrt numerics (tolerance regime).', 'DESIGN.md §5 C06'),
    'C11': ('Coq theorems (partition by key reused from C05, digitize convention on sorted rational edges, code injectivity, state-name soundness via the C03 fill lemmas, '
            'permutation invariance of the histogram) + checked correspondence on exact distances + interval certificates for the shell normalisation',
            'Proof: every pair counted in exactly one (state, species, bin); @X only at sites labelled X; X->Y only between leaving X and reaching Y; raw pair counts symmetric.',
            'Trusted: Coq kernel/vm_compute, harness (bin-edge guard band), Interval for pi. Closed under the global context (theorems).', 'DESIGN.md §5 C11'),
    'C14': ('Coq real-analysis theorems for every scaling law and partition-sum of amplitudes (faithful model of the np.roll/array_split code) + exact rational tie of the formula-based metrics '
            '+ metamorphic checks of the scaling laws on the implementation',
            'Proof: density/k^3, diffusivity k^2 and 1/s, amplitudes k, frequency invariant under signal scale and 1/s under time scale (periodogram abstracted as degree-2 homogeneous), '
            'amplitudes sum to the final distance, Haven ratio 1 for identical motion.',
            'Trusted: Coq kernel, stdlib real axioms, harness, scipy periodogram abstraction.', 'DESIGN.md §5 C14'),
    'C17': ('Coq theorems of exact geometry (component-wise re-imaging = minimum image below half the perpendicular width, isometries preserve the metric) about a model of '
            'find_equivalent_positions + checked correspondence with space-group operations exported from pymatgen per case',
            'Proof: points within the radius, count = number of (operation, position) pairs, distance preserved, inverse image, supercell folding; the +-1 re-imaging is refuted (D14, fixed).',
            'Trusted: Coq kernel/vm_compute, harness, pymatgen symmetry tables (checked per case for metric preservation and inverses). Closed under the global context.', 'DESIGN.md §5 C17'),
    'C07': ('Coq theorems: invariance lemmas of the exact geometry (only the Gram matrix enters; common translation; wrapping), relabelling commutes with the event log, '
            'the jump scan and the count matrix, atom permutations, grid roll of paths and volumes + metamorphic runs of the whole real pipeline on a system and its four transformed copies, '
            'with the commuting square for site states and volumes checked on exact geometry in Coq',
            'Proof: model(g X) = g model(X) for every stage; the ties of C02-C12 connect each stage to the code and the metamorphic oracle compares impl(g X) with g impl(X) directly.',
            'Trusted: Coq kernel/vm_compute, harness (guard band; translations by multiples of 1/8; non-overlapping spheres), per-stage ties.', 'DESIGN.md §5 C07'),
    'C18': ('Coq theorems (bond wrap = minimum image below half the cell width via the C17 geometric lemma; transpose-closure makes the einsum result a permutation of the group images; '
            'Cauchy-Schwarz bound and invariances of the autocorrelation definition; real-number facts for normalisation) + checked correspondence on tetrahedral clusters and all 20 '
            'non-hexagonal point groups + interval certificates for the spherical round trip',
            'Proof: vectors are minimum-image bonds, symmetrise = images under the group, transform linear, normalise unit/direction; the autocorrelation as coded is NOT its definition (known finding D15).',
            'Trusted: Coq kernel/vm_compute, stdlib real axioms (normalisation only), Interval, harness, pymatgen point-group tables (checked per case).', 'DESIGN.md §5 C18'),
}
PENDING_REASON = 'not yet claimed in this revision: model/tie under construction (see DESIGN.md §11 build order)'


def main():
    props = [json.loads(l) for l in open(os.path.join(V, 'properties.jsonl'))]
    checks, na = [], []
    for p in props:
        pid = p['id']
        if pid in CLAIMS and os.path.exists(os.path.join(V, 'harness', 'props', pid + '.py')):
            tech, text, note, ref = CLAIMS[pid]
            checks.append({
                'property_id': pid,
                'quick_cmd': f'./check {pid} --tier quick',
                'thorough_cmd': f'./check {pid} --tier thorough',
                'evidence_file': f'/verif/evidence/{pid}.json',
                'replay_cmd_template': f'./check {pid} --replay {{path}}',
                'engine': 'coq-model+tie',
                'level_claimed': {'category': 'proof', 'text': text, 'design_ref': ref},
                'level_note': note,
                'technique': tech,
            })
        else:
            na.append({'property_id': pid, 'reason': NA.get(pid, PENDING_REASON)})
    man = {
        'version': 1,
        'setup_cmd': './setup.sh',
        'hooks': {
            'guard': 'GEMDAT_VERIF',
            'enable': 'no source hooks are needed: checks import /repo/src directly (PYTHONPATH=/repo/src); GEMDAT_VERIF=1 is exported by ./check but read by nothing in /repo',
            'baseline_off_cmd': 'cd /repo && /venv/bin/python -m pytest -ra -q -p no:cacheprovider --timeout=900 --continue-on-collection-errors',
            'source_commits': [],
            'add_only': True,
        },
        'engines': [{
            'name': 'coq-model+tie', 'path': '/verif/check',
            'serves_properties': [c['property_id'] for c in checks],
            'kind_free_text': 'Coq 8.16.1 development under /verif/coq (Model/ Proofs/ Properties/ Tie/), Python harness under /verif/harness '
                              'that runs the real code and evaluates the Gallina model on the same inputs with vm_compute',
        }],
        'checks': checks,
        'notes': 'See DESIGN.md. known_findings.json lists genuine defects (fixed / open).',
        'not_applicable': na,
    }
    with open(os.path.join(V, 'MANIFEST.json'), 'w') as f:
        json.dump(man, f, indent=1)
    print(f'{len(checks)} claimed, {len(na)} not claimed')


NA = {}

if __name__ == '__main__':
    main()
