#!/usr/bin/env python3
"""Regenerate /verif/MANIFEST.json from the table below (keeps it valid at all times)."""
import json
import os

V = '/verif'
# id -> (technique, level text, level note, design ref)
CLAIMS = {
    'C03': ('Coq theorems (induction over histories) about an executable model of the numpy change-log code + '
            'checked correspondence (model evaluated by vm_compute on the inputs the real code ran on)',
            'Proof: the model of _calculate_transition_events (roll/nonzero/drop-wrap/unique) is proved equal to the change log; '
            'soundness, completeness, uniqueness, replay reconstruction and ffill/bfill meaning are theorems for all histories. '
            'The model is tied to /repo on every run by exhaustive small histories + random long ones.',
            'Trusted: Coq kernel/vm_compute, the Python harness, numpy/pandas container semantics (validated by the tie). '
            'All theorems closed under the global context.', 'DESIGN.md §5 C03'),
    'C04': ('Coq theorems (invariant + induction over the event scan; lock-step simulation for monotonicity) about an executable model of the '
            'fromevent/candidate_jump state machine + checked correspondence (exhaustive small histories, random long ones)',
            'Proof: default_exact (scan of the change log = consecutive distinct visited sites), default_sound/complete (the spec is what the statement says), '
            'strict_subset, scan_consistent and residence_monotone are theorems for all histories and all minimal-residence values.',
            'Trusted: Coq kernel/vm_compute, harness, pandas iterrows/groupby order and Series aliasing (value semantics in the model; validated by the tie). '
            'All theorems closed under the global context.', 'DESIGN.md §5 C04'),
    'C05': ('Coq theorems (generic weighted counting over a partition by key) about a model of the fancy-index matrix assignment, counters and occupancy '
            '+ checked correspondence on generated site sets / histories',
            'Proof: matrix entry = number of moves (for in-range rows), matrix sum, empty diagonal, counter = aggregation of the matrix, counter total, '
            'edge set = support, sum(pdist^2 * matrix) = sum over jumps of d^2, occupancy sum; the no-site folding of Transitions.matrix() is proved as a refutation (known finding D6).',
            'Trusted: Coq kernel/vm_compute, harness (exact rational minimum-image distances for the diffusivity formula), pymatgen containers. Closed under the global context.',
            'DESIGN.md §5 C05'),
    'C12': ('Coq theorems (loop = specification under sortedness; sort is a sorted permutation) about a model of the pairwise scan with early exit '
            '+ checked correspondence on synthetic jump tables with long-transit jumps and through Jumps.collective()',
            'Proof: the repaired scan reports exactly the pairs satisfying the definition (different atoms, window, cut-off), each unordered pair once, '
            'solo + collective = total; the pre-repair loop is proved sound but incomplete (defect D9, fixed).',
            'Trusted: Coq kernel/vm_compute, harness (exact rational site distances, cut-off guard band), pandas stable sort. Closed under the global context.',
            'DESIGN.md §5 C12'),
    'C16': ('Coq theorems about a cache/loader state machine parameterised by the pickle codec (round trip + prefix failure as hypotheses), '
            'generated key_separates theorems (translator over the three loaders) + fault enumeration of every prefix length of real cache files',
            'Proof (partial): load after a crash at any byte, load from any consistent file system, arbitrary fault/recover cycles and '
            'leaves-a-complete-cache are theorems given the codec hypotheses; the cache-name coverage theorem is regenerated from the source on every run. '
            'pickle / file system / SHA-1 are assumed and validated by enumeration.',
            'Trusted: Coq kernel/vm_compute, harness, translator unit cachekey, pickle prefix-failure and round-trip (enumerated, not proved), SHA-1 collision freedom; '
            'from_gromacs only through the generated theorem.', 'DESIGN.md §5 C16'),
    'C19': ('Coq theorems generic in the boundary list (partition, re-basing, sub-log simulation for jumps) + binary64 model of np.linspace '
            '+ checked correspondence for every n_parts',
            'Proof: state arrays concatenate, events are partitioned (Permutation) and re-based into [0, width), per-part counts <= total, '
            'jumps of the parts are an order-preserving sublist of the jumps of the whole (sum <= total), trajectory parts contiguous/ordered, equal parts equal.',
            'Trusted: Coq kernel/vm_compute incl. primitive floats for the linspace model, harness, pandas mask filtering order. Closed under the global context.',
            'DESIGN.md §5 C19'),
    'C20': ('Coq theorems (invariants by induction over operation traces) about a state machine of lru_cache keyed on weak references '
            '+ checked correspondence against the real decorator (value, hit/miss, liveness per operation) and real analysis objects',
            'Proof (partial): transparency, no leak between objects (every hit was computed for the same uid), cache bound, key uniqueness, not-pinned when values do not '
            'refer to their owner, pinned refuted otherwise (known finding D10). CPython weakref/lru_cache/refcount semantics are modelled, not verified.',
            'Trusted: Coq kernel/vm_compute, harness, the CPython semantics stated in Model/C20.v (validated by the tie incl. measured address reuse).',
            'DESIGN.md §5 C20'),
}
PENDING_REASON = 'not yet claimed in this revision: model/tie under construction (see DESIGN.md §11 build order)'


def main():
    props = [json.loads(l) for l in open(os.path.join(V, 'properties.jsonl'))]
    checks, na = [], []
    for p in props:
        pid = p['id']
        if pid in CLAIMS and os.path.exists(os.path.join(V, 'harness', 'props', pid + '.py')):
            tech, text, note, ref = CLAIMS[pid]
            checks.append({
                'property_id': pid,
                'quick_cmd': f'./check {pid} --tier quick',
                'thorough_cmd': f'./check {pid} --tier thorough',
                'evidence_file': f'/verif/evidence/{pid}.json',
                'replay_cmd_template': f'./check {pid} --replay {{path}}',
                'engine': 'coq-model+tie',
                'level_claimed': {'category': 'proof', 'text': text, 'design_ref': ref},
                'level_note': note,
                'technique': tech,
            })
        else:
            na.append({'property_id': pid, 'reason': NA.get(pid, PENDING_REASON)})
    man = {
        'version': 1,
        'setup_cmd': './setup.sh',
        'hooks': {
            'guard': 'GEMDAT_VERIF',
            'enable': 'no source hooks are needed: checks import /repo/src directly (PYTHONPATH=/repo/src); GEMDAT_VERIF=1 is exported by ./check but read by nothing in /repo',
            'baseline_off_cmd': 'cd /repo && /venv/bin/python -m pytest -ra -q -p no:cacheprovider --timeout=900 --continue-on-collection-errors',
            'source_commits': [],
            'add_only': True,
        },
        'engines': [{
            'name': 'coq-model+tie', 'path': '/verif/check',
            'serves_properties': [c['property_id'] for c in checks],
            'kind_free_text': 'Coq 8.16.1 development under /verif/coq (Model/ Proofs/ Properties/ Tie/), Python harness under /verif/harness '
                              'that runs the real code and evaluates the Gallina model on the same inputs with vm_compute',
        }],
        'checks': checks,
        'notes': 'See DESIGN.md. known_findings.json lists genuine defects (fixed / open).',
        'not_applicable': na,
    }
    with open(os.path.join(V, 'MANIFEST.json'), 'w') as f:
        json.dump(man, f, indent=1)
    print(f'{len(checks)} claimed, {len(na)} not claimed')


NA = {}

if __name__ == '__main__':
    main()
