(* C08 -- density volume and voxel mapping.  Model of gemdat.volume.trajectory_to_volume and
   of Volume.voxel_size / frac_coords_to_voxel / voxel_to_frac_coords.
   Fractional coordinates are numerators x over D (0 <= x < D); a cell length L and the
   requested resolution r are numerators over a common denominator.  Definitions only. *)
From GV Require Import Base.Prelude.
From Coq Require Import PrimFloat Uint63.

(* number of voxels along an axis: int(1 + L // r) - 1 = floor(L / r) *)
Definition ngrid (L r : Z) : Z := L / r.

(* voxel index of a wrapped coordinate: floor(x/D * n) *)
Definition voxel (D n x : Z) : Z := (x * n) / D.

(* np.digitize(x, bins = k/n for k = 1..n): number of edges <= x *)
Definition digitize (D n x : Z) : Z :=
  Z.of_nat (length (filter (fun k => k * D <=? x * n) (zrange 1 (Z.to_nat n)))).

(* samples: (x, y, z) numerators; voxel triple of a sample *)
Definition vox3 (D : Z) (n : Z * Z * Z) (p : Z * Z * Z) : Z * Z * Z :=
  let '(nx, ny, nz) := n in let '(x, y, z) := p in (voxel D nx x, voxel D ny y, voxel D nz z).
Definition t3_eqb (a b : Z * Z * Z) : bool :=
  let '(a1, a2, a3) := a in let '(b1, b2, b3) := b in (a1 =? b1) && (a2 =? b2) && (a3 =? b3).
(* the density volume: number of samples in each voxel *)
Definition density (D : Z) (n : Z * Z * Z) (samples : list (Z * Z * Z)) (v : Z * Z * Z) : Z :=
  Z.of_nat (length (filter (fun p => t3_eqb (vox3 D n p) v) samples)).
Definition all_voxels (n : Z * Z * Z) : list (Z * Z * Z) :=
  let '(nx, ny, nz) := n in
  flat_map (fun i => flat_map (fun j => map (fun k => (i, j, k)) (zrange 0 (Z.to_nat nz)))
                              (zrange 0 (Z.to_nat ny))) (zrange 0 (Z.to_nat nx)).
Definition volume (D : Z) (n : Z * Z * Z) (samples : list (Z * Z * Z)) : list Z :=
  map (density D n samples) (all_voxels n).       (* C order, as ndarray.ravel() *)

(* voxel <-> fractional coordinate of the centre, as exact rationals over 2n:
   centre of voxel i = (2i + 1) / (2n) *)
Definition centre_num (i : Z) : Z := 2 * i + 1.
Definition voxel_of_centre (n i : Z) : Z := (centre_num i * n) / (2 * n).

(* the same round trip in binary64, as the code computes it:
   int(((i + 0.5) / n) * n)  -- checked through  i <= y < i + 1 *)
Definition fz (x : Z) : float := PrimFloat.of_uint63 (Uint63.of_Z x).
Definition roundtrip_ok (n i : Z) : bool :=
  let y := PrimFloat.mul (PrimFloat.div (PrimFloat.add (fz i) 0.5%float) (fz n)) (fz n) in
  PrimFloat.leb (fz i) y && PrimFloat.ltb y (fz (i + 1)).
Definition roundtrip_upto (N : nat) : bool :=
  forallb (fun n => forallb (fun i => roundtrip_ok n i) (zrange 0 (Z.to_nat n))) (zrange 1 N).
