(* Exact periodic geometry: fractional vectors are integer numerators over a common
   denominator D, the lattice enters only through its Gram matrix G = M M^T (so nothing
   depends on the orientation of the cell), squared lengths are v G v^T.
   Specification-level minimum image (a minimum over ALL lattice translations) and an
   executable window search.  Definitions only. *)
From GV Require Import Base.Prelude Model.C01.

Definition V3 := (Z * Z * Z)%type.
Definition vadd3 (u v : V3) : V3 := let '(a, b, c) := u in let '(x, y, z) := v in (a + x, b + y, c + z).
Definition vsub3 (u v : V3) : V3 := let '(a, b, c) := u in let '(x, y, z) := v in (a - x, b - y, c - z).
Definition vscale3 (k : Z) (v : V3) : V3 := let '(x, y, z) := v in (k * x, k * y, k * z).
Definition vneg3 (v : V3) : V3 := let '(x, y, z) := v in (- x, - y, - z).

(* symmetric Gram matrix *)
Record gram := { g11 : Z; g12 : Z; g13 : Z; g22 : Z; g23 : Z; g33 : Z }.
Definition qf (G : gram) (v : V3) : Z :=
  let '(x, y, z) := v in
  g11 G * x * x + g22 G * y * y + g33 G * z * z + 2 * (g12 G * x * y) + 2 * (g13 G * x * z) + 2 * (g23 G * y * z).

(* integer lattice matrix (rows a, b, c) and its Gram matrix *)
Record mat3 := { ra : V3; rb : V3; rc : V3 }.
Definition dot3 (u v : V3) : Z := let '(a, b, c) := u in let '(x, y, z) := v in a * x + b * y + c * z.
Definition cross3 (u v : V3) : V3 :=
  let '(a, b, c) := u in let '(x, y, z) := v in (b * z - c * y, c * x - a * z, a * y - b * x).
Definition gram_of (M : mat3) : gram :=
  {| g11 := dot3 (ra M) (ra M); g12 := dot3 (ra M) (rb M); g13 := dot3 (ra M) (rc M);
     g22 := dot3 (rb M) (rb M); g23 := dot3 (rb M) (rc M); g33 := dot3 (rc M) (rc M) |}.
Definition det3 (M : mat3) : Z := dot3 (ra M) (cross3 (rb M) (rc M)).
(* Cartesian vector of fractional numerators: x a + y b + z c *)
Definition cart (M : mat3) (v : V3) : V3 :=
  let '(x, y, z) := v in vadd3 (vscale3 x (ra M)) (vadd3 (vscale3 y (rb M)) (vscale3 z (rc M))).

Section MinImage.
  Variable D : Z.          (* common denominator of fractional coordinates, D > 0 *)
  Variable G : gram.

  (* squared minimum-image distance, specification: minimum over all lattice translations *)
  Definition is_min_image (f : V3) (d2 : Z) : Prop :=
    (exists n : V3, qf G (vadd3 f (vscale3 D n)) = d2) /\
    (forall n : V3, d2 <= qf G (vadd3 f (vscale3 D n))).

  (* executable: wrap every component to [-D/2, D/2], then search the window [-K, K]^3 *)
  Definition mi3 (f : V3) : V3 := let '(x, y, z) := f in (mi D x, mi D y, mi D z).
  Definition window (K : Z) : list V3 :=
    let r := zrange (- K) (Z.to_nat (2 * K + 1)) in
    flat_map (fun i => flat_map (fun j => map (fun k => (i, j, k)) r) r) r.
  Definition min_image_d2 (K : Z) (f : V3) : Z :=
    let w := mi3 f in
    fold_left (fun acc n => Z.min acc (qf G (vadd3 w (vscale3 D n)))) (window K) (qf G w).
End MinImage.

(* sufficient condition for the window [-K,K]^3 to contain the true minimum image:
   (2K+1)^2 det^2 >= 3 (|a|^2+|b|^2+|c|^2) |N_i|^2 for the three face normals N_i *)
Definition window_ok (M : mat3) (K : Z) : bool :=
  let s := dot3 (ra M) (ra M) + dot3 (rb M) (rb M) + dot3 (rc M) (rc M) in
  let d := det3 M in
  let chk N := 3 * s * dot3 N N <=? (2 * K + 1) * (2 * K + 1) * (d * d) in
  negb (d =? 0) && chk (cross3 (rb M) (rc M)) && chk (cross3 (rc M) (ra M)) && chk (cross3 (ra M) (rb M)).
