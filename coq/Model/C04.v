(* C04 -- jumps: executable model of gemdat.jumps._generic_transitions_to_jumps
   (per-atom scan of the event table with the fromevent / candidate_jump state machine).
   Definitions only. *)
From GV Require Import Base.Prelude Model.C03.

Record jump := { j_atom : Z; j_from : Z; j_to : Z; j_start : Z; j_stop : Z }.
Record pend := { p_s : Z; p_d : Z; p_t : Z }.                 (* fromevent *)
Record cand := { c_s : Z; c_d : Z; c_t : Z; c_stop : Z }.      (* candidate_jump *)
Record st := { fe : option pend; ca : option cand; out : list jump }.

Definition jump_eqb (a b : jump) : bool :=
  (j_atom a =? j_atom b) && (j_from a =? j_from b) && (j_to a =? j_to b) &&
  (j_start a =? j_start b) && (j_stop a =? j_stop b).

Definition step (mr : Z) (s : st) (e : row) : st :=
  let '(ca1, out1) :=                                  (* "we have a previous jump" *)
    match ca s with
    | Some c =>
        if r_t e - c_t c >=? mr
        then (None, out s ++ [{| j_atom := r_atom e; j_from := c_s c; j_to := c_d c;
                                 j_start := c_t c; j_stop := c_stop c |}])
        else if negb (c_d c =? r_d e) then (None, out s) else (Some c, out s)
    | None => (None, out s)
    end in
  let fe1 := if negb (r_s e =? -1) && negb (r_s e =? r_d e)
             then Some {| p_s := r_s e; p_d := r_d e; p_t := r_t e |} else fe s in
  match fe1 with
  | None => {| fe := None; ca := ca1; out := out1 |}
  | Some f =>
      if r_d e =? p_s f then {| fe := None; ca := None; out := out1 |}
      else if negb (r_di e =? -1) then
        {| fe := None; ca := None;
           out := out1 ++ [{| j_atom := r_atom e; j_from := p_s f; j_to := r_d e;
                              j_start := p_t f; j_stop := r_t e + 1 |}] |}
      else if negb (r_d e =? p_d f) then
        {| fe := None;
           ca := Some {| c_s := p_s f; c_d := r_d e; c_t := p_t f; c_stop := r_t e + 1 |};
           out := out1 |}
      else {| fe := fe1; ca := ca1; out := out1 |}
  end.

Definition st0 : st := {| fe := None; ca := None; out := [] |}.

Definition scan (mr : Z) (es : list row) : list jump :=
  filter (fun j => negb (j_from j =? j_to j)) (out (fold_left (step mr) es st0)).

(* all atoms: events grouped by atom in increasing atom index *)
Fixpoint jumps_all (mr a : Z) (atoms : list (list Z * list Z)) : list jump :=
  match atoms with
  | [] => []
  | (o, i) :: r => scan mr (events_from a 0 o i) ++ jumps_all mr (a + 1) r
  end.

(* ---------- specification: consecutive distinct visited sites ---------- *)
Fixpoint default_from (a : Z) (last : option (Z * Z)) (t : Z) (o : list Z) : list jump :=
  match o with
  | [] => []
  | x :: o' =>
      if x =? -1 then default_from a last (t + 1) o'
      else match last with
           | Some (b, tb) =>
               (if negb (x =? b)
                then [{| j_atom := a; j_from := b; j_to := x; j_start := tb; j_stop := t |}] else [])
               ++ default_from a (Some (x, t)) (t + 1) o'
           | None => default_from a (Some (x, t)) (t + 1) o'
           end
  end.
Definition default_jumps (a : Z) (o : list Z) : list jump := default_from a None 0 o.

(* key of a jump for the subset statements: (atom, origin, destination, start time) *)
Definition key_eqb (a b : jump) : bool :=
  (j_atom a =? j_atom b) && (j_from a =? j_from b) && (j_to a =? j_to b) && (j_start a =? j_start b).
Definition key_in (j : jump) (l : list jump) : bool := existsb (key_eqb j) l.
Definition keys_subset (a b : list jump) : bool := forallb (fun j => key_in j b) a.
Definition jumps_subset (a b : list jump) : bool := forallb (fun j => existsb (jump_eqb j) b) a.

(* inner history is admissible: inner in {-1, outer} at every frame *)
Fixpoint inner_ok (o i : list Z) : bool :=
  match o, i with
  | [], [] => true
  | x :: o', u :: i' => ((u =? -1) || (u =? x)) && inner_ok o' i'
  | _, _ => false
  end.

(* short constructor used by generated case files *)
Definition J a f t s e := {| j_atom := a; j_from := f; j_to := t; j_start := s; j_stop := e |}.
