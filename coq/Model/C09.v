(* C09 -- free energy F = -k_B T ln p, with p = density / total density; unvisited voxels
   (p = 0) get the largest finite binary64 number (what np.nan_to_num makes of +inf).
   Real-number model; the logarithm of the implementation (libm) is tied per case by
   interval-arithmetic certificates.  Definitions only. *)
From Coq Require Import Reals List.
Import ListNotations.
Open Scope R_scope.

Definition BIG : R := 179769313486231570814527423731704356798070567525844996598917476803157260780028538760589558632766878171540458953514382464234321326889464182768467546703537516986049910576551282076245490090389328944075868508455133942304583236903222948165808559332123348274797826204144723168738177180919299881250404026184124858368.

Definition prob (c total : R) : R := c / total.
Definition free_energy (kT p : R) : R := if Req_EM_T p 0 then BIG else - kT * ln p.

Fixpoint rsum (l : list R) : R := match l with [] => 0 | x :: r => x + rsum r end.

(* node admission of the free-energy graph *)
Definition admitted (thr f : R) : Prop := 0 <= f < thr.
