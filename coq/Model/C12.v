(* C12 -- collective jumps: model of gemdat.collective.Collective._compute.
   Jumps sorted by (stop time, start time); pairwise scan with early exit.  Definitions only. *)
From GV Require Import Base.Prelude Model.C04.

(* stable insertion sort by (stop, start): pandas sort_values on two keys is a stable lexsort *)
Definition key_leb (a b : jump) : bool :=
  (j_stop a <? j_stop b) || ((j_stop a =? j_stop b) && (j_start a <=? j_start b)).
Fixpoint insert (x : jump) (l : list jump) : list jump :=
  match l with
  | [] => [x]
  | y :: r => if key_leb y x then y :: insert x r else x :: l
  end.
Definition sort_jumps (l : list jump) : list jump := fold_left (fun acc x => insert x acc) l [].

Section Collective.
  Variable W : Z.                       (* max_steps *)
  Variable d2 : list (list Z).          (* squared minimum-image site distances (scaled) *)
  Variable maxd2 : Z.                   (* max_dist^2 (same scale) *)

  Definition dist2 (x y : Z) : Z := znth 0 (znth [] d2 x) y.
  Definition close (a b : jump) : bool :=
    (dist2 (j_from a) (j_from b) <? maxd2) || (dist2 (j_from a) (j_to b) <? maxd2) ||
    (dist2 (j_to a) (j_from b) <? maxd2) || (dist2 (j_to a) (j_to b) <? maxd2).

  (* the property's definition of a collective pair *)
  Definition coll (a b : jump) : bool :=
    negb (j_atom a =? j_atom b) && (j_start b - j_stop a <=? W) && (j_start a - j_stop b <=? W)
    && close a b.

  (* inner loop of the repaired code; mt = longest transit (stop - start) in the table *)
  Fixpoint inner (mt : Z) (ei : jump) (rest : list jump) : list (jump * jump) :=
    match rest with
    | [] => []
    | ej :: r =>
        if j_stop ej - j_stop ei >? W + mt then []                      (* break *)
        else if j_start ej - j_stop ei >? W then inner mt ei r          (* continue *)
        else if j_start ei - j_stop ej >? W then inner mt ei r          (* continue *)
        else if j_atom ei =? j_atom ej then inner mt ei r               (* continue *)
        else if close ei ej then (ei, ej) :: inner mt ei r else inner mt ei r
    end.
  Fixpoint outer (mt : Z) (l : list jump) : list (jump * jump) :=
    match l with [] => [] | ei :: r => inner mt ei r ++ outer mt r end.

  (* inner loop as it was before the repair: break on the start time although the table
     is sorted by stop time *)
  Fixpoint inner_old (ei : jump) (rest : list jump) : list (jump * jump) :=
    match rest with
    | [] => []
    | ej :: r =>
        if j_start ej - j_stop ei >? W then []                          (* break *)
        else if j_start ei - j_stop ej >? W then inner_old ei r
        else if j_atom ei =? j_atom ej then inner_old ei r
        else if close ei ej then (ei, ej) :: inner_old ei r else inner_old ei r
    end.
  Fixpoint outer_old (l : list jump) : list (jump * jump) :=
    match l with [] => [] | ei :: r => inner_old ei r ++ outer_old r end.

  (* specification: every pair (earlier, later) of the sorted table that is collective *)
  Fixpoint all_pairs (l : list jump) : list (jump * jump) :=
    match l with [] => [] | x :: r => map (pair x) r ++ all_pairs r end.
  Definition coll_pairs (l : list jump) : list (jump * jump) :=
    filter (fun p => coll (fst p) (snd p)) (all_pairs l).
End Collective.

Definition max_transit (l : list jump) : Z := fold_left (fun m j => Z.max m (j_stop j - j_start j)) l 0.

Definition collective (W : Z) (d2 : list (list Z)) (maxd2 : Z) (table : list jump) : list (jump * jump) :=
  let s := sort_jumps table in outer W d2 maxd2 (max_transit s) s.

(* jumps that take part in at least one pair *)
Definition involved (pairs : list (jump * jump)) (j : jump) : bool :=
  existsb (fun p => jump_eqb (fst p) j || jump_eqb (snd p) j) pairs.
Definition n_coll (pairs : list (jump * jump)) (table : list jump) : Z :=
  Z.of_nat (length (filter (involved pairs) table)).
Definition n_solo (pairs : list (jump * jump)) (table : list jump) : Z :=
  Z.of_nat (length table) - n_coll pairs table.

Fixpoint stop_sorted (l : list jump) : bool :=
  match l with a :: ((b :: _) as r) => (j_stop a <=? j_stop b) && stop_sorted r | _ => true end.
