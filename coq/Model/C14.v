(* C14 -- derived metrics: defining formulas and scaling laws.  Real-number model.
   The periodogram used by the attempt frequency is a Section variable with the two
   properties the scaling laws need (recorded in the trusted base).  Definitions only. *)
From Coq Require Import Reals List.
Import ListNotations.
Open Scope R_scope.

Fixpoint rsum (l : list R) : R := match l with [] => 0 | x :: r => x + rsum r end.
Definition rmean (l : list R) : R := rsum l / INR (length l).

(* physical constants (SI exact values) *)
Definition angstrom : R := 1 / 10000000000.
Definition e_charge : R := 1602176634 / 10000000000000000000000000000.          (* 1.602176634e-19 *)
Definition k_B : R := 1380649 / 100000000000000000000000000000.                 (* 1.380649e-23 *)
Definition N_A : R := 602214076000000000000000.                                  (* 6.02214076e23 *)

(* formulas as written in metrics.py; vol in A^3, msd in A^2, time in s *)
Definition particle_density (n : R) (vol : R) : R := n / (vol * (angstrom * angstrom * angstrom)).
Definition mol_per_liter (rho : R) : R := rho * (1 / 1000) / N_A.
Definition tracer_diffusivity (msd : R) (dim : R) (total_time : R) : R := msd * (angstrom * angstrom) / (2 * dim * total_time).
Definition tracer_conductivity (z_ion diff rho temperature : R) : R :=
  (e_charge * e_charge) * (z_ion * z_ion) * diff * rho / (k_B * temperature).
Definition haven_ratio (d_tracer d_com : R) : R := d_tracer / d_com.

(* mean squared final displacement over atoms; distances in A *)
Definition msd_final (dists : list R) : R := rmean (map (fun d => d * d) dists).

(* speed = np.diff(distances, prepend=0) *)
Fixpoint diffs (prev : R) (l : list R) : list R := match l with [] => [] | x :: r => (x - prev) :: diffs x r end.
Definition speed (dist : list R) : list R := diffs 0 dist.

(* amplitudes, as the code computes them:
     signs  = np.sign(speed)
     splits = np.where(signs != np.roll(signs, -1))[0]       (cyclic comparison with the next frame)
     pieces = np.array_split(speed, splits[1:-1] + 1)         (first and last split dropped)
     amplitudes = [sum(piece) for piece in pieces] *)
Definition sgn (x : R) : Z := if Rlt_dec 0 x then 1%Z else if Rlt_dec x 0 then (-1)%Z else 0%Z.
Definition sign_changes (s : list Z) : list nat :=
  let T := length s in
  filter (fun i => negb (Z.eqb (nth i s 0%Z) (nth ((i + 1) mod T) s 0%Z))) (seq 0 T).
Definition strip {A} (l : list A) : list A := removelast (tl l).            (* l[1:-1] *)
Fixpoint split_at (prev : nat) (cuts : list nat) (l : list R) : list (list R) :=
  match cuts with
  | [] => [l]
  | c :: r => firstn (c - prev) l :: split_at c r (skipn (c - prev) l)
  end.
Definition pieces (sp : list R) : list (list R) :=
  split_at 0 (map S (strip (sign_changes (map sgn sp)))) sp.
Definition amplitudes (sp : list R) : list R := map rsum (pieces sp).

Section Frequency.
  (* periodogram: power spectral density of a signal sampled at fs, on the frequency grid
     freq_k = k * fs / n *)
  Variable P : list R -> nat -> R.         (* P x k : power of signal x in bin k (unit sampling) *)
  Definition nbins (x : list R) : nat := S (length x / 2).
  Definition meanfreq (x : list R) (fs : R) : R :=
    let n := INR (length x) in
    rsum (map (fun k => P x k * (INR k * fs / n)) (seq 0 (nbins x))) / rsum (map (fun k => P x k) (seq 0 (nbins x))).
  (* the only property of the periodogram the scaling law uses: homogeneity of degree 2 *)
  Definition P_homogeneous : Prop := forall c x k, P (map (Rmult c) x) k = c * c * P x k.
End Frequency.
