(* C13 -- drift correction.  Model of Trajectory.drift / apply_drift_correction for one
   Cartesian/fractional axis (the axes are independent).  Displacements are integer
   numerators over D; the drift is the mean over the n selected reference atoms, so drift
   and corrected quantities are numerators over n * D.  Definitions only. *)
From GV Require Import Base.Prelude Model.C01.

Section Drift.
  Variable D : Z.

  (* per-atom displacement histories (frames), selection mask over atoms *)
  Fixpoint vsum (cols : list (list Z)) : list Z :=
    match cols with
    | [] => []
    | [c] => c
    | c :: r => zip_with Z.add c (vsum r)
    end.
  Definition selected {A} (mask : list bool) (l : list A) : list A :=
    map snd (filter (fun p => fst p) (combine mask l)).
  Definition nsel (mask : list bool) : Z := Z.of_nat (length (filter (fun b => b) mask)).

  (* n * drift per frame: sum over the reference atoms of their displacement *)
  Definition drift_n (mask : list bool) (disp : list (list Z)) : list Z := vsum (selected mask disp).
  (* n * (corrected displacement) of one atom *)
  Definition corrected_n (n : Z) (dn : list Z) (d : list Z) : list Z :=
    zip_with (fun x s => n * x - s) d dn.
  Definition correct_all (mask : list bool) (disp : list (list Z)) : list (list Z) :=
    map (corrected_n (nsel mask) (drift_n mask disp)) disp.

  (* the implementation's pipeline for one axis: raw coordinates per atom (frames) ->
     wrapped positions -> minimum-image displacements -> drift -> corrected displacements ->
     positions rebuilt from the ORIGINAL base positions, numerators over n * D *)
  Definition disp_of (cs : list Z) : list Z := displacements D (positions D cs).
  Definition pipeline (mask : list bool) (atoms : list (list Z)) : list Z * list (list Z) :=
    let n := nsel mask in
    let disp := map disp_of atoms in
    let dn := drift_n mask disp in
    (dn,
     map (fun cs => match cs with
                    | [] => []
                    | c0 :: _ => map (fun c => wrapD (n * D) (n * c0 + c))
                                     (cumsum 0 (corrected_n n dn (disp_of cs)))
                    end) atoms).

  (* hypothesis of the round-trip statements: no corrected step reaches half a cell *)
  Definition small_steps (n : Z) (cols : list (list Z)) : bool :=
    forallb (forallb (fun x => (- (n * D) <? 2 * x) && (2 * x <? n * D))) cols.
End Drift.

(* species selection: symbols are integer codes *)
Definition mem (x : Z) (l : list Z) : bool := existsb (Z.eqb x) l.
Definition sel_fixed (fixed : list Z) (syms : list Z) : list bool := map (fun s => mem s fixed) syms.
Definition sel_floating (floating : list Z) (syms : list Z) : list bool := map (fun s => negb (mem s floating)) syms.
