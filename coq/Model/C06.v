(* C06 -- mean squared displacement and tracer diffusivity.
   A coordinate series is a list of integers (numerators of an unwrapped Cartesian
   component over the frames).  The implementation computes MSD(tau) = S1(tau) - 2 S2(tau)
   with S1 from a cumulative-sum recursion and S2 (the autocorrelation) by FFT; the FFT is
   modelled by the sum it is meant to compute.  All quantities are kept as numerators:
   the common factor 1 / (T - tau) is applied by the tie.  Definitions only. *)
From GV Require Import Base.Prelude.

(* definition: sum over time origins t of (x[t+tau] - x[t])^2 *)
Fixpoint lagged {A} (f : Z -> Z -> A) (xs ys : list Z) : list A :=
  match xs, ys with x :: xs', y :: ys' => f x y :: lagged f xs' ys' | _, _ => [] end.
Definition msd_num (xs : list Z) (tau : nat) : Z :=
  zsum (lagged (fun a b => (b - a) * (b - a)) xs (skipn tau xs)).
(* autocorrelation term: sum over t of x[t] * x[t+tau]  (what the zero-padded FFT returns) *)
Definition s2_num (xs : list Z) (tau : nat) : Z :=
  zsum (lagged (fun a b => a * b) xs (skipn tau xs)).

(* first term as the code computes it:
   D = x^2 per frame, extended by a zero; double_sum = 2 * sum D;
   cumsum over k of ( [0, D0, .., D(T-1)][k] + [0, D(T-1), .., D0][k] );  S1[tau] = double_sum - cumsum[tau] *)
Definition sq (xs : list Z) : list Z := map (fun x => x * x) xs.
Fixpoint csum (acc : Z) (l : list Z) : list Z :=
  match l with [] => [] | x :: r => (acc + x) :: csum (acc + x) r end.
Definition s1_num (xs : list Z) (tau : nat) : Z :=
  let d := sq xs in
  let e := zip_with Z.add (0 :: d) (0 :: rev d) in
  2 * zsum d - nth tau (csum 0 e) 0.

Definition msd_impl_num (xs : list Z) (tau : nat) : Z := s1_num xs tau - 2 * s2_num xs tau.

(* three Cartesian components: the squared displacement is the sum over components *)
Definition msd3_num (c : list (list Z)) (tau : nat) : Z := zsum (map (fun xs => msd_num xs tau) c).
Definition msd3_impl_num (c : list (list Z)) (tau : nat) : Z := zsum (map (fun xs => msd_impl_num xs tau) c).
