(* C17 -- shape analysis: ShapeAnalyzer.find_equivalent_positions.  For every symmetry
   operation (W, w): image of the site, positions within the radius (minimum image),
   re-imaging of the difference vector, inverse operation, centring on the site.
   Fractional vectors are numerators over D; operations have integer rotation parts and
   translation numerators over D; lengths through the Gram matrix.  Definitions only. *)
From GV Require Import Base.Prelude Model.C01 Model.Geom.

Record symop := { W : mat3; wt : V3 }.           (* x |-> W x + wt  (W acts on column vectors; rows of W) *)
Definition mulv (A : mat3) (v : V3) : V3 := (dot3 (ra A) v, dot3 (rb A) v, dot3 (rc A) v).
Definition apply_op (o : symop) (v : V3) : V3 := vadd3 (mulv (W o) v) (wt o).

(* re-imaging of one component: the repaired code subtracts floor(x + 1/2) *)
Definition reim (D x : Z) : Z := x - D * ((2 * x + D) / (2 * D)).
Definition reimage (D : Z) (v : V3) : V3 := let '(x, y, z) := v in (reim D x, reim D y, reim D z).
(* the code before the repair moved a component by at most one cell:
   x >= 1/2 -> x - 1;  x < -0.4999999 -> x + 1  (thresholds scaled: 2x >= D, 10^7 x < -4999999 D) *)
Definition reim_old (D x : Z) : Z :=
  if D <=? 2 * x then x - D else if 10000000 * x <? - 4999999 * D then x + D else x.
Definition reimage_old (D : Z) (v : V3) : V3 := let '(x, y, z) := v in (reim_old D x, reim_old D y, reim_old D z).

Section Shape.
  Variable D : Z.
  Variable G : gram.
  Variable K : Z.
  Variable r2 : Z * Z.                       (* radius^2 * D^2 as exact rational *)

  Definition selected (sym p : V3) : bool :=
    min_image_d2 D G K (vsub3 p sym) * snd r2 <? fst r2.

  (* points collected for one operation, given its inverse rotation *)
  Definition points_op (o : symop) (Winv : mat3) (site : V3) (positions : list V3) : list V3 :=
    let sym := apply_op o site in
    map (fun p => mulv Winv (reimage D (vsub3 p sym))) (filter (selected sym) positions).
  Definition points (ops : list (symop * mat3)) (site : V3) (positions : list V3) : list V3 :=
    flat_map (fun ow => points_op (fst ow) (snd ow) site positions) ops.

  (* number of (operation, position) pairs within the radius of the equivalent site *)
  Definition n_pairs (ops : list (symop * mat3)) (site : V3) (positions : list V3) : nat :=
    list_sum (map (fun ow => length (filter (selected (apply_op (fst ow) site)) positions)) ops).
End Shape.

(* W^T G W = G : the rotation part preserves the metric *)
Definition mat_cols (A : mat3) : V3 * V3 * V3 :=
  let '(a1, a2, a3) := ra A in let '(b1, b2, b3) := rb A in let '(c1, c2, c3) := rc A in
  ((a1, b1, c1), (a2, b2, c2), (a3, b3, c3)).
Definition bil (G : gram) (u v : V3) : Z :=
  let '(a, b, c) := u in let '(x, y, z) := v in
  g11 G * a * x + g22 G * b * y + g33 G * c * z
  + g12 G * (a * y + b * x) + g13 G * (a * z + c * x) + g23 G * (b * z + c * y).
Definition isometry (G : gram) (A : mat3) : bool :=
  let '(c1, c2, c3) := mat_cols A in
  (bil G c1 c1 =? g11 G) && (bil G c2 c2 =? g22 G) && (bil G c3 c3 =? g33 G)
  && (bil G c1 c2 =? g12 G) && (bil G c1 c3 =? g13 G) && (bil G c2 c3 =? g23 G).
Definition is_inverse (A B : mat3) : bool :=
  let e1 := (1, 0, 0) in let e2 := (0, 1, 0) in let e3 := (0, 0, 1) in
  let same (u v : V3) := let '(a, b, c) := u in let '(x, y, z) := v in (a =? x) && (b =? y) && (c =? z) in
  same (mulv A (mulv B e1)) e1 && same (mulv A (mulv B e2)) e2 && same (mulv A (mulv B e3)) e3.

(* radius below half the smallest perpendicular width of the cell: 4 r^2 |N_i|^2 <= det^2 *)
Definition radius_ok (M : mat3) (r2 : Z * Z) (D : Z) : bool :=
  let d := det3 M in
  let chk N := 4 * fst r2 * dot3 N N <=? snd r2 * D * D * (d * d) in
  negb (d =? 0) && chk (cross3 (rb M) (rc M)) && chk (cross3 (rc M) (ra M)) && chk (cross3 (ra M) (rb M)).

(* supercell folding of one component: np.mod(x, 1/s) * s  (s divides D) *)
Definition fold (D s x : Z) : Z := (x mod (D / s)) * s.

(* ---------- the computation as the code writes it ----------
   close -= np.floor(close - sym_coords + 0.5);  inversed = op.inverse.operate_multi(close);  centered = inversed - site_coords
   i.e. the *position* is moved to the image nearest to the equivalent site, the inverse operation (x |-> W^-1 x - W^-1 w) is applied to it,
   and the site is subtracted afterwards *)
Definition shift1 (D c s : Z) : Z := c - D * ((2 * (c - s) + D) / (2 * D)).
Definition shift3 (D : Z) (c s : V3) : V3 :=
  let '(c1, c2, c3) := c in let '(s1, s2, s3) := s in (shift1 D c1 s1, shift1 D c2 s2, shift1 D c3 s3).
Definition point_literal (D : Z) (o inv : symop) (site p : V3) : V3 :=
  let sym := apply_op o site in vsub3 (apply_op inv (shift3 D p sym)) site.
Definition inverse_of (o inv : symop) : Prop := is_inverse (W inv) (W o) = true /\ wt inv = vneg3 (mulv (W inv) (wt o)).
Definition points_literal (D : Z) (G : gram) (K : Z) (r2 : Z * Z) (ops : list (symop * symop)) (site : V3) (positions : list V3) : list V3 :=
  flat_map (fun oi => let sym := apply_op (fst oi) site in
                      map (point_literal D (fst oi) (snd oi) site) (filter (selected D G K r2 sym) positions)) ops.
