(* C01 (float clause) -- np.mod(x, 1) in binary64.
   numpy: r = fmod(x, 1) (exact, sign of x); if r < 0 then r + 1 (rounded) else r.
   Real-number model with Flocq's rounding operator for the theorems, and an executable
   PrimFloat twin that the tie compares bit for bit with numpy.  Definitions only. *)
From Coq Require Import ZArith Reals.
From Flocq Require Import Core.
From Coq Require Import PrimFloat Uint63 SpecFloat FloatOps.
Open Scope R_scope.

Definition fexp64 := FLT_exp (-1074) 53.
Definition rnd64 (x : R) : R := round radix2 fexp64 ZnearestE x.

Definition frac_part (x : R) : R := x - IZR (Ztrunc x).            (* fmod(x, 1) *)

(* the code before the repair: np.mod(coords, 1) *)
Definition wrapF_old (x : R) : R :=
  let r := frac_part x in if Rlt_bool r 0 then rnd64 (r + 1) else r.
(* the repaired code: a result that rounded up to 1.0 is mapped to 0.0 *)
Definition wrapF (x : R) : R :=
  let y := wrapF_old x in if Req_bool y 1 then 0 else y.

(* ---------- executable twin ---------- *)
Open Scope Z_scope.
(* integer part (toward zero) of a finite float, as a float; exact *)
Definition truncP (x : float) : float :=
  match Prim2SF x with
  | S754_finite s m e =>
      if (0 <=? e)%Z then x                        (* already an integer *)
      else let f := PrimFloat.of_uint63 (Uint63.of_Z (Z.shiftr (Zpos m) (- e))) in
           if s then PrimFloat.opp f else f
  | _ => x
  end.
Definition wrapP_old (x : float) : float :=
  let r := PrimFloat.sub x (truncP x) in
  if PrimFloat.ltb r PrimFloat.zero then PrimFloat.add r PrimFloat.one else r.
Definition wrapP (x : float) : float :=
  let y := wrapP_old x in if PrimFloat.eqb y PrimFloat.one then PrimFloat.zero else y.

(* construct a float from sign, mantissa, exponent: (-1)^s * m * 2^e *)
Definition mkfloat (s : bool) (m : Z) (e : Z) : float :=
  let f := Z.ldexp (PrimFloat.of_uint63 (Uint63.of_Z m)) e in if s then PrimFloat.opp f else f.
