(* C01 -- periodic positions / displacements.  Exact model of
   Trajectory.to_positions (pymatgen cumsum + np.mod(., 1)), pymatgen to_displacements
   (difference of consecutive frames minus np.around), cumulative_displacements (cumsum)
   and the metric-tensor length.  One coordinate of one atom over the frames is a list of
   integer numerators over a common denominator D > 0 (every finite set of floats has
   one).  Definitions only. *)
From GV Require Import Base.Prelude.

Section Wrap.
  Variable D : Z.                      (* common denominator, D > 0 *)

  Definition wrapD (x : Z) : Z := x mod D.                       (* np.mod(x/D, 1) * D *)

  (* np.around: round half to even of d / D *)
  Definition nint (d : Z) : Z :=
    let q := d / D in let r := d mod D in
    if 2 * r <? D then q else if D <? 2 * r then q + 1 else if Z.even q then q else q + 1.
  Definition mi (d : Z) : Z := d - D * nint d.                    (* minimum-image step *)

  Fixpoint diffs (prev : Z) (l : list Z) : list Z :=
    match l with [] => [] | x :: r => (x - prev) :: diffs x r end.
  Fixpoint cumsum (acc : Z) (l : list Z) : list Z :=
    match l with [] => [] | x :: r => (acc + x) :: cumsum (acc + x) r end.

  (* coordinates of one component over the frames *)
  Definition positions (cs : list Z) : list Z := map wrapD cs.
  Definition displacements (cs : list Z) : list Z :=
    match cs with [] => [] | c0 :: r => 0 :: map mi (diffs c0 r) end.
  Definition cumdisp (cs : list Z) : list Z := cumsum 0 (displacements cs).
  (* back to positions from displacement mode: base + cumsum, then np.mod *)
  Definition repositions (base : Z) (ds : list Z) : list Z := map (fun c => wrapD (base + c)) (cumsum 0 ds).

  (* no step of exactly half a cell (where the minimum image is not unique) *)
  Definition tie (d : Z) : bool := (2 * (d mod D) =? D).
  Definition no_tie (cs : list Z) : bool :=
    match cs with [] => true | c0 :: r => forallb (fun d => negb (tie d)) (diffs c0 r) end.
End Wrap.

(* squared length via the metric tensor: v G v^T  (G = Gram matrix of the lattice) *)
Definition qf3 (G : list (list Z)) (v : list Z) : Z :=
  zsum (zip_with (fun vi row => vi * zsum (zip_with Z.mul row v)) v G).
