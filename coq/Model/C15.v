(* C15 -- select / slice / split / extend and read-only queries.
   State machine over a store of trajectory objects.  A trajectory is (mode, coords, base):
   coords is a list of frames, each frame a flat list of components (atoms x 3) of integer
   numerators over the common denominator D; in displacement mode coords holds per-step
   displacements and base the first-frame positions.  Faithful to pymatgen's
   to_positions / to_displacements / __getitem__ / extend and GEMDAT's overrides
   (np.mod after to_positions; filter builds from positions[:, mask]).  Definitions only. *)
From GV Require Import Base.Prelude Model.C01.

Inductive mode := MPos | MDisp.
Record traj := { t_mode : mode; t_coords : list (list Z); t_base : list Z }.

Section Ops.
  Variable D : Z.

  Definition vadd (u v : list Z) : list Z := zip_with Z.add u v.
  Definition vsub (u v : list Z) : list Z := zip_with Z.sub u v.
  Definition vwrap (u : list Z) : list Z := map (wrapD D) u.
  Definition vmi (u : list Z) : list Z := map (mi D) u.
  Definition vzero (u : list Z) : list Z := map (fun _ => 0) u.

  Fixpoint fdiffs (prev : list Z) (fr : list (list Z)) : list (list Z) :=
    match fr with [] => [] | x :: r => vmi (vsub x prev) :: fdiffs x r end.
  Fixpoint fcumsum (acc : list Z) (fr : list (list Z)) : list (list Z) :=
    match fr with [] => [] | x :: r => vadd acc x :: fcumsum (vadd acc x) r end.

  (* GEMDAT to_positions: pymatgen (base + cumsum if in displacement mode) then np.mod *)
  Definition to_positions (t : traj) : traj :=
    match t_mode t with
    | MPos => {| t_mode := MPos; t_coords := map vwrap (t_coords t); t_base := t_base t |}
    | MDisp => {| t_mode := MPos;
                  t_coords := map vwrap (map (vadd (t_base t)) (fcumsum (vzero (t_base t)) (t_coords t)));
                  t_base := t_base t |}
    end.
  (* pymatgen to_displacements on whatever coords currently holds *)
  Definition to_displacements (t : traj) : traj :=
    match t_mode t with
    | MDisp => t
    | MPos => {| t_mode := MDisp;
                 t_coords := match t_coords t with [] => [] | f0 :: r => vzero f0 :: fdiffs f0 r end;
                 t_base := t_base t |}
    end.

  (* abstraction: the wrapped positions of every frame *)
  Definition abs (t : traj) : list (list Z) := t_coords (to_positions t).

  (* specification of the derived quantities as functions of the wrapped positions *)
  Definition spec_disp (p : list (list Z)) : list (list Z) :=
    match p with [] => [] | f0 :: r => vzero f0 :: fdiffs f0 r end.
  Definition spec_cum (p : list (list Z)) : list (list Z) :=
    match p with [] => [] | f0 :: _ => fcumsum (vzero f0) (spec_disp p) end.

  (* ---------- Python slice semantics ---------- *)
  Definition slice_indices (start stop step : option Z) (len : Z) : option (Z * Z * Z) :=
    let st := match step with None => 1 | Some s => s end in
    if st =? 0 then None else
    let lower := if 0 <? st then 0 else -1 in
    let upper := if 0 <? st then len else len - 1 in
    let clamp v := if v <? 0 then Z.max (v + len) lower else Z.min v upper in
    let a := match start with None => if st <? 0 then upper else lower | Some v => clamp v end in
    let b := match stop with None => if st <? 0 then lower else upper | Some v => clamp v end in
    Some (a, b, st).
  (* range(a, b, st) with fuel *)
  Fixpoint zrange_step (fuel : nat) (a b st : Z) : list Z :=
    match fuel with
    | O => []
    | S f => if (if 0 <? st then a <? b else b <? a) then a :: zrange_step f (a + st) b st else []
    end.
  Definition py_slice (start stop step : option Z) (len : nat) : option (list Z) :=
    match slice_indices start stop step (Z.of_nat len) with
    | None => None
    | Some (a, b, st) => Some (zrange_step (S len) a b st)
    end.
  Definition select {A} (d : A) (l : list A) (idx : list Z) : list A := map (fun i => znth d l i) idx.

  (* ---------- operations ---------- *)
  Inductive op :=
  | QPos (i : nat) | QDisp (i : nat) | QCum (i : nat)          (* read-only queries *)
  | OSlice (i : nat) (start stop step : option Z)               (* t[start:stop:step] -> new object *)
  | OFilter (i : nat) (mask : list bool)                        (* mask per component -> new object *)
  | OExtend (i j : nat).                                        (* i.extend(j): mutates i (and j's mode) *)

  Inductive res := RNone | RErr | RVal (v : list (list Z)).

  Fixpoint mask_sel {A} (mask : list bool) (l : list A) : list A :=
    match mask, l with
    | b :: m', x :: l' => if b then x :: mask_sel m' l' else mask_sel m' l'
    | _, _ => []
    end.

  Definition store := list traj.
  Fixpoint set_nth {A} (l : list A) (k : nat) (x : A) : list A :=
    match l, k with
    | [], _ => []
    | _ :: r, O => x :: r
    | y :: r, S k' => y :: set_nth r k' x
    end.

  Definition dummy : traj := {| t_mode := MPos; t_coords := []; t_base := [] |}.

  Definition step (s : store) (o : op) : store * res :=
    match o with
    | QPos i => let t := to_positions (nth i s dummy) in (set_nth s i t, RVal (t_coords t))
    | QDisp i => let t := to_displacements (nth i s dummy) in (set_nth s i t, RVal (t_coords t))
    | QCum i => let t := to_displacements (nth i s dummy) in
                (set_nth s i t, RVal (match t_coords t with [] => [] | f0 :: _ => fcumsum (vzero f0) (t_coords t) end))
    | OSlice i a b c =>
        let t := to_positions (nth i s dummy) in
        match py_slice a b c (length (t_coords t)) with
        | None => (set_nth s i t, RErr)
        | Some idx =>
            match select [] (t_coords t) idx with
            | [] => (set_nth s i t, RErr)                       (* pymatgen cannot build an empty trajectory *)
            | f0 :: r => (set_nth s i t ++ [{| t_mode := MPos; t_coords := f0 :: r; t_base := f0 |}], RVal (f0 :: r))
            end
        end
    | OFilter i mask =>
        let t := to_positions (nth i s dummy) in
        match map (mask_sel mask) (t_coords t) with
        | [] => (set_nth s i t, RErr)
        | f0 :: r => (set_nth s i t ++ [{| t_mode := MPos; t_coords := f0 :: r; t_base := f0 |}], RVal (f0 :: r))
        end
    | OExtend i j =>
        let ti := to_positions (nth i s dummy) in
        let tj := to_positions (nth j s dummy) in
        let ti' := {| t_mode := MPos; t_coords := t_coords ti ++ t_coords tj; t_base := t_base ti |} in
        (set_nth (set_nth s j tj) i ti', RNone)
    end.

  Fixpoint run (s : store) (ops : list op) : store * list res :=
    match ops with
    | [] => (s, [])
    | o :: r => let '(s1, x) := step s o in let '(s2, xs) := run s1 r in (s2, x :: xs)
    end.

  Definition read_only (o : op) : bool :=
    match o with OExtend _ _ => false | _ => true end.

  (* no exact half-cell step between consecutive frames of the wrapped positions *)
  Definition frames_no_tie (p : list (list Z)) : bool :=
    match p with
    | [] => true
    | f0 :: r => (fix go prev fr := match fr with
                                     | [] => true
                                     | x :: r' => forallb (fun d => negb (tie D d)) (vsub x prev) && go x r'
                                     end) f0 r
    end.
End Ops.
