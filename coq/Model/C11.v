(* C11 -- radial distributions: pair counts per distance bin, per state of the diffusing
   atom and per species of the other atom; species-pair histogram.  Distances enter as
   exact squared minimum-image distances (Geom), bin edges as exact squared rationals.
   Definitions only. *)
From GV Require Import Base.Prelude Model.C03.

(* np.digitize(d, bins, right=True) for increasing non-negative edges: number of edges e with e < d *)
Definition bin_right (edges2 : list (Z * Z)) (d2 : Z * Z) : Z :=
  Z.of_nat (length (filter (fun e => fst e * snd d2 <? fst d2 * snd e) edges2)).
(* np.histogram(d, bins): bin k holds edges[k] <= d < edges[k+1], the last bin also d = last edge; -1 = outside *)
Definition bin_hist (edges2 : list (Z * Z)) (d2 : Z * Z) : Z :=
  let below := Z.of_nat (length (filter (fun e => fst e * snd d2 <=? fst d2 * snd e) edges2)) in
  let n := Z.of_nat (length edges2) in
  if below =? 0 then -1
  else if below <? n then below - 1
  else if existsb (fun e => fst e * snd d2 =? fst d2 * snd e) edges2 then n - 2 else -1.

(* label index of a site state (the repaired _uniqify_labels: mapping[state + 1]) *)
Definition lab_of (labels : list Z) (s : Z) : Z := if s <? 0 then -1 else znth (-1) labels s.

(* integer state code and the naming branches of _get_states *)
Definition code (i j k : Z) : Z := i * 1000000 + j * 1000 + k.
Inductive sname := At (x : Z) | Transit (x y : Z) | Leaving (x : Z).       (* '@X', 'X->Y', '~>X' *)
Definition name_of (nlab : Z) (i j k : Z) : sname :=
  if negb (i =? -1) then At i
  else if (j =? -1) || (k =? -1) then Leaving (if j =? -1 then nlab - 1 else j)   (* unique_labels[-1] is the last label *)
  else Transit j k.
Definition sname_eqb (a b : sname) : bool :=
  match a, b with
  | At x, At y => x =? y
  | Transit x y, Transit u v => (x =? u) && (y =? v)
  | Leaving x, Leaving y => x =? y
  | _, _ => false
  end.

(* one counted pair: frame, diffusing atom (index among the diffusing atoms), other atom (index among all atoms) *)
Record pair_rec := { p_name : sname; p_sym : Z; p_bin : Z }.

(* per diffusing atom: site history; per frame and (diffusing, other) pair: squared distance *)
Definition names_of_atom (nlab : Z) (labels : list Z) (hist : list Z) : list sname :=
  zip_with (fun s pn => name_of nlab (lab_of labels s) (lab_of labels (fst pn)) (lab_of labels (snd pn)))
           hist (zip_with pair (ffill hist) (bfill hist)).

(* all counted pairs of a run: dists[t][a][b] *)
Definition pairs_of (nlab : Z) (labels : list Z) (hists : list (list Z)) (symbols : list Z)
           (edges2 : list (Z * Z)) (dists : list (list (list (Z * Z)))) : list pair_rec :=
  let names := map (names_of_atom nlab labels) hists in       (* per atom, per frame *)
  concat (map (fun td =>                                      (* td = (t, dists at frame t) *)
    concat (zip_with (fun nm row =>
      zip_with (fun sym d2 => {| p_name := nth (fst td) nm (Leaving (-9)); p_sym := sym; p_bin := bin_right edges2 d2 |})
               symbols row) names (snd td)))
    (combine (seq 0 (length dists)) dists)).

Definition count_key (ps : list pair_rec) (nm : sname) (sym bin : Z) : Z :=
  Z.of_nat (length (filter (fun p => sname_eqb (p_name p) nm && (p_sym p =? sym) && (p_bin p =? bin)) ps)).

(* species-pair histogram: counts per bin over all frames and pairs *)
Definition hist_counts (edges2 : list (Z * Z)) (ds : list (Z * Z)) (k : Z) : Z :=
  Z.of_nat (length (filter (fun d => bin_hist edges2 d =? k) ds)).
