(* C10 -- optimal and percolating paths.  Model of gemdat.path.free_energy_graph (nodes below
   the threshold, 6 or 26 periodic moves, edge weight = mean of the endpoint energies),
   path validity and cost, potential (dual) certificates of optimality, cut certificates of
   unreachability, min-max criterion, percolation targets.  Energies are integer numerators
   over a common denominator; weights are kept doubled (E u + E v) to stay in Z.
   Definitions only. *)
From GV Require Import Base.Prelude.

Definition node := (Z * Z * Z)%type.
Definition node_eqb (a b : node) : bool :=
  let '(a1, a2, a3) := a in let '(b1, b2, b3) := b in (a1 =? b1) && (a2 =? b2) && (a3 =? b3).

Record grid := { dims : node; energies : list Z }.     (* C order *)

Definition in_grid (d : node) (v : node) : bool :=
  let '(nx, ny, nz) := d in let '(x, y, z) := v in
  (0 <=? x) && (x <? nx) && (0 <=? y) && (y <? ny) && (0 <=? z) && (z <? nz).
Definition index (d : node) (v : node) : Z :=
  let '(nx, ny, nz) := d in let '(x, y, z) := v in (x * ny + y) * nz + z.
Definition E (g : grid) (v : node) : Z := znth 0 (energies g) (index (dims g) v).

(* node admission: 0 <= F < threshold *)
Definition admissible (g : grid) (thr : Z) (v : node) : bool :=
  in_grid (dims g) v && (0 <=? E g v) && (E g v <? thr).

Definition face_moves : list node :=
  [(1,0,0); (-1,0,0); (0,1,0); (0,-1,0); (0,0,1); (0,0,-1)].
Definition diag_moves : list node :=
  [(1,1,0); (-1,-1,0); (1,-1,0); (-1,1,0); (1,0,1); (-1,0,-1); (1,0,-1); (-1,0,1);
   (0,1,1); (0,-1,-1); (0,1,-1); (0,-1,1); (1,1,1); (-1,-1,-1); (1,-1,-1); (-1,1,1)].
Definition moves (diagonal : bool) : list node := if diagonal then face_moves ++ diag_moves else face_moves.

Definition step_to (d : node) (u m : node) : node :=
  let '(nx, ny, nz) := d in let '(x, y, z) := u in let '(a, b, c) := m in
  ((x + a) mod nx, (y + b) mod ny, (z + c) mod nz).

Definition all_nodes (d : node) : list node :=
  let '(nx, ny, nz) := d in
  flat_map (fun i => flat_map (fun j => map (fun k => (i, j, k)) (zrange 0 (Z.to_nat nz)))
                              (zrange 0 (Z.to_nat ny))) (zrange 0 (Z.to_nat nx)).

(* directed edge list of the free-energy graph (both orientations are generated) *)
Definition edges (g : grid) (thr : Z) (diagonal : bool) : list (node * node) :=
  flat_map (fun u => if admissible g thr u
                     then flat_map (fun m => let v := step_to (dims g) u m in
                                             if admissible g thr v then [(u, v)] else [])
                                   (moves diagonal)
                     else [])
           (all_nodes (dims g)).

(* ---------- generic graph part: certificates ---------- *)
Section Graph.
  Variable V : Type.
  Variable veqb : V -> V -> bool.
  Variable edge_list : list (V * V).
  Variable w : V -> V -> Z.                  (* cost of traversing edge u -> v *)

  Definition is_edge (u v : V) : bool := existsb (fun e => veqb (fst e) u && veqb (snd e) v) edge_list.

  Fixpoint path_ok (p : list V) : bool :=
    match p with
    | u :: ((v :: _) as r) => is_edge u v && path_ok r
    | _ => true
    end.
  Fixpoint cost (p : list V) : Z :=
    match p with
    | u :: ((v :: _) as r) => w u v + cost r
    | _ => 0
    end.
  Definition endpoints (s t : V) (p : list V) : bool :=
    match p with
    | [] => false
    | x :: _ => veqb x s && veqb (last p x) t
    end.

  (* dual certificate: a potential that no edge can beat *)
  Definition feasible (pot : V -> Z) : bool :=
    forallb (fun e => pot (snd e) <=? pot (fst e) + w (fst e) (snd e)) edge_list.

  (* cut certificate: a set containing s, not t, closed under outgoing edges *)
  Definition closed_cut (inC : V -> bool) (s t : V) : bool :=
    inC s && negb (inC t) && forallb (fun e => implb (inC (fst e)) (inC (snd e))) edge_list.
End Graph.

(* ---------- instances on the grid ---------- *)
Definition w2 (g : grid) (u v : node) : Z := E g u + E g v.            (* 2 x mean of endpoint energies *)
Definition w_hops (u v : node) : Z := 1.
Definition pot_of (d : node) (l : list Z) (v : node) : Z := znth 0 l (index d v).

Definition path_energies (g : grid) (p : list node) : list Z := map (E g) p.
Definition total_energy (g : grid) (p : list node) : Z := zsum (path_energies g p).
Definition max_energy (g : grid) (p : list node) : Z := fold_right Z.max 0 (path_energies g p).

(* percolation: tile the grid once more along the requested axes *)
Definition tile_dims (d : node) (perc : bool * bool * bool) : node :=
  let '(nx, ny, nz) := d in let '(px, py, pz) := perc in
  ((if px then 2 else 1) * nx, (if py then 2 else 1) * ny, (if pz then 2 else 1) * nz).
Definition tile (g : grid) (perc : bool * bool * bool) : grid :=
  let d := dims g in let td := tile_dims d perc in
  {| dims := td;
     energies := map (fun v => let '(x, y, z) := v in let '(nx, ny, nz) := d in E g (x mod nx, y mod ny, z mod nz))
                     (all_nodes td) |}.
Definition perc_stop (d : node) (perc : bool * bool * bool) (s : node) : node :=
  let '(nx, ny, nz) := d in let '(px, py, pz) := perc in let '(x, y, z) := s in
  (x + (if px then nx else 0), y + (if py then ny else 0), z + (if pz then nz else 0)).

(* the loop of optimal_percolating_path over the peaks: a peak without a path is skipped; a path replaces the best one only if strictly cheaper *)
Definition best_upd (best : option Z) (x : option Z) : option Z :=
  match x with
  | None => best
  | Some c => match best with None => Some c | Some bc => if c <? bc then Some c else Some bc end
  end.
Definition best_cost (costs : list (option Z)) : option Z := fold_left best_upd costs None.
