(* C02 -- site assignment.  An atom at fractional position p is AT site k when the minimum
   image distance between p and the site centre is below radius(label k) * fraction.
   Distances are compared squared and scaled: d2 < r2 where r2 = (radius * fraction)^2 *
   D^2 (the harness supplies r2 exactly as a rational numerator over the same scale).
   Definitions only. *)
From GV Require Import Base.Prelude Model.C01 Model.Geom.

(* radii are exact rationals: r = (radius_k)^2 * D^2 as (num, den); f = (inner fraction)^2 as (num, den) *)
Definition dist2 (D : Z) (G : gram) (K : Z) (p s : V3) : Z := min_image_d2 D G K (vsub3 p s).
Definition within (D : Z) (G : gram) (K : Z) (p s : V3) (r : Z * Z) (f : Z * Z) : bool :=
  dist2 D G K p s * snd r * snd f <? fst r * fst f.

(* admissible sites of an atom: indices of the sites whose (scaled) sphere contains it *)
Fixpoint adm_from (D : Z) (G : gram) (K : Z) (f : Z * Z) (k : Z) (ss : list V3) (rs : list (Z * Z)) (p : V3) : list Z :=
  match ss, rs with
  | s :: ss', r :: rs' => (if within D G K p s r f then [k] else []) ++ adm_from D G K f (k + 1) ss' rs' p
  | _, _ => []
  end.

(* a reported state is acceptable when it is an admissible site, or -1 when there is none
   (-99 marks positions excluded by the float32 guard band of the tie) *)
Definition ok_state (adm : list Z) (st : Z) : bool :=
  (st =? -99) || match adm with [] => st =? -1 | _ => existsb (Z.eqb st) adm end.

(* automatic radius: all site spheres of squared radius r are pairwise disjoint when 4 r^2 <= d^2 *)
Definition spheres_disjoint (D : Z) (G : gram) (K : Z) (sites : list V3) (r : Z * Z) : bool :=
  forallb (fun s => forallb (fun t => (qf G (vsub3 s t) =? 0) || (4 * fst r <=? dist2 D G K s t * snd r)) sites) sites.

(* integer_remap as written (palette = np.unique(a), index = np.digitize(a, palette, right=True)):
   maps a value to key[rank of the value among the values that occur] *)
Definition rank_in (palette : list Z) (x : Z) : nat := length (filter (fun p => p <? x) palette).
Definition remap_rank (key palette : list Z) (a : list Z) : list Z := map (fun x => nth (rank_in palette x) key (-7)) a.
(* the repaired mapping: group-local index -> global site index *)
Definition remap_direct (key : list Z) (a : list Z) : list Z := map (fun x => znth (-7) key x) a.
