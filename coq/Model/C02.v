(* C02 -- site assignment.  An atom at fractional position p is AT site k when the minimum
   image distance between p and the site centre is below radius(label k) * fraction.
   Distances are compared squared and scaled: d2 < r2 where r2 = (radius * fraction)^2 *
   D^2 (the harness supplies r2 exactly as a rational numerator over the same scale).
   Definitions only. *)
From GV Require Import Base.Prelude Model.C01 Model.Geom.

Section Sites.
  Variable D : Z.
  Variable G : gram.
  Variable K : Z.

  Definition dist2 (p s : V3) : Z := min_image_d2 D G K (vsub3 p s).

  (* set of admissible sites for an atom: index list of the sites within their radius *)
  Fixpoint admissible_from (k : Z) (sites : list V3) (r2 : list Z) (p : V3) : list Z :=
    match sites, r2 with
    | s :: ss, r :: rs => (if dist2 p s <? r then [k] else []) ++ admissible_from (k + 1) ss rs p
    | _, _ => []
    end.
  Definition admissible_sites (sites : list V3) (r2 : list Z) (p : V3) : list Z := admissible_from 0 sites r2 p.

  (* the state reported for an atom is acceptable when it is an admissible site, or -1 when there is none *)
  Definition state_ok (sites : list V3) (r2 : list Z) (p : V3) (st : Z) : bool :=
    match admissible_sites sites r2 p with
    | [] => st =? -1
    | adm => existsb (Z.eqb st) adm
    end.

  (* inner states: same rule with the scaled radii; acceptable inner state is -1 or admissible *)
  (* automatic radius: spheres of radius r around sites at mutual distance >= dmin do not overlap when 2 r <= dmin *)
  Definition spheres_disjoint (sites : list V3) (r2 : Z) : bool :=
    (* 4 r^2 <= d^2 for all pairs *)
    forallb (fun s => forallb (fun t => (qf G (vsub3 s t) =? 0) || (4 * r2 <=? dist2 s t)) sites) sites.
End Sites.

(* integer_remap as written (palette = np.unique(a), index = np.digitize(a, palette, right=True)):
   maps a value to key[rank of the value among the values that occur] *)
Definition rank_in (palette : list Z) (x : Z) : nat := length (filter (fun p => p <? x) palette).
Definition remap_rank (key palette : list Z) (a : list Z) : list Z := map (fun x => nth (rank_in palette x) key (-7)) a.
(* the repaired mapping: group-local index -> global site index *)
Definition remap_direct (key : list Z) (a : list Z) : list Z := map (fun x => znth (-7) key x) a.
