(* C05 -- count matrices, counters, occupancy, jump-diffusivity sum.
   Model of gemdat.transitions._calculate_transitions_matrix (dense matrix by fancy-index
   assignment of np.unique pair counts, with Python negative-index wrap and
   last-writer-wins), Jumps._counter/counter, Transitions.occupancy. Definitions only. *)
From GV Require Import Base.Prelude.

Definition pair_eqb (p q : Z * Z) : bool := (fst p =? fst q) && (snd p =? snd q).
Definition pcount (p : Z * Z) (rows : list (Z * Z)) : Z :=
  Z.of_nat (length (filter (pair_eqb p) rows)).

(* Python index normalisation for an axis of length n (valid for -n <= x < n) *)
Definition norm (n x : Z) : Z := if x <? 0 then x + n else x.

(* lexicographic order: np.unique(axis=0) sorts rows, the assignment runs in that order,
   so for cells addressed twice the lexicographically largest pair wins *)
Definition lex_ltb (p q : Z * Z) : bool :=
  (fst p <? fst q) || ((fst p =? fst q) && (snd p <? snd q)).
Definition lex_max (l : list (Z * Z)) : option (Z * Z) :=
  fold_left (fun acc p => match acc with
                          | None => Some p
                          | Some q => if lex_ltb q p then Some p else Some q
                          end) l None.

Definition entry (n : Z) (rows : list (Z * Z)) (i j : Z) : Z :=
  match lex_max (filter (fun p => (norm n (fst p) =? i) && (norm n (snd p) =? j)) rows) with
  | None => 0
  | Some p => pcount p rows
  end.

Definition matrix (n : nat) (rows : list (Z * Z)) : list (list Z) :=
  map (fun i => map (fun j => entry (Z.of_nat n) rows i j) (zrange 0 n)) (zrange 0 n).

(* the same matrix restricted to rows that address real sites (the repaired behaviour) *)
Definition in_range (n : Z) (p : Z * Z) : bool :=
  (0 <=? fst p) && (fst p <? n) && (0 <=? snd p) && (snd p <? n).

(* label-level counter: number of rows whose (label start, label dest) is (la, lb) *)
Definition lab (labels : list Z) (k : Z) : Z := znth (-7) labels k.
Definition counter (labels : list Z) (rows : list (Z * Z)) (la lb : Z) : Z :=
  Z.of_nat (length (filter (fun p => (lab labels (fst p) =? la) && (lab labels (snd p) =? lb)) rows)).

(* weighted sums *)
Definition msum (n : nat) (f : Z -> Z -> Z) : Z :=
  zsum (map (fun i => zsum (map (fun j => f i j) (zrange 0 n))) (zrange 0 n)).
Definition rows_wsum (w : Z -> Z -> Z) (rows : list (Z * Z)) : Z :=
  zsum (map (fun p => w (fst p) (snd p)) rows).

(* occupancy: number of (frame, atom) entries equal to site k *)
Definition occ_count (states : list (list Z)) (k : Z) : Z :=
  zsum (map (fun col => Z.of_nat (length (filter (Z.eqb k) col))) states).
Definition visited_count (states : list (list Z)) : Z :=
  zsum (map (fun col => Z.of_nat (length (filter (fun x => negb (x =? -1)) col))) states).

(* occupancy as the code computes it: np.unique counts over the whole (flattened) state table; occupancies.get(i, 0) *)
Definition occ_flat (states : list (list Z)) (i : Z) : Z := Z.of_nat (length (filter (Z.eqb i) (concat states))).
(* occupancy_by_site_type / atom_locations: sum over the sites carrying label la (numerator over the number of frames), and their number *)
Definition label_num (labels : list Z) (states : list (list Z)) (n : nat) (la : Z) : Z :=
  zsum (map (fun k => if lab labels k =? la then occ_flat states k else 0) (zrange 0 n)).
Definition label_sites (labels : list Z) (n : nat) (la : Z) : Z :=
  zsum (map (fun k => if lab labels k =? la then 1 else 0) (zrange 0 n)).
