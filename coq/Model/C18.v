(* C18 -- orientation vectors: bonds from each centre atom to its four satellites, wrapped by
   at most one cell per component, symmetrisation by a stack of operation matrices
   (np.einsum 'tbi,ijk->tbkj' applies the TRANSPOSE of each operation), linear transforms.
   Fractional quantities are integer numerators over D.  Definitions only. *)
From GV Require Import Base.Prelude Model.C01 Model.Geom Model.C17.

(* direction = sat - cent; > 1/2 -> -1; < -1/2 -> +1 *)
Definition bw (D d : Z) : Z := if D <? 2 * d then d - D else if 2 * d <? - D then d + D else d.
Definition bond (D : Z) (cent sat : V3) : V3 :=
  let '(a, b, c) := vsub3 sat cent in (bw D a, bw D b, bw D c).

(* matching at frame 0: satellites closer than 1.5 x the smallest centre-satellite distance; the first four *)
Definition matched (D : Z) (G : gram) (K : Z) (cents sats : list V3) : list (list nat) :=
  let d2 c s := min_image_d2 D G K (vsub3 c s) in
  let all := flat_map (fun c => map (d2 c) sats) cents in
  let dmin := fold_right Z.min (hd 0 all) all in
  map (fun c => firstn 4 (filter (fun j => 4 * d2 c (nth j sats (0,0,0)) <? 9 * dmin) (seq 0 (length sats)))) cents.

(* vectors of one frame: for every centre, its matched satellites in order *)
Definition frame_vectors (D : Z) (m : list (list nat)) (cents sats : list V3) : list V3 :=
  concat (zip_with (fun c js => map (fun j => bond D c (nth j sats (0,0,0))) js) cents m).

(* symmetrize: for each vector, for each operation k: v R_k  (= R_k^T v) *)
Definition tr (A : mat3) : mat3 :=
  let '(c1, c2, c3) := mat_cols A in {| ra := c1; rb := c2; rc := c3 |}.
Definition symmetrize (ops : list mat3) (vs : list V3) : list V3 :=
  flat_map (fun v => map (fun R => mulv (tr R) v) ops) vs.
(* what the property asks for: the images of v under the group, one per operation *)
Definition images (ops : list mat3) (v : V3) : list V3 := map (fun R => mulv R v) ops.

Definition mat_eqb (A B : mat3) : bool :=
  let e (u v : V3) := let '(a, b, c) := u in let '(x, y, z) := v in (a =? x) && (b =? y) && (c =? z) in
  e (ra A) (ra B) && e (rb A) (rb B) && e (rc A) (rc B).
Definition closed_under_transpose (ops : list mat3) : bool :=
  forallb (fun R => existsb (mat_eqb (tr R)) ops) ops.
Definition orthogonal (R : mat3) : bool := is_inverse R (tr R).

(* transform: np.dot(vectors, matrix.T) = matrix applied to every vector *)
Definition transform (A : mat3) (vs : list V3) : list V3 := map (mulv A) vs.

(* autocorrelation by definition: time-origin averaged dot product, normalised at lag 0.
   Numerators: sum over t of v[t] . v[t+tau]; the average divides by (T - tau) *)
Fixpoint lag_dot (xs ys : list V3) : Z :=
  match xs, ys with x :: xs', y :: ys' => dot3 x y + lag_dot xs' ys' | _, _ => 0 end.
Definition autocorr_num (vs : list V3) (tau : nat) : Z := lag_dot vs (skipn tau vs).
