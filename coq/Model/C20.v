(* C20 -- memoisation through weak_lru_cache: functools.lru_cache(maxsize) keyed on
   (weakref.ref(self), args).  Model of the CPython semantics the decorator relies on:
   - one canonical weak reference per live object, kept alive by the cache entry, so that
     "same key object" <=> "same object (uid)"; a dead reference is only equal to itself,
     hence never equal to the reference of a new object, even one allocated at the same
     address (equal hash);
   - lru_cache: hit moves the entry to the front, miss calls the function and inserts at
     the front, the least recently used entry is evicted beyond maxsize;
   - reference counting: an object lives while the user holds it or a cached VALUE refers
     to it (the key does not).
   Definitions only. *)
From GV Require Import Base.Prelude.

Record obj := { o_addr : Z; o_user : bool }.            (* uid = position in [objs] *)
Record entry := { e_uid : nat; e_args : Z; e_val : Z; e_back : bool }.
Record state := { objs : list obj; cache : list entry }.   (* cache: most recent first *)

Inductive op :=
| New (addr : Z)                          (* allocate an object at this address *)
| Call (k : nat) (args : Z) (back : bool) (* call the cached method of object k; back: the value refers to its owner *)
| Drop (k : nat)                          (* the user drops its reference to object k *)
| Collect.                                (* gc.collect() *)

Inductive out := ONone | OVal (v : Z) (hit : bool).

Definition init : state := {| objs := []; cache := [] |}.

Definition held (s : state) (k : nat) : bool :=
  match nth_error (objs s) k with Some o => o_user o | None => false end.
Definition pinned (s : state) (k : nat) : bool :=
  existsb (fun e => e_back e && (e_uid e =? k)%nat) (cache s).
Definition alive (s : state) (k : nat) : bool := held s k || pinned s k.

Definition key_eqb (e : entry) (k : nat) (args : Z) : bool := (e_uid e =? k)%nat && (e_args e =? args).

Fixpoint lookup (c : list entry) (k : nat) (args : Z) : option entry :=
  match c with
  | [] => None
  | e :: r => if key_eqb e k args then Some e else lookup r k args
  end.
Fixpoint remove_key (c : list entry) (k : nat) (args : Z) : list entry :=
  match c with
  | [] => []
  | e :: r => if key_eqb e k args then r else e :: remove_key r k args
  end.

Fixpoint set_user (l : list obj) (k : nat) (b : bool) : list obj :=
  match l, k with
  | [], _ => []
  | o :: r, O => {| o_addr := o_addr o; o_user := b |} :: r
  | o :: r, S k' => o :: set_user r k' b
  end.

Section Cache.
  Variable f : nat -> Z -> Z.     (* the wrapped method: (object uid, args) -> value *)
  Variable maxsize : nat.

  Definition step (s : state) (o : op) : state * out :=
    match o with
    | New a => ({| objs := objs s ++ [{| o_addr := a; o_user := true |}]; cache := cache s |}, ONone)
    | Drop k => ({| objs := set_user (objs s) k false; cache := cache s |}, ONone)
    | Collect => (s, ONone)
    | Call k args back =>
        if negb (held s k) then (s, ONone)             (* cannot call through a dropped name *)
        else match lookup (cache s) k args with
             | Some e => ({| objs := objs s; cache := e :: remove_key (cache s) k args |}, OVal (e_val e) true)
             | None =>
                 let e := {| e_uid := k; e_args := args; e_val := f k args; e_back := back |} in
                 ({| objs := objs s; cache := firstn maxsize (e :: cache s) |}, OVal (f k args) false)
             end
    end.

  Fixpoint run (s : state) (ops : list op) : state * list out :=
    match ops with
    | [] => (s, [])
    | o :: r => let '(s1, x) := step s o in let '(s2, xs) := run s1 r in (s2, x :: xs)
    end.

  (* observable after each operation: output and the liveness of every object *)
  Fixpoint trace (s : state) (ops : list op) : list (out * list bool) :=
    match ops with
    | [] => []
    | o :: r => let '(s1, x) := step s o in
                (x, map (alive s1) (seq 0 (length (objs s1)))) :: trace s1 r
    end.
End Cache.
