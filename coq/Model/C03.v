(* C03 -- transition events: executable model of
   gemdat.transitions._calculate_transition_events and of
   Transitions.states_prev / states_next (utils.ffill / bfill).
   Definitions only; proofs live in Proofs/C03.v. *)
From GV Require Import Base.Prelude.

Record row := { r_atom : Z; r_s : Z; r_d : Z; r_si : Z; r_di : Z; r_t : Z }.

Definition row_eqb (a b : row) : bool :=
  (r_atom a =? r_atom b) && (r_s a =? r_s b) && (r_d a =? r_d b) &&
  (r_si a =? r_si b) && (r_di a =? r_di b) && (r_t a =? r_t b).

(* ---------- specification: the change log of (outer, inner) ---------- *)
Fixpoint events_from (a t : Z) (o i : list Z) : list row :=
  match o, i with
  | x :: ((y :: _) as o'), u :: ((v :: _) as i') =>
      (if negb (x =? y) || negb (u =? v)
       then [{| r_atom := a; r_s := x; r_d := y; r_si := u; r_di := v; r_t := t |}] else [])
      ++ events_from a (t + 1) o' i'
  | _, _ => []
  end.

(* replay an atom's rows from its first-frame state: n frames from time t *)
Fixpoint replay (n : nat) (t co ci : Z) (rows : list row) : list (Z * Z) :=
  match n with
  | O => []
  | S n' =>
      (co, ci) :: match rows with
                  | r :: rs => if r_t r =? t then replay n' (t + 1) (r_d r) (r_di r) rs
                               else replay n' (t + 1) co ci rows
                  | [] => replay n' (t + 1) co ci []
                  end
  end.

(* ---------- implementation model (numpy formulation) ---------- *)
Definition roll (l : list Z) : list Z := match l with [] => [] | a :: l' => l' ++ [a] end.

(* np.nonzero(l != np.roll(l, -1)) *)
Fixpoint neq_idx (t : Z) (p : list (Z * Z)) : list Z :=
  match p with [] => [] | (a, b) :: p' => (if a =? b then [] else [t]) ++ neq_idx (t + 1) p' end.
Definition change_idx (l : list Z) : list Z := neq_idx 0 (combine l (roll l)).

(* "if len(i) and i[-1] == T-1: i = i[:-1]"  (the length guard is the repaired code) *)
Definition drop_wrap (T : Z) (i : list Z) : list Z :=
  match rev i with x :: r => if x =? T - 1 then rev r else i | [] => i end.

(* np.unique of integers known to lie in [0, T): the increasing list of members *)
Definition unique_below (T : nat) (xs : list Z) : list Z :=
  filter (fun t => existsb (Z.eqb t) xs) (zrange 0 T).

Definition mkrow (a : Z) (o i : list Z) (t : Z) : row :=
  {| r_atom := a; r_s := znth 0 o t; r_d := znth 0 o (t + 1);
     r_si := znth 0 i t; r_di := znth 0 i (t + 1); r_t := t |}.

Definition events_atom (a : Z) (o i : list Z) : list row :=
  let T := Z.of_nat (length o) in
  let io := drop_wrap T (change_idx o) in
  let ii := drop_wrap T (change_idx i) in
  map (mkrow a o i) (unique_below (length o) (io ++ ii)).

Fixpoint events_all (a : Z) (atoms : list (list Z * list Z)) : list row :=
  match atoms with
  | [] => []
  | (o, i) :: r => events_atom a o i ++ events_all (a + 1) r
  end.

(* ---------- ffill / bfill ---------- *)
(* idx = where(arr != -1, arange, 0); maximum.accumulate(idx); arr[idx] *)
Fixpoint ffill_idx (t acc : Z) (l : list Z) : list Z :=
  match l with
  | [] => []
  | x :: r => let acc' := Z.max acc (if x =? -1 then 0 else t) in acc' :: ffill_idx (t + 1) acc' r
  end.
Definition ffill (l : list Z) : list Z := map (znth 0 l) (ffill_idx 0 0 l).
Definition bfill (l : list Z) : list Z := rev (ffill (rev l)).

(* spec: most recent non-NOSITE value at or before each frame, else NOSITE *)
Fixpoint ffill_spec (cur : Z) (l : list Z) : list Z :=
  match l with
  | [] => []
  | x :: r => let c := if x =? -1 then cur else x in c :: ffill_spec c r
  end.

(* short constructor used by generated case files *)
Definition R a s d si di t := {| r_atom := a; r_s := s; r_d := d; r_si := si; r_di := di; r_t := t |}.
