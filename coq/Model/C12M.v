(* C12 (continued) -- the label-pair matrix of the collective pairs: Collective.site_pair_count_matrix.  Definitions only. *)
From GV Require Import Base.Prelude Model.C05.
(* Collective.site_pair_count_matrix: for every collective pair ((start_i, stop_i), (start_j, stop_j)) the cell
   [site_pairs.index((label start_i, label stop_i)), site_pairs.index((label start_j, label stop_j))] is incremented by one;
   site_pairs = list({(l1, l2) for l1 in labels for l2 in labels}) : every pair of labels once, in some order *)
Definition lp (labels : list Z) (sd : Z * Z) : Z * Z := (lab labels (fst sd), lab labels (snd sd)).
Definition lp_hit (labels : list Z) (p q : Z * Z) (x : (Z * Z) * (Z * Z)) : bool :=
  pair_eqb (lp labels (fst x)) p && pair_eqb (lp labels (snd x)) q.
Definition lp_cell (labels : list Z) (cj : list ((Z * Z) * (Z * Z))) (p q : Z * Z) : Z :=
  Z.of_nat (length (filter (lp_hit labels p q) cj)).
Definition lp_matrix (labels : list Z) (cj : list ((Z * Z) * (Z * Z))) (P : list (Z * Z)) : list (list Z) :=
  map (fun p => map (lp_cell labels cj p) P) P.
Definition lp_total (labels : list Z) (cj : list ((Z * Z) * (Z * Z))) (P : list (Z * Z)) : Z :=
  zsum (map (fun p => zsum (map (lp_cell labels cj p) P)) P).

