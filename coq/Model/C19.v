(* C19 -- time partitioning: np.array_split of the state arrays, events binned by
   np.linspace(0, n_states + 1, n_parts + 1, dtype=int) and re-based, Trajectory.split by
   np.linspace(0, len - 1, n_parts + 1, dtype=int).  Definitions only. *)
From GV Require Import Base.Prelude Model.C03 Model.C04.
From Coq Require Import PrimFloat Uint63.

(* ---------- np.linspace(0, N, n + 1, dtype=int) in binary64 ---------- *)
Definition f_of_Z (x : Z) : float := PrimFloat.of_uint63 (Uint63.of_Z x).
(* floor of a float y known to be within 1 of the exact rational whose floor is c *)
Definition floor_near (y : float) (c : Z) : Z :=
  if PrimFloat.ltb y (f_of_Z c) then c - 1
  else if PrimFloat.leb (f_of_Z (c + 1)) y then c + 1 else c.
Definition linspace_int (N n k : Z) : Z :=
  if k =? n then N
  else floor_near (PrimFloat.mul (f_of_Z k) (PrimFloat.div (f_of_Z N) (f_of_Z n))) (k * N / n).
Definition bounds (N : Z) (n : nat) : list Z := map (linspace_int N (Z.of_nat n)) (zrange 0 (S n)).

(* hypotheses of the generic theorems, evaluated on the actual boundaries *)
Fixpoint nondecreasing (l : list Z) : bool :=
  match l with a :: ((b :: _) as r) => (a <=? b) && nondecreasing r | _ => true end.

Fixpoint pairwise {A} (l : list A) : list (A * A) :=
  match l with a :: ((b :: _) as r) => (a, b) :: pairwise r | _ => [] end.

(* ---------- events: one part per consecutive pair of boundaries, time re-based ---------- *)
Definition in_win (lo hi : Z) (r : row) : bool := (lo <=? r_t r) && (r_t r <? hi).
Definition shift_row (d : Z) (r : row) : row :=
  {| r_atom := r_atom r; r_s := r_s r; r_d := r_d r; r_si := r_si r; r_di := r_di r; r_t := r_t r - d |}.
Definition split_raw (bs : list Z) (evs : list row) : list (list row) :=
  map (fun w => filter (in_win (fst w) (snd w)) evs) (pairwise bs).
Definition split_events (bs : list Z) (evs : list row) : list (list row) :=
  map (fun w => map (shift_row (fst w)) (filter (in_win (fst w) (snd w)) evs)) (pairwise bs).

(* ---------- np.array_split(l, n): the first (len mod n) parts have one more element ---------- *)
Fixpoint take_sizes {A} (sizes : list nat) (l : list A) : list (list A) :=
  match sizes with
  | [] => []
  | k :: r => firstn k l :: take_sizes r (skipn k l)
  end.
Definition split_sizes (len n : nat) : list nat :=
  repeat (S (len / n))%nat (len mod n)%nat ++ repeat (len / n)%nat (n - len mod n)%nat.
Definition array_split {A} (n : nat) (l : list A) : list (list A) := take_sizes (split_sizes (length l) n) l.

(* ---------- Trajectory.split: frame slices between consecutive boundaries ---------- *)
Definition slice {A} (lo hi : nat) (l : list A) : list A := firstn (hi - lo) (skipn lo l).
Definition traj_parts {A} (bs : list nat) (l : list A) : list (list A) :=
  map (fun w => slice (fst w) (snd w) l) (pairwise bs).
Definition min_size (bs : list nat) : nat :=
  fold_right Nat.min (last bs 0%nat + 1)%nat (map (fun w => snd w - fst w)%nat (pairwise bs)).
Definition equal_parts {A} (bs : list nat) (l : list A) : list (list A) :=
  map (firstn (min_size bs)) (traj_parts bs l).

(* ---------- jumps of the parts ---------- *)
Definition shift_jump (d : Z) (j : jump) : jump :=
  {| j_atom := j_atom j; j_from := j_from j; j_to := j_to j; j_start := j_start j - d; j_stop := j_stop j - d |}.
