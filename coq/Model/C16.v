(* C16 -- trajectory cache: model of Trajectory.from_cache / to_cache and of the
   "try cache / except Exception: re-parse, then to_cache" pattern of the loaders.
   The pickle codec and the source parser are Section variables with the two assumed
   properties stated as hypotheses (they are validated, not verified, by the fault
   enumeration of the tie).  Definitions only. *)
From GV Require Import Base.Prelude.

Definition bytes := list Z.

Fixpoint is_prefix (p l : bytes) : bool :=
  match p, l with
  | [], _ => true
  | x :: p', y :: l' => (x =? y) && is_prefix p' l'
  | _, _ => false
  end.
Definition strict_prefix (p l : bytes) : Prop := is_prefix p l = true /\ (length p < length l)%nat.

Section Disk.
  Variable T : Type.                 (* trajectories *)
  Variable A : Type.                 (* loader arguments *)
  Variable name : A -> Z.            (* default cache file name of the arguments *)
  Variable parse_source : A -> T.    (* parsing the simulation files with these arguments *)
  Variable serialize : T -> bytes.   (* pickle.dump *)
  Variable parse : bytes -> option T.  (* pickle.load; None = any exception *)

  (* file system restricted to cache files: name -> content *)
  Definition fs := Z -> option bytes.
  Definition fs_set (f : fs) (n : Z) (b : option bytes) : fs := fun m => if m =? n then b else f m.
  Definition fs0 : fs := fun _ => None.

  (* the loader: returns the trajectory and the new file system *)
  Definition load (a : A) (f : fs) : T * fs :=
    match f (name a) with
    | Some b =>
        match parse b with
        | Some t => (t, f)                                        (* cache hit *)
        | None => let t := parse_source a in (t, fs_set f (name a) (Some (serialize t)))
        end
    | None => let t := parse_source a in (t, fs_set f (name a) (Some (serialize t)))
    end.

  (* events: a load; an interrupted write of the cache of [a] leaving k bytes; garbage *)
  Inductive event :=
  | Load (a : A)
  | Crash (a : A) (k : nat)
  | Garbage (a : A) (b : bytes)
  | Remove (a : A).

  Definition apply (f : fs) (e : event) : fs * option T :=
    match e with
    | Load a => let '(t, f') := load a f in (f', Some t)
    | Crash a k => (fs_set f (name a) (Some (firstn k (serialize (parse_source a)))), None)
    | Garbage a b => (fs_set f (name a) (Some b), None)
    | Remove a => (fs_set f (name a) None, None)
    end.

  Fixpoint run (f : fs) (es : list event) : fs * list (option T) :=
    match es with
    | [] => (f, [])
    | e :: r => let '(f1, x) := apply f e in let '(f2, xs) := run f1 r in (f2, x :: xs)
    end.

  (* invariant: whatever parses in a cache file is the trajectory of every argument set
     that maps to this file name *)
  Definition consistent (f : fs) : Prop :=
    forall a b t, f (name a) = Some b -> parse b = Some t -> t = parse_source a.
  Definition garbage_ok (es : list event) : Prop :=
    forall a b, In (Garbage a b) es -> parse b = None.
  (* the cache name separates arguments that parse differently *)
  Definition key_separates : Prop := forall a a', name a = name a' -> parse_source a = parse_source a'.
End Disk.

(* ---------- a concrete instance (shows the hypotheses are satisfiable; used by the tie) ---------- *)
Definition ser (t : Z) : bytes := [1; t; 2].
Definition par (b : bytes) : option Z := match b with [1; t; 2] => Some t | _ => None end.

(* loader arguments for the instance: (value of the hashed arguments, value of the
   arguments that are NOT part of the default cache name) *)
Definition args2 := (Z * Z)%type.
Definition name_hashed (a : args2) : Z := fst a.
