(* C08 -- theorems about the density-volume / voxel-mapping model (Model/C08.v). *)
From GV Require Import Base.Prelude Model.C08 Proofs.C05.
From Coq Require Import PrimFloat Uint63.

(* ---------- (1) digitize is the floor ---------- *)

(* number of elements k of [t, t+N) with k <= m *)
Lemma count_le : forall N t m,
  Z.of_nat (length (filter (fun k => k <=? m) (zrange t N)))
  = Z.max 0 (Z.min (Z.of_nat N) (m - t + 1)).
Proof.
  induction N as [|N IH]; intros t m.
  - cbn [zrange filter length]. lia.
  - rewrite zrange_S. cbn [filter]. destruct (t <=? m) eqn:E.
    + cbn [length]. rewrite Nat2Z.inj_succ, (IH (t + 1) m). lia.
    + rewrite (IH (t + 1) m). lia.
Qed.

Lemma count_le_1 N m : 0 <= m <= Z.of_nat N ->
  Z.of_nat (length (filter (fun k => k <=? m) (zrange 1 N))) = m.
Proof. intros H. rewrite count_le. lia. Qed.

Lemma edge_le_iff D a k : 0 < D -> (k * D <=? a) = (k <=? a / D).
Proof.
  intros HD. apply eq_true_iff_eq. rewrite !Z.leb_le. split; intro H.
  - apply Z.div_le_lower_bound; lia.
  - pose proof (Z.mul_div_le a D HD). nia.
Qed.

Theorem voxel_range D n x : 0 < D -> 0 < n -> 0 <= x < D -> 0 <= voxel D n x < n.
Proof.
  intros HD Hn Hx. unfold voxel. split.
  - apply Z.div_pos; nia.
  - apply Z.div_lt_upper_bound; nia.
Qed.
Print Assumptions voxel_range.

Theorem digitize_is_floor D n x : 0 < D -> 0 < n -> 0 <= x < D -> digitize D n x = voxel D n x.
Proof.
  intros HD Hn Hx. pose proof (voxel_range D n x HD Hn Hx) as Hr. unfold digitize.
  rewrite (filter_ext _ (fun k => k <=? voxel D n x)).
  - apply count_le_1. lia.
  - intros k. unfold voxel. apply edge_le_iff. exact HD.
Qed.
Print Assumptions digitize_is_floor.

(* ---------- (3) every sample is counted in exactly one voxel ---------- *)

Lemma t3_eqb_spec (a b : Z * Z * Z) : t3_eqb a b = true <-> a = b.
Proof.
  destruct a as [[a1 a2] a3], b as [[b1 b2] b3]. unfold t3_eqb. split.
  - intro H. apply andb_true_iff in H. destruct H as [H H3]. apply andb_true_iff in H.
    destruct H as [H1 H2]. apply Z.eqb_eq in H1, H2, H3. congruence.
  - intro H. inversion H; subst. rewrite !Z.eqb_refl. reflexivity.
Qed.

Lemma t3_eqb_sym a b : t3_eqb a b = t3_eqb b a.
Proof.
  destruct a as [[a1 a2] a3], b as [[b1 b2] b3]. unfold t3_eqb.
  rewrite (Z.eqb_sym a1), (Z.eqb_sym a2), (Z.eqb_sym a3). reflexivity.
Qed.

Lemma density_kcount D n samples v :
  density D n samples v = kcount t3_eqb (vox3 D n) v samples.
Proof.
  unfold density, kcount. f_equal. f_equal. apply filter_ext. intro p. apply t3_eqb_sym.
Qed.

Lemma NoDup_flat_map {A B} (f : A -> list B) (l : list A) :
  NoDup l -> (forall a, In a l -> NoDup (f a)) ->
  (forall a b x, In a l -> In b l -> In x (f a) -> In x (f b) -> a = b) ->
  NoDup (flat_map f l).
Proof.
  intros Hl. induction Hl as [|a l Hnotin Hl IH]; intros Hf Hdisj; [constructor|].
  cbn [flat_map]. apply NoDup_app_intro.
  - apply Hf. left. reflexivity.
  - apply IH.
    + intros b Hb. apply Hf. right. exact Hb.
    + intros b c x Hb Hc. apply Hdisj; right; assumption.
  - intros x Hx1 Hx2. apply in_flat_map in Hx2. destruct Hx2 as (b & Hb & Hxb).
    assert (a = b) by (apply (Hdisj a b x); [left; reflexivity|right; exact Hb|exact Hx1|exact Hxb]).
    subst b. contradiction.
Qed.

Lemma all_voxels_in nx ny nz i j k :
  In (i, j, k) (all_voxels (nx, ny, nz)) <->
  0 <= i < Z.of_nat (Z.to_nat nx) /\ 0 <= j < Z.of_nat (Z.to_nat ny) /\ 0 <= k < Z.of_nat (Z.to_nat nz).
Proof.
  unfold all_voxels. rewrite in_flat_map. split.
  - intros (i' & Hi & H). apply in_flat_map in H. destruct H as (j' & Hj & H).
    apply in_map_iff in H. destruct H as (k' & E & Hk). inversion E; subst.
    apply zrange_in in Hi, Hj, Hk. lia.
  - intros (Hi & Hj & Hk). exists i. split; [apply zrange_in; lia|].
    apply in_flat_map. exists j. split; [apply zrange_in; lia|].
    apply in_map_iff. exists k. split; [reflexivity|apply zrange_in; lia].
Qed.

Lemma all_voxels_NoDup n : NoDup (all_voxels n).
Proof.
  destruct n as [[nx ny] nz]. unfold all_voxels. apply NoDup_flat_map.
  - apply zrange_NoDup.
  - intros i _. apply NoDup_flat_map.
    + apply zrange_NoDup.
    + intros j _. apply (NoDup_map_pair (i, j)). apply zrange_NoDup.
    + intros a b x _ _ Ha Hb. apply in_map_iff in Ha, Hb.
      destruct Ha as (k1 & E1 & _), Hb as (k2 & E2 & _). subst x. inversion E2. reflexivity.
  - intros a b x _ _ Ha Hb. apply in_flat_map in Ha, Hb.
    destruct Ha as (j1 & _ & Ha), Hb as (j2 & _ & Hb). apply in_map_iff in Ha, Hb.
    destruct Ha as (k1 & E1 & _), Hb as (k2 & E2 & _). subst x. inversion E2. reflexivity.
Qed.

Lemma zsum_map_const {A} (l : list A) : zsum (map (fun _ => 1) l) = Z.of_nat (length l).
Proof. induction l as [|x l IH]; cbn [map zsum length]; lia. Qed.

Theorem volume_sum D nx ny nz samples :
  0 < D -> 0 < nx -> 0 < ny -> 0 < nz ->
  (forall p, In p samples -> let '(x, y, z) := p in 0 <= x < D /\ 0 <= y < D /\ 0 <= z < D) ->
  zsum (volume D (nx, ny, nz) samples) = Z.of_nat (length samples).
Proof.
  intros HD Hx Hy Hz Hs. unfold volume.
  rewrite (zsum_map_ext _ (fun v => 1 * kcount t3_eqb (vox3 D (nx, ny, nz)) v samples)).
  - rewrite (wsum_partition t3_eqb t3_eqb_spec (vox3 D (nx, ny, nz)) (fun _ => 1)).
    + apply zsum_map_const.
    + apply all_voxels_NoDup.
    + intros [[x y] z] Hp. specialize (Hs _ Hp). cbn beta iota in Hs. destruct Hs as (H1 & H2 & H3).
      unfold vox3. apply all_voxels_in.
      pose proof (voxel_range D nx x HD Hx H1). pose proof (voxel_range D ny y HD Hy H2).
      pose proof (voxel_range D nz z HD Hz H3). lia.
  - intros v _. rewrite density_kcount. lia.
Qed.
Print Assumptions volume_sum.

(* flattened (C-order) indexing *)
Lemma zrange_length : forall n t, length (zrange t n) = n.
Proof. induction n as [|n IH]; intros t; cbn [zrange length]; [reflexivity|]. rewrite IH. reflexivity. Qed.

Lemma zrange_nth : forall n t i d, (i < n)%nat -> nth i (zrange t n) d = t + Z.of_nat i.
Proof.
  induction n as [|n IH]; intros t i d Hi; [lia|]. rewrite zrange_S. destruct i as [|i]; cbn [nth].
  - lia.
  - rewrite IH by lia. lia.
Qed.

Lemma flat_map_length_uniform {A B} (f : A -> list B) m l :
  (forall a, length (f a) = m) -> length (flat_map f l) = (length l * m)%nat.
Proof.
  intros Hf. induction l as [|a l IH]; [reflexivity|].
  cbn [flat_map length]. rewrite app_length, Hf, IH. lia.
Qed.

Lemma flat_map_nth_uniform {A B} (f : A -> list B) m (a0 : A) (d : B) :
  (forall a, length (f a) = m) ->
  forall l i j, (i < length l)%nat -> (j < m)%nat ->
  nth (i * m + j) (flat_map f l) d = nth j (f (nth i l a0)) d.
Proof.
  intros Hf. induction l as [|a l IH]; intros i j Hi Hj; [cbn in Hi; lia|].
  cbn [flat_map]. destruct i as [|i].
  - cbn [nth]. rewrite app_nth1 by (rewrite Hf; lia). reflexivity.
  - rewrite app_nth2 by (rewrite Hf; lia). rewrite Hf.
    replace (S i * m + j - m)%nat with (i * m + j)%nat by lia.
    cbn [nth]. apply IH; [cbn [length] in Hi; lia|exact Hj].
Qed.

Lemma all_voxels_length nx ny nz :
  length (all_voxels (nx, ny, nz)) = (Z.to_nat nx * (Z.to_nat ny * Z.to_nat nz))%nat.
Proof.
  unfold all_voxels. rewrite (flat_map_length_uniform _ (Z.to_nat ny * Z.to_nat nz)%nat).
  - rewrite zrange_length. reflexivity.
  - intros a. rewrite (flat_map_length_uniform _ (Z.to_nat nz)).
    + rewrite zrange_length. reflexivity.
    + intros b. rewrite map_length, zrange_length. reflexivity.
Qed.

Lemma all_voxels_nth nx ny nz (a b c : nat) :
  (a < Z.to_nat nx)%nat -> (b < Z.to_nat ny)%nat -> (c < Z.to_nat nz)%nat ->
  nth (a * (Z.to_nat ny * Z.to_nat nz) + (b * Z.to_nat nz + c)) (all_voxels (nx, ny, nz)) (0, 0, 0)
  = (Z.of_nat a, Z.of_nat b, Z.of_nat c).
Proof.
  intros Ha Hb Hc. unfold all_voxels.
  assert (Hbc : (b * Z.to_nat nz + c < Z.to_nat ny * Z.to_nat nz)%nat).
  { pose proof (Nat.mul_le_mono_r (S b) (Z.to_nat ny) (Z.to_nat nz) ltac:(lia)). lia. }
  rewrite (flat_map_nth_uniform _ (Z.to_nat ny * Z.to_nat nz)%nat 0).
  - rewrite (flat_map_nth_uniform _ (Z.to_nat nz) 0).
    + rewrite (nth_indep _ (0, 0, 0) ((fun k0 => (nth a (zrange 0 (Z.to_nat nx)) 0,
                 nth b (zrange 0 (Z.to_nat ny)) 0, k0)) 0))
        by (rewrite map_length, zrange_length; lia).
      rewrite map_nth. rewrite !zrange_nth by lia. rewrite !Z.add_0_l. reflexivity.
    + intros j. rewrite map_length, zrange_length. reflexivity.
    + rewrite zrange_length. lia.
    + lia.
  - intros i. rewrite (flat_map_length_uniform _ (Z.to_nat nz)).
    + rewrite zrange_length. reflexivity.
    + intros j. rewrite map_length, zrange_length. reflexivity.
  - rewrite zrange_length. lia.
  - exact Hbc.
Qed.

Lemma flat_index_nat (a b c mb mc : nat) :
  Z.to_nat ((Z.of_nat a * Z.of_nat mb + Z.of_nat b) * Z.of_nat mc + Z.of_nat c)
  = (a * (mb * mc) + (b * mc + c))%nat.
Proof.
  rewrite <- !Nat2Z.inj_mul, <- !Nat2Z.inj_add, <- !Nat2Z.inj_mul, <- !Nat2Z.inj_add, Nat2Z.id.
  rewrite Nat.mul_add_distr_r, Nat.mul_assoc, Nat.add_assoc. reflexivity.
Qed.

Theorem volume_entry D nx ny nz samples i j k :
  0 <= i < nx -> 0 <= j < ny -> 0 <= k < nz ->
  znth 0 (volume D (nx, ny, nz) samples) ((i * ny + j) * nz + k)
  = density D (nx, ny, nz) samples (i, j, k).
Proof.
  intros Hi Hj Hk. unfold znth.
  assert (Hidx : 0 <= (i * ny + j) * nz + k).
  { apply Z.add_nonneg_nonneg; [apply Z.mul_nonneg_nonneg; [apply Z.add_nonneg_nonneg; [apply Z.mul_nonneg_nonneg|]|]|]; lia. }
  destruct ((i * ny + j) * nz + k <? 0) eqn:E; [lia|]. clear E Hidx.
  unfold volume.
  replace (Z.to_nat ((i * ny + j) * nz + k))
    with (Z.to_nat i * (Z.to_nat ny * Z.to_nat nz) + (Z.to_nat j * Z.to_nat nz + Z.to_nat k))%nat
    by (rewrite <- flat_index_nat; rewrite !Z2Nat.id by lia; reflexivity).
  assert (Ha : (Z.to_nat i < Z.to_nat nx)%nat) by lia.
  assert (Hb : (Z.to_nat j < Z.to_nat ny)%nat) by lia.
  assert (Hc : (Z.to_nat k < Z.to_nat nz)%nat) by lia.
  assert (Hlt : (Z.to_nat i * (Z.to_nat ny * Z.to_nat nz) + (Z.to_nat j * Z.to_nat nz + Z.to_nat k)
                 < length (all_voxels (nx, ny, nz)))%nat).
  { rewrite all_voxels_length.
    pose proof (Nat.mul_le_mono_r (S (Z.to_nat j)) (Z.to_nat ny) (Z.to_nat nz) ltac:(lia)).
    pose proof (Nat.mul_le_mono_r (S (Z.to_nat i)) (Z.to_nat nx) (Z.to_nat ny * Z.to_nat nz) ltac:(lia)).
    lia. }
  rewrite (nth_indep _ 0 (density D (nx, ny, nz) samples (0, 0, 0))) by (rewrite map_length; exact Hlt).
  rewrite map_nth. f_equal. rewrite all_voxels_nth by assumption.
  rewrite !Z2Nat.id by lia. reflexivity.
Qed.
Print Assumptions volume_entry.

(* ---------- (4) voxel edge length vs. requested resolution ---------- *)
Theorem edge_bounds L r : 0 < r -> r <= L ->
  let n := ngrid L r in 1 <= n /\ r * n <= L /\ L < 2 * r * n.
Proof.
  intros Hr HL. unfold ngrid. cbv zeta.
  pose proof (Z.div_mod L r ltac:(lia)) as E. pose proof (Z.mod_pos_bound L r Hr) as B.
  assert (H1 : 1 <= L / r) by (apply Z.div_le_lower_bound; lia).
  split; [exact H1|]. split; nia.
Qed.
Print Assumptions edge_bounds.

(* ---------- (5) exact voxel -> centre -> voxel round trip ---------- *)
Theorem roundtrip_Q n i : 0 < n -> 0 <= i < n -> voxel_of_centre n i = i.
Proof.
  intros Hn Hi. unfold voxel_of_centre, centre_num. symmetry.
  apply (Z.div_unique _ _ i n); lia.
Qed.
Print Assumptions roundtrip_Q.

(* ---------- (6) the same round trip in binary64, n <= 4096 ---------- *)
Lemma roundtrip_upto_4096 : roundtrip_upto 4096 = true.
Proof. vm_compute. reflexivity. Qed.

Lemma roundtrip_upto_sound N : roundtrip_upto N = true ->
  forall n i, 1 <= n <= Z.of_nat N -> 0 <= i < n -> roundtrip_ok n i = true.
Proof.
  intros H n i Hn Hi. unfold roundtrip_upto in H.
  rewrite forallb_forall in H. specialize (H n).
  assert (Hin : In n (zrange 1 N)) by (apply zrange_in; lia).
  specialize (H Hin). rewrite forallb_forall in H. apply H. apply zrange_in. lia.
Qed.

Lemma of_nat_4096 : Z.of_nat 4096 = 4096.
Proof. vm_compute. reflexivity. Qed.

Theorem roundtrip_float : forall n i, 1 <= n <= 4096 -> 0 <= i < n -> roundtrip_ok n i = true.
Proof.
  intros n i Hn Hi. apply (roundtrip_upto_sound 4096 roundtrip_upto_4096); [|exact Hi].
  rewrite of_nat_4096. exact Hn.
Qed.
Print Assumptions roundtrip_float.

(* ---------- (7) shifting by k voxel widths rolls the voxel index ---------- *)
Lemma voxel_exact n q x : 0 < n -> 0 < q -> voxel (n * q) n x = x / q.
Proof.
  intros Hn Hq. unfold voxel. rewrite (Z.mul_comm n q). apply Z.div_mul_cancel_r; lia.
Qed.

Theorem volume_roll D n q x k : n * q = D -> 0 < n -> 0 < q -> 0 <= x < D ->
  voxel D n ((x + k * q) mod D) = (voxel D n x + k) mod n.
Proof.
  intros HD Hn Hq Hx. subst D. rewrite !voxel_exact by assumption.
  rewrite (Z.mul_comm n q), Z.rem_mul_r by lia.
  rewrite (Z.mul_comm q ((x + k * q) / q mod n)), Z.div_add by lia.
  rewrite Z.div_small by (apply Z.mod_pos_bound; lia).
  rewrite Z.div_add by lia. lia.
Qed.
Print Assumptions volume_roll.

(* ---------- (8) monotonicity ---------- *)
Theorem voxel_monotone D n x y : 0 < D -> 0 < n -> x <= y -> voxel D n x <= voxel D n y.
Proof.
  intros HD Hn Hxy. unfold voxel. apply Z.div_le_mono; [exact HD|]. nia.
Qed.
Print Assumptions voxel_monotone.
