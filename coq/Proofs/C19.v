(* C19 -- theorems about the time-partitioning model (Model/C19.v):
   (D) jumps of the parts never add up to more than the jumps of the whole
       (scan_shift, scan_two_parts_le, scan_parts_le);
   (B) the event windows partition the event table, re-based times lie inside the part;
   (A) array_split is a partition into n contiguous pieces of size len/n or len/n + 1;
   (C) for a time-sorted event list the windows are consecutive segments;
   (E) trajectory parts are consecutive frame slices, equal_parts all have length min_size. *)
From GV Require Import Base.Prelude Model.C03 Model.C04 Proofs.C04b Model.C19.
From Coq Require Import Permutation.

(* ====================================================================== *)
(* generic list facts                                                      *)
(* ====================================================================== *)

(* order-preserving sublist *)
Inductive subl {A} : list A -> list A -> Prop :=
| subl_nil : subl [] []
| subl_skip x l1 l2 : subl l1 l2 -> subl l1 (x :: l2)
| subl_cons x l1 l2 : subl l1 l2 -> subl (x :: l1) (x :: l2).

Lemma subl_refl {A} (l : list A) : subl l l.
Proof. induction l; constructor; assumption. Qed.

Lemma subl_nil_l {A} (l : list A) : subl [] l.
Proof. induction l; constructor; assumption. Qed.

Lemma subl_app {A} (a b c d : list A) : subl a b -> subl c d -> subl (a ++ c) (b ++ d).
Proof.
  intros H1 H2. induction H1; cbn [app]; [exact H2| |]; constructor; assumption.
Qed.

Lemma subl_app_r {A} (a b c : list A) : subl a b -> subl a (b ++ c).
Proof.
  intros H. rewrite <- (app_nil_r a). apply subl_app; [exact H|apply subl_nil_l].
Qed.

Lemma subl_filter {A} (p : A -> bool) (a b : list A) : subl a b -> subl (filter p a) (filter p b).
Proof.
  intros H. induction H; cbn [filter]; [constructor| |]; destruct (p x); try constructor; assumption.
Qed.

Lemma subl_length {A} (a b : list A) : subl a b -> (length a <= length b)%nat.
Proof. intros H. induction H; cbn [length]; lia. Qed.

Lemma subl_incl {A} (a b : list A) : subl a b -> incl a b.
Proof.
  intros H. induction H; intros y Hy; [exact Hy|right; apply IHsubl; exact Hy|].
  destruct Hy as [<-|Hy]; [left; reflexivity|right; apply IHsubl; exact Hy].
Qed.

Lemma list_sum_cons a l : list_sum (a :: l) = (a + list_sum l)%nat.
Proof. reflexivity. Qed.

Lemma firstn_skipn_add {A} : forall (k m : nat) (l : list A),
  firstn k l ++ firstn m (skipn k l) = firstn (k + m) l.
Proof.
  induction k as [|k IH]; intros m l; [reflexivity|].
  destruct l as [|x l]; [cbn [skipn firstn app]; rewrite !firstn_nil; reflexivity|].
  cbn [firstn skipn app Nat.add]. f_equal. apply IH.
Qed.

Lemma skipn_skipn_add {A} : forall (a b : nat) (l : list A), skipn a (skipn b l) = skipn (b + a) l.
Proof.
  intros a b. induction b as [|b IH]; intros l; [reflexivity|].
  destruct l as [|x l]; [cbn [skipn Nat.add]; apply skipn_nil|]. cbn [skipn Nat.add]. apply IH.
Qed.

Lemma filter_filter_length_le {A} (p q : A -> bool) (l : list A) :
  (length (filter p (filter q l)) <= length (filter p l))%nat.
Proof.
  induction l as [|x l IH]; [cbn; lia|].
  cbn [filter]. destruct (q x); cbn [filter]; destruct (p x); cbn [length]; lia.
Qed.

Lemma concat_map_app_perm {W A} (f g : W -> list A) (ws : list W) :
  Permutation (concat (map (fun w => f w ++ g w) ws)) (concat (map f ws) ++ concat (map g ws)).
Proof.
  induction ws as [|w ws IH]; [constructor|].
  cbn [map concat]. rewrite <- !app_assoc. apply Permutation_app_head.
  eapply Permutation_trans; [apply Permutation_app_head; exact IH|].
  apply Permutation_app_swap_app.
Qed.

Lemma nth_error_map' {A B} (f : A -> B) : forall (l : list A) (k : nat),
  nth_error (map f l) k = option_map f (nth_error l k).
Proof.
  induction l as [|x l IH]; intros [|k]; cbn [map nth_error option_map]; try reflexivity. apply IH.
Qed.

(* ====================================================================== *)
(* (D) jumps of the parts                                                  *)
(* ====================================================================== *)

(* ---------- re-basing the times commutes with the scan ---------- *)
Definition shift_pend (d : Z) (p : pend) : pend := {| p_s := p_s p; p_d := p_d p; p_t := p_t p - d |}.
Definition shift_cand (d : Z) (c : cand) : cand :=
  {| c_s := c_s c; c_d := c_d c; c_t := c_t c - d; c_stop := c_stop c - d |}.
Definition shift_st (d : Z) (s : st) : st :=
  {| fe := option_map (shift_pend d) (fe s); ca := option_map (shift_cand d) (ca s);
     out := map (shift_jump d) (out s) |}.

Lemma cpart_shift mr d c o e :
  cpart mr (option_map (shift_cand d) c) (map (shift_jump d) o) (shift_row d e) =
  (option_map (shift_cand d) (fst (cpart mr c o e)), map (shift_jump d) (snd (cpart mr c o e))).
Proof.
  unfold cpart. destruct c as [x|]; cbn [option_map]; [|reflexivity].
  cbn [shift_cand shift_row c_t c_d c_s c_stop r_t r_d r_atom].
  replace (r_t e - d - (c_t x - d)) with (r_t e - c_t x) by lia.
  destruct (r_t e - c_t x >=? mr); cbn [fst snd option_map].
  - rewrite map_app. reflexivity.
  - destruct (negb (c_d x =? r_d e)); reflexivity.
Qed.

Lemma fe1_of_shift d f e :
  fe1_of (option_map (shift_pend d) f) (shift_row d e) = option_map (shift_pend d) (fe1_of f e).
Proof.
  unfold fe1_of. cbn [shift_row r_s r_d r_t].
  destruct (negb (r_s e =? -1) && negb (r_s e =? r_d e)); reflexivity.
Qed.

Lemma fpart_shift d f c o e :
  fpart (option_map (shift_pend d) f) (option_map (shift_cand d) c) (map (shift_jump d) o) (shift_row d e) =
  shift_st d (fpart f c o e).
Proof.
  unfold fpart. destruct f as [f|]; cbn [option_map]; [|reflexivity].
  cbn [shift_pend shift_row p_s p_d p_t r_s r_d r_t r_di r_atom].
  replace (r_t e - d + 1) with (r_t e + 1 - d) by lia.
  destruct (r_d e =? p_s f); [reflexivity|].
  destruct (negb (r_di e =? -1)).
  { unfold shift_st. cbn [fe ca out option_map]. rewrite map_app. reflexivity. }
  destruct (negb (r_d e =? p_d f)); reflexivity.
Qed.

Lemma step_shift mr d s e : step mr (shift_st d s) (shift_row d e) = shift_st d (step mr s e).
Proof.
  rewrite !step_eq. unfold shift_st at 1 2 3 4 5. cbn [fe ca out].
  rewrite cpart_shift, fe1_of_shift. cbn [fst snd]. apply fpart_shift.
Qed.

Lemma fold_shift mr d : forall es s,
  fold_left (step mr) (map (shift_row d) es) (shift_st d s) = shift_st d (fold_left (step mr) es s).
Proof.
  induction es as [|e es IH]; intros s; [reflexivity|].
  cbn [map fold_left]. rewrite step_shift. apply IH.
Qed.

Lemma filter_map_shift_jump d (l : list jump) :
  filter (fun j => negb (j_from j =? j_to j)) (map (shift_jump d) l) =
  map (shift_jump d) (filter (fun j => negb (j_from j =? j_to j)) l).
Proof.
  induction l as [|j l IH]; [reflexivity|].
  cbn [map filter]. cbn [shift_jump j_from j_to].
  destruct (negb (j_from j =? j_to j)); cbn [map]; rewrite IH; reflexivity.
Qed.

Theorem scan_shift : forall mr d es, scan mr (map (shift_row d) es) = map (shift_jump d) (scan mr es).
Proof.
  intros mr d es. unfold scan.
  change st0 with (shift_st d st0) at 1.
  rewrite fold_shift. cbn [shift_st out]. apply filter_map_shift_jump.
Qed.
Print Assumptions scan_shift.

(* ---------- a part started afresh against the whole run, in lock-step ---------- *)
(* sp : state of the run on the part alone (from st0); sw : state of the whole run, which
   entered the part with output o1 *)
Definition Rel (o1 : list jump) (sp sw : st) : Prop :=
  (ca sp = None \/ ca sp = ca sw) /\
  (fe sp = fe sw \/ (fe sp = None /\ ca sp = None)) /\
  exists ext, out sw = o1 ++ ext /\ subl (out sp) ext.

Lemma cpart_rel mr o1 cp cw op ow ext e :
  (cp = None \/ cp = cw) -> ow = o1 ++ ext -> subl op ext ->
  (fst (cpart mr cp op e) = None \/ fst (cpart mr cp op e) = fst (cpart mr cw ow e)) /\
  (cp = None -> fst (cpart mr cp op e) = None) /\
  exists ext', snd (cpart mr cw ow e) = o1 ++ ext' /\ subl (snd (cpart mr cp op e)) ext'.
Proof.
  intros Hc Ho Hs. destruct Hc as [-> | ->].
  - cbn [cpart fst snd]. split; [left; reflexivity|]. split; [reflexivity|].
    unfold cpart. destruct cw as [c|]; [|exists ext; split; assumption].
    destruct (r_t e - c_t c >=? mr); cbn [fst snd].
    + exists (ext ++ [cj (r_atom e) c]). split; [rewrite Ho, app_assoc; reflexivity|].
      apply subl_app_r. exact Hs.
    + destruct (negb (c_d c =? r_d e)); cbn [fst snd]; exists ext; split; assumption.
  - unfold cpart. destruct cw as [c|].
    2:{ cbn [fst snd]. split; [left; reflexivity|]. split; [reflexivity|]. exists ext; split; assumption. }
    destruct (r_t e - c_t c >=? mr); cbn [fst snd].
    + split; [left; reflexivity|]. split; [discriminate|].
      exists (ext ++ [cj (r_atom e) c]). split; [rewrite Ho, app_assoc; reflexivity|].
      apply subl_app; [exact Hs|apply subl_refl].
    + destruct (negb (c_d c =? r_d e)); cbn [fst snd];
        (split; [right; reflexivity|]); (split; [discriminate|]); exists ext; split; assumption.
Qed.

Lemma fpart_rel o1 fp fw cp cw op ow ext e :
  (cp = None \/ cp = cw) -> (fp = fw \/ (fp = None /\ cp = None)) ->
  ow = o1 ++ ext -> subl op ext ->
  Rel o1 (fpart fp cp op e) (fpart fw cw ow e).
Proof.
  intros Hc Hf Ho Hs.
  assert (Hsame : exists ext', ow = o1 ++ ext' /\ subl op ext') by (exists ext; split; assumption).
  destruct Hf as [-> | [-> ->]].
  - unfold fpart. destruct fw as [f|].
    { destruct (r_d e =? p_s f).
      { unfold Rel; cbn [fe ca out]. split; [left; reflexivity|]. split; [left; reflexivity|exact Hsame]. }
      destruct (negb (r_di e =? -1)).
      { unfold Rel; cbn [fe ca out]. split; [left; reflexivity|]. split; [left; reflexivity|].
        eexists. split; [rewrite Ho, <- app_assoc; reflexivity|].
        apply subl_app; [exact Hs|apply subl_refl]. }
      destruct (negb (r_d e =? p_d f)).
      { unfold Rel; cbn [fe ca out]. split; [right; reflexivity|]. split; [left; reflexivity|exact Hsame]. }
      unfold Rel; cbn [fe ca out]. split; [exact Hc|]. split; [left; reflexivity|exact Hsame]. }
    unfold Rel; cbn [fe ca out]. split; [exact Hc|]. split; [left; reflexivity|exact Hsame].
  - cbn [fpart]. unfold fpart. destruct fw as [f|].
    { destruct (r_d e =? p_s f).
      { unfold Rel; cbn [fe ca out]. split; [left; reflexivity|]. split; [left; reflexivity|exact Hsame]. }
      destruct (negb (r_di e =? -1)).
      { unfold Rel; cbn [fe ca out]. split; [left; reflexivity|]. split; [left; reflexivity|].
        eexists. split; [rewrite Ho, <- app_assoc; reflexivity|].
        apply subl_app_r. exact Hs. }
      destruct (negb (r_d e =? p_d f)).
      { unfold Rel; cbn [fe ca out]. split; [left; reflexivity|]. split; [right; split; reflexivity|exact Hsame]. }
      unfold Rel; cbn [fe ca out]. split; [left; reflexivity|]. split; [right; split; reflexivity|exact Hsame]. }
    unfold Rel; cbn [fe ca out]. split; [left; reflexivity|]. split; [left; reflexivity|exact Hsame].
Qed.

Lemma step_rel mr o1 sp sw e : Rel o1 sp sw -> Rel o1 (step mr sp e) (step mr sw e).
Proof.
  intros (Hc & Hf & ext & Ho & Hs). rewrite !step_eq.
  destruct (cpart_rel mr o1 (ca sp) (ca sw) (out sp) (out sw) ext e Hc Ho Hs)
    as (Hc1 & Hnone & ext1 & Ho1 & Hs1).
  apply (fpart_rel o1 _ _ _ _ _ _ ext1 e Hc1); [|exact Ho1|exact Hs1].
  destruct Hf as [->|[Hfp Hcp]]; [left; reflexivity|].
  rewrite Hfp. unfold fe1_of.
  destruct (negb (r_s e =? -1) && negb (r_s e =? r_d e)); [left; reflexivity|].
  right. split; [reflexivity|apply Hnone; exact Hcp].
Qed.

Lemma fold_rel mr o1 : forall es sp sw, Rel o1 sp sw ->
  Rel o1 (fold_left (step mr) es sp) (fold_left (step mr) es sw).
Proof.
  induction es as [|e es IH]; intros sp sw H; [exact H|].
  cbn [fold_left]. apply IH. apply step_rel. exact H.
Qed.

Definition real (j : jump) : bool := negb (j_from j =? j_to j).

(* the whole run reports the jumps of the first part, then a list that contains the jumps of
   the second part as an order-preserving sublist *)
Theorem scan_two_parts_sub : forall mr l1 l2,
  exists ext, scan mr (l1 ++ l2) = scan mr l1 ++ ext /\ subl (scan mr l2) ext.
Proof.
  intros mr l1 l2. unfold scan. rewrite fold_left_app.
  set (s1 := fold_left (step mr) l1 st0).
  assert (H0 : Rel (out s1) st0 s1).
  { unfold Rel, st0; cbn [fe ca out]. split; [left; reflexivity|]. split; [right; split; reflexivity|].
    exists []. split; [rewrite app_nil_r; reflexivity|constructor]. }
  destruct (fold_rel mr (out s1) l2 st0 s1 H0) as (_ & _ & ext & Ho & Hs).
  exists (filter (fun j => negb (j_from j =? j_to j)) ext). split.
  - rewrite Ho, filter_app. reflexivity.
  - apply subl_filter. exact Hs.
Qed.
Print Assumptions scan_two_parts_sub.

Theorem scan_two_parts_le : forall mr l1 l2,
  (length (scan mr l1) + length (scan mr l2) <= length (scan mr (l1 ++ l2)))%nat.
Proof.
  intros mr l1 l2. destruct (scan_two_parts_sub mr l1 l2) as (ext & -> & Hs).
  rewrite app_length. apply subl_length in Hs. lia.
Qed.
Print Assumptions scan_two_parts_le.

Theorem scan_parts_le : forall mr parts,
  (list_sum (map (fun p => length (scan mr p)) parts) <= length (scan mr (concat parts)))%nat.
Proof.
  intros mr parts. induction parts as [|p parts IH]; [cbn; lia|].
  cbn [map concat]. rewrite list_sum_cons.
  pose proof (scan_two_parts_le mr p (concat parts)) as H. lia.
Qed.
Print Assumptions scan_parts_le.

(* every jump found in either part (before re-basing) is a jump of the whole *)
Theorem scan_two_parts_incl : forall mr l1 l2,
  incl (scan mr l1) (scan mr (l1 ++ l2)) /\ incl (scan mr l2) (scan mr (l1 ++ l2)).
Proof.
  intros mr l1 l2. destruct (scan_two_parts_sub mr l1 l2) as (ext & -> & Hs). split.
  - apply incl_appl, incl_refl.
  - apply incl_appr, subl_incl. exact Hs.
Qed.
Print Assumptions scan_two_parts_incl.

(* ====================================================================== *)
(* windows of a nondecreasing boundary list                                *)
(* ====================================================================== *)
Lemma nondecreasing_cons a b r : nondecreasing (a :: b :: r) = true -> a <= b /\ nondecreasing (b :: r) = true.
Proof. cbn [nondecreasing]. intro H. apply andb_true_iff in H. destruct H as [H1 H2]. split; [lia|exact H2]. Qed.

Lemma pairwise_lo_ge : forall r b w, nondecreasing (b :: r) = true -> In w (pairwise (b :: r)) -> b <= fst w.
Proof.
  induction r as [|c r IH]; intros b w Hn Hw; [contradiction|].
  apply nondecreasing_cons in Hn. destruct Hn as [Hbc Hn].
  cbn [pairwise] in Hw. destruct Hw as [<-|Hw]; [cbn; lia|].
  specialize (IH c w Hn Hw). lia.
Qed.

Lemma last_cons2 {A} (a b : A) r d : last (a :: b :: r) d = last (b :: r) d.
Proof. reflexivity. Qed.

Lemma pairwise_cons2 {A} (a b : A) r : pairwise (a :: b :: r) = (a, b) :: pairwise (b :: r).
Proof. reflexivity. Qed.

(* a time below b is in no window of b :: r *)
Lemma windows_above : forall r b e, nondecreasing (b :: r) = true -> r_t e < b ->
  forall w, In w (pairwise (b :: r)) -> in_win (fst w) (snd w) e = false.
Proof.
  intros r b e Hn Ht w Hw. pose proof (pairwise_lo_ge r b w Hn Hw) as H.
  unfold in_win. apply andb_false_iff. left. lia.
Qed.

(* ====================================================================== *)
(* (B) the event windows partition the event table                         *)
(* ====================================================================== *)
Definition hit (e : row) (w : Z * Z) : list row := if in_win (fst w) (snd w) e then [e] else [].

Lemma hit_none e : forall ws, (forall w, In w ws -> in_win (fst w) (snd w) e = false) ->
  concat (map (hit e) ws) = [].
Proof.
  induction ws as [|w ws IH]; intros H; [reflexivity|].
  cbn [map concat]. unfold hit at 1. rewrite (H w (or_introl eq_refl)). cbn [app].
  apply IH. intros w' Hw'. apply H. right. exact Hw'.
Qed.

(* an event inside [hd bs, last bs) lies in exactly one window *)
Lemma hit_once e : forall bs, nondecreasing bs = true -> hd 0 bs <= r_t e < last bs 0 ->
  concat (map (hit e) (pairwise bs)) = [e].
Proof.
  induction bs as [|a bs IH]; intros Hn Ht; [cbn in Ht; lia|].
  destruct bs as [|b r]; [cbn in Ht; lia|].
  rewrite pairwise_cons2. cbn [map concat].
  destruct (nondecreasing_cons a b r Hn) as [Hab Hn'].
  rewrite last_cons2 in Ht. cbn [hd] in Ht.
  destruct (Z.ltb_spec (r_t e) b) as [Hlt|Hge].
  - unfold hit at 1. cbn [fst snd]. unfold in_win.
    replace (a <=? r_t e) with true by lia. replace (r_t e <? b) with true by lia. cbn [andb].
    rewrite hit_none; [reflexivity|]. apply windows_above; assumption.
  - unfold hit at 1. cbn [fst snd]. unfold in_win.
    replace (r_t e <? b) with false by lia. rewrite andb_false_r. cbn [app].
    apply IH; [exact Hn'|]. cbn [hd]. lia.
Qed.

Lemma filter_cons_hit e evs (w : Z * Z) :
  filter (in_win (fst w) (snd w)) (e :: evs) = hit e w ++ filter (in_win (fst w) (snd w)) evs.
Proof. cbn [filter]. unfold hit. destruct (in_win (fst w) (snd w) e); reflexivity. Qed.

Lemma split_raw_cons bs e evs :
  split_raw bs (e :: evs) = map (fun w => hit e w ++ filter (in_win (fst w) (snd w)) evs) (pairwise bs).
Proof. unfold split_raw. apply map_ext. intro w. apply filter_cons_hit. Qed.

Lemma split_raw_nil_concat bs : concat (split_raw bs []) = [].
Proof. unfold split_raw. induction (pairwise bs) as [|w ws IH]; [reflexivity|exact IH]. Qed.

Theorem split_raw_partition : forall bs evs, nondecreasing bs = true ->
  (forall r, In r evs -> hd 0 bs <= r_t r < last bs 0) ->
  Permutation (concat (split_raw bs evs)) evs.
Proof.
  intros bs evs Hn. induction evs as [|e evs IH]; intros Hr.
  - rewrite split_raw_nil_concat. constructor.
  - rewrite split_raw_cons.
    eapply Permutation_trans; [apply concat_map_app_perm|].
    rewrite hit_once; [|exact Hn|apply Hr; left; reflexivity].
    cbn [app]. constructor. apply IH. intros r Hin. apply Hr. right. exact Hin.
Qed.
Print Assumptions split_raw_partition.

Theorem split_events_is_shifted_raw : forall bs evs,
  split_events bs evs =
  map (fun p => map (shift_row (fst (fst p))) (snd p)) (combine (pairwise bs) (split_raw bs evs)).
Proof.
  intros bs evs. unfold split_events, split_raw.
  induction (pairwise bs) as [|w ws IH]; [reflexivity|].
  cbn [map combine fst snd]. f_equal. exact IH.
Qed.
Print Assumptions split_events_is_shifted_raw.

(* the same link, part by part *)
Theorem split_events_nth : forall bs evs k lo hi, nth_error (pairwise bs) k = Some (lo, hi) ->
  nth_error (split_raw bs evs) k = Some (filter (in_win lo hi) evs) /\
  nth_error (split_events bs evs) k = Some (map (shift_row lo) (filter (in_win lo hi) evs)).
Proof.
  intros bs evs k lo hi Hk. unfold split_raw, split_events.
  rewrite !nth_error_map', Hk. split; reflexivity.
Qed.
Print Assumptions split_events_nth.

Theorem split_events_times : forall bs evs k part lo hi, nth_error (pairwise bs) k = Some (lo, hi) ->
  nth_error (split_events bs evs) k = Some part -> forall r, In r part -> 0 <= r_t r < hi - lo.
Proof.
  intros bs evs k part lo hi Hk Hp r Hr.
  destruct (split_events_nth bs evs k lo hi Hk) as [_ H]. rewrite H in Hp. inversion Hp; subst part.
  apply in_map_iff in Hr. destruct Hr as (r0 & <- & Hr0).
  apply filter_In in Hr0. destruct Hr0 as [_ Hw]. unfold in_win in Hw.
  apply andb_true_iff in Hw. cbn [shift_row r_t]. lia.
Qed.
Print Assumptions split_events_times.

Theorem split_raw_count_le : forall bs evs k part (p : row -> bool),
  nth_error (split_raw bs evs) k = Some part ->
  (length (filter p part) <= length (filter p evs))%nat.
Proof.
  intros bs evs k part p Hk. unfold split_raw in Hk. rewrite nth_error_map' in Hk.
  destruct (nth_error (pairwise bs) k) as [w|]; [|discriminate]. cbn [option_map] in Hk.
  inversion Hk; subst part. apply filter_filter_length_le.
Qed.
Print Assumptions split_raw_count_le.

(* ====================================================================== *)
(* (C) a time-sorted event list is cut into consecutive segments           *)
(* ====================================================================== *)
Fixpoint time_sorted (l : list row) : bool :=
  match l with a :: ((b :: _) as r) => (r_t a <=? r_t b) && time_sorted r | _ => true end.

Lemma time_sorted_cons e l : time_sorted (e :: l) = true ->
  time_sorted l = true /\ forall x, In x l -> r_t e <= r_t x.
Proof.
  revert e. induction l as [|b l IH]; intros e H; [split; [reflexivity|intros x []]|].
  cbn [time_sorted] in H. apply andb_true_iff in H. destruct H as [H1 H2].
  split; [exact H2|]. destruct (IH b H2) as [_ Hb].
  intros x [<-|Hx]; [lia|]. specialize (Hb x Hx). lia.
Qed.

Lemma filter_none {A} (p : A -> bool) (l : list A) : (forall x, In x l -> p x = false) -> filter p l = [].
Proof.
  induction l as [|x l IH]; intros H; [reflexivity|].
  cbn [filter]. rewrite (H x (or_introl eq_refl)). apply IH. intros y Hy. apply H. right. exact Hy.
Qed.

(* the earliest event goes to the front of the concatenation *)
Lemma split_raw_cons_min e evs : (forall x, In x evs -> r_t e <= r_t x) ->
  forall bs, nondecreasing bs = true -> hd 0 bs <= r_t e < last bs 0 ->
  concat (split_raw bs (e :: evs)) = e :: concat (split_raw bs evs).
Proof.
  intros Hmin. induction bs as [|a bs IH]; intros Hn Ht; [cbn in Ht; lia|].
  destruct bs as [|b r]; [cbn in Ht; lia|].
  destruct (nondecreasing_cons a b r Hn) as [Hab Hn'].
  rewrite last_cons2 in Ht. cbn [hd] in Ht.
  unfold split_raw in *. rewrite pairwise_cons2. cbn [map concat fst snd].
  destruct (Z.ltb_spec (r_t e) b) as [Hlt|Hge].
  - cbn [filter]. unfold in_win at 1.
    replace (a <=? r_t e) with true by lia. replace (r_t e <? b) with true by lia. cbn [andb app].
    f_equal. f_equal. f_equal. apply map_ext_in. intros w Hw. cbn [filter].
    rewrite (windows_above r b e Hn' Hlt w Hw). reflexivity.
  - cbn [filter]. unfold in_win at 1.
    replace (r_t e <? b) with false by lia. rewrite andb_false_r.
    rewrite (filter_none (in_win a b) evs).
    2:{ intros x Hx. specialize (Hmin x Hx). unfold in_win. apply andb_false_iff. right. lia. }
    cbn [app]. apply IH; [exact Hn'|]. cbn [hd]. lia.
Qed.

Theorem split_raw_sorted_concat : forall bs evs, nondecreasing bs = true ->
  (forall r, In r evs -> hd 0 bs <= r_t r < last bs 0) ->
  time_sorted evs = true ->
  concat (split_raw bs evs) = evs.
Proof.
  intros bs evs Hn. induction evs as [|e evs IH]; intros Hr Hs.
  - apply split_raw_nil_concat.
  - destruct (time_sorted_cons e evs Hs) as [Hs' Hmin].
    rewrite (split_raw_cons_min e evs Hmin bs Hn (Hr e (or_introl eq_refl))).
    f_equal. apply IH; [|exact Hs']. intros r Hin. apply Hr. right. exact Hin.
Qed.
Print Assumptions split_raw_sorted_concat.

(* end-to-end corollary of (C) and (D): for one atom's (time-sorted) events, the numbers of
   jumps found in the re-based parts add up to at most the number found in the whole *)
Lemma split_events_scan_lengths mr bs evs :
  map (fun p => length (scan mr p)) (split_events bs evs) =
  map (fun p => length (scan mr p)) (split_raw bs evs).
Proof.
  unfold split_events, split_raw. rewrite !map_map. apply map_ext. intro w.
  rewrite scan_shift. apply map_length.
Qed.

Theorem split_events_jumps_le : forall mr bs evs, nondecreasing bs = true ->
  (forall r, In r evs -> hd 0 bs <= r_t r < last bs 0) ->
  time_sorted evs = true ->
  (list_sum (map (fun p => length (scan mr p)) (split_events bs evs)) <= length (scan mr evs))%nat.
Proof.
  intros mr bs evs Hn Hr Hs. rewrite split_events_scan_lengths.
  pose proof (scan_parts_le mr (split_raw bs evs)) as H.
  rewrite (split_raw_sorted_concat bs evs Hn Hr Hs) in H. exact H.
Qed.
Print Assumptions split_events_jumps_le.

(* ====================================================================== *)
(* (A) array_split                                                         *)
(* ====================================================================== *)
Lemma take_sizes_concat {A} : forall sizes (l : list A),
  concat (take_sizes sizes l) = firstn (list_sum sizes) l.
Proof.
  induction sizes as [|k r IH]; intros l; [reflexivity|].
  cbn [take_sizes concat]. rewrite list_sum_cons, IH. apply firstn_skipn_add.
Qed.

Lemma take_sizes_length {A} : forall sizes (l : list A), length (take_sizes sizes l) = length sizes.
Proof.
  induction sizes as [|k r IH]; intros l; [reflexivity|]. cbn [take_sizes length]. f_equal. apply IH.
Qed.

Lemma list_sum_repeat a k : list_sum (repeat a k) = (k * a)%nat.
Proof. induction k as [|k IH]; [reflexivity|]. cbn [repeat]. rewrite list_sum_cons, IH. lia. Qed.

Lemma split_sizes_sum len n : (0 < n)%nat -> list_sum (split_sizes len n) = len.
Proof.
  intros Hn. unfold split_sizes. rewrite list_sum_app, !list_sum_repeat.
  assert (Hn0 : n <> 0%nat) by lia.
  pose proof (Nat.div_mod len n Hn0) as Hdm.
  pose proof (Nat.mod_upper_bound len n Hn0) as Hlt.
  set (q := (len / n)%nat) in *. set (r := (len mod n)%nat) in *.
  rewrite Nat.mul_succ_r, Nat.mul_sub_distr_r.
  assert (r * q <= n * q)%nat by (apply Nat.mul_le_mono_r; lia).
  lia.
Qed.

Lemma split_sizes_length len n : (0 < n)%nat -> length (split_sizes len n) = n.
Proof.
  intros Hn. unfold split_sizes. rewrite app_length, !repeat_length.
  pose proof (Nat.mod_upper_bound len n ltac:(lia)). lia.
Qed.

Theorem array_split_concat : forall A (n : nat) (l : list A), (0 < n)%nat -> concat (array_split n l) = l.
Proof.
  intros A n l Hn. unfold array_split. rewrite take_sizes_concat, split_sizes_sum by exact Hn.
  apply firstn_all.
Qed.
Print Assumptions array_split_concat.

Theorem array_split_length : forall A (n : nat) (l : list A), (0 < n)%nat -> length (array_split n l) = n.
Proof.
  intros A n l Hn. unfold array_split. rewrite take_sizes_length. apply split_sizes_length. exact Hn.
Qed.
Print Assumptions array_split_length.

Lemma take_sizes_lengths {A} : forall sizes (l : list A), (list_sum sizes <= length l)%nat ->
  map (@length A) (take_sizes sizes l) = sizes.
Proof.
  induction sizes as [|k r IH]; intros l H; [reflexivity|].
  rewrite list_sum_cons in H. cbn [take_sizes map]. f_equal.
  - apply firstn_length_le. lia.
  - apply IH. rewrite skipn_length. lia.
Qed.

(* the part sizes are exactly split_sizes: len mod n parts of size len/n + 1, then n - len mod n
   parts of size len/n *)
Theorem array_split_sizes : forall A (n : nat) (l : list A), (0 < n)%nat ->
  map (@length A) (array_split n l) = split_sizes (length l) n.
Proof.
  intros A n l Hn. unfold array_split. apply take_sizes_lengths. rewrite split_sizes_sum by exact Hn. lia.
Qed.
Print Assumptions array_split_sizes.

Theorem array_split_part_size : forall A (n : nat) (l : list A) p, (0 < n)%nat -> In p (array_split n l) ->
  length p = (length l / n)%nat \/ length p = S (length l / n)%nat.
Proof.
  intros A n l p Hn Hp.
  assert (H : In (length p) (map (@length A) (array_split n l))) by (apply in_map; exact Hp).
  rewrite array_split_sizes in H by exact Hn. unfold split_sizes in H.
  apply in_app_or in H. destruct H as [H|H]; apply repeat_spec in H; [right|left]; exact H.
Qed.
Print Assumptions array_split_part_size.

(* ====================================================================== *)
(* (E) trajectory parts                                                    *)
(* ====================================================================== *)
Fixpoint nondecreasing_nat (l : list nat) : bool :=
  match l with a :: ((b :: _) as r) => (a <=? b)%nat && nondecreasing_nat r | _ => true end.

Lemma nondecreasing_nat_cons a b r : nondecreasing_nat (a :: b :: r) = true ->
  (a <= b)%nat /\ nondecreasing_nat (b :: r) = true.
Proof.
  cbn [nondecreasing_nat]. intro H. apply andb_true_iff in H. destruct H as [H1 H2].
  apply Nat.leb_le in H1. split; assumption.
Qed.

Lemma nondecreasing_nat_last : forall r b, nondecreasing_nat (b :: r) = true -> (b <= last (b :: r) 0)%nat.
Proof.
  induction r as [|c r IH]; intros b H; [cbn; lia|].
  apply nondecreasing_nat_cons in H. destruct H as [Hbc H].
  rewrite last_cons2. specialize (IH c H). lia.
Qed.

Lemma slice_app {A} (a b c : nat) (l : list A) : (a <= b)%nat -> (b <= c)%nat ->
  slice a b l ++ slice b c l = slice a c l.
Proof.
  intros Hab Hbc. unfold slice.
  replace (skipn b l) with (skipn (b - a) (skipn a l)) by (rewrite skipn_skipn_add; f_equal; lia).
  rewrite firstn_skipn_add. f_equal. lia.
Qed.

(* the hypothesis (last bs <= length l) of the requested statement is not needed *)
Lemma traj_parts_concat_gen {A} (l : list A) : forall bs, nondecreasing_nat bs = true -> bs <> [] ->
  concat (traj_parts bs l) = slice (hd 0%nat bs) (last bs 0%nat) l.
Proof.
  induction bs as [|a bs IH]; intros Hn Hne; [congruence|].
  destruct bs as [|b r].
  - cbn [traj_parts pairwise map concat hd last]. unfold slice. rewrite Nat.sub_diag. reflexivity.
  - destruct (nondecreasing_nat_cons a b r Hn) as [Hab Hn'].
    unfold traj_parts in *. rewrite pairwise_cons2. cbn [map concat fst snd].
    rewrite IH by (try exact Hn'; discriminate).
    rewrite last_cons2. cbn [hd]. apply slice_app; [exact Hab|].
    apply nondecreasing_nat_last. exact Hn'.
Qed.

Theorem traj_parts_concat : forall A (bs : list nat) (l : list A), nondecreasing_nat bs = true ->
  (last bs 0 <= length l)%nat -> bs <> [] ->
  concat (traj_parts bs l) = slice (hd 0%nat bs) (last bs 0%nat) l.
Proof. intros A bs l Hn _ Hne. apply traj_parts_concat_gen; assumption. Qed.
Print Assumptions traj_parts_concat.

Lemma slice_length {A} (lo hi : nat) (l : list A) : (hi <= length l)%nat -> length (slice lo hi l) = (hi - lo)%nat.
Proof. intros H. unfold slice. rewrite firstn_length, skipn_length. lia. Qed.

Lemma pairwise_nat_hi_le : forall r b w, nondecreasing_nat (b :: r) = true -> In w (pairwise (b :: r)) ->
  (snd w <= last (b :: r) 0)%nat.
Proof.
  induction r as [|c r IH]; intros b w Hn Hw; [contradiction|].
  destruct (nondecreasing_nat_cons b c r Hn) as [Hbc Hn'].
  rewrite pairwise_cons2 in Hw. rewrite last_cons2. destruct Hw as [<-|Hw].
  - cbn [snd]. apply nondecreasing_nat_last. exact Hn'.
  - apply IH; assumption.
Qed.

Lemma fold_min_le d : forall (l : list nat) x, In x l -> (fold_right Nat.min d l <= x)%nat.
Proof.
  induction l as [|y l IH]; intros x Hx; [contradiction|].
  cbn [fold_right]. destruct Hx as [<-|Hx]; [lia|]. specialize (IH x Hx). lia.
Qed.

Theorem equal_parts_same_length : forall A (bs : list nat) (l : list A), nondecreasing_nat bs = true ->
  (last bs 0 <= length l)%nat ->
  forall p, In p (equal_parts bs l) -> length p = min_size bs.
Proof.
  intros A bs l Hn Hlen p Hp. unfold equal_parts, traj_parts in Hp. rewrite map_map in Hp.
  apply in_map_iff in Hp. destruct Hp as (w & <- & Hw).
  assert (Hhi : (snd w <= last bs 0)%nat).
  { destruct bs as [|b r]; [contradiction|]. apply pairwise_nat_hi_le; assumption. }
  rewrite firstn_length, slice_length by lia.
  assert (Hm : (min_size bs <= snd w - fst w)%nat).
  { unfold min_size. apply fold_min_le. apply (in_map (fun w => (snd w - fst w)%nat)). exact Hw. }
  lia.
Qed.
Print Assumptions equal_parts_same_length.

(* the parts are pairwise disjoint, ordered frame ranges: part k is frames [lo_k, hi_k) *)
Theorem traj_parts_nth : forall A (bs : list nat) (l : list A) k lo hi,
  nth_error (pairwise bs) k = Some (lo, hi) -> nth_error (traj_parts bs l) k = Some (slice lo hi l).
Proof.
  intros A bs l k lo hi Hk. unfold traj_parts. rewrite nth_error_map', Hk. reflexivity.
Qed.
Print Assumptions traj_parts_nth.
