(* C18R -- real-number facts for the normalisation of orientation vectors (v / |v|).
   Kept apart from Proofs/C18.v: the theorems here depend on the axioms of the standard
   library's real numbers (listed by Print Assumptions), the integer theorems do not.
   N1  norm_sq, normalised_unit
   N2  normalised_positive_multiple
   N3  normalised_scale_invariant (positive rescaling does not change the direction) *)
From Coq Require Import Reals Lra.
Open Scope R_scope.

Definition norm3 (x y z : R) : R := sqrt (x * x + y * y + z * z).

Lemma sumsq_nonneg x y z : 0 <= x * x + y * y + z * z.
Proof. pose proof (Rle_0_sqr x). pose proof (Rle_0_sqr y). pose proof (Rle_0_sqr z). unfold Rsqr in *. lra. Qed.

Theorem norm_sq : forall x y z, norm3 x y z * norm3 x y z = x * x + y * y + z * z.
Proof. intros x y z. unfold norm3. apply sqrt_sqrt. apply sumsq_nonneg. Qed.
Print Assumptions norm_sq.

Theorem normalised_unit : forall x y z, 0 < norm3 x y z ->
  let n := norm3 x y z in (x / n) * (x / n) + (y / n) * (y / n) + (z / n) * (z / n) = 1.
Proof.
  intros x y z Hn n. pose proof (norm_sq x y z) as Hs. fold n in Hs.
  assert (Hne : n <> 0) by (unfold n; lra).
  replace ((x / n) * (x / n) + (y / n) * (y / n) + (z / n) * (z / n))
    with ((x * x + y * y + z * z) / (n * n)) by (field; exact Hne).
  rewrite <- Hs. field. exact Hne.
Qed.
Print Assumptions normalised_unit.

(* the norm is positive exactly for non-zero vectors *)
Theorem norm_pos_iff : forall x y z, 0 < norm3 x y z <-> ~ (x = 0 /\ y = 0 /\ z = 0).
Proof.
  intros x y z. unfold norm3. split.
  - intros H [-> [-> ->]]. replace (0 * 0 + 0 * 0 + 0 * 0) with 0 in H by ring. rewrite sqrt_0 in H. lra.
  - intro H. apply sqrt_lt_R0.
    pose proof (Rle_0_sqr x) as Hx. pose proof (Rle_0_sqr y) as Hy. pose proof (Rle_0_sqr z) as Hz. unfold Rsqr in *.
    destruct (Req_dec x 0) as [Ex|Nx]; [destruct (Req_dec y 0) as [Ey|Ny]; [destruct (Req_dec z 0) as [Ez|Nz]|]|].
    + tauto.
    + pose proof (Rsqr_pos_lt z Nz) as P. unfold Rsqr in P. lra.
    + pose proof (Rsqr_pos_lt y Ny) as P. unfold Rsqr in P. lra.
    + pose proof (Rsqr_pos_lt x Nx) as P. unfold Rsqr in P. lra.
Qed.
Print Assumptions norm_pos_iff.

Theorem normalised_positive_multiple : forall x y z, 0 < norm3 x y z ->
  let n := norm3 x y z in
  0 < 1 / n /\ x / n = (1 / n) * x /\ y / n = (1 / n) * y /\ z / n = (1 / n) * z.
Proof.
  intros x y z Hn n. fold n in Hn.
  assert (Hne : n <> 0) by lra.
  split; [|repeat split; field; exact Hne].
  unfold Rdiv. rewrite Rmult_1_l. apply Rinv_0_lt_compat. exact Hn.
Qed.
Print Assumptions normalised_positive_multiple.

(* a positive rescaling of the vector (e.g. a change of the length unit) leaves the normalised vector unchanged *)
Theorem norm_scale : forall k x y z, 0 <= k -> norm3 (k * x) (k * y) (k * z) = k * norm3 x y z.
Proof.
  intros k x y z Hk. unfold norm3.
  replace (k * x * (k * x) + k * y * (k * y) + k * z * (k * z)) with ((k * k) * (x * x + y * y + z * z)) by ring.
  rewrite sqrt_mult; [|apply Rle_0_sqr|apply sumsq_nonneg].
  rewrite sqrt_square by exact Hk. reflexivity.
Qed.
Print Assumptions norm_scale.

Theorem normalised_scale_invariant : forall k x y z, 0 < k -> 0 < norm3 x y z ->
  (k * x) / norm3 (k * x) (k * y) (k * z) = x / norm3 x y z.
Proof.
  intros k x y z Hk Hn. rewrite norm_scale by lra. field. split; lra.
Qed.
Print Assumptions normalised_scale_invariant.
