(* Geom -- theorems about the exact periodic geometry model (Model/Geom.v).
   G1  qf_cart, qf_nonneg, qf_neg, qf_scale
   G2  cs3 (Cauchy-Schwarz in Z^3 through the Lagrange identity), sum3_bound
   G3  min_image_achieved, min_image_window_le, window_in, mi3_translate, min_image_is_translate
   G4  is_min_image_unique, is_min_image_translate, is_min_image_neg, is_min_image_zero
   G5  window_sufficient: under window_ok the window search returns the true minimum image
   G6  min_image_d2_neg, min_image_d2_translate (executable level), gram_of_rot *)
From GV Require Import Base.Prelude Model.C01 Proofs.C01 Model.Geom.

(* ====================================================================== *)
(* sanity checks of the statements on concrete inputs                      *)
(* ====================================================================== *)

Definition M_test : mat3 := {| ra := (5, 1, 0); rb := (-1, 4, 1); rc := (2, 0, 6) |}.
Definition M_skew : mat3 := {| ra := (5, 0, 0); rb := (9, 1, 0); rc := (0, 0, 3) |}.
Definition G_test := gram_of M_test.

Goal det3 M_test = 128. Proof. vm_compute. reflexivity. Qed.
Goal qf G_test (3, -2, 7) = dot3 (cart M_test (3, -2, 7)) (cart M_test (3, -2, 7)).
Proof. vm_compute. reflexivity. Qed.
Goal window_ok M_test 1 = false /\ window_ok M_test 2 = true. Proof. vm_compute. split; reflexivity. Qed.
Goal window_ok M_skew 16 = false /\ window_ok M_skew 20 = true. Proof. vm_compute. split; reflexivity. Qed.
(* the window matters: on the skewed cell K = 1 misses the minimum found with K = 2 (and K = 20) *)
Goal min_image_d2 8 (gram_of M_skew) 1 (4, 4, 0) = 272 /\ min_image_d2 8 (gram_of M_skew) 2 (4, 4, 0) = 208
  /\ min_image_d2 8 (gram_of M_skew) 20 (4, 4, 0) = 208.
Proof. vm_compute. repeat split; reflexivity. Qed.
Goal min_image_d2 8 G_test 2 (vneg3 (13, -6, 4)) = min_image_d2 8 G_test 2 (13, -6, 4).
Proof. vm_compute. reflexivity. Qed.
Goal min_image_d2 8 G_test 2 (vadd3 (13, -6, 4) (vscale3 8 (3, -1, 2))) = min_image_d2 8 G_test 2 (13, -6, 4).
Proof. vm_compute. reflexivity. Qed.
Goal length (window 2) = 125%nat. Proof. vm_compute. reflexivity. Qed.

(* ====================================================================== *)
(* small vector algebra                                                    *)
(* ====================================================================== *)

Ltac dv v := let x := fresh v "1" in let y := fresh v "2" in let z := fresh v "3" in destruct v as [[x y] z].
Ltac dm M :=
  let a := fresh "a" in let b := fresh "b" in let c := fresh "c" in
  destruct M as [a b c]; dv a; dv b; dv c.
Ltac vunf := cbn [qf gram_of g11 g12 g13 g22 g23 g33 dot3 cross3 cart det3 vadd3 vsub3 vscale3 vneg3 ra rb rc mi3 fst snd].
Ltac veq := vunf; repeat (f_equal; try ring).

Lemma vadd3_scale_assoc D f k n :
  vadd3 (vadd3 f (vscale3 D k)) (vscale3 D n) = vadd3 f (vscale3 D (vadd3 k n)).
Proof. dv f; dv k; dv n. veq. Qed.

Lemma vadd3_scale_zero D f : vadd3 f (vscale3 D (0, 0, 0)) = f.
Proof. dv f. veq. Qed.

Lemma vneg3_add_scale D f n : vadd3 (vneg3 f) (vscale3 D n) = vneg3 (vadd3 f (vscale3 D (vneg3 n))).
Proof. dv f; dv n. veq. Qed.

Lemma vneg3_invol v : vneg3 (vneg3 v) = v.
Proof. dv v. veq. Qed.

Lemma dot3_self_nonneg v : 0 <= dot3 v v.
Proof.
  dv v. vunf. pose proof (Z.square_nonneg v1). pose proof (Z.square_nonneg v2).
  pose proof (Z.square_nonneg v3). lia.
Qed.

(* ====================================================================== *)
(* G1                                                                      *)
(* ====================================================================== *)

Theorem qf_cart : forall M v, qf (gram_of M) v = dot3 (cart M v) (cart M v).
Proof. intros M v. dm M; dv v. vunf. ring. Qed.
Print Assumptions qf_cart.

Theorem qf_nonneg : forall M v, 0 <= qf (gram_of M) v.
Proof. intros M v. rewrite qf_cart. apply dot3_self_nonneg. Qed.
Print Assumptions qf_nonneg.

Theorem qf_neg : forall G v, qf G (vneg3 v) = qf G v.
Proof. intros G v. dv v. vunf. ring. Qed.
Print Assumptions qf_neg.

Theorem qf_scale : forall G k v, qf G (vscale3 k v) = k * k * qf G v.
Proof. intros G k v. dv v. vunf. ring. Qed.
Print Assumptions qf_scale.

(* ====================================================================== *)
(* G2                                                                      *)
(* ====================================================================== *)

Lemma lagrange3 u v :
  dot3 u u * dot3 v v - dot3 u v * dot3 u v = dot3 (cross3 u v) (cross3 u v).
Proof. dv u; dv v. vunf. ring. Qed.

Theorem cs3 : forall u v, dot3 u v * dot3 u v <= dot3 u u * dot3 v v.
Proof.
  intros u v. pose proof (lagrange3 u v) as H. pose proof (dot3_self_nonneg (cross3 u v)). lia.
Qed.
Print Assumptions cs3.

Lemma sq3_bound p q r : (p + q + r) * (p + q + r) <= 3 * (p * p + q * q + r * r).
Proof.
  pose proof (Z.square_nonneg (p - q)) as H1. pose proof (Z.square_nonneg (q - r)) as H2.
  pose proof (Z.square_nonneg (p - r)) as H3.
  replace (3 * (p * p + q * q + r * r))
    with ((p + q + r) * (p + q + r) + ((p - q) * (p - q) + (q - r) * (q - r) + (p - r) * (p - r))) by ring.
  lia.
Qed.

Theorem sum3_bound : forall u v w,
  dot3 (vadd3 (vadd3 u v) w) (vadd3 (vadd3 u v) w) <= 3 * (dot3 u u + dot3 v v + dot3 w w).
Proof.
  intros u v w. dv u; dv v; dv w. vunf.
  pose proof (sq3_bound u1 v1 w1). pose proof (sq3_bound u2 v2 w2). pose proof (sq3_bound u3 v3 w3). lia.
Qed.
Print Assumptions sum3_bound.

(* ====================================================================== *)
(* G3                                                                      *)
(* ====================================================================== *)

Section FoldMin.
  Context {A : Type} (g : A -> Z).
  Let step := fun acc n => Z.min acc (g n).

  Lemma fold_min_le_init : forall l a, fold_left step l a <= a.
  Proof.
    induction l as [|x l IH]; intros a; cbn [fold_left]; [lia|].
    specialize (IH (step a x)). unfold step in *. lia.
  Qed.

  Lemma fold_min_le_in : forall l a n, In n l -> fold_left step l a <= g n.
  Proof.
    induction l as [|x l IH]; intros a n Hin; [contradiction|]. cbn [fold_left].
    destruct Hin as [->|Hin]; [|apply IH; exact Hin].
    pose proof (fold_min_le_init l (step a n)). unfold step in *. lia.
  Qed.

  Lemma fold_min_achieved : forall l a,
    fold_left step l a = a \/ exists n, In n l /\ fold_left step l a = g n.
  Proof.
    induction l as [|x l IH]; intros a; cbn [fold_left]; [left; reflexivity|].
    destruct (IH (step a x)) as [H|[n [Hin H]]].
    - rewrite H. unfold step. destruct (Z.min_spec a (g x)) as [[_ ->]|[_ ->]].
      + left; reflexivity.
      + right. exists x. split; [left; reflexivity|reflexivity].
    - right. exists n. split; [right; exact Hin|exact H].
  Qed.
End FoldMin.

Lemma min_image_le_wrapped D G K f : min_image_d2 D G K f <= qf G (mi3 D f).
Proof. unfold min_image_d2. apply fold_min_le_init. Qed.

Theorem min_image_achieved : forall D G K f, 0 <= K ->
  exists n, min_image_d2 D G K f = qf G (vadd3 (mi3 D f) (vscale3 D n)).
Proof.
  intros D G K f _. unfold min_image_d2.
  destruct (fold_min_achieved (fun n => qf G (vadd3 (mi3 D f) (vscale3 D n))) (window K) (qf G (mi3 D f)))
    as [H|[n [_ H]]].
  - exists (0, 0, 0). rewrite H. rewrite vadd3_scale_zero. reflexivity.
  - exists n. exact H.
Qed.
Print Assumptions min_image_achieved.

Theorem min_image_window_le : forall D G K f n, In n (window K) ->
  min_image_d2 D G K f <= qf G (vadd3 (mi3 D f) (vscale3 D n)).
Proof.
  intros D G K f n Hin. unfold min_image_d2.
  apply (fold_min_le_in (fun n => qf G (vadd3 (mi3 D f) (vscale3 D n)))). exact Hin.
Qed.
Print Assumptions min_image_window_le.

Theorem window_in : forall K i j k, 0 <= K ->
  (In (i, j, k) (window K) <-> - K <= i <= K /\ - K <= j <= K /\ - K <= k <= K).
Proof.
  intros K i j k HK. unfold window.
  assert (Hr : forall x, In x (zrange (- K) (Z.to_nat (2 * K + 1))) <-> - K <= x <= K).
  { intro x. rewrite zrange_in. rewrite Z2Nat.id by lia. lia. }
  rewrite in_flat_map. split.
  - intros [i' [Hi H]]. apply in_flat_map in H. destruct H as [j' [Hj H]].
    apply in_map_iff in H. destruct H as [k' [Heq Hk]]. inversion Heq; subst.
    apply Hr in Hi. apply Hr in Hj. apply Hr in Hk. auto.
  - intros (Hi & Hj & Hk). exists i. split; [apply Hr; exact Hi|].
    apply in_flat_map. exists j. split; [apply Hr; exact Hj|].
    apply in_map_iff. exists k. split; [reflexivity|apply Hr; exact Hk].
Qed.
Print Assumptions window_in.

Theorem mi3_translate : forall D f, exists n, mi3 D f = vadd3 f (vscale3 D n).
Proof.
  intros D f. dv f.
  destruct (mi_congr D f1) as [k1 H1]. destruct (mi_congr D f2) as [k2 H2].
  destruct (mi_congr D f3) as [k3 H3].
  exists (k1, k2, k3). vunf. rewrite H1, H2, H3. veq.
Qed.
Print Assumptions mi3_translate.

Theorem min_image_is_translate : forall D G K f, 0 <= K ->
  exists n, min_image_d2 D G K f = qf G (vadd3 f (vscale3 D n)).
Proof.
  intros D G K f HK. destruct (min_image_achieved D G K f HK) as [n Hn].
  destruct (mi3_translate D f) as [k Hk].
  exists (vadd3 k n). rewrite Hn, Hk, vadd3_scale_assoc. reflexivity.
Qed.
Print Assumptions min_image_is_translate.

(* ====================================================================== *)
(* G4                                                                      *)
(* ====================================================================== *)

Theorem is_min_image_unique : forall D G f a b,
  is_min_image D G f a -> is_min_image D G f b -> a = b.
Proof.
  intros D G f a b [[n Hn] Ha] [[m Hm] Hb].
  pose proof (Ha m). pose proof (Hb n). lia.
Qed.
Print Assumptions is_min_image_unique.

Lemma is_min_image_translate_fwd D G f d2 k :
  is_min_image D G f d2 -> is_min_image D G (vadd3 f (vscale3 D k)) d2.
Proof.
  intros [[n Hn] Hle]. split.
  - exists (vadd3 (vneg3 k) n). rewrite vadd3_scale_assoc. rewrite <- Hn. f_equal.
    dv f; dv k; dv n. veq.
  - intro m. rewrite vadd3_scale_assoc. apply Hle.
Qed.

Theorem is_min_image_translate : forall D G f d2 k,
  is_min_image D G (vadd3 f (vscale3 D k)) d2 <-> is_min_image D G f d2.
Proof.
  intros D G f d2 k. split; [|apply is_min_image_translate_fwd].
  intro H. apply (is_min_image_translate_fwd _ _ _ _ (vneg3 k)) in H.
  rewrite vadd3_scale_assoc in H.
  replace (vadd3 f (vscale3 D (vadd3 k (vneg3 k)))) with f in H; [exact H|].
  dv f; dv k. veq.
Qed.
Print Assumptions is_min_image_translate.

Lemma is_min_image_neg_fwd D G f d2 : is_min_image D G f d2 -> is_min_image D G (vneg3 f) d2.
Proof.
  intros [[n Hn] Hle]. split.
  - exists (vneg3 n). rewrite vneg3_add_scale, qf_neg, vneg3_invol. exact Hn.
  - intro m. rewrite vneg3_add_scale, qf_neg. apply Hle.
Qed.

Theorem is_min_image_neg : forall D G f d2,
  is_min_image D G (vneg3 f) d2 <-> is_min_image D G f d2.
Proof.
  intros D G f d2. split; [|apply is_min_image_neg_fwd].
  intro H. apply is_min_image_neg_fwd in H. rewrite vneg3_invol in H. exact H.
Qed.
Print Assumptions is_min_image_neg.

Theorem is_min_image_zero : forall D M, 0 < D -> is_min_image D (gram_of M) (0, 0, 0) 0.
Proof.
  intros D M _. split.
  - exists (0, 0, 0). vunf. ring.
  - intro n. apply qf_nonneg.
Qed.
Print Assumptions is_min_image_zero.

(* ====================================================================== *)
(* G5  window sufficiency                                                  *)
(* ====================================================================== *)

Lemma vadd3_assoc u v w : vadd3 u (vadd3 v w) = vadd3 (vadd3 u v) w.
Proof. dv u; dv v; dv w. veq. Qed.

Lemma dot3_scale k v : dot3 (vscale3 k v) (vscale3 k v) = k * k * dot3 v v.
Proof. dv v. vunf. ring. Qed.

(* the face normals pick out one fractional component times the cell volume *)
Lemma normal1_cart M x1 x2 x3 : dot3 (cross3 (rb M) (rc M)) (cart M (x1, x2, x3)) = x1 * det3 M.
Proof. dm M. vunf. ring. Qed.
Lemma normal2_cart M x1 x2 x3 : dot3 (cross3 (rc M) (ra M)) (cart M (x1, x2, x3)) = x2 * det3 M.
Proof. dm M. vunf. ring. Qed.
Lemma normal3_cart M x1 x2 x3 : dot3 (cross3 (ra M) (rb M)) (cart M (x1, x2, x3)) = x3 * det3 M.
Proof. dm M. vunf. ring. Qed.

Lemma det3_normal1 M : det3 M = dot3 (ra M) (cross3 (rb M) (rc M)).
Proof. reflexivity. Qed.
Lemma det3_normal2 M : det3 M = dot3 (rb M) (cross3 (rc M) (ra M)).
Proof. dm M. vunf. ring. Qed.
Lemma det3_normal3 M : det3 M = dot3 (rc M) (cross3 (ra M) (rb M)).
Proof. dm M. vunf. ring. Qed.

(* a vector with a non-zero projection has positive squared length *)
Lemma normal_pos u N d : d = dot3 u N -> d <> 0 -> 0 < dot3 N N.
Proof.
  intros Hd Hne. pose proof (cs3 u N) as Hcs. rewrite <- Hd in Hcs.
  pose proof (dot3_self_nonneg N) as HN.
  destruct (Z.eq_dec (dot3 N N) 0) as [H0|H0]; [|lia].
  rewrite H0, Z.mul_0_r in Hcs.
  assert (0 < d * d).
  { destruct (Z.lt_trichotomy d 0) as [Hd0|[Hd0|Hd0]]; [apply Z.mul_neg_neg; exact Hd0|contradiction|apply Z.mul_pos_pos; exact Hd0]. }
  lia.
Qed.

Lemma sq_half_bound D w : - D <= 2 * w <= D -> 4 * (w * w) <= D * D.
Proof.
  intro H. pose proof (Z.mul_nonneg_nonneg (D - 2 * w) (D + 2 * w) ltac:(lia) ltac:(lia)) as Hp.
  replace ((D - 2 * w) * (D + 2 * w)) with (D * D - 4 * (w * w)) in Hp by ring. lia.
Qed.

(* the wrapped vector is short: 4 |w|^2 <= 3 D^2 (|a|^2 + |b|^2 + |c|^2) *)
Lemma wrapped_bound M D f : 0 < D ->
  4 * qf (gram_of M) (mi3 D f) <=
  3 * (D * D) * (dot3 (ra M) (ra M) + dot3 (rb M) (rb M) + dot3 (rc M) (rc M)).
Proof.
  intro HD. dv f. cbn [mi3].
  pose proof (sq_half_bound D _ (mi_range D f1 HD)) as H1.
  pose proof (sq_half_bound D _ (mi_range D f2 HD)) as H2.
  pose proof (sq_half_bound D _ (mi_range D f3 HD)) as H3.
  set (w1 := mi D f1) in *. set (w2 := mi D f2) in *. set (w3 := mi D f3) in *.
  rewrite qf_cart. cbn [cart]. rewrite vadd3_assoc.
  pose proof (sum3_bound (vscale3 w1 (ra M)) (vscale3 w2 (rb M)) (vscale3 w3 (rc M))) as Hs.
  rewrite !dot3_scale in Hs.
  pose proof (dot3_self_nonneg (ra M)) as Ha. pose proof (dot3_self_nonneg (rb M)) as Hb.
  pose proof (dot3_self_nonneg (rc M)) as Hc.
  set (A := dot3 (ra M) (ra M)) in *. set (B := dot3 (rb M) (rb M)) in *. set (C := dot3 (rc M) (rc M)) in *.
  pose proof (Z.mul_le_mono_nonneg_r _ _ A Ha H1) as E1.
  pose proof (Z.mul_le_mono_nonneg_r _ _ B Hb H2) as E2.
  pose proof (Z.mul_le_mono_nonneg_r _ _ C Hc H3) as E3.
  set (T := dot3 _ _) in *.
  replace (3 * (D * D) * (A + B + C)) with (3 * (D * D * A + D * D * B + D * D * C)) by ring.
  replace (4 * (w1 * w1) * A) with (4 * (w1 * w1 * A)) in E1 by ring.
  replace (4 * (w2 * w2) * B) with (4 * (w2 * w2 * B)) in E2 by ring.
  replace (4 * (w3 * w3) * C) with (4 * (w3 * w3 * C)) in E3 by ring.
  lia.
Qed.

(* a component outside the window is at least (2K+1)/2 cells long *)
Lemma outside_sq D K w n : 0 < D -> 0 <= K -> - D <= 2 * w <= D -> (n < - K \/ K < n) ->
  (D * (2 * K + 1)) * (D * (2 * K + 1)) <= 4 * ((w + D * n) * (w + D * n)).
Proof.
  intros HD HK Hw Hn.
  assert (H0 : 0 <= D * (2 * K + 1)) by (apply Z.mul_nonneg_nonneg; lia).
  destruct Hn as [Hn|Hn].
  - assert (H1 : D * n <= D * (- K - 1)) by (apply Z.mul_le_mono_nonneg_l; lia).
    assert (H2 : D * (2 * K + 1) <= - (2 * (w + D * n))).
    { replace (D * (2 * K + 1)) with (- (2 * (D * (- K - 1))) - D) by ring. lia. }
    pose proof (Z.square_le_mono_nonneg _ _ H0 H2) as Hsq. unfold Z.square in Hsq.
    replace (4 * ((w + D * n) * (w + D * n))) with (- (2 * (w + D * n)) * - (2 * (w + D * n))) by ring.
    exact Hsq.
  - assert (H1 : D * (K + 1) <= D * n) by (apply Z.mul_le_mono_nonneg_l; lia).
    assert (H2 : D * (2 * K + 1) <= 2 * (w + D * n)).
    { replace (D * (2 * K + 1)) with (2 * (D * (K + 1)) - D) by ring. lia. }
    pose proof (Z.square_le_mono_nonneg _ _ H0 H2) as Hsq. unfold Z.square in Hsq.
    replace (4 * ((w + D * n) * (w + D * n))) with (2 * (w + D * n) * (2 * (w + D * n))) by ring.
    exact Hsq.
Qed.

(* the chain of inequalities, on scalars:
   4 P Qw <= 3 D^2 s P <= D^2 (2K+1)^2 d^2 <= 4 x^2 d^2 <= 4 P Q *)
Lemma axis_core P Q Qw d s D K x :
  0 < P ->
  (x * d) * (x * d) <= P * Q ->
  4 * Qw <= 3 * (D * D) * s ->
  3 * s * P <= (2 * K + 1) * (2 * K + 1) * (d * d) ->
  (D * (2 * K + 1)) * (D * (2 * K + 1)) <= 4 * (x * x) ->
  Qw <= Q.
Proof.
  intros HP H1 H2 H3 H4.
  assert (A : 4 * Qw * P <= 3 * (D * D) * s * P) by (apply Z.mul_le_mono_nonneg_r; lia).
  assert (B : D * D * (3 * s * P) <= D * D * ((2 * K + 1) * (2 * K + 1) * (d * d))).
  { apply Z.mul_le_mono_nonneg_l; [apply Z.square_nonneg|exact H3]. }
  assert (C : (D * (2 * K + 1)) * (D * (2 * K + 1)) * (d * d) <= 4 * (x * x) * (d * d)).
  { apply Z.mul_le_mono_nonneg_r; [apply Z.square_nonneg|exact H4]. }
  apply (Z.mul_le_mono_pos_l _ _ P HP).
  replace (3 * (D * D) * s * P) with (D * D * (3 * s * P)) in A by ring.
  replace (D * D * ((2 * K + 1) * (2 * K + 1) * (d * d)))
    with ((D * (2 * K + 1)) * (D * (2 * K + 1)) * (d * d)) in B by ring.
  replace (4 * (x * x) * (d * d)) with (4 * ((x * d) * (x * d))) in C by ring.
  replace (4 * Qw * P) with (4 * (P * Qw)) in A by ring.
  lia.
Qed.

(* one axis, stated for an arbitrary normal N that picks out the component xi of x *)
Lemma axis_generic M N u K D f x xi :
  0 < D -> det3 M <> 0 -> det3 M = dot3 u N ->
  dot3 N (cart M x) = xi * det3 M ->
  3 * (dot3 (ra M) (ra M) + dot3 (rb M) (rb M) + dot3 (rc M) (rc M)) * dot3 N N
    <= (2 * K + 1) * (2 * K + 1) * (det3 M * det3 M) ->
  (D * (2 * K + 1)) * (D * (2 * K + 1)) <= 4 * (xi * xi) ->
  qf (gram_of M) (mi3 D f) <= qf (gram_of M) x.
Proof.
  intros HD Hdet Hu Hproj Hok Hout.
  pose proof (normal_pos u N _ Hu Hdet) as HP.
  pose proof (cs3 N (cart M x)) as Hcs. rewrite Hproj, <- qf_cart in Hcs.
  exact (axis_core _ _ _ _ _ D K xi HP Hcs (wrapped_bound M D f HD) Hok Hout).
Qed.

Lemma window_ok_spec M K : window_ok M K = true ->
  let s := dot3 (ra M) (ra M) + dot3 (rb M) (rb M) + dot3 (rc M) (rc M) in
  let dd := (2 * K + 1) * (2 * K + 1) * (det3 M * det3 M) in
  det3 M <> 0 /\
  3 * s * dot3 (cross3 (rb M) (rc M)) (cross3 (rb M) (rc M)) <= dd /\
  3 * s * dot3 (cross3 (rc M) (ra M)) (cross3 (rc M) (ra M)) <= dd /\
  3 * s * dot3 (cross3 (ra M) (rb M)) (cross3 (ra M) (rb M)) <= dd.
Proof.
  unfold window_ok. intro H.
  apply andb_true_iff in H. destruct H as [H H3].
  apply andb_true_iff in H. destruct H as [H H2].
  apply andb_true_iff in H. destruct H as [H0 H1].
  apply negb_true_iff, Z.eqb_neq in H0.
  apply Z.leb_le in H1. apply Z.leb_le in H2. apply Z.leb_le in H3.
  cbv zeta. auto.
Qed.

(* a translation with one index outside the window is never better than the wrapped vector *)
Theorem outside_window_not_better : forall M K D f n1 n2 n3,
  0 < D -> 0 <= K -> window_ok M K = true ->
  (n1 < - K \/ K < n1) \/ (n2 < - K \/ K < n2) \/ (n3 < - K \/ K < n3) ->
  qf (gram_of M) (mi3 D f) <= qf (gram_of M) (vadd3 (mi3 D f) (vscale3 D (n1, n2, n3))).
Proof.
  intros M K D f n1 n2 n3 HD HK Hok Hout.
  destruct (window_ok_spec M K Hok) as (Hdet & Hk1 & Hk2 & Hk3).
  dv f. cbn [mi3 vadd3 vscale3].
  destruct Hout as [Hn|[Hn|Hn]].
  - apply (axis_generic M (cross3 (rb M) (rc M)) (ra M) K D (f1, f2, f3) _ (mi D f1 + D * n1) HD Hdet
             (det3_normal1 M) (normal1_cart M _ _ _) Hk1).
    apply outside_sq; auto. apply mi_range; exact HD.
  - apply (axis_generic M (cross3 (rc M) (ra M)) (rb M) K D (f1, f2, f3) _ (mi D f2 + D * n2) HD Hdet
             (det3_normal2 M) (normal2_cart M _ _ _) Hk2).
    apply outside_sq; auto. apply mi_range; exact HD.
  - apply (axis_generic M (cross3 (ra M) (rb M)) (rc M) K D (f1, f2, f3) _ (mi D f3 + D * n3) HD Hdet
             (det3_normal3 M) (normal3_cart M _ _ _) Hk3).
    apply outside_sq; auto. apply mi_range; exact HD.
Qed.
Print Assumptions outside_window_not_better.

(* the window search is a lower bound for every translation of the wrapped vector *)
Lemma min_image_le_all M K D f n : 0 < D -> 0 <= K -> window_ok M K = true ->
  min_image_d2 D (gram_of M) K f <= qf (gram_of M) (vadd3 (mi3 D f) (vscale3 D n)).
Proof.
  intros HD HK Hok. destruct n as [[n1 n2] n3].
  assert (Hc : In (n1, n2, n3) (window K) \/
               ((n1 < - K \/ K < n1) \/ (n2 < - K \/ K < n2) \/ (n3 < - K \/ K < n3))).
  { rewrite (window_in K n1 n2 n3 HK). lia. }
  destruct Hc as [Hin|Hout].
  - apply min_image_window_le. exact Hin.
  - pose proof (outside_window_not_better M K D f n1 n2 n3 HD HK Hok Hout).
    pose proof (min_image_le_wrapped D (gram_of M) K f). lia.
Qed.

Theorem window_sufficient : forall M K D f, 0 < D -> 0 <= K -> window_ok M K = true ->
  is_min_image D (gram_of M) f (min_image_d2 D (gram_of M) K f).
Proof.
  intros M K D f HD HK Hok. split.
  - destruct (min_image_is_translate D (gram_of M) K f HK) as [n Hn]. exists n. symmetry. exact Hn.
  - intro n. destruct (mi3_translate D f) as [k Hk].
    pose proof (min_image_le_all M K D f (vadd3 (vneg3 k) n) HD HK Hok) as H.
    rewrite Hk, vadd3_scale_assoc in H.
    replace (vadd3 k (vadd3 (vneg3 k) n)) with n in H; [exact H|].
    dv k; dv n. veq.
Qed.
Print Assumptions window_sufficient.

(* ====================================================================== *)
(* G6                                                                      *)
(* ====================================================================== *)

Theorem min_image_d2_neg : forall M K D f, 0 < D -> 0 <= K -> window_ok M K = true ->
  min_image_d2 D (gram_of M) K (vneg3 f) = min_image_d2 D (gram_of M) K f.
Proof.
  intros M K D f HD HK Hok.
  apply (is_min_image_unique D (gram_of M) f).
  - apply is_min_image_neg. apply window_sufficient; assumption.
  - apply window_sufficient; assumption.
Qed.
Print Assumptions min_image_d2_neg.

Theorem min_image_d2_translate : forall M K D f k, 0 < D -> 0 <= K -> window_ok M K = true ->
  min_image_d2 D (gram_of M) K (vadd3 f (vscale3 D k)) = min_image_d2 D (gram_of M) K f.
Proof.
  intros M K D f k HD HK Hok.
  apply (is_min_image_unique D (gram_of M) f).
  - apply (is_min_image_translate D (gram_of M) f _ k). apply window_sufficient; assumption.
  - apply window_sufficient; assumption.
Qed.
Print Assumptions min_image_d2_translate.

(* two lattices with the same Gram matrix (e.g. rotated copies) give the same distances: by construction *)
Theorem min_image_d2_gram_only : forall M M' K D f, gram_of M = gram_of M' ->
  min_image_d2 D (gram_of M) K f = min_image_d2 D (gram_of M') K f.
Proof. intros M M' K D f H. rewrite H. reflexivity. Qed.
Print Assumptions min_image_d2_gram_only.

(* ---- rotations: M R for an integer orthogonal R has the same Gram matrix ---- *)

(* rows of M R are the rows of M expressed in the rows of R *)
Definition mmul3 (M R : mat3) : mat3 :=
  {| ra := cart R (ra M); rb := cart R (rb M); rc := cart R (rc M) |}.
Definition gram_id : gram := {| g11 := 1; g12 := 0; g13 := 0; g22 := 1; g23 := 0; g33 := 1 |}.
Definition orthogonal3 (R : mat3) : Prop := gram_of R = gram_id.      (* R R^T = I *)

Definition R_test : mat3 := {| ra := (0, 1, 0); rb := (0, 0, -1); rc := (-1, 0, 0) |}.
Goal gram_of R_test = gram_id /\ gram_of (mmul3 M_test R_test) = gram_of M_test
     /\ ra (mmul3 M_test R_test) = (0, 5, -1).
Proof. vm_compute. repeat split; reflexivity. Qed.

Lemma dot3_cart R u v :
  dot3 (cart R u) (cart R v) =
  let G := gram_of R in
  let '(u1, u2, u3) := u in let '(v1, v2, v3) := v in
  g11 G * (u1 * v1) + g22 G * (u2 * v2) + g33 G * (u3 * v3)
  + g12 G * (u1 * v2 + u2 * v1) + g13 G * (u1 * v3 + u3 * v1) + g23 G * (u2 * v3 + u3 * v2).
Proof. dm R; dv u; dv v. vunf. cbv zeta. vunf. ring. Qed.

Lemma dot3_cart_orth R u v : orthogonal3 R -> dot3 (cart R u) (cart R v) = dot3 u v.
Proof.
  intro H. rewrite dot3_cart. cbv zeta. rewrite H. dv u; dv v. cbn [gram_id g11 g12 g13 g22 g23 g33 dot3]. ring.
Qed.

Theorem gram_of_rot : forall M R, orthogonal3 R -> gram_of (mmul3 M R) = gram_of M.
Proof.
  intros M R H. unfold gram_of, mmul3. cbn [ra rb rc]. rewrite !(dot3_cart_orth R _ _ H). reflexivity.
Qed.
Print Assumptions gram_of_rot.

(* the window condition itself only depends on the Gram matrix *)
Definition det_gram (G : gram) : Z :=
  g11 G * (g22 G * g33 G - g23 G * g23 G) - g12 G * (g12 G * g33 G - g23 G * g13 G)
  + g13 G * (g12 G * g23 G - g22 G * g13 G).
Definition window_ok_gram (G : gram) (K : Z) : bool :=
  let s := g11 G + g22 G + g33 G in
  let dd := det_gram G in
  let chk nn := 3 * s * nn <=? (2 * K + 1) * (2 * K + 1) * dd in
  negb (dd =? 0) && chk (g22 G * g33 G - g23 G * g23 G) && chk (g33 G * g11 G - g13 G * g13 G)
  && chk (g11 G * g22 G - g12 G * g12 G).

Lemma det3_sq M : det3 M * det3 M = det_gram (gram_of M).
Proof. dm M. unfold det_gram. vunf. ring. Qed.

Lemma sq_eqb_0 d : (d * d =? 0) = (d =? 0).
Proof.
  destruct (Z.eqb_spec d 0) as [->|Hne]; [reflexivity|]. apply Z.eqb_neq.
  intro H. apply Z.mul_eq_0 in H. tauto.
Qed.

Theorem window_ok_gram_eq : forall M K, window_ok M K = window_ok_gram (gram_of M) K.
Proof.
  intros M K. unfold window_ok, window_ok_gram. cbv zeta.
  rewrite <- det3_sq, sq_eqb_0.
  rewrite <- !lagrange3.
  replace (dot3 (rc M) (ra M)) with (dot3 (ra M) (rc M)) by (dm M; vunf; ring).
  cbn [gram_of g11 g12 g13 g22 g23 g33]. reflexivity.
Qed.
Print Assumptions window_ok_gram_eq.

Theorem window_ok_rot : forall M R K, orthogonal3 R -> window_ok (mmul3 M R) K = window_ok M K.
Proof. intros M R K H. rewrite !window_ok_gram_eq, (gram_of_rot M R H). reflexivity. Qed.
Print Assumptions window_ok_rot.

(* rotation invariance of the executable distance *)
Theorem min_image_d2_rot : forall M R K D f, orthogonal3 R ->
  min_image_d2 D (gram_of (mmul3 M R)) K f = min_image_d2 D (gram_of M) K f.
Proof. intros M R K D f H. rewrite (gram_of_rot M R H). reflexivity. Qed.
Print Assumptions min_image_d2_rot.
