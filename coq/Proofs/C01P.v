(* C01 (float clause), B6 -- the executable PrimFloat twin computes the real model.
   For every finite binary64 x (no magnitude restriction is needed):
     wrapP_old_correct : B2R (Prim2B (wrapP_old x)) = wrapF_old (B2R (Prim2B x)), result finite
     wrapP_correct     : B2R (Prim2B (wrapP x))     = wrapF     (B2R (Prim2B x)), result finite
     wrapP_range       : 0 <= B2R (Prim2B (wrapP x)) < 1
   Ingredients: the integer part and the fractional part of a float are floats (fmt_trunc,
   fmt_frac), so truncP and the subtraction x - trunc x are exact; then Flocq's
   Bminus/Bplus/Bltb/Beqb correctness theorems.
   Print Assumptions lists the stdlib real-number axioms plus the stdlib specification axioms
   of the primitive floats / 63-bit integers (Coq.Floats.FloatAxioms, Uint63). *)
From Coq Require Import ZArith Reals Lra Lia.
From Flocq Require Import Core.
From Flocq Require Import BinarySingleNaN.
From Flocq Require PrimFloat.
From Coq Require Import Floats.
From GV Require Import Model.C01F Proofs.C01F.
Open Scope R_scope.

Local Instance prec53_gt_0 : Prec_gt_0 53.
Proof. reflexivity. Qed.
Local Instance fexp64_valid : Valid_exp fexp64 := FLT_exp_valid (-1074) 53.
Local Instance fexp64_monotone : Monotone_exp fexp64 := FLT_exp_monotone (-1074) 53.

Notation fmt := (generic_format radix2 fexp64).

(* ---------- real-number facts: trunc and frac of a float are floats ---------- *)

Lemma trunc_abs_le X : Rabs (IZR (Ztrunc X)) <= Rabs X /\ Rabs (frac_part X) <= Rabs X.
Proof.
  destruct (Rle_or_lt 0 X) as [H|H].
  - pose proof (frac_part_pos_case X H) as Hf. unfold frac_part in *.
    assert (HT : (0 <= Ztrunc X)%Z).
    { assert (IZR (-1) < IZR (Ztrunc X)) as Hlt by (simpl; lra). apply lt_IZR in Hlt. lia. }
    apply IZR_le in HT. rewrite !Rabs_pos_eq by lra. lra.
  - pose proof (frac_part_neg_case X (Rlt_le _ _ H)) as Hf. unfold frac_part in *.
    assert (HT : (Ztrunc X <= 0)%Z).
    { assert (IZR (Ztrunc X) < IZR 1) as Hlt by (simpl; lra). apply lt_IZR in Hlt. lia. }
    apply IZR_le in HT. rewrite !Rabs_left1 by lra. lra.
Qed.

Lemma fmt_int_when_cexp_nonneg X : fmt X -> (0 <= cexp radix2 fexp64 X)%Z -> X = IZR (Ztrunc X).
Proof.
  intros FX HE. rewrite FX at 2. unfold F2R. cbn [Fnum Fexp].
  rewrite <- (IZR_Zpower radix2 _ HE). rewrite <- mult_IZR. rewrite Ztrunc_IZR.
  rewrite mult_IZR. rewrite (IZR_Zpower radix2 _ HE). exact FX.
Qed.

Lemma cexp_le_of_abs_le x y : x <> 0 -> Rabs x <= Rabs y ->
  (cexp radix2 fexp64 x <= cexp radix2 fexp64 y)%Z.
Proof.
  intros Hx Hxy. unfold cexp. apply fexp64_monotone. apply mag_le_abs; assumption.
Qed.

Lemma fmt_trunc X : fmt X -> fmt (IZR (Ztrunc X)).
Proof.
  intro FX. destruct (Z_lt_le_dec (cexp radix2 fexp64 X) 0) as [HE|HE].
  - replace (IZR (Ztrunc X)) with (F2R (Float radix2 (Ztrunc X) 0)) by (unfold F2R; simpl; ring).
    apply generic_format_F2R. intro Hnz.
    replace (F2R (Float radix2 (Ztrunc X) 0)) with (IZR (Ztrunc X)) by (unfold F2R; simpl; ring).
    assert (cexp radix2 fexp64 (IZR (Ztrunc X)) <= cexp radix2 fexp64 X)%Z; [|lia].
    apply cexp_le_of_abs_le; [|apply trunc_abs_le].
    intro H0. apply Hnz. apply eq_IZR. exact H0.
  - rewrite <- (fmt_int_when_cexp_nonneg X FX HE). exact FX.
Qed.

Lemma fmt_frac X : fmt X -> fmt (frac_part X).
Proof.
  intro FX. destruct (Req_dec (frac_part X) 0) as [H0|H0]; [rewrite H0; apply generic_format_0|].
  destruct (Z_lt_le_dec (cexp radix2 fexp64 X) 0) as [HE|HE].
  - set (E := cexp radix2 fexp64 X) in *. set (M := Ztrunc (scaled_mantissa radix2 fexp64 X)).
    assert (HX : X = IZR M * bpow radix2 E) by exact FX.
    assert (Hfr : frac_part X = F2R (Float radix2 (M - Ztrunc X * Zpower radix2 (- E)) E)).
    { unfold F2R. cbn [Fnum Fexp]. rewrite minus_IZR, mult_IZR.
      rewrite (IZR_Zpower radix2 (- E)) by lia.
      rewrite Rmult_minus_distr_r, Rmult_assoc, <- bpow_plus.
      replace (- E + E)%Z with 0%Z by ring. simpl (bpow radix2 0).
      unfold frac_part. rewrite HX at 1. ring. }
    rewrite Hfr. apply generic_format_F2R. intros _. rewrite <- Hfr.
    apply cexp_le_of_abs_le; [exact H0|apply trunc_abs_le].
  - exfalso. apply H0. unfold frac_part. rewrite <- (fmt_int_when_cexp_nonneg X FX HE). ring.
Qed.

(* ---------- the binary64 side ---------- *)
Import Flocq.IEEE754.PrimFloat.

Notation P2R x := (B2R (Prim2B x)).
Notation finiteP x := (BinarySingleNaN.is_finite (Prim2B x) = true).

Lemma bounded_mantissa_lt m e : SpecFloat.bounded prec emax m e = true -> (Zpos m < 2 ^ 53)%Z.
Proof.
  intro Hb. unfold SpecFloat.bounded, SpecFloat.canonical_mantissa in Hb.
  apply andb_prop in Hb. destruct Hb as [Hc _]. apply Zeq_bool_eq in Hc.
  rewrite Zpos_digits2_pos in Hc.
  pose proof (Zdigits_correct radix2 (Zpos m)) as Hd.
  assert (Hle : (Zdigits radix2 (Zpos m) <= 53)%Z).
  { unfold SpecFloat.fexp, SpecFloat.emin in Hc. change prec with 53%Z in Hc. lia. }
  pose proof (Zpower_le radix2 _ _ Hle) as Hp.
  change (Zpower radix2 53) with (2 ^ 53)%Z in Hp. cbn [Z.abs] in Hd. lia.
Qed.

Lemma Ztrunc_F2R_neg_exp m e : (e < 0)%Z ->
  Ztrunc (F2R (Float radix2 (Zpos m) e)) = Z.shiftr (Zpos m) (- e).
Proof.
  intro He. rewrite Z.shiftr_div_pow2 by lia.
  assert (Hpos : 0 <= F2R (Float radix2 (Zpos m) e)).
  { apply F2R_ge_0. cbn. lia. }
  rewrite (Ztrunc_floor _ Hpos). unfold F2R. cbn [Fnum Fexp].
  replace e with (- - e)%Z at 1 by ring. rewrite bpow_opp.
  rewrite <- (IZR_Zpower radix2 (- e)) by lia.
  change (Zpower radix2 (- e)) with (2 ^ (- e))%Z.
  apply Zfloor_div. lia.
Qed.

Lemma of_uint63_small z : (0 <= z < 2 ^ 53)%Z ->
  finiteP (of_uint63 (Uint63.of_Z z)) /\ P2R (of_uint63 (Uint63.of_Z z)) = IZR z.
Proof.
  intros Hz.
  rewrite of_int63_equiv. rewrite Uint63.of_Z_spec.
  rewrite Z.mod_small by (change Uint63.wB with (2 ^ 63)%Z; lia).
  pose proof (binary_normalize_correct prec emax Hprec Hmax mode_NE z 0 false) as H.
  cbv zeta in H.
  assert (HF : F2R (Float radix2 z 0) = IZR z) by (unfold F2R; simpl; ring).
  rewrite HF in H.
  assert (Hfmt : generic_format radix2 (SpecFloat.fexp prec emax) (IZR z)).
  { rewrite <- HF. apply generic_format_F2R. intros Hnz. rewrite HF.
    unfold cexp, SpecFloat.fexp, SpecFloat.emin.
    assert (mag radix2 (IZR z) <= 53)%Z; [|change prec with 53%Z; change emax with 1024%Z; lia].
    apply mag_le_bpow; [intro H0; apply Hnz; apply eq_IZR; exact H0|].
    rewrite <- (IZR_Zpower radix2 53) by lia. rewrite <- abs_IZR. apply IZR_lt.
    change (Zpower radix2 53) with (2 ^ 53)%Z. lia. }
  rewrite round_generic in H; [|auto with typeclass_instances|exact Hfmt].
  rewrite Rlt_bool_true in H.
  - destruct H as (H1 & H2 & _). split; assumption.
  - rewrite <- abs_IZR. rewrite <- (IZR_Zpower radix2 emax) by (unfold emax; lia). apply IZR_lt.
    assert (2 ^ 53 < Zpower radix2 emax)%Z by (vm_compute; reflexivity). lia.
Qed.

Lemma truncP_correct x : finiteP x ->
  finiteP (truncP x) /\ P2R (truncP x) = IZR (Ztrunc (P2R x)).
Proof.
  intro Hf. unfold truncP. rewrite <- B2SF_Prim2B.
  remember (Prim2B x) as b eqn:Hb. destruct b as [s|s| |s m e Hbd]; try discriminate Hf.
  - cbn [B2SF]. rewrite <- Hb. split; [reflexivity|]. cbn [B2R]. rewrite (Ztrunc_IZR 0). reflexivity.
  - cbn [B2SF]. destruct (Z.leb_spec 0 e) as [He|He].
    + rewrite <- Hb. split; [reflexivity|]. cbn [B2R]. unfold F2R. cbn [Fnum Fexp].
      rewrite <- (IZR_Zpower radix2 e He). rewrite <- mult_IZR. rewrite Ztrunc_IZR. reflexivity.
    + pose proof (bounded_mantissa_lt m e Hbd) as Hm.
      set (z := Z.shiftr (Zpos m) (- e)).
      assert (Hz : (0 <= z < 2 ^ 53)%Z).
      { unfold z. rewrite Z.shiftr_div_pow2 by lia.
        assert (0 < 2 ^ (- e))%Z by (apply Z.pow_pos_nonneg; lia).
        split; [apply Z.div_pos; lia|].
        apply Z.le_lt_trans with (2 := Hm). apply Z.div_le_upper_bound; [lia|]. nia. }
      destruct (of_uint63_small z Hz) as [Hfin Hval].
      cbn [B2R]. rewrite F2R_cond_Zopp.
      assert (HT : Ztrunc (cond_Ropp s (F2R (Float radix2 (Zpos m) e))) = cond_Zopp s z).
      { destruct s; cbn [cond_Ropp cond_Zopp]; [rewrite Ztrunc_opp|];
          rewrite (Ztrunc_F2R_neg_exp m e He); reflexivity. }
      rewrite HT. destruct s; cbn [cond_Zopp].
      * rewrite opp_equiv. rewrite is_finite_Bopp, B2R_Bopp, Hval, opp_IZR. split; [exact Hfin|reflexivity].
      * split; assumption.
Qed.

Lemma rnd64_spec y : round radix2 (SpecFloat.fexp prec emax) (round_mode mode_NE) y = rnd64 y.
Proof. reflexivity. Qed.

Lemma fmt_P2R x : fmt (P2R x).
Proof. exact (generic_format_B2R prec emax (Prim2B x)). Qed.

Lemma one_lt_bpow_emax : 1 < bpow radix2 emax.
Proof. change 1 with (bpow radix2 0). apply bpow_lt. reflexivity. Qed.

Lemma Prim2B_zero : Prim2B PrimFloat.zero = B754_zero false.
Proof. rewrite zero_equiv. apply Prim2B_B2Prim. Qed.

Lemma Prim2B_one : Prim2B PrimFloat.one = @Bone prec emax Hprec Hmax.
Proof. rewrite one_equiv. apply Prim2B_B2Prim. Qed.

Lemma subP_frac x : finiteP x ->
  finiteP (PrimFloat.sub x (truncP x)) /\ P2R (PrimFloat.sub x (truncP x)) = frac_part (P2R x).
Proof.
  intro Hf. destruct (truncP_correct x Hf) as [Ht Hv].
  rewrite sub_equiv.
  pose proof (Bminus_correct prec emax Hprec Hmax mode_NE _ _ Hf Ht) as H.
  rewrite Hv in H. fold (frac_part (P2R x)) in H. rewrite rnd64_spec in H.
  unfold rnd64 in H. rewrite round_generic in H;
    [|auto with typeclass_instances|apply fmt_frac; apply fmt_P2R].
  rewrite Rlt_bool_true in H.
  - destruct H as (H1 & H2 & _). split; assumption.
  - pose proof (frac_part_range (P2R x)) as Hr. pose proof one_lt_bpow_emax.
    apply Rabs_lt. lra.
Qed.

Theorem wrapP_old_correct x : finiteP x ->
  finiteP (wrapP_old x) /\ P2R (wrapP_old x) = wrapF_old (P2R x).
Proof.
  intro Hf. destruct (subP_frac x Hf) as [Hrf Hrv].
  unfold wrapP_old, wrapF_old. cbv zeta.
  rewrite ltb_equiv. rewrite Prim2B_zero.
  rewrite (Bltb_correct prec emax _ _ Hrf (eq_refl : BinarySingleNaN.is_finite (B754_zero false) = true)).
  rewrite Hrv. change (B2R (B754_zero false)) with 0.
  destruct (Rlt_bool_spec (frac_part (P2R x)) 0) as [Hneg|Hpos].
  - rewrite add_equiv, Prim2B_one.
    pose proof (Bplus_correct prec emax Hprec Hmax mode_NE _ _ Hrf (is_finite_Bone prec emax Hprec Hmax)) as H.
    rewrite Hrv, (Bone_correct prec emax Hprec Hmax), rnd64_spec in H.
    rewrite Rlt_bool_true in H.
    + destruct H as (H1 & H2 & _). split; assumption.
    + pose proof (frac_part_range (P2R x)) as Hr. pose proof one_lt_bpow_emax.
      assert (0 <= rnd64 (frac_part (P2R x) + 1) <= 1).
      { rewrite <- rnd64_0 at 1. rewrite <- rnd64_1 at 3. split; apply rnd64_le; lra. }
      apply Rabs_lt. lra.
  - split; assumption.
Qed.
Print Assumptions wrapP_old_correct.

Theorem wrapP_correct x : finiteP x ->
  finiteP (wrapP x) /\ P2R (wrapP x) = wrapF (P2R x).
Proof.
  intro Hf. destruct (wrapP_old_correct x Hf) as [Hyf Hyv].
  unfold wrapP, wrapF. cbv zeta.
  rewrite eqb_equiv, Prim2B_one.
  rewrite (Beqb_correct prec emax _ _ Hyf (is_finite_Bone prec emax Hprec Hmax)).
  rewrite Hyv, (Bone_correct prec emax Hprec Hmax).
  destruct (Req_bool_spec (wrapF_old (P2R x)) 1) as [Heq|Hne].
  - rewrite Prim2B_zero. split; reflexivity.
  - split; assumption.
Qed.
Print Assumptions wrapP_correct.

(* hence the repaired executable code never returns 1.0 (nor anything outside [0, 1)) *)
Corollary wrapP_range x : finiteP x -> 0 <= P2R (wrapP x) < 1.
Proof. intro Hf. destruct (wrapP_correct x Hf) as [_ ->]. apply wrapF_range. Qed.
Print Assumptions wrapP_range.
