(* C18 -- theorems about the orientation model (Model/C18.v).
   O1  bw_range, bw_congr, bw_congr_sharp, bw_shift, bw_is_reim_when_no_tie (+ the two tie cases)
   O2  half_open_unique, bond_translate, bond_range, bond_is_min_image
   O3  mat_eqb_spec, tr_involutive, mulv_tr_dot, tr_perm, symmetrize_is_images, symmetrize_perm,
       symmetrize_count, inverse_commutes, orthogonal_tr, symmetrize_preserves_length(_R)
   O4  transform_add, transform_scale, transform_length, transform_nth_error
   O5  autocorr_zero, autocorr_zero_nonneg, lag_dot_cs, autocorr_cs, autocorr_scale *)
From Coq Require Import Permutation.
From GV Require Import Base.Prelude Model.C01 Proofs.C01 Model.Geom Proofs.Geom Model.C17 Proofs.C17 Model.C18.

(* ====================================================================== *)
(* sanity checks of the statements on concrete inputs                      *)
(* ====================================================================== *)

Definition R4z : mat3 := {| ra := (0, -1, 0); rb := (1, 0, 0); rc := (0, 0, 1) |}.        (* 4-fold about z *)
Definition R4z' : mat3 := {| ra := (0, 1, 0); rb := (-1, 0, 0); rc := (0, 0, 1) |}.       (* its transpose = inverse *)
Definition R2z : mat3 := {| ra := (-1, 0, 0); rb := (0, -1, 0); rc := (0, 0, 1) |}.
Definition Id3 : mat3 := {| ra := (1, 0, 0); rb := (0, 1, 0); rc := (0, 0, 1) |}.
Definition C4 : list mat3 := [Id3; R4z; R2z; R4z'].

Goal bw 100 60 = -40 /\ bw 100 (-60) = 40 /\ bw 100 49 = 49 /\ bw 100 (-49) = -49 /\ bw 100 99 = -1 /\ bw 100 (-99) = 1.
Proof. vm_compute. repeat split; reflexivity. Qed.
(* exact half-cell ties: bw keeps both +D/2 and -D/2; reim maps +D/2 to -D/2 *)
Goal bw 100 50 = 50 /\ reim 100 50 = -50 /\ bw 100 (-50) = -50 /\ reim 100 (-50) = -50.
Proof. vm_compute. repeat split; reflexivity. Qed.
(* bw moves by at most one cell: outside (-3D/2, 3D/2) it is not a representative in the half cell *)
Goal bw 100 250 = 150 /\ reim 100 250 = -50.
Proof. vm_compute. split; reflexivity. Qed.
Goal tr R4z = R4z' /\ tr (tr R4z) = R4z /\ closed_under_transpose C4 = true /\ closed_under_transpose [Id3; R4z] = false
     /\ orthogonal R4z = true /\ orthogonal M5 = false.
Proof. vm_compute. repeat split; reflexivity. Qed.
Goal symmetrize C4 [(1, 2, 3)] = [(1, 2, 3); (2, -1, 3); (-1, -2, 3); (-2, 1, 3)]
  /\ images C4 (1, 2, 3) = [(1, 2, 3); (-2, 1, 3); (-1, -2, 3); (2, -1, 3)].
Proof. vm_compute. split; reflexivity. Qed.
Goal bond 100 (10, 95, 50) (95, 5, 0) = (-15, 10, -50)
  /\ qf (gram_of M5) (bond 100 (10, 95, 50) (95, 5, 40)) = min_image_d2 100 (gram_of M5) 1 (vsub3 (95, 5, 40) (10, 95, 50)).
Proof. vm_compute. split; reflexivity. Qed.
Goal autocorr_num [(1, 0, 0); (0, 1, 0); (1, 1, 0); (2, 0, 1)] 0 = 9
  /\ autocorr_num [(1, 0, 0); (0, 1, 0); (1, 1, 0); (2, 0, 1)] 1 = 3
  /\ autocorr_num [(1, 0, 0); (0, 1, 0); (1, 1, 0); (2, 0, 1)] 5 = 0.
Proof. vm_compute. repeat split; reflexivity. Qed.

(* ====================================================================== *)
(* O1  bond wrap of one component                                          *)
(* ====================================================================== *)

Lemma bw_cases D d :
  (D < 2 * d /\ bw D d = d - D) \/
  (2 * d <= D /\ 2 * d < - D /\ bw D d = d + D) \/
  (2 * d <= D /\ - D <= 2 * d /\ bw D d = d).
Proof.
  unfold bw. destruct (Z.ltb_spec D (2 * d)) as [H|H]; [left; auto|].
  destruct (Z.ltb_spec (2 * d) (- D)) as [H'|H']; [right; left; auto|right; right; auto].
Qed.

(* for any difference within one cell and a half *)
Lemma bw_range_gen D d : 0 <= D -> - 3 * D <= 2 * d <= 3 * D -> - D <= 2 * bw D d <= D.
Proof. intros HD Hd. destruct (bw_cases D d) as [[? ->]|[(? & ? & ->)|(? & ? & ->)]]; lia. Qed.

Theorem bw_range : forall D a b, 0 <= a < D -> 0 <= b < D -> - D <= 2 * bw D (b - a) <= D.
Proof. intros D a b Ha Hb. apply bw_range_gen; lia. Qed.
Print Assumptions bw_range.

Theorem bw_congr : forall D d, exists k, bw D d = d + k * D.
Proof.
  intros D d. destruct (bw_cases D d) as [[? ->]|[(? & ? & ->)|(? & ? & ->)]];
    [exists (-1)|exists 1|exists 0]; ring.
Qed.
Print Assumptions bw_congr.

Theorem bw_congr_sharp : forall D d, exists k, - 1 <= k <= 1 /\ bw D d = d + k * D.
Proof.
  intros D d. destruct (bw_cases D d) as [[? ->]|[(? & ? & ->)|(? & ? & ->)]];
    [exists (-1)|exists 1|exists 0]; (split; [lia|ring]).
Qed.
Print Assumptions bw_congr_sharp.

(* (the hypothesis is not needed; kept as in the requested statement) *)
Theorem bw_shift : forall D d, - D < d < D -> bw D d = d \/ bw D d = d - D \/ bw D d = d + D.
Proof. intros D d _. destruct (bw_cases D d) as [[? ->]|[(? & ? & ->)|(? & ? & ->)]]; auto. Qed.
Print Assumptions bw_shift.

(* away from the upper tie 2 d = D the bond wrap is the canonical representative of C17;
   the lower tie 2 d = - D is harmless (both keep - D / 2) *)
Theorem bw_is_reim_no_upper_tie : forall D d, 0 < D -> - D < d < D -> 2 * d <> D -> bw D d = reim D d.
Proof.
  intros D d HD Hd Hne. apply (reim_unique D d (bw D d) HD); [|apply bw_congr].
  destruct (bw_cases D d) as [[? ->]|[(? & ? & ->)|(? & ? & ->)]]; lia.
Qed.
Print Assumptions bw_is_reim_no_upper_tie.

Theorem bw_is_reim_when_no_tie : forall D d, 0 < D -> - D < d < D -> 2 * d <> D -> 2 * d <> - D ->
  bw D d = reim D d.
Proof. intros D d HD Hd Hne _. apply bw_is_reim_no_upper_tie; assumption. Qed.
Print Assumptions bw_is_reim_when_no_tie.

(* the ties: at + D / 2 the bond wrap keeps + D / 2 while reim gives - D / 2 (they differ by one cell);
   at - D / 2 both keep - D / 2 *)
Theorem bw_tie_upper : forall D d, 0 < D -> 2 * d = D -> bw D d = d /\ reim D d = d - D /\ bw D d <> reim D d.
Proof.
  intros D d HD Hd.
  assert (Hb : bw D d = d) by (destruct (bw_cases D d) as [[? ->]|[(? & ? & ->)|(? & ? & ->)]]; lia).
  assert (Hr : reim D d = d - D).
  { symmetry. apply reim_unique; [exact HD|lia|exists (-1); ring]. }
  rewrite Hb, Hr. repeat split. lia.
Qed.
Print Assumptions bw_tie_upper.

Theorem bw_tie_lower : forall D d, 0 < D -> 2 * d = - D -> bw D d = d /\ reim D d = d.
Proof.
  intros D d HD Hd. split.
  - destruct (bw_cases D d) as [[? ->]|[(? & ? & ->)|(? & ? & ->)]]; lia.
  - symmetry. apply reim_unique; [exact HD|lia|exists 0; ring].
Qed.
Print Assumptions bw_tie_lower.

(* ====================================================================== *)
(* O2  bond length = minimum-image distance                                *)
(* ====================================================================== *)

Definition wrapped3 (D : Z) (v : V3) : Prop :=
  let '(x, y, z) := v in 0 <= x < D /\ 0 <= y < D /\ 0 <= z < D.

(* a representative strictly inside the half cell is unique among the representatives in the closed half cell *)
Lemma half_open_unique D x y k : 0 < D ->
  - D < 2 * x < D -> - D <= 2 * y <= D -> y = x + k * D -> y = x.
Proof.
  intros HD Hx Hy He.
  assert (Hk : k = 0).
  { destruct (Z.lt_trichotomy k 0) as [Hk|[Hk|Hk]]; [|exact Hk|].
    - assert (k * D <= (- 1) * D) by (apply Z.mul_le_mono_nonneg_r; lia). lia.
    - assert (1 * D <= k * D) by (apply Z.mul_le_mono_nonneg_r; lia). lia. }
  subst k. lia.
Qed.

Theorem bond_translate : forall D cent sat, exists n, bond D cent sat = vadd3 (vsub3 sat cent) (vscale3 D n).
Proof.
  intros D cent sat. dv cent; dv sat. cbn [vsub3 bond].
  destruct (bw_congr D (sat1 - cent1)) as [k1 H1]. destruct (bw_congr D (sat2 - cent2)) as [k2 H2].
  destruct (bw_congr D (sat3 - cent3)) as [k3 H3].
  exists (k1, k2, k3). rewrite H1, H2, H3. veq.
Qed.
Print Assumptions bond_translate.

Theorem bond_range : forall D cent sat, wrapped3 D cent -> wrapped3 D sat ->
  let '(x, y, z) := bond D cent sat in - D <= 2 * x <= D /\ - D <= 2 * y <= D /\ - D <= 2 * z <= D.
Proof.
  intros D cent sat. dv cent; dv sat. cbn [wrapped3 vsub3 bond]. intros (A1 & A2 & A3) (B1 & B2 & B3).
  split; [|split]; apply bw_range; assumption.
Qed.
Print Assumptions bond_range.

Theorem bond_is_min_image : forall M r2 D K cent sat,
  radius_ok M r2 D = true -> window_ok M K = true -> 0 < D -> 0 <= K -> 0 < snd r2 ->
  wrapped3 D cent -> wrapped3 D sat ->
  min_image_d2 D (gram_of M) K (vsub3 sat cent) * snd r2 < fst r2 ->
  qf (gram_of M) (bond D cent sat) = min_image_d2 D (gram_of M) K (vsub3 sat cent).
Proof.
  intros M r2 D K cent sat Hr Hw HD HK Hrd Hc Hs Hlt.
  destruct (window_sufficient M K D (vsub3 sat cent) HD HK Hw) as [[n Hn] _].
  rewrite <- Hn in Hlt. rewrite <- Hn. clear Hn.
  pose proof (small_vector_in_half_cell M r2 D Hr HD Hrd _ Hlt) as Hh. clear Hlt.
  pose proof (bond_range D cent sat Hc Hs) as Hb.
  f_equal.
  dv cent; dv sat; dv n. cbn [vsub3 bond vadd3 vscale3] in *.
  destruct Hh as (X1 & X2 & X3). destruct Hb as (Y1 & Y2 & Y3).
  destruct (bw_congr D (sat1 - cent1)) as [k1 H1]. destruct (bw_congr D (sat2 - cent2)) as [k2 H2].
  destruct (bw_congr D (sat3 - cent3)) as [k3 H3].
  f_equal; [f_equal|].
  - apply (half_open_unique D _ _ (k1 - n1) HD X1 Y1). rewrite H1. ring.
  - apply (half_open_unique D _ _ (k2 - n2) HD X2 Y2). rewrite H2. ring.
  - apply (half_open_unique D _ _ (k3 - n3) HD X3 Y3). rewrite H3. ring.
Qed.
Print Assumptions bond_is_min_image.

(* and it is the specification-level minimum image *)
Theorem bond_is_min_image_spec : forall M r2 D K cent sat,
  radius_ok M r2 D = true -> window_ok M K = true -> 0 < D -> 0 <= K -> 0 < snd r2 ->
  wrapped3 D cent -> wrapped3 D sat ->
  min_image_d2 D (gram_of M) K (vsub3 sat cent) * snd r2 < fst r2 ->
  is_min_image D (gram_of M) (vsub3 sat cent) (qf (gram_of M) (bond D cent sat)).
Proof.
  intros M r2 D K cent sat Hr Hw HD HK Hrd Hc Hs Hlt.
  rewrite (bond_is_min_image M r2 D K cent sat Hr Hw HD HK Hrd Hc Hs Hlt).
  apply window_sufficient; assumption.
Qed.
Print Assumptions bond_is_min_image_spec.

(* ====================================================================== *)
(* O3  symmetrisation                                                      *)
(* ====================================================================== *)

Theorem mat_eqb_spec : forall A B, mat_eqb A B = true <-> A = B.
Proof.
  intros A B. destruct A as [[[a1 a2] a3] [[b1 b2] b3] [[c1 c2] c3]].
  destruct B as [[[x1 x2] x3] [[y1 y2] y3] [[z1 z2] z3]].
  unfold mat_eqb. cbn [ra rb rc]. rewrite !andb_true_iff, !Z.eqb_eq. split.
  - intros [[[[E1 E2] E3] [[E4 E5] E6]] [[E7 E8] E9]]. subst. reflexivity.
  - intro H. inversion H. subst. tauto.
Qed.
Print Assumptions mat_eqb_spec.

Theorem tr_involutive : forall A, tr (tr A) = A.
Proof. intro A. dm A. reflexivity. Qed.
Print Assumptions tr_involutive.

Theorem mulv_tr_dot : forall A u v, dot3 (mulv A u) v = dot3 u (mulv (tr A) v).
Proof. intros A u v. dm A; dv u; dv v. cbv [tr mat_cols mulv dot3 ra rb rc]. ring. Qed.
Print Assumptions mulv_tr_dot.

Lemma tr_injective A B : tr A = tr B -> A = B.
Proof. intro H. rewrite <- (tr_involutive A), <- (tr_involutive B), H. reflexivity. Qed.

Lemma closed_spec ops : closed_under_transpose ops = true -> forall R, In R ops -> In (tr R) ops.
Proof.
  unfold closed_under_transpose. intros H R HR.
  rewrite forallb_forall in H. specialize (H R HR). apply existsb_exists in H.
  destruct H as [S [HS HE]]. apply mat_eqb_spec in HE. rewrite HE. exact HS.
Qed.

Lemma closed_spec_conv ops : (forall R, In R ops -> In (tr R) ops) -> closed_under_transpose ops = true.
Proof.
  intro H. unfold closed_under_transpose. apply forallb_forall. intros R HR.
  apply existsb_exists. exists (tr R). split; [apply H; exact HR|apply mat_eqb_spec; reflexivity].
Qed.

Lemma NoDup_map_inj {A B} (f : A -> B) l : (forall x y, f x = f y -> x = y) -> NoDup l -> NoDup (map f l).
Proof.
  intros Hf H. induction H as [|x l Hx Hl IH]; cbn [map]; constructor; [|exact IH].
  intro Hin. apply in_map_iff in Hin. destruct Hin as [y [Hy Hin]]. apply Hf in Hy. subst y. contradiction.
Qed.

(* transposition permutes a duplicate-free, transpose-closed stack of operations *)
Theorem tr_perm : forall ops, NoDup ops -> closed_under_transpose ops = true -> Permutation (map tr ops) ops.
Proof.
  intros ops Hnd Hcl. apply NoDup_Permutation_bis.
  - apply NoDup_map_inj; [apply tr_injective|exact Hnd].
  - rewrite map_length. apply le_n.
  - intros R HR. apply in_map_iff in HR. destruct HR as [S [<- HS]]. apply closed_spec; assumption.
Qed.
Print Assumptions tr_perm.

Theorem symmetrize_is_images : forall ops (vs : list V3), NoDup ops -> closed_under_transpose ops = true ->
  forall v, Permutation (map (fun R => mulv (tr R) v) ops) (images ops v).
Proof.
  intros ops _ Hnd Hcl v. unfold images.
  rewrite <- (map_map tr (fun R => mulv R v)). apply Permutation_map. apply tr_perm; assumption.
Qed.
Print Assumptions symmetrize_is_images.

Lemma Permutation_flat_map_pointwise {A B} (f g : A -> list B) l :
  (forall x, In x l -> Permutation (f x) (g x)) -> Permutation (flat_map f l) (flat_map g l).
Proof.
  induction l as [|x l IH]; intro H; cbn [flat_map]; [constructor|].
  apply Permutation_app; [apply H; left; reflexivity|apply IH; intros y Hy; apply H; right; exact Hy].
Qed.

(* the whole output: block by block (one block per input vector, in order) a rearrangement of the images *)
Theorem symmetrize_perm : forall ops vs, NoDup ops -> closed_under_transpose ops = true ->
  Permutation (symmetrize ops vs) (flat_map (images ops) vs).
Proof.
  intros ops vs Hnd Hcl. unfold symmetrize. apply Permutation_flat_map_pointwise.
  intros v _. apply (symmetrize_is_images ops vs Hnd Hcl).
Qed.
Print Assumptions symmetrize_perm.

(* NoDup is needed: the boolean closure test does not see multiplicities *)
Lemma Permutation_zsum l l' : Permutation l l' -> zsum l = zsum l'.
Proof. intro H. induction H; cbn [zsum]; lia. Qed.

Theorem symmetrize_needs_NoDup : exists ops v, closed_under_transpose ops = true /\
  ~ Permutation (map (fun R => mulv (tr R) v) ops) (images ops v).
Proof.
  exists [R4z; R4z; R4z'], (1, 2, 3). split; [vm_compute; reflexivity|].
  intro H. apply (Permutation_map (fun u : V3 => fst (fst u))) in H. apply Permutation_zsum in H.
  vm_compute in H. discriminate.
Qed.
Print Assumptions symmetrize_needs_NoDup.

Theorem symmetrize_count : forall ops vs, length (symmetrize ops vs) = (length vs * length ops)%nat.
Proof.
  intros ops vs. unfold symmetrize. induction vs as [|v vs IH]; [reflexivity|].
  cbn [flat_map length]. rewrite app_length, map_length, IH. reflexivity.
Qed.
Print Assumptions symmetrize_count.

(* the k-th image of the j-th vector sits at position j * |ops| + k *)
Theorem symmetrize_nth : forall ops vs j k v R,
  nth_error vs j = Some v -> nth_error ops k = Some R ->
  nth_error (symmetrize ops vs) (j * length ops + k) = Some (mulv (tr R) v).
Proof.
  intros ops vs. unfold symmetrize. induction vs as [|w vs IH]; intros j k v R Hv HR.
  - destruct j; discriminate.
  - cbn [flat_map]. destruct j as [|j].
    + cbn in Hv. injection Hv as ->. cbn [Nat.mul Nat.add].
      rewrite nth_error_app1 by (rewrite map_length; apply nth_error_Some; congruence).
      rewrite nth_error_map, HR. reflexivity.
    + cbn in Hv. rewrite nth_error_app2 by (rewrite map_length; cbn [Nat.mul]; lia).
      rewrite map_length. replace (S j * length ops + k - length ops)%nat with (j * length ops + k)%nat by (cbn [Nat.mul]; lia).
      apply IH; assumption.
Qed.
Print Assumptions symmetrize_nth.

(* ---- a one-sided inverse of an integer 3x3 matrix is two-sided ---- *)

Lemma det_mulv A x y z :
  dot3 (mulv A x) (cross3 (mulv A y) (mulv A z)) = det3 A * dot3 x (cross3 y z).
Proof. dm A; dv x; dv y; dv z. cbv [mulv det3 dot3 cross3 ra rb rc]. ring. Qed.

(* Cramer: adj(A) (A u) = det(A) u, the adjugate written with the cross products of the columns *)
Definition adj3 (A : mat3) : mat3 :=
  let '(c1, c2, c3) := mat_cols A in {| ra := cross3 c2 c3; rb := cross3 c3 c1; rc := cross3 c1 c2 |}.

Lemma cramer3 A u : mulv (adj3 A) (mulv A u) = vscale3 (det3 A) u.
Proof. dm A; dv u. cbv [adj3 mat_cols mulv det3 dot3 cross3 vscale3 ra rb rc]. repeat (f_equal; try ring). Qed.

Lemma mulv_injective A u w : det3 A <> 0 -> mulv A u = mulv A w -> u = w.
Proof.
  intros Hd H. pose proof (cramer3 A u) as Hu. pose proof (cramer3 A w) as Hw. rewrite H, Hw in Hu.
  dv u; dv w. cbn [vscale3] in Hu. inversion Hu as [[E1 E2 E3]].
  apply Z.mul_reg_l in E1; [|exact Hd]. apply Z.mul_reg_l in E2; [|exact Hd]. apply Z.mul_reg_l in E3; [|exact Hd].
  subst. reflexivity.
Qed.

Lemma left_inverse_det A B : (forall v, mulv A (mulv B v) = v) -> det3 A * det3 B = 1.
Proof.
  intro H.
  pose proof (det_mulv A (mulv B (1, 0, 0)) (mulv B (0, 1, 0)) (mulv B (0, 0, 1))) as E.
  rewrite !H, det_mulv in E. cbn [dot3 cross3] in E. lia.
Qed.

Theorem inverse_commutes : forall A B, (forall v, mulv A (mulv B v) = v) -> forall v, mulv B (mulv A v) = v.
Proof.
  intros A B H v. pose proof (left_inverse_det A B H) as Hd.
  apply (mulv_injective A); [|apply H].
  intro H0. rewrite H0 in Hd. lia.
Qed.
Print Assumptions inverse_commutes.

Lemma is_inverse_intro A B : (forall v, mulv A (mulv B v) = v) -> is_inverse A B = true.
Proof. intro H. unfold is_inverse. cbv zeta beta. rewrite !H. reflexivity. Qed.

Theorem is_inverse_comm : forall A B, is_inverse A B = true -> is_inverse B A = true.
Proof. intros A B H. apply is_inverse_intro. apply inverse_commutes. apply is_inverse_spec. exact H. Qed.
Print Assumptions is_inverse_comm.

Theorem orthogonal_tr : forall R, orthogonal R = true -> orthogonal (tr R) = true.
Proof. intros R H. unfold orthogonal in *. rewrite tr_involutive. apply is_inverse_comm. exact H. Qed.
Print Assumptions orthogonal_tr.

(* what symmetrize applies: R^T v *)
Theorem symmetrize_preserves_length : forall R v, orthogonal R = true ->
  dot3 (mulv (tr R) v) (mulv (tr R) v) = dot3 v v.
Proof.
  intros R v H. rewrite mulv_tr_dot, tr_involutive.
  unfold orthogonal in H. rewrite (is_inverse_spec _ _ H).
  dv v. cbn [dot3]. ring.
Qed.
Print Assumptions symmetrize_preserves_length.

(* what the property asks: R v *)
Theorem symmetrize_preserves_length_R : forall R v, orthogonal R = true ->
  dot3 (mulv R v) (mulv R v) = dot3 v v.
Proof.
  intros R v H. rewrite <- (tr_involutive R) at 1 2.
  apply symmetrize_preserves_length. apply orthogonal_tr. exact H.
Qed.
Print Assumptions symmetrize_preserves_length_R.

(* more generally orthogonal operations preserve dot products (angles between orientation vectors) *)
Theorem orthogonal_preserves_dot : forall R u v, orthogonal R = true ->
  dot3 (mulv R u) (mulv R v) = dot3 u v /\ dot3 (mulv (tr R) u) (mulv (tr R) v) = dot3 u v.
Proof.
  intros R u v H. split.
  - rewrite mulv_tr_dot. pose proof (orthogonal_tr R H) as H'. unfold orthogonal in H'.
    rewrite tr_involutive in H'. rewrite (is_inverse_spec _ _ H'). reflexivity.
  - rewrite mulv_tr_dot, tr_involutive. unfold orthogonal in H. rewrite (is_inverse_spec _ _ H). reflexivity.
Qed.
Print Assumptions orthogonal_preserves_dot.

Theorem symmetrize_all_same_length : forall ops vs w,
  (forall R, In R ops -> orthogonal R = true) -> In w (symmetrize ops vs) ->
  exists v, In v vs /\ dot3 w w = dot3 v v.
Proof.
  intros ops vs w Hor Hin. unfold symmetrize in Hin. apply in_flat_map in Hin.
  destruct Hin as [v [Hv Hin]]. apply in_map_iff in Hin. destruct Hin as [R [<- HR]].
  exists v. split; [exact Hv|]. apply symmetrize_preserves_length. apply Hor. exact HR.
Qed.
Print Assumptions symmetrize_all_same_length.

(* ====================================================================== *)
(* O4  linear transform                                                    *)
(* ====================================================================== *)

Theorem transform_add : forall A u v, mulv A (vadd3 u v) = vadd3 (mulv A u) (mulv A v).
Proof. exact mulv_add. Qed.
Print Assumptions transform_add.

Theorem transform_scale : forall A k v, mulv A (vscale3 k v) = vscale3 k (mulv A v).
Proof. exact mulv_scale. Qed.
Print Assumptions transform_scale.

Theorem transform_length : forall A vs, length (transform A vs) = length vs.
Proof. intros A vs. unfold transform. apply map_length. Qed.
Print Assumptions transform_length.

Theorem transform_nth_error : forall A vs i, nth_error (transform A vs) i = option_map (mulv A) (nth_error vs i).
Proof. intros A vs i. unfold transform. apply nth_error_map. Qed.
Print Assumptions transform_nth_error.

Theorem transform_translated : forall A u vs,
  transform A (map (vadd3 u) vs) = map (vadd3 (mulv A u)) (transform A vs).
Proof.
  intros A u vs. unfold transform. rewrite !map_map. apply map_ext. intro v. apply mulv_add.
Qed.
Print Assumptions transform_translated.

Theorem transform_id : forall vs, transform Id3 vs = vs.
Proof.
  intro vs. unfold transform. rewrite <- (map_id vs) at 2. apply map_ext. intro v. dv v.
  cbv [mulv Id3 dot3 ra rb rc]. repeat (f_equal; try ring).
Qed.
Print Assumptions transform_id.

(* ====================================================================== *)
(* O5  autocorrelation                                                     *)
(* ====================================================================== *)

Theorem autocorr_zero : forall vs,
  autocorr_num vs 0 = lag_dot vs vs /\ lag_dot vs vs = zsum (map (fun v => dot3 v v) vs).
Proof.
  intro vs. split; [reflexivity|].
  induction vs as [|v vs IH]; [reflexivity|]. cbn [lag_dot map zsum]. rewrite IH. reflexivity.
Qed.
Print Assumptions autocorr_zero.

Lemma lag_dot_self_nonneg vs : 0 <= lag_dot vs vs.
Proof.
  induction vs as [|v vs IH]; cbn [lag_dot]; [lia|]. pose proof (dot3_self_nonneg v). lia.
Qed.

Theorem autocorr_zero_nonneg : forall vs, 0 <= autocorr_num vs 0.
Proof. intro vs. apply lag_dot_self_nonneg. Qed.
Print Assumptions autocorr_zero_nonneg.

(* lag 0 vanishes only for the all-zero trajectory, so the normalisation is defined otherwise *)
Theorem autocorr_zero_pos : forall vs v, In v vs -> v <> (0, 0, 0) -> 0 < autocorr_num vs 0.
Proof.
  intros vs v Hin Hne. unfold autocorr_num. cbn [skipn].
  induction vs as [|w vs IH]; [contradiction|]. cbn [lag_dot].
  pose proof (dot3_self_nonneg w) as Hw. pose proof (lag_dot_self_nonneg vs) as Hvs.
  destruct Hin as [->|Hin]; [|specialize (IH Hin); lia].
  assert (0 < dot3 v v); [|lia].
  dv v. cbn [dot3] in *.
  destruct (Z.eq_dec v1 0) as [->|N1]; [destruct (Z.eq_dec v2 0) as [->|N2]; [destruct (Z.eq_dec v3 0) as [->|N3]|]|].
  - congruence.
  - pose proof (Z.square_nonneg v3). assert (v3 * v3 <> 0) by (intro E; apply Z.mul_eq_0 in E; tauto). lia.
  - pose proof (Z.square_nonneg v2). pose proof (Z.square_nonneg v3).
    assert (v2 * v2 <> 0) by (intro E; apply Z.mul_eq_0 in E; tauto). lia.
  - pose proof (Z.square_nonneg v1). pose proof (Z.square_nonneg v2). pose proof (Z.square_nonneg v3).
    assert (v1 * v1 <> 0) by (intro E; apply Z.mul_eq_0 in E; tauto). lia.
Qed.
Print Assumptions autocorr_zero_pos.

(* one induction step of the Cauchy-Schwarz inequality for sums *)
Lemma cs_step a s p q P Q :
  0 <= p -> 0 <= q -> 0 <= P -> 0 <= Q -> a * a <= p * q -> s * s <= P * Q ->
  (a + s) * (a + s) <= (p + P) * (q + Q).
Proof.
  intros Hp Hq HP HQ Ha Hs.
  assert (Hx : 2 * (a * s) <= p * Q + q * P).
  { assert (H0 : 0 <= p * Q + q * P) by (pose proof (Z.mul_nonneg_nonneg p Q Hp HQ); pose proof (Z.mul_nonneg_nonneg q P Hq HP); lia).
    destruct (Z_lt_le_dec (2 * (a * s)) 0) as [Hneg|Hpos]; [lia|].
    apply Z.square_le_simpl_nonneg; [exact H0|].
    assert (H1 : (a * a) * (s * s) <= (p * q) * (P * Q)).
    { apply Z.mul_le_mono_nonneg; [apply Z.square_nonneg|exact Ha|apply Z.square_nonneg|exact Hs]. }
    pose proof (Z.square_nonneg (p * Q - q * P)) as H2.
    replace (2 * (a * s) * (2 * (a * s))) with (4 * ((a * a) * (s * s))) by ring.
    replace ((p * Q + q * P) * (p * Q + q * P)) with ((p * Q - q * P) * (p * Q - q * P) + 4 * ((p * q) * (P * Q))) by ring.
    lia. }
  replace ((a + s) * (a + s)) with (a * a + s * s + 2 * (a * s)) by ring.
  replace ((p + P) * (q + Q)) with (p * q + P * Q + (p * Q + q * P)) by ring.
  lia.
Qed.

(* Cauchy-Schwarz for the truncated pairing of two lists (any lengths) *)
Theorem lag_dot_cs : forall xs ys, lag_dot xs ys * lag_dot xs ys <= lag_dot xs xs * lag_dot ys ys.
Proof.
  induction xs as [|x xs IH]; intros ys.
  - cbn [lag_dot]. lia.
  - destruct ys as [|y ys].
    + cbn [lag_dot]. lia.
    + cbn [lag_dot]. apply cs_step.
      * apply dot3_self_nonneg.
      * apply dot3_self_nonneg.
      * apply lag_dot_self_nonneg.
      * apply lag_dot_self_nonneg.
      * apply cs3.
      * apply IH.
Qed.
Print Assumptions lag_dot_cs.

Lemma lag_dot_skipn_le vs : forall tau, lag_dot (skipn tau vs) (skipn tau vs) <= lag_dot vs vs.
Proof.
  induction vs as [|v vs IH]; intros [|tau]; cbn [skipn]; try lia.
  cbn [lag_dot]. specialize (IH tau). pose proof (dot3_self_nonneg v). lia.
Qed.

Theorem autocorr_cs : forall vs tau,
  autocorr_num vs tau * autocorr_num vs tau <= autocorr_num vs 0 * autocorr_num vs 0.
Proof.
  intros vs tau. unfold autocorr_num. cbn [skipn].
  pose proof (lag_dot_cs vs (skipn tau vs)) as H1. pose proof (lag_dot_skipn_le vs tau) as H2.
  pose proof (lag_dot_self_nonneg vs) as H3. pose proof (lag_dot_self_nonneg (skipn tau vs)) as H4.
  assert (lag_dot vs vs * lag_dot (skipn tau vs) (skipn tau vs) <= lag_dot vs vs * lag_dot vs vs)
    by (apply Z.mul_le_mono_nonneg_l; assumption).
  lia.
Qed.
Print Assumptions autocorr_cs.

(* hence - C(0) <= C(tau) <= C(0) for the un-averaged numerators *)
Theorem autocorr_bound : forall vs tau, - autocorr_num vs 0 <= autocorr_num vs tau <= autocorr_num vs 0.
Proof.
  intros vs tau. pose proof (autocorr_cs vs tau) as H. pose proof (autocorr_zero_nonneg vs) as H0.
  set (c := autocorr_num vs tau) in *. set (c0 := autocorr_num vs 0) in *.
  destruct (Z_le_gt_dec 0 c) as [Hc|Hc].
  - pose proof (Z.square_le_simpl_nonneg c c0 H0 H). lia.
  - assert (Hn : - c * - c <= c0 * c0) by (replace (- c * - c) with (c * c) by ring; exact H).
    pose proof (Z.square_le_simpl_nonneg (- c) c0 H0 Hn). lia.
Qed.
Print Assumptions autocorr_bound.

Lemma lag_dot_scale k : forall xs ys,
  lag_dot (map (vscale3 k) xs) (map (vscale3 k) ys) = k * k * lag_dot xs ys.
Proof.
  induction xs as [|x xs IH]; intros ys.
  - cbn [map lag_dot]. ring.
  - destruct ys as [|y ys]; cbn [map lag_dot]; [ring|]. rewrite IH.
    dv x; dv y. cbn [vscale3 dot3]. ring.
Qed.

Theorem autocorr_scale : forall k vs tau, autocorr_num (map (vscale3 k) vs) tau = k * k * autocorr_num vs tau.
Proof. intros k vs tau. unfold autocorr_num. rewrite skipn_map. apply lag_dot_scale. Qed.
Print Assumptions autocorr_scale.

(* the normalised autocorrelation C(tau)/(T - tau) / (C(0)/T) is therefore scale invariant (cross-multiplied) *)
Theorem autocorr_normalised_scale_invariant : forall k vs tau,
  autocorr_num (map (vscale3 k) vs) tau * autocorr_num vs 0 = autocorr_num vs tau * autocorr_num (map (vscale3 k) vs) 0.
Proof. intros k vs tau. rewrite !autocorr_scale. ring. Qed.
Print Assumptions autocorr_normalised_scale_invariant.

(* an orthogonal operation applied to the whole trajectory leaves every lag unchanged *)
Lemma lag_dot_orth R : orthogonal R = true -> forall xs ys,
  lag_dot (map (mulv R) xs) (map (mulv R) ys) = lag_dot xs ys.
Proof.
  intro H. induction xs as [|x xs IH]; intros ys; [reflexivity|].
  destruct ys as [|y ys]; cbn [map lag_dot]; [reflexivity|].
  rewrite IH. destruct (orthogonal_preserves_dot R x y H) as [-> _]. reflexivity.
Qed.

Theorem autocorr_orthogonal_invariant : forall R vs tau, orthogonal R = true ->
  autocorr_num (transform R vs) tau = autocorr_num vs tau.
Proof. intros R vs tau H. unfold autocorr_num, transform. rewrite skipn_map. apply lag_dot_orth. exact H. Qed.
Print Assumptions autocorr_orthogonal_invariant.
