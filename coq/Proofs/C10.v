(* C10 -- theorems about the path model: soundness of the potential (dual) certificate of
   optimality, of the cut certificate of unreachability and of the min-max cut certificate;
   structure of the grid graph (admissible nodes, periodic moves, symmetry); cost under the
   doubled weight vs. the reported total energy; percolation target and tiling. *)
From GV Require Import Base.Prelude Model.C10.

(* ------------------------------------------------------------------------------------ *)
(* generic graph part                                                                    *)
(* ------------------------------------------------------------------------------------ *)
Section GraphProofs.
  Variable V : Type.
  Variable veqb : V -> V -> bool.
  Hypothesis veqb_spec : forall a b, veqb a b = true <-> a = b.
  Variable edge_list : list (V * V).

  Lemma is_edge_In u v : is_edge V veqb edge_list u v = true <-> In (u, v) edge_list.
  Proof.
    unfold is_edge. split.
    - intro H. apply existsb_exists in H. destruct H as [[a b] [Hin H]].
      apply andb_true_iff in H. cbn [fst snd] in H. destruct H as [H1 H2].
      apply veqb_spec in H1. apply veqb_spec in H2. subst. exact Hin.
    - intro H. apply existsb_exists. exists (u, v). split; [exact H|]. cbn [fst snd].
      apply andb_true_iff. split; apply veqb_spec; reflexivity.
  Qed.

  Lemma path_ok_cons2 x y r :
    path_ok V veqb edge_list (x :: y :: r) =
    is_edge V veqb edge_list x y && path_ok V veqb edge_list (y :: r).
  Proof. reflexivity. Qed.

  Lemma last_cons2 (x y : V) r d : last (x :: y :: r) d = last (y :: r) d.
  Proof. reflexivity. Qed.

  Lemma path_ok_tail x r : path_ok V veqb edge_list (x :: r) = true -> path_ok V veqb edge_list r = true.
  Proof.
    destruct r as [|y r]; [reflexivity|]. rewrite path_ok_cons2. intro H.
    apply andb_true_iff in H. apply H.
  Qed.

  Lemma endpoints_inv s t p :
    endpoints V veqb s t p = true -> exists r, p = s :: r /\ last (s :: r) s = t.
  Proof.
    destruct p as [|x r]; cbn [endpoints]; [discriminate|]. intro H.
    apply andb_true_iff in H. destruct H as [H1 H2]. apply veqb_spec in H1. subst x.
    apply veqb_spec in H2. exists r. split; [reflexivity|exact H2].
  Qed.

  (* every consecutive pair of a valid path is an edge of the list *)
  Lemma path_ok_step : forall p1 p u v p2,
    path_ok V veqb edge_list p = true -> p = p1 ++ u :: v :: p2 -> In (u, v) edge_list.
  Proof.
    induction p1 as [|a p1 IH]; intros p u v p2 Hp Heq; subst p.
    - cbn [app] in Hp. rewrite path_ok_cons2 in Hp. apply andb_true_iff in Hp.
      apply is_edge_In. apply Hp.
    - cbn [app] in Hp. apply path_ok_tail in Hp. eapply IH; [exact Hp|reflexivity].
  Qed.

  Section Weighted.
    Variable w : V -> V -> Z.

    Lemma cost_cons2 x y r : cost V w (x :: y :: r) = w x y + cost V w (y :: r).
    Proof. reflexivity. Qed.

    Lemma feasible_edge pot u v :
      feasible V edge_list w pot = true -> In (u, v) edge_list -> pot v <= pot u + w u v.
    Proof.
      unfold feasible. intros H Hin. rewrite forallb_forall in H. specialize (H _ Hin).
      cbn [fst snd] in H. lia.
    Qed.

    Lemma potential_path pot :
      feasible V edge_list w pot = true ->
      forall p x d, path_ok V veqb edge_list (x :: p) = true ->
                    pot (last (x :: p) d) - pot x <= cost V w (x :: p).
    Proof.
      intros Hf. induction p as [|y r IH]; intros x d Hp.
      - cbn [last cost]. lia.
      - rewrite path_ok_cons2 in Hp. apply andb_true_iff in Hp. destruct Hp as [He Hr].
        specialize (IH y d Hr). apply is_edge_In in He.
        pose proof (feasible_edge pot x y Hf He) as Hxy.
        rewrite last_cons2, cost_cons2. lia.
    Qed.

    (* (1) weak duality: a feasible potential bounds the cost of every s-t path from below *)
    Theorem potential_lower_bound : forall pot p s t,
      feasible V edge_list w pot = true ->
      path_ok V veqb edge_list p = true ->
      endpoints V veqb s t p = true ->
      pot t - pot s <= cost V w p.
    Proof.
      intros pot p s t Hf Hp He. apply endpoints_inv in He. destruct He as [r [-> Hl]].
      rewrite <- Hl. apply potential_path; assumption.
    Qed.

    (* (2) a path meeting the bound is optimal *)
    Theorem optimal_by_certificate : forall pot q s t,
      feasible V edge_list w pot = true ->
      path_ok V veqb edge_list q = true ->
      endpoints V veqb s t q = true ->
      cost V w q = pot t - pot s ->
      forall p, path_ok V veqb edge_list p = true -> endpoints V veqb s t p = true ->
                cost V w q <= cost V w p.
    Proof.
      intros pot q s t Hf _ _ Hc p Hp He.
      pose proof (potential_lower_bound pot p s t Hf Hp He). lia.
    Qed.

    Theorem near_optimal_by_certificate : forall pot q s t eps,
      feasible V edge_list w pot = true ->
      path_ok V veqb edge_list q = true ->
      endpoints V veqb s t q = true ->
      cost V w q <= pot t - pot s + eps ->
      forall p, path_ok V veqb edge_list p = true -> endpoints V veqb s t p = true ->
                cost V w q <= cost V w p + eps.
    Proof.
      intros pot q s t eps Hf _ _ Hc p Hp He.
      pose proof (potential_lower_bound pot p s t Hf Hp He). lia.
    Qed.

  End Weighted.

  (* (3) no path leaves a set closed under outgoing edges *)
  Lemma closed_stays inC :
    forallb (fun e : V * V => implb (inC (fst e)) (inC (snd e))) edge_list = true ->
    forall p x d, path_ok V veqb edge_list (x :: p) = true -> inC x = true ->
                  inC (last (x :: p) d) = true.
  Proof.
    intros Hc. rewrite forallb_forall in Hc.
    induction p as [|y r IH]; intros x d Hp Hx.
    - exact Hx.
    - rewrite path_ok_cons2 in Hp. apply andb_true_iff in Hp. destruct Hp as [He Hr].
      apply is_edge_In in He. specialize (Hc _ He). cbn [fst snd] in Hc.
      rewrite Hx in Hc. cbn [implb] in Hc. rewrite last_cons2. apply IH; assumption.
  Qed.

  Theorem cut_unreachable : forall inC s t p,
    closed_cut V edge_list inC s t = true ->
    path_ok V veqb edge_list p = true ->
    endpoints V veqb s t p = true -> False.
  Proof.
    intros inC s t p Hc Hp He. unfold closed_cut in Hc.
    apply andb_true_iff in Hc. destruct Hc as [Hc Hall].
    apply andb_true_iff in Hc. destruct Hc as [Hs Ht].
    apply endpoints_inv in He. destruct He as [r [-> Hl]].
    pose proof (closed_stays inC Hall r s s Hp Hs) as H. rewrite Hl in H.
    rewrite H in Ht. discriminate.
  Qed.

  (* (4) min-max lower bound from a cut all of whose exits are high *)
  Definition minmax_cut (en : V -> Z) (inC : V -> bool) (B : Z) (s t : V) : bool :=
    inC s && negb (inC t) &&
    forallb (fun e => implb (inC (fst e) && negb (inC (snd e))) (B <=? en (snd e))) edge_list.

  Lemma minmax_path en inC B :
    forallb (fun e : V * V => implb (inC (fst e) && negb (inC (snd e))) (B <=? en (snd e)))
            edge_list = true ->
    forall p x d, path_ok V veqb edge_list (x :: p) = true -> inC x = true ->
                  inC (last (x :: p) d) = false ->
                  exists v, In v (x :: p) /\ B <= en v.
  Proof.
    intros Hc. rewrite forallb_forall in Hc.
    induction p as [|y r IH]; intros x d Hp Hx Hl.
    - cbn [last] in Hl. congruence.
    - rewrite path_ok_cons2 in Hp. apply andb_true_iff in Hp. destruct Hp as [He Hr].
      apply is_edge_In in He. specialize (Hc _ He). cbn [fst snd] in Hc.
      destruct (inC y) eqn:Hy.
      + rewrite last_cons2 in Hl. destruct (IH y d Hr Hy Hl) as [v [Hin Hv]].
        exists v. split; [right; exact Hin|exact Hv].
      + rewrite Hx in Hc. cbn [negb andb implb] in Hc. exists y. split; [right; left; reflexivity|lia].
  Qed.

  Theorem minmax_lower_bound : forall en inC B s t p,
    minmax_cut en inC B s t = true ->
    path_ok V veqb edge_list p = true ->
    endpoints V veqb s t p = true ->
    exists v, In v p /\ B <= en v.
  Proof.
    intros en inC B s t p Hc Hp He. unfold minmax_cut in Hc.
    apply andb_true_iff in Hc. destruct Hc as [Hc Hall].
    apply andb_true_iff in Hc. destruct Hc as [Hs Ht]. apply negb_true_iff in Ht.
    apply endpoints_inv in He. destruct He as [r [-> Hl]].
    apply (minmax_path en inC B Hall r s s Hp Hs). rewrite Hl. exact Ht.
  Qed.

  (* in terms of the maximum along the path *)
  Lemma fold_max_ge (en : V -> Z) : forall p v, In v p -> en v <= fold_right Z.max 0 (map en p).
  Proof.
    induction p as [|a p IH]; intros v Hin; [contradiction|].
    cbn [map fold_right]. destruct Hin as [->|Hin]; [lia|]. specialize (IH v Hin). lia.
  Qed.

  Corollary minmax_lower_bound_max : forall en inC B s t p,
    minmax_cut en inC B s t = true ->
    path_ok V veqb edge_list p = true ->
    endpoints V veqb s t p = true ->
    B <= fold_right Z.max 0 (map en p).
  Proof.
    intros en inC B s t p Hc Hp He.
    destruct (minmax_lower_bound en inC B s t p Hc Hp He) as [v [Hin Hv]].
    pose proof (fold_max_ge en p v Hin). lia.
  Qed.
End GraphProofs.

(* ------------------------------------------------------------------------------------ *)
(* grid facts                                                                            *)
(* ------------------------------------------------------------------------------------ *)
Lemma node_eqb_spec : forall a b, node_eqb a b = true <-> a = b.
Proof.
  intros [[a1 a2] a3] [[b1 b2] b3]. unfold node_eqb.
  rewrite !andb_true_iff, !Z.eqb_eq. split.
  - intros [[-> ->] ->]. reflexivity.
  - intro H. inversion H. auto.
Qed.

Definition pos_dims (d : node) : Prop := let '(nx, ny, nz) := d in 0 < nx /\ 0 < ny /\ 0 < nz.

Lemma in_grid_pos_dims d v : in_grid d v = true -> pos_dims d.
Proof. destruct d as [[nx ny] nz], v as [[x y] z]. cbn [in_grid pos_dims]. lia. Qed.

Theorem step_to_in_grid : forall d u m,
  (let '(nx, ny, nz) := d in 0 < nx /\ 0 < ny /\ 0 < nz) -> in_grid d (step_to d u m) = true.
Proof.
  intros [[nx ny] nz] [[x y] z] [[a b] c] (Hx & Hy & Hz). cbn [step_to in_grid].
  pose proof (Z.mod_pos_bound (x + a) nx Hx). pose proof (Z.mod_pos_bound (y + b) ny Hy).
  pose proof (Z.mod_pos_bound (z + c) nz Hz).
  rewrite !andb_true_iff, !Z.leb_le, !Z.ltb_lt. tauto.
Qed.

Lemma all_nodes_in d v : In v (all_nodes d) <-> in_grid d v = true.
Proof.
  destruct d as [[nx ny] nz], v as [[x y] z]. unfold all_nodes. cbn [in_grid].
  rewrite in_flat_map. split.
  - intros (i & Hi & H). apply in_flat_map in H. destruct H as (j & Hj & H).
    apply in_map_iff in H. destruct H as (k & Hk & Hkin). inversion Hk; subst.
    apply zrange_in in Hi, Hj, Hkin. lia.
  - intro H. exists x. split; [apply zrange_in; lia|]. apply in_flat_map.
    exists y. split; [apply zrange_in; lia|]. apply in_map_iff.
    exists z. split; [reflexivity|apply zrange_in; lia].
Qed.

Lemma admissible_in_grid g thr v : admissible g thr v = true -> in_grid (dims g) v = true.
Proof. unfold admissible. intro H. apply andb_true_iff in H. destruct H as [H _].
       apply andb_true_iff in H. apply H. Qed.

Lemma admissible_spec g thr v :
  admissible g thr v = true <-> in_grid (dims g) v = true /\ 0 <= E g v < thr.
Proof. unfold admissible. rewrite !andb_true_iff, Z.leb_le, Z.ltb_lt. tauto. Qed.

(* exact characterisation of the edge list *)
Lemma edges_iff g thr diag u v :
  In (u, v) (edges g thr diag) <->
  admissible g thr u = true /\ admissible g thr v = true /\
  exists m, In m (moves diag) /\ v = step_to (dims g) u m.
Proof.
  unfold edges. rewrite in_flat_map. split.
  - intros (x & Hx & H). destruct (admissible g thr x) eqn:Hax; [|contradiction].
    apply in_flat_map in H. destruct H as (m & Hm & H). cbv zeta in H.
    destruct (admissible g thr (step_to (dims g) x m)) eqn:Hav; [|contradiction].
    destruct H as [H|[]]. inversion H; subst. split; [exact Hax|]. split; [exact Hav|].
    exists m. split; [exact Hm|reflexivity].
  - intros (Hu & Hv & m & Hm & ->). exists u. split.
    + apply all_nodes_in. apply admissible_in_grid with thr. exact Hu.
    + rewrite Hu. apply in_flat_map. exists m. split; [exact Hm|]. cbv zeta.
      rewrite Hv. left. reflexivity.
Qed.

Theorem edges_admissible : forall g thr diag u v,
  In (u, v) (edges g thr diag) ->
  admissible g thr u = true /\ admissible g thr v = true /\
  exists m, In m (moves diag) /\ v = step_to (dims g) u m.
Proof. intros g thr diag u v H. apply edges_iff. exact H. Qed.

(* the neighbourhood is closed under negation and steps can be undone *)
Definition neg_move (m : node) : node := let '(a, b, c) := m in (- a, - b, - c).

Lemma moves_neg diag m : In m (moves diag) -> In (neg_move m) (moves diag).
Proof.
  assert (H : forallb (fun m => existsb (node_eqb (neg_move m)) (moves diag)) (moves diag) = true)
    by (destruct diag; vm_compute; reflexivity).
  rewrite forallb_forall in H. intro Hin. specialize (H m Hin).
  apply existsb_exists in H. destruct H as (m' & Hin' & Heq).
  apply node_eqb_spec in Heq. subst m'. exact Hin'.
Qed.

Lemma mod_step_back x a n : 0 <= x < n -> ((x + a) mod n + - a) mod n = x.
Proof.
  intro H. rewrite Z.add_mod_idemp_l by lia. replace (x + a + - a) with x by lia.
  apply Z.mod_small. exact H.
Qed.

Lemma step_to_back d u m : in_grid d u = true -> step_to d (step_to d u m) (neg_move m) = u.
Proof.
  destruct d as [[nx ny] nz], u as [[x y] z], m as [[a b] c]. cbn [in_grid step_to neg_move].
  intro H. rewrite !mod_step_back by lia. reflexivity.
Qed.

Theorem edges_symmetric : forall g thr diag u v,
  In (u, v) (edges g thr diag) -> In (v, u) (edges g thr diag).
Proof.
  intros g thr diag u v H. apply edges_iff in H. destruct H as (Hu & Hv & m & Hm & ->).
  apply edges_iff. split; [exact Hv|]. split; [exact Hu|]. exists (neg_move m).
  split; [apply moves_neg; exact Hm|]. symmetry. apply step_to_back.
  apply admissible_in_grid with thr. exact Hu.
Qed.

(* nodes of a path with at least one step *)
Lemma path_nodes_edge_ends {V} (veqb : V -> V -> bool)
      (veqb_spec : forall a b, veqb a b = true <-> a = b) (el : list (V * V)) :
  forall r x y, path_ok V veqb el (x :: y :: r) = true ->
    forall v, In v (x :: y :: r) -> exists v', In (v, v') el \/ In (v', v) el.
Proof.
  induction r as [|z r IH]; intros x y Hp v Hin.
  - rewrite path_ok_cons2 in Hp. apply andb_true_iff in Hp. destruct Hp as [He _].
    apply (is_edge_In V veqb veqb_spec) in He.
    destruct Hin as [<-|[<-|[]]]; [exists y; left; exact He|exists x; right; exact He].
  - rewrite path_ok_cons2 in Hp. apply andb_true_iff in Hp. destruct Hp as [He Hr].
    apply (is_edge_In V veqb veqb_spec) in He.
    destruct Hin as [<-|Hin]; [exists y; left; exact He|]. apply (IH y z Hr v Hin).
Qed.

Theorem path_nodes_admissible : forall g thr diag p,
  path_ok node node_eqb (edges g thr diag) p = true -> (2 <= length p)%nat ->
  (forall v, In v p -> admissible g thr v = true) /\
  (forall p1 u v p2, p = p1 ++ u :: v :: p2 ->
                     exists m, In m (moves diag) /\ v = step_to (dims g) u m).
Proof.
  intros g thr diag p Hp Hlen. split.
  - destruct p as [|x [|y r]]; cbn [length] in Hlen; try lia. intros v Hin.
    destruct (path_nodes_edge_ends node_eqb node_eqb_spec _ r x y Hp v Hin) as [v' [H|H]];
      apply edges_admissible in H; tauto.
  - intros p1 u v p2 Heq.
    pose proof (path_ok_step node node_eqb node_eqb_spec _ p1 p u v p2 Hp Heq) as H.
    apply edges_admissible in H. tauto.
Qed.

(* every node of such a path lies in the grid with 0 <= E < thr *)
Corollary path_nodes_below_threshold : forall g thr diag p,
  path_ok node node_eqb (edges g thr diag) p = true -> (2 <= length p)%nat ->
  forall v, In v p -> in_grid (dims g) v = true /\ 0 <= E g v < thr.
Proof.
  intros g thr diag p Hp Hlen v Hin. apply admissible_spec.
  apply (path_nodes_admissible g thr diag p Hp Hlen). exact Hin.
Qed.

(* ------------------------------------------------------------------------------------ *)
(* (6) cost under the doubled weight vs. reported energies                               *)
(* ------------------------------------------------------------------------------------ *)
Lemma total_energy_cons g v p : total_energy g (v :: p) = E g v + total_energy g p.
Proof. reflexivity. Qed.

Theorem cost_w2_total : forall g r v0 d,
  cost node (w2 g) (v0 :: r) = 2 * total_energy g (v0 :: r) - E g v0 - E g (last (v0 :: r) d).
Proof.
  intros g. induction r as [|y r IH]; intros v0 d.
  - cbn [cost last]. rewrite total_energy_cons. unfold total_energy. cbn [path_energies map zsum]. lia.
  - rewrite cost_cons2, last_cons2, total_energy_cons, (IH y d). unfold w2. lia.
Qed.

Theorem cost_w2_single : forall g v, cost node (w2 g) [v] = 0.
Proof. reflexivity. Qed.

Theorem cost_w2_nil : forall g, cost node (w2 g) [] = 0.
Proof. reflexivity. Qed.

(* for fixed endpoints, comparing edge-weight sums = comparing total energies *)
Corollary cost_w2_le_iff_total : forall g s t p q,
  endpoints node node_eqb s t p = true -> endpoints node node_eqb s t q = true ->
  (cost node (w2 g) p <= cost node (w2 g) q <-> total_energy g p <= total_energy g q).
Proof.
  intros g s t p q Hp Hq.
  apply (endpoints_inv node node_eqb node_eqb_spec) in Hp. destruct Hp as [rp [-> Hlp]].
  apply (endpoints_inv node node_eqb node_eqb_spec) in Hq. destruct Hq as [rq [-> Hlq]].
  rewrite (cost_w2_total g rp s s), (cost_w2_total g rq s s), Hlp, Hlq. lia.
Qed.

(* ------------------------------------------------------------------------------------ *)
(* (7) percolation target and tiling                                                     *)
(* ------------------------------------------------------------------------------------ *)
Theorem perc_stop_spec : forall nx ny nz (px py pz : bool) x y z,
  perc_stop (nx, ny, nz) (px, py, pz) (x, y, z) =
  (x + (if px then nx else 0), y + (if py then ny else 0), z + (if pz then nz else 0)).
Proof. reflexivity. Qed.

Theorem perc_stop_offsets : forall d perc s,
  let '(nx, ny, nz) := d in let '(px, py, pz) := perc in
  let '(x, y, z) := s in let '(x', y', z') := perc_stop d perc s in
  x' - x = (if px then nx else 0) /\ y' - y = (if py then ny else 0) /\ z' - z = (if pz then nz else 0).
Proof. intros [[nx ny] nz] [[px py] pz] [[x y] z]. cbn [perc_stop]. lia. Qed.

(* the target lies in the tiled grid and is a periodic image of the start *)
Theorem perc_stop_in_tiled : forall d perc s,
  in_grid d s = true -> in_grid (tile_dims d perc) (perc_stop d perc s) = true.
Proof.
  intros [[nx ny] nz] [[px py] pz] [[x y] z]. cbn [in_grid tile_dims perc_stop].
  destruct px, py, pz; lia.
Qed.

Theorem perc_stop_image : forall d perc s,
  in_grid d s = true ->
  let '(nx, ny, nz) := d in let '(x', y', z') := perc_stop d perc s in
  (x' mod nx, y' mod ny, z' mod nz) = s.
Proof.
  intros [[nx ny] nz] [[px py] pz] [[x y] z]. cbn [in_grid perc_stop]. intro H.
  assert (Hm : forall (b : bool) a n, 0 <= a < n -> (a + (if b then n else 0)) mod n = a).
  { intros b a n Ha. destruct b.
    - replace (a + n) with (a + 1 * n) by lia. rewrite Z.mod_add by lia. apply Z.mod_small; lia.
    - rewrite Z.add_0_r. apply Z.mod_small; lia. }
  rewrite !Hm by lia. reflexivity.
Qed.

(* C-order enumeration: the node at position index d v of all_nodes d is v *)
Lemma length_zrange : forall n t, length (zrange t n) = n.
Proof. induction n as [|n IH]; intro t; cbn [zrange length]; [reflexivity|]. rewrite IH. reflexivity. Qed.

Lemma nth_error_zrange : forall n t i, (i < n)%nat -> nth_error (zrange t n) i = Some (t + Z.of_nat i).
Proof.
  induction n as [|n IH]; intros t i Hi; [lia|]. destruct i as [|i]; cbn [zrange nth_error].
  - f_equal. lia.
  - rewrite IH by lia. f_equal. lia.
Qed.

Lemma length_flat_map_const {A B} (f : A -> list B) n l :
  (forall x, length (f x) = n) -> length (flat_map f l) = (length l * n)%nat.
Proof.
  intro H. induction l as [|a l IH]; cbn [flat_map length]; [reflexivity|].
  rewrite app_length, H, IH. lia.
Qed.

Lemma nth_error_flat_map_const {A B} (f : A -> list B) n :
  (forall x, length (f x) = n) ->
  forall l i j x y, nth_error l i = Some x -> nth_error (f x) j = Some y ->
                    nth_error (flat_map f l) (i * n + j) = Some y.
Proof.
  intros Hlen. induction l as [|a l IH]; intros i j x y Hi Hj.
  - destruct i; discriminate.
  - cbn [flat_map]. destruct i as [|i]; cbn [nth_error] in Hi.
    + inversion Hi; subst. cbn [Nat.mul Nat.add]. rewrite nth_error_app1; [exact Hj|].
      apply nth_error_Some. congruence.
    + rewrite nth_error_app2 by (rewrite Hlen; lia). rewrite Hlen.
      replace (S i * n + j - n)%nat with (i * n + j)%nat by lia. eapply IH; eassumption.
Qed.

Lemma index_nonneg d v : in_grid d v = true -> 0 <= index d v.
Proof.
  destruct d as [[nx ny] nz], v as [[x y] z]. cbn [in_grid index]. intro H.
  assert (0 <= x * ny) by (apply Z.mul_nonneg_nonneg; lia).
  assert (0 <= (x * ny + y) * nz) by (apply Z.mul_nonneg_nonneg; lia). lia.
Qed.

Theorem all_nodes_nth_error : forall d v,
  in_grid d v = true -> nth_error (all_nodes d) (Z.to_nat (index d v)) = Some v.
Proof.
  intros [[nx ny] nz] [[x y] z] H. cbn [in_grid] in H. cbn [index all_nodes].
  assert (Hb : 0 <= x < nx /\ 0 <= y < ny /\ 0 <= z < nz) by lia. clear H.
  assert (0 <= x * ny) by (apply Z.mul_nonneg_nonneg; lia).
  replace (Z.to_nat ((x * ny + y) * nz + z))
    with (Z.to_nat x * (Z.to_nat ny * Z.to_nat nz) + (Z.to_nat y * Z.to_nat nz + Z.to_nat z))%nat.
  2:{ rewrite Z2Nat.inj_add, Z2Nat.inj_mul, Z2Nat.inj_add, Z2Nat.inj_mul; try lia.
      apply Z.mul_nonneg_nonneg; lia. }
  apply nth_error_flat_map_const with (x := x).
  - intro i. rewrite (length_flat_map_const _ (Z.to_nat nz)), length_zrange; [reflexivity|].
    intro j. rewrite map_length, length_zrange. reflexivity.
  - rewrite nth_error_zrange by lia. f_equal. lia.
  - apply nth_error_flat_map_const with (x := y).
    + intro j. rewrite map_length, length_zrange. reflexivity.
    + rewrite nth_error_zrange by lia. f_equal. lia.
    + apply map_nth_error with (f := fun k => (x, y, k)).
      rewrite nth_error_zrange by lia. f_equal. lia.
Qed.

Theorem all_nodes_nth : forall d v dflt,
  in_grid d v = true -> nth (Z.to_nat (index d v)) (all_nodes d) dflt = v.
Proof. intros d v dflt H. apply nth_error_nth. apply all_nodes_nth_error. exact H. Qed.

Theorem tile_E : forall g perc x y z,
  in_grid (tile_dims (dims g) perc) (x, y, z) = true ->
  E (tile g perc) (x, y, z) =
  let '(nx, ny, nz) := dims g in E g (x mod nx, y mod ny, z mod nz).
Proof.
  intros g perc x y z H. unfold E at 1. unfold tile. cbn [dims energies]. cbv zeta.
  pose proof (index_nonneg _ _ H) as Hi. unfold znth.
  replace (index (tile_dims (dims g) perc) (x, y, z) <? 0) with false by lia.
  apply nth_error_nth.
  rewrite (map_nth_error _ _ _ (all_nodes_nth_error _ _ H)).
  destruct (dims g) as [[nx ny] nz]. reflexivity.
Qed.

(* the tiled grid restricted to the original cell is the original grid *)
Corollary tile_E_base : forall g perc v,
  in_grid (dims g) v = true -> E (tile g perc) v = E g v.
Proof.
  intros g perc [[x y] z] H.
  assert (Ht : in_grid (tile_dims (dims g) perc) (x, y, z) = true).
  { destruct (dims g) as [[nx ny] nz], perc as [[px py] pz]. cbn [in_grid tile_dims] in *.
    destruct px, py, pz; lia. }
  rewrite (tile_E g perc x y z Ht). destruct (dims g) as [[nx ny] nz]. cbn [in_grid] in H.
  rewrite !Z.mod_small by lia. reflexivity.
Qed.

(* ------------------------------------------------------------------------------------ *)
(* sanity tests on tiny concrete graphs                                                  *)
(* ------------------------------------------------------------------------------------ *)
Module Tests.
  (* line graph 0 -> 1 -> 2 with a shortcut 0 -> 2 (weight 5, others 2) and a back edge 1 -> 0 *)
  Definition el : list (Z * Z) := [(0, 1); (1, 2); (0, 2); (1, 0)].
  Definition wt (u v : Z) : Z := if (u =? 0) && (v =? 2) then 5 else 2.
  Definition pot (v : Z) : Z := if v =? 0 then 0 else if v =? 1 then 2 else 4.
  Example t_feasible : feasible Z el wt pot = true. Proof. vm_compute. reflexivity. Qed.
  Example t_path : path_ok Z Z.eqb el [0; 1; 2] = true /\ endpoints Z Z.eqb 0 2 [0; 1; 2] = true
                   /\ cost Z wt [0; 1; 2] = pot 2 - pot 0.
  Proof. vm_compute. auto. Qed.
  Example t_opt : forall p, path_ok Z Z.eqb el p = true -> endpoints Z Z.eqb 0 2 p = true ->
                            cost Z wt [0; 1; 2] <= cost Z wt p.
  Proof.
    apply (optimal_by_certificate Z Z.eqb Z.eqb_eq el wt pot [0; 1; 2] 0 2); vm_compute; reflexivity.
  Qed.
  (* cut: from 2 nothing is reachable *)
  Example t_cut : closed_cut Z el (fun v => v =? 2) 2 0 = true. Proof. vm_compute. reflexivity. Qed.
  Example t_unreach : forall p, path_ok Z Z.eqb el p = true -> endpoints Z Z.eqb 2 0 p = true -> False.
  Proof. intro p. apply (cut_unreachable Z Z.eqb Z.eqb_eq el _ 2 0 p t_cut). Qed.
  (* min-max: leaving {0} costs at least energy 7 *)
  Definition en (v : Z) : Z := if v =? 0 then 1 else if v =? 1 then 7 else 9.
  Example t_minmax : minmax_cut Z el en (fun v => v =? 0) 7 0 2 = true. Proof. vm_compute. reflexivity. Qed.

  (* 2 x 2 x 3 grid *)
  Definition g0 : grid := {| dims := (2, 2, 3); energies := [1; 2; 3; 4; 5; 6; 7; 8; 9; 10; 11; 12] |}.
  Example t_nth : forallb (fun v => node_eqb (nth (Z.to_nat (index (dims g0) v)) (all_nodes (dims g0)) (0,0,0)) v)
                          (all_nodes (dims g0)) = true.
  Proof. vm_compute. reflexivity. Qed.
  Example t_sym : forallb (fun e => is_edge node node_eqb (edges g0 9 true) (snd e) (fst e)) (edges g0 9 true) = true.
  Proof. vm_compute. reflexivity. Qed.
  Example t_cost : cost node (w2 g0) [(0,0,0); (0,0,1); (0,1,1)]
                   = 2 * total_energy g0 [(0,0,0); (0,0,1); (0,1,1)] - E g0 (0,0,0) - E g0 (0,1,1).
  Proof. vm_compute. reflexivity. Qed.
  Example t_tile : forallb (fun v => let '(x, y, z) := v in
                                     E (tile g0 (true, false, true)) v =? E g0 (x mod 2, y mod 2, z mod 3))
                           (all_nodes (tile_dims (dims g0) (true, false, true))) = true.
  Proof. vm_compute. reflexivity. Qed.
End Tests.

Print Assumptions potential_lower_bound.
Print Assumptions optimal_by_certificate.
Print Assumptions near_optimal_by_certificate.
Print Assumptions cut_unreachable.
Print Assumptions minmax_lower_bound.
Print Assumptions minmax_lower_bound_max.
Print Assumptions node_eqb_spec.
Print Assumptions step_to_in_grid.
Print Assumptions all_nodes_in.
Print Assumptions edges_iff.
Print Assumptions edges_admissible.
Print Assumptions edges_symmetric.
Print Assumptions path_nodes_admissible.
Print Assumptions path_nodes_below_threshold.
Print Assumptions cost_w2_total.
Print Assumptions cost_w2_single.
Print Assumptions cost_w2_le_iff_total.
Print Assumptions perc_stop_spec.
Print Assumptions perc_stop_offsets.
Print Assumptions perc_stop_in_tiled.
Print Assumptions perc_stop_image.
Print Assumptions all_nodes_nth_error.
Print Assumptions all_nodes_nth.
Print Assumptions tile_E.
Print Assumptions tile_E_base.

(* ---------- selection of the cheapest percolating path over the peaks ---------- *)
Lemma best_fold_spec : forall l b,
  let r := fold_left best_upd l b in
  (r = None <-> b = None /\ forall x, In x l -> x = None) /\
  (forall c, r = Some c -> (b = Some c \/ In (Some c) l) /\ (forall c', b = Some c' \/ In (Some c') l -> c <= c')).
Proof.
  induction l as [|x l IH]; intros b; cbn [fold_left].
  - split.
    + split; [intros H; split; [exact H | intros x []] | intros [H _]; exact H].
    + intros c Hc. split; [left; exact Hc|]. intros c' [H | []]. rewrite Hc in H. injection H as <-. lia.
  - specialize (IH (best_upd b x)). cbv zeta in IH. destruct IH as [IHn IHs]. split.
    + rewrite IHn. destruct x as [c|]; cbn [best_upd].
      * split.
        -- intros [H _]. destruct b as [bc|]; [destruct (c <? bc)|]; discriminate.
        -- intros [_ H]. specialize (H (Some c) (or_introl eq_refl)). discriminate.
      * split.
        -- intros [H1 H2]. split; [exact H1|]. intros y [<- | Hy]; [reflexivity | apply H2; exact Hy].
        -- intros [H1 H2]. split; [exact H1|]. intros y Hy. apply H2. right. exact Hy.
    + intros r Hr. destruct (IHs r Hr) as [Hin Hmin]. destruct x as [c|]; cbn [best_upd] in *.
      * destruct b as [bc|].
        -- destruct (c <? bc) eqn:E.
           ++ apply Z.ltb_lt in E. split.
              ** destruct Hin as [H | H]; [injection H as <-; right; left; reflexivity | right; right; exact H].
              ** intros c' [H | [H | H]].
                 --- injection H as <-. specialize (Hmin c (or_introl eq_refl)). lia.
                 --- injection H as <-. apply Hmin. left. reflexivity.
                 --- apply Hmin. right. exact H.
           ++ apply Z.ltb_ge in E. split.
              ** destruct Hin as [H | H]; [left; exact H | right; right; exact H].
              ** intros c' [H | [H | H]].
                 --- apply Hmin. left. exact H.
                 --- injection H as <-. specialize (Hmin bc (or_introl eq_refl)). lia.
                 --- apply Hmin. right. exact H.
        -- split.
           ++ destruct Hin as [H | H]; [injection H as <-; right; left; reflexivity | right; right; exact H].
           ++ intros c' [H | [H | H]]; [discriminate | injection H as <-; apply Hmin; left; reflexivity | apply Hmin; right; exact H].
      * split.
        -- destruct Hin as [H | H]; [left; exact H | right; right; exact H].
        -- intros c' [H | [H | H]]; [apply Hmin; left; exact H | discriminate | apply Hmin; right; exact H].
Qed.

Theorem best_none : forall costs, best_cost costs = None <-> forall x, In x costs -> x = None.
Proof. intros costs. unfold best_cost. destruct (best_fold_spec costs None) as [H _]. rewrite H. split; [intros [_ H']; exact H' | intros H'; split; [reflexivity | exact H']]. Qed.
Theorem best_minimal : forall costs c, best_cost costs = Some c -> In (Some c) costs /\ forall c', In (Some c') costs -> c <= c'.
Proof.
  intros costs c Hc. unfold best_cost in Hc. destruct (best_fold_spec costs None) as [_ H]. destruct (H c Hc) as [Hin Hmin]. split.
  - destruct Hin as [Hd | Hin]; [discriminate | exact Hin].
  - intros c' Hc'. apply Hmin. right. exact Hc'.
Qed.
