(* C07 -- invariance: results depend only on geometry.  Relabelling sites or atoms, or
   translating everything by a grid shift, changes the results only by the corresponding
   relabelling / roll.  Theorems about the executable models of C03, C04, C05, C08, C10. *)
From Coq Require Import Permutation.
From GV Require Import Base.Prelude Model.C03 Proofs.C03 Model.C04 Proofs.C04b Model.C05 Proofs.C05
                       Model.C08 Proofs.C08 Model.C10 Proofs.C10.

(* ==================================================================================== *)
(* (1) site relabelling commutes with the event log                                      *)
(* ==================================================================================== *)
Definition relabel_row (pi : Z -> Z) (r : row) : row :=
  {| r_atom := r_atom r; r_s := pi (r_s r); r_d := pi (r_d r);
     r_si := pi (r_si r); r_di := pi (r_di r); r_t := r_t r |}.

Definition relabel_atoms (pi : Z -> Z) (atoms : list (list Z * list Z)) : list (list Z * list Z) :=
  map (fun oi => (map pi (fst oi), map pi (snd oi))) atoms.

Section SiteRelabel.
  Variable pi : Z -> Z.
  Hypothesis pi_inj : forall a b, pi a = pi b -> a = b.

  Lemma pi_eqb x y : (pi x =? pi y) = (x =? y).
  Proof.
    destruct (Z.eqb_spec x y) as [->|Hne]; [apply Z.eqb_refl|].
    apply eqb_neq. intro H. apply Hne. apply pi_inj. exact H.
  Qed.

  Theorem events_from_relabel : forall a t o i,
    events_from a t (map pi o) (map pi i) = map (relabel_row pi) (events_from a t o i).
  Proof.
    intros a t o. revert a t. induction o as [|x o IH]; intros a t i; [reflexivity|].
    destruct o as [|y o]; [destruct i; reflexivity|].
    destruct i as [|u [|v i]]; [reflexivity|reflexivity|].
    change (map pi (x :: y :: o)) with (pi x :: pi y :: map pi o).
    change (map pi (u :: v :: i)) with (pi u :: pi v :: map pi i).
    rewrite !events_cons2, map_app, !pi_eqb.
    change (pi y :: map pi o) with (map pi (y :: o)).
    change (pi v :: map pi i) with (map pi (v :: i)).
    rewrite IH. f_equal.
    destruct (negb (x =? y) || negb (u =? v)); reflexivity.
  Qed.

  (* events_all is the numpy formulation (events_atom); it coincides with events_from when the
     outer and inner histories of every atom have the same number of frames.  That side
     condition is needed: see events_all_relabel_needs_lengths below. *)
  Theorem events_all_relabel : forall atoms a,
    Forall (fun oi => length (fst oi) = length (snd oi)) atoms ->
    events_all a (relabel_atoms pi atoms) = map (relabel_row pi) (events_all a atoms).
  Proof.
    induction atoms as [|[o i] atoms IH]; intros a HF; [reflexivity|].
    inversion HF as [|? ? Hlen HF']; subst. cbn [fst snd] in Hlen.
    cbn [relabel_atoms map fst snd events_all]. rewrite map_app. f_equal.
    - rewrite !events_atom_eq_spec by (rewrite ?map_length; exact Hlen).
      apply events_from_relabel.
    - apply IH. exact HF'.
  Qed.
End SiteRelabel.
Print Assumptions events_from_relabel.
Print Assumptions events_all_relabel.

(* without equal lengths events_atom reads past the end of the outer history (default 0),
   and 0 is not relabelled *)
Theorem events_all_relabel_needs_lengths :
  exists (pi : Z -> Z) atoms, (forall a b, pi a = pi b -> a = b) /\ pi (-1) = -1 /\
    events_all 0 (relabel_atoms pi atoms) <> map (relabel_row pi) (events_all 0 atoms).
Proof.
  exists (fun x => if x <? 0 then x else x + 1), [([1; 1], [5; 6; 7])].
  split; [|split].
  - intros a b. destruct (Z.ltb_spec a 0), (Z.ltb_spec b 0); lia.
  - reflexivity.
  - vm_compute. discriminate.
Qed.
Print Assumptions events_all_relabel_needs_lengths.

(* ==================================================================================== *)
(* (2) site relabelling commutes with the jump scan                                      *)
(* ==================================================================================== *)
Definition relabel_jump (pi : Z -> Z) (j : jump) : jump :=
  {| j_atom := j_atom j; j_from := pi (j_from j); j_to := pi (j_to j);
     j_start := j_start j; j_stop := j_stop j |}.
Definition relabel_pend (pi : Z -> Z) (p : pend) : pend :=
  {| p_s := pi (p_s p); p_d := pi (p_d p); p_t := p_t p |}.
Definition relabel_cand (pi : Z -> Z) (c : cand) : cand :=
  {| c_s := pi (c_s c); c_d := pi (c_d c); c_t := c_t c; c_stop := c_stop c |}.
Definition relabel_st (pi : Z -> Z) (s : st) : st :=
  {| fe := option_map (relabel_pend pi) (fe s); ca := option_map (relabel_cand pi) (ca s);
     out := map (relabel_jump pi) (out s) |}.

Lemma filter_map_comm {A B} (f : B -> bool) (g : A -> B) l :
  filter f (map g l) = map g (filter (fun x => f (g x)) l).
Proof.
  induction l as [|x l IH]; [reflexivity|]. cbn [map filter].
  destruct (f (g x)); cbn [map]; rewrite IH; reflexivity.
Qed.

Section JumpRelabel.
  Variable pi : Z -> Z.
  Hypothesis pi_inj : forall a b, pi a = pi b -> a = b.
  Hypothesis pi_nosite : pi (-1) = -1.

  Lemma pi_eqb_m1 x : (pi x =? -1) = (x =? -1).
  Proof. rewrite <- pi_nosite at 1. apply pi_eqb. exact pi_inj. Qed.

  Lemma step_relabel mr s e :
    step mr (relabel_st pi s) (relabel_row pi e) = relabel_st pi (step mr s e).
  Proof.
    rewrite !step_eq.
    destruct s as [f0 c0 o0]. cbn [relabel_st fe ca out].
    (* candidate part *)
    assert (Hc : cpart mr (option_map (relabel_cand pi) c0) (map (relabel_jump pi) o0) (relabel_row pi e)
                 = (option_map (relabel_cand pi) (fst (cpart mr c0 o0 e)),
                    map (relabel_jump pi) (snd (cpart mr c0 o0 e)))).
    { unfold cpart. destruct c0 as [c|]; cbn [option_map]; [|reflexivity].
      cbn [relabel_cand relabel_row c_t c_d r_t r_d r_atom]. rewrite (pi_eqb pi pi_inj).
      destruct (r_t e - c_t c >=? mr).
      - cbn [fst snd option_map]. rewrite map_app. reflexivity.
      - destruct (negb (c_d c =? r_d e)); reflexivity. }
    rewrite Hc. cbn [fst snd].
    destruct (cpart mr c0 o0 e) as [c1 o1]. cbn [fst snd].
    (* fromevent part *)
    assert (Hf : fe1_of (option_map (relabel_pend pi) f0) (relabel_row pi e)
                 = option_map (relabel_pend pi) (fe1_of f0 e)).
    { unfold fe1_of. cbn [relabel_row r_s r_d r_t]. rewrite pi_eqb_m1, (pi_eqb pi pi_inj).
      destruct (negb (r_s e =? -1) && negb (r_s e =? r_d e)); reflexivity. }
    rewrite Hf. destruct (fe1_of f0 e) as [f|]; cbn [option_map]; [|reflexivity].
    unfold fpart. cbn [relabel_row relabel_pend r_d r_di r_t r_atom p_s p_d p_t].
    rewrite !(pi_eqb pi pi_inj), pi_eqb_m1.
    destruct (r_d e =? p_s f); [reflexivity|].
    destruct (negb (r_di e =? -1)).
    - unfold relabel_st. cbn [fe ca out option_map]. rewrite map_app. reflexivity.
    - destruct (negb (r_d e =? p_d f)); reflexivity.
  Qed.

  Lemma fold_step_relabel mr : forall es s,
    fold_left (step mr) (map (relabel_row pi) es) (relabel_st pi s)
    = relabel_st pi (fold_left (step mr) es s).
  Proof.
    induction es as [|e es IH]; intro s; [reflexivity|].
    cbn [map fold_left]. rewrite step_relabel. apply IH.
  Qed.

  Theorem scan_relabel : forall mr es,
    scan mr (map (relabel_row pi) es) = map (relabel_jump pi) (scan mr es).
  Proof.
    intros mr es. unfold scan.
    change st0 with (relabel_st pi st0) at 1.
    rewrite fold_step_relabel. cbn [relabel_st out].
    rewrite filter_map_comm. f_equal. apply filter_ext. intro j.
    cbn [relabel_jump j_from j_to]. rewrite (pi_eqb pi pi_inj). reflexivity.
  Qed.

  Theorem jumps_all_relabel : forall mr atoms a,
    jumps_all mr a (relabel_atoms pi atoms) = map (relabel_jump pi) (jumps_all mr a atoms).
  Proof.
    intros mr. induction atoms as [|[o i] atoms IH]; intro a; [reflexivity|].
    cbn [relabel_atoms map fst snd jumps_all]. rewrite map_app. f_equal.
    - rewrite (events_from_relabel pi pi_inj). apply scan_relabel.
    - apply IH.
  Qed.
End JumpRelabel.
Print Assumptions scan_relabel.
Print Assumptions jumps_all_relabel.

(* ==================================================================================== *)
(* (3) count matrices are permuted by a site permutation                                 *)
(* ==================================================================================== *)
Definition relabel_pair (pi : Z -> Z) (p : Z * Z) : Z * Z := (pi (fst p), pi (snd p)).

Section MatrixRelabel.
  Variable pi : Z -> Z.
  Variable n : Z.
  Hypothesis pi_range : forall x, 0 <= x < n -> 0 <= pi x < n.
  Hypothesis pi_inj : forall a b, 0 <= a < n -> 0 <= b < n -> pi a = pi b -> a = b.

  Lemma pi_eqb_range x y : 0 <= x < n -> 0 <= y < n -> (pi x =? pi y) = (x =? y).
  Proof.
    intros Hx Hy. destruct (Z.eqb_spec x y) as [->|Hne]; [apply Z.eqb_refl|].
    apply eqb_neq. intro H. apply Hne. apply pi_inj; assumption.
  Qed.

  Lemma in_range_spec p : in_range n p = true <-> 0 <= fst p < n /\ 0 <= snd p < n.
  Proof. unfold in_range. lia. Qed.

  Lemma relabel_in_range rows :
    (forall p, In p rows -> in_range n p = true) ->
    forall p, In p (map (relabel_pair pi) rows) -> in_range n p = true.
  Proof.
    intros Hr p Hp. apply in_map_iff in Hp. destruct Hp as (q & <- & Hq).
    apply Hr in Hq. apply in_range_spec in Hq. apply in_range_spec. unfold relabel_pair. cbn [fst snd].
    split; apply pi_range; tauto.
  Qed.

  Theorem pcount_relabel : forall rows i j,
    0 <= i < n -> 0 <= j < n ->
    (forall p, In p rows -> in_range n p = true) ->
    pcount (pi i, pi j) (map (relabel_pair pi) rows) = pcount (i, j) rows.
  Proof.
    intros rows i j Hi Hj Hr. unfold pcount. f_equal.
    rewrite filter_map_comm, map_length. f_equal.
    induction rows as [|[a b] rows IH]; [reflexivity|]. cbn [filter].
    assert (Hab : in_range n (a, b) = true) by (apply Hr; left; reflexivity).
    apply in_range_spec in Hab. cbn [fst snd] in Hab.
    replace (pair_eqb (pi i, pi j) (relabel_pair pi (a, b))) with (pair_eqb (i, j) (a, b)).
    2:{ unfold pair_eqb, relabel_pair. cbn [fst snd]. rewrite !pi_eqb_range by tauto. reflexivity. }
    rewrite IH; [reflexivity|]. intros p Hp. apply Hr. right. exact Hp.
  Qed.

  Theorem entry_relabel : forall rows i j,
    0 <= i < n -> 0 <= j < n ->
    (forall p, In p rows -> in_range n p = true) ->
    entry n (map (relabel_pair pi) rows) (pi i) (pi j) = entry n rows i j.
  Proof.
    intros rows i j Hi Hj Hr.
    rewrite (entry_in_range n (map (relabel_pair pi) rows)) by (apply relabel_in_range; exact Hr).
    rewrite (entry_in_range n rows) by exact Hr.
    apply pcount_relabel; assumption.
  Qed.

  (* weighted sums (jump diffusivity: w = squared site distance, permuted with the sites) *)
  Theorem rows_wsum_relabel : forall (w w' : Z -> Z -> Z) rows,
    (forall i j, 0 <= i < n -> 0 <= j < n -> w' (pi i) (pi j) = w i j) ->
    (forall p, In p rows -> in_range n p = true) ->
    rows_wsum w' (map (relabel_pair pi) rows) = rows_wsum w rows.
  Proof.
    intros w w' rows Hw Hr. unfold rows_wsum. rewrite map_map. apply zsum_map_ext.
    intros p Hp. apply Hr in Hp. apply in_range_spec in Hp. unfold relabel_pair. cbn [fst snd].
    apply Hw; tauto.
  Qed.
End MatrixRelabel.
Print Assumptions pcount_relabel.
Print Assumptions entry_relabel.
Print Assumptions rows_wsum_relabel.

(* with weights permuted everywhere no range condition is needed *)
Theorem rows_wsum_relabel_total : forall (pi : Z -> Z) (w w' : Z -> Z -> Z) rows,
  (forall i j, w' (pi i) (pi j) = w i j) ->
  rows_wsum w' (map (relabel_pair pi) rows) = rows_wsum w rows.
Proof.
  intros pi w w' rows Hw. unfold rows_wsum. rewrite map_map. apply zsum_map_ext.
  intros p _. unfold relabel_pair. cbn [fst snd]. apply Hw.
Qed.
Print Assumptions rows_wsum_relabel_total.

(* ==================================================================================== *)
(* (6) density volumes are rolled by a translation that is a multiple of the voxel size   *)
(* ==================================================================================== *)
(* translation of a wrapped sample by k voxel widths q (per axis), wrapped again *)
Definition shift3 (D : Z) (q k p : Z * Z * Z) : Z * Z * Z :=
  let '(qx, qy, qz) := q in let '(kx, ky, kz) := k in let '(x, y, z) := p in
  ((x + kx * qx) mod D, (y + ky * qy) mod D, (z + kz * qz) mod D).
Definition roll3 (n k v : Z * Z * Z) : Z * Z * Z :=
  let '(nx, ny, nz) := n in let '(kx, ky, kz) := k in let '(i, j, l) := v in
  ((i + kx) mod nx, (j + ky) mod ny, (l + kz) mod nz).
Definition grid_ok (D : Z) (n q : Z * Z * Z) : Prop :=
  let '(nx, ny, nz) := n in let '(qx, qy, qz) := q in
  nx * qx = D /\ ny * qy = D /\ nz * qz = D /\
  0 < nx /\ 0 < ny /\ 0 < nz /\ 0 < qx /\ 0 < qy /\ 0 < qz.
Definition wrapped (D : Z) (p : Z * Z * Z) : Prop :=
  let '(x, y, z) := p in 0 <= x < D /\ 0 <= y < D /\ 0 <= z < D.

Theorem vox3_roll : forall D n q k p, grid_ok D n q -> wrapped D p ->
  vox3 D n (shift3 D q k p) = roll3 n k (vox3 D n p).
Proof.
  intros D [[nx ny] nz] [[qx qy] qz] [[kx ky] kz] [[x y] z] Hg Hp.
  cbn [grid_ok wrapped] in Hg, Hp. cbn [shift3 vox3 roll3].
  rewrite (volume_roll D nx qx), (volume_roll D ny qy), (volume_roll D nz qz) by tauto.
  reflexivity.
Qed.
Print Assumptions vox3_roll.

Lemma mod_shift_iff a i k n : 0 <= a < n -> 0 <= i < n -> ((a + k) mod n = i <-> a = (i - k) mod n).
Proof.
  intros Ha Hi. split; intro H.
  - subst i. replace ((a + k) mod n - k) with ((a + k) mod n + - k) by lia.
    symmetry. apply mod_step_back. exact Ha.
  - subst a. replace ((i - k) mod n + k) with ((i + - k) mod n + - - k) by (f_equal; lia).
    apply mod_step_back. exact Hi.
Qed.

(* the density of the translated samples at voxel v is the density of the original samples
   at v rolled back: the volume array is rolled by k *)
Theorem density_roll : forall D n q k samples v, grid_ok D n q ->
  (forall p, In p samples -> wrapped D p) ->
  (let '(nx, ny, nz) := n in let '(i, j, l) := v in 0 <= i < nx /\ 0 <= j < ny /\ 0 <= l < nz) ->
  density D n (map (shift3 D q k) samples) v =
  density D n samples (roll3 n (let '(kx, ky, kz) := k in (- kx, - ky, - kz)) v).
Proof.
  intros D n q k samples v Hg Hs Hv. unfold density. f_equal.
  rewrite filter_map_comm, map_length. f_equal. apply filter_ext_in. intros p Hp.
  rewrite (vox3_roll D n q k p Hg (Hs p Hp)).
  destruct n as [[nx ny] nz], q as [[qx qy] qz], k as [[kx ky] kz], v as [[i j] l], p as [[x y] z].
  cbn [grid_ok] in Hg. specialize (Hs _ Hp). cbn [wrapped] in Hs.
  cbn [vox3 roll3].
  assert (HD : 0 < D) by lia.
  pose proof (voxel_range D nx x ltac:(lia) ltac:(lia) ltac:(lia)) as Hx.
  pose proof (voxel_range D ny y ltac:(lia) ltac:(lia) ltac:(lia)) as Hy.
  pose proof (voxel_range D nz z ltac:(lia) ltac:(lia) ltac:(lia)) as Hz.
  pose proof (mod_shift_iff (voxel D nx x) i kx nx Hx ltac:(lia)) as Ex.
  pose proof (mod_shift_iff (voxel D ny y) j ky ny Hy ltac:(lia)) as Ey.
  pose proof (mod_shift_iff (voxel D nz z) l kz nz Hz ltac:(lia)) as Ez.
  replace (i + - kx) with (i - kx) by lia. replace (j + - ky) with (j - ky) by lia.
  replace (l + - kz) with (l - kz) by lia.
  apply eq_true_iff_eq. rewrite !t3_eqb_spec.
  split; intro H; injection H as H1 H2 H3; apply Ex in H1; apply Ey in H2; apply Ez in H3; congruence.
Qed.
Print Assumptions density_roll.

(* ==================================================================================== *)
(* (5) rolling a free-energy grid rolls the paths and keeps the costs                     *)
(* ==================================================================================== *)
Definition roll_node (d s v : node) : node := step_to d v s.
Definition roll_grid (g : grid) (s : node) : grid :=
  {| dims := dims g;
     energies := map (fun v => E g (step_to (dims g) v (neg_move s))) (all_nodes (dims g)) |}.

Lemma dims_roll_grid g s : dims (roll_grid g s) = dims g.
Proof. reflexivity. Qed.

Lemma neg_move_invol m : neg_move (neg_move m) = m.
Proof. destruct m as [[a b] c]. cbn [neg_move]. f_equal; [f_equal|]; lia. Qed.

Lemma roll_node_in_grid d s v : pos_dims d -> in_grid d (roll_node d s v) = true.
Proof. intro H. unfold roll_node. apply step_to_in_grid. destruct d as [[nx ny] nz]. exact H. Qed.

Lemma pos_dims_step d : pos_dims d -> forall u m, in_grid d (step_to d u m) = true.
Proof. intros H u m. apply step_to_in_grid. destruct d as [[nx ny] nz]. exact H. Qed.

(* E (roll_grid g s) v = E g (v - s mod dims) *)
Theorem E_roll_grid : forall g s v, in_grid (dims g) v = true ->
  E (roll_grid g s) v = E g (step_to (dims g) v (neg_move s)).
Proof.
  intros g s v H. unfold E at 1. unfold roll_grid. cbn [dims energies].
  pose proof (index_nonneg _ _ H) as Hi. unfold znth.
  replace (index (dims g) v <? 0) with false by lia.
  apply nth_error_nth.
  rewrite (map_nth_error _ _ _ (all_nodes_nth_error _ _ H)). reflexivity.
Qed.
Print Assumptions E_roll_grid.

Theorem roll_node_inv : forall d s v, in_grid d v = true ->
  roll_node d (neg_move s) (roll_node d s v) = v.
Proof. intros d s v H. unfold roll_node. apply step_to_back. exact H. Qed.
Print Assumptions roll_node_inv.

Theorem roll_node_inv' : forall d s v, in_grid d v = true ->
  roll_node d s (roll_node d (neg_move s) v) = v.
Proof.
  intros d s v H. rewrite <- (neg_move_invol s) at 1. apply roll_node_inv. exact H.
Qed.

Theorem E_roll : forall g s v, in_grid (dims g) v = true ->
  E (roll_grid g s) (roll_node (dims g) s v) = E g v.
Proof.
  intros g s v H. pose proof (in_grid_pos_dims _ _ H) as Hd.
  rewrite E_roll_grid by (apply roll_node_in_grid; exact Hd).
  unfold roll_node. rewrite step_to_back by exact H. reflexivity.
Qed.
Print Assumptions E_roll.

(* rolling back the rolled grid gives the original energies on the grid *)
Theorem E_roll_roll : forall g s v, in_grid (dims g) v = true ->
  E (roll_grid (roll_grid g s) (neg_move s)) v = E g v.
Proof.
  intros g s v H. pose proof (in_grid_pos_dims _ _ H) as Hd.
  rewrite E_roll_grid by exact H. rewrite dims_roll_grid, neg_move_invol.
  apply (E_roll g s v H).
Qed.
Print Assumptions E_roll_roll.

Lemma step_to_comm d u a b : pos_dims d ->
  step_to d (step_to d u a) b = step_to d (step_to d u b) a.
Proof.
  destruct d as [[nx ny] nz], u as [[x y] z], a as [[a1 a2] a3], b as [[b1 b2] b3].
  cbn [pos_dims step_to]. intros (Hx & Hy & Hz).
  rewrite !Z.add_mod_idemp_l by lia.
  f_equal; [f_equal|]; f_equal; lia.
Qed.

Lemma admissible_roll g s thr v : in_grid (dims g) v = true ->
  admissible (roll_grid g s) thr (roll_node (dims g) s v) = admissible g thr v.
Proof.
  intro H. pose proof (in_grid_pos_dims _ _ H) as Hd. unfold admissible.
  rewrite dims_roll_grid, (roll_node_in_grid _ s v Hd), H, (E_roll g s v H). reflexivity.
Qed.

Theorem edges_roll : forall g thr diag s u v,
  In (u, v) (edges g thr diag) ->
  In (roll_node (dims g) s u, roll_node (dims g) s v) (edges (roll_grid g s) thr diag).
Proof.
  intros g thr diag s u v H. apply edges_iff in H. destruct H as (Hu & Hv & m & Hm & ->).
  pose proof (admissible_in_grid _ _ _ Hu) as Hgu. pose proof (admissible_in_grid _ _ _ Hv) as Hgv.
  pose proof (in_grid_pos_dims _ _ Hgu) as Hd.
  apply edges_iff. split; [|split].
  - rewrite admissible_roll by exact Hgu. exact Hu.
  - rewrite admissible_roll by exact Hgv. exact Hv.
  - exists m. split; [exact Hm|]. rewrite dims_roll_grid. unfold roll_node.
    apply step_to_comm. exact Hd.
Qed.
Print Assumptions edges_roll.

(* edge lists only depend on the dimensions and on the energies of in-grid nodes *)
Lemma edges_ext g1 g2 thr diag : dims g1 = dims g2 ->
  (forall v, in_grid (dims g1) v = true -> E g1 v = E g2 v) ->
  forall u v, In (u, v) (edges g1 thr diag) -> In (u, v) (edges g2 thr diag).
Proof.
  intros Hd HE u v H. apply edges_iff in H. destruct H as (Hu & Hv & m & Hm & ->).
  assert (Ha : forall x, admissible g1 thr x = true -> admissible g2 thr x = true).
  { intros x Hx. pose proof (admissible_in_grid _ _ _ Hx) as Hg. unfold admissible in *.
    rewrite <- Hd, <- (HE x Hg). exact Hx. }
  apply edges_iff. split; [apply Ha; exact Hu|]. split; [apply Ha; exact Hv|].
  exists m. split; [exact Hm|]. rewrite Hd. reflexivity.
Qed.

Lemma path_ok_map (el1 el2 : list (node * node)) (f : node -> node) :
  (forall u v, In (u, v) el1 -> In (f u, f v) el2) ->
  forall p, path_ok node node_eqb el1 p = true -> path_ok node node_eqb el2 (map f p) = true.
Proof.
  intros Hf. induction p as [|x p IH]; [reflexivity|]. destruct p as [|y p]; [reflexivity|].
  intro H. rewrite path_ok_cons2 in H. apply andb_true_iff in H. destruct H as [He Hr].
  change (map f (x :: y :: p)) with (f x :: f y :: map f p). rewrite path_ok_cons2.
  apply andb_true_iff. split.
  - apply (is_edge_In node node_eqb node_eqb_spec). apply Hf.
    apply (is_edge_In node node_eqb node_eqb_spec) in He. exact He.
  - apply (IH Hr).
Qed.

Lemma cost_map_eq g1 g2 (f : node -> node) : forall p,
  (forall v, In v p -> E g2 (f v) = E g1 v) ->
  cost node (w2 g2) (map f p) = cost node (w2 g1) p.
Proof.
  induction p as [|x p IH]; [reflexivity|]. destruct p as [|y p]; [reflexivity|]. intro H.
  change (map f (x :: y :: p)) with (f x :: f y :: map f p). rewrite !cost_cons2.
  change (f y :: map f p) with (map f (y :: p)). rewrite IH by (intros v Hv; apply H; right; exact Hv).
  unfold w2. rewrite (H x), (H y); [reflexivity|right; left; reflexivity|left; reflexivity].
Qed.

Lemma total_energy_map_eq g1 g2 (f : node -> node) : forall p,
  (forall v, In v p -> E g2 (f v) = E g1 v) ->
  total_energy g2 (map f p) = total_energy g1 p.
Proof.
  intros p H. unfold total_energy, path_energies. rewrite map_map. apply zsum_map_ext. exact H.
Qed.

Lemma max_energy_map_eq g1 g2 (f : node -> node) : forall p,
  (forall v, In v p -> E g2 (f v) = E g1 v) ->
  max_energy g2 (map f p) = max_energy g1 p.
Proof.
  intros p H. unfold max_energy, path_energies. rewrite map_map. f_equal.
  apply map_ext_in. exact H.
Qed.

Lemma path_in_grid g thr diag p :
  path_ok node node_eqb (edges g thr diag) p = true -> (2 <= length p)%nat ->
  forall v, In v p -> in_grid (dims g) v = true.
Proof.
  intros Hp Hl v Hv. apply (path_nodes_below_threshold g thr diag p Hp Hl v Hv).
Qed.

Section PathRoll.
  Variables (g : grid) (thr : Z) (diag : bool) (s : node).
  Let rn := roll_node (dims g) s.

  Theorem path_roll : forall p,
    path_ok node node_eqb (edges g thr diag) p = true ->
    path_ok node node_eqb (edges (roll_grid g s) thr diag) (map rn p) = true.
  Proof. apply path_ok_map. intros u v. apply edges_roll. Qed.

  Theorem cost_roll : forall p, (forall v, In v p -> in_grid (dims g) v = true) ->
    cost node (w2 (roll_grid g s)) (map rn p) = cost node (w2 g) p.
  Proof. intros p H. apply cost_map_eq. intros v Hv. apply E_roll. apply H. exact Hv. Qed.

  (* for a valid path no in-grid hypothesis is needed (paths with < 2 nodes cost 0) *)
  Theorem cost_roll_path : forall p, path_ok node node_eqb (edges g thr diag) p = true ->
    cost node (w2 (roll_grid g s)) (map rn p) = cost node (w2 g) p.
  Proof.
    intros p Hp. destruct p as [|x [|y r]]; [reflexivity|reflexivity|].
    apply cost_roll. apply (path_in_grid g thr diag); [exact Hp|cbn [length]; lia].
  Qed.

  Theorem total_energy_roll : forall p, (forall v, In v p -> in_grid (dims g) v = true) ->
    total_energy (roll_grid g s) (map rn p) = total_energy g p.
  Proof. intros p H. apply total_energy_map_eq. intros v Hv. apply E_roll. apply H. exact Hv. Qed.

  Theorem max_energy_roll : forall p, (forall v, In v p -> in_grid (dims g) v = true) ->
    max_energy (roll_grid g s) (map rn p) = max_energy g p.
  Proof. intros p H. apply max_energy_map_eq. intros v Hv. apply E_roll. apply H. exact Hv. Qed.

  Lemma endpoints_map (f : node -> node) a b p :
    endpoints node node_eqb a b p = true -> endpoints node node_eqb (f a) (f b) (map f p) = true.
  Proof.
    intro H. apply (endpoints_inv node node_eqb node_eqb_spec) in H. destruct H as (r & -> & Hl).
    cbn [map endpoints]. apply andb_true_iff. split; [apply node_eqb_spec; reflexivity|].
    apply node_eqb_spec. change (f a :: map f r) with (map f (a :: r)).
    rewrite <- Hl. clear Hl. generalize a at 2 4. induction r as [|y r IH]; intro x0; [reflexivity|].
    change (map f (a :: y :: r)) with (f a :: f y :: map f r). rewrite !last_cons2.
    destruct r as [|z r]; [reflexivity|].
    change (f y :: map f (z :: r)) with (f y :: f z :: map f r). rewrite !last_cons2.
    specialize (IH x0). change (map f (a :: z :: r)) with (f a :: f z :: map f r) in IH.
    rewrite !last_cons2 in IH. exact IH.
  Qed.
End PathRoll.
Print Assumptions path_roll.
Print Assumptions cost_roll.
Print Assumptions cost_roll_path.
Print Assumptions total_energy_roll.
Print Assumptions max_energy_roll.

(* a valid a-b path *)
Definition valid_path (g : grid) (thr : Z) (diag : bool) (a b : node) (p : list node) : Prop :=
  path_ok node node_eqb (edges g thr diag) p = true /\ endpoints node node_eqb a b p = true.

(* forward direction: every a-b path of g rolls to a (roll a)-(roll b) path of the rolled grid
   with the same cost *)
Theorem opt_cost_roll_fwd : forall g thr diag s a b p,
  valid_path g thr diag a b p ->
  valid_path (roll_grid g s) thr diag (roll_node (dims g) s a) (roll_node (dims g) s b)
             (map (roll_node (dims g) s) p) /\
  cost node (w2 (roll_grid g s)) (map (roll_node (dims g) s) p) = cost node (w2 g) p.
Proof.
  intros g thr diag s a b p [Hp He]. split; [split|].
  - apply path_roll. exact Hp.
  - apply endpoints_map. exact He.
  - apply (cost_roll_path g thr diag). exact Hp.
Qed.
Print Assumptions opt_cost_roll_fwd.

(* both directions; the converse rolls back by neg s and uses E_roll_roll *)
Theorem opt_cost_roll : forall g thr diag s a b,
  in_grid (dims g) a = true -> in_grid (dims g) b = true ->
  (forall p, valid_path g thr diag a b p ->
     exists q, valid_path (roll_grid g s) thr diag (roll_node (dims g) s a) (roll_node (dims g) s b) q /\
               cost node (w2 (roll_grid g s)) q = cost node (w2 g) p) /\
  (forall q, valid_path (roll_grid g s) thr diag (roll_node (dims g) s a) (roll_node (dims g) s b) q ->
     exists p, valid_path g thr diag a b p /\
               cost node (w2 g) p = cost node (w2 (roll_grid g s)) q).
Proof.
  intros g thr diag s a b Ha Hb. split.
  - intros p Hp. exists (map (roll_node (dims g) s) p). apply opt_cost_roll_fwd. exact Hp.
  - intros q Hq. set (g' := roll_grid g s) in *.
    destruct (opt_cost_roll_fwd g' thr diag (neg_move s) _ _ q Hq) as [[Hp He] Hc].
    change (dims g') with (dims g) in *.
    rewrite !roll_node_inv in He by assumption.
    set (p := map (roll_node (dims g) (neg_move s)) q) in *.
    assert (Hp' : path_ok node node_eqb (edges g thr diag) p = true).
    { rewrite <- (map_id p). revert Hp. apply path_ok_map. intros u v.
      apply edges_ext; [reflexivity|]. intros x Hx. apply (E_roll_roll g s x Hx). }
    exists p. split; [split; assumption|]. rewrite <- Hc.
    destruct p as [|x [|y r]] eqn:Ep; [reflexivity|reflexivity|]. rewrite <- Ep in *.
    rewrite <- (map_id p) at 2. symmetry. apply cost_map_eq. intros v Hv.
    apply (E_roll_roll g s v). apply (path_in_grid g thr diag p Hp'); [rewrite Ep; cbn [length]; lia|exact Hv].
Qed.
Print Assumptions opt_cost_roll.

(* hence an optimal path rolls to an optimal path, with the same optimal cost *)
Corollary optimal_path_roll : forall g thr diag s a b p,
  in_grid (dims g) a = true -> in_grid (dims g) b = true ->
  valid_path g thr diag a b p ->
  (forall p', valid_path g thr diag a b p' -> cost node (w2 g) p <= cost node (w2 g) p') ->
  let q := map (roll_node (dims g) s) p in
  valid_path (roll_grid g s) thr diag (roll_node (dims g) s a) (roll_node (dims g) s b) q /\
  cost node (w2 (roll_grid g s)) q = cost node (w2 g) p /\
  (forall q', valid_path (roll_grid g s) thr diag (roll_node (dims g) s a) (roll_node (dims g) s b) q' ->
              cost node (w2 (roll_grid g s)) q <= cost node (w2 (roll_grid g s)) q').
Proof.
  intros g thr diag s a b p Ha Hb Hp Hopt q.
  destruct (opt_cost_roll_fwd g thr diag s a b p Hp) as [Hq Hc]. split; [exact Hq|]. split; [exact Hc|].
  intros q' Hq'. destruct (opt_cost_roll g thr diag s a b Ha Hb) as [_ Hback].
  destruct (Hback q' Hq') as (p' & Hp' & Hc'). specialize (Hopt p' Hp'). unfold q. lia.
Qed.
Print Assumptions optimal_path_roll.

(* ==================================================================================== *)
(* (4) atom permutation                                                                   *)
(* ==================================================================================== *)
Definition set_atom (a : Z) (r : row) : row :=
  {| r_atom := a; r_s := r_s r; r_d := r_d r; r_si := r_si r; r_di := r_di r; r_t := r_t r |}.
Definition strip_atom : row -> row := set_atom 0.
Definition set_jatom (a : Z) (j : jump) : jump :=
  {| j_atom := a; j_from := j_from j; j_to := j_to j; j_start := j_start j; j_stop := j_stop j |}.
Definition strip_jatom : jump -> jump := set_jatom 0.
Definition row_pair (r : row) : Z * Z := (r_s r, r_d r).
Definition jump_pair (j : jump) : Z * Z := (j_from j, j_to j).

(* the atom index is only a tag on the rows *)
Theorem events_from_set_atom : forall a b t o i,
  events_from a t o i = map (set_atom a) (events_from b t o i).
Proof.
  intros a b t o. revert t. induction o as [|x o IH]; intros t i; [reflexivity|].
  destruct o as [|y o]; [destruct i; reflexivity|].
  destruct i as [|u [|v i]]; [reflexivity|reflexivity|].
  rewrite !events_cons2, map_app, <- IH. f_equal.
  destruct (negb (x =? y) || negb (u =? v)); reflexivity.
Qed.
Print Assumptions events_from_set_atom.

Lemma events_atom_set_atom a b o i : events_atom a o i = map (set_atom a) (events_atom b o i).
Proof. unfold events_atom. cbv zeta. rewrite map_map. apply map_ext. intro t. reflexivity. Qed.

Lemma set_atom_set_atom a b r : set_atom a (set_atom b r) = set_atom a r.
Proof. reflexivity. Qed.
Lemma set_jatom_set_jatom a b j : set_jatom a (set_jatom b j) = set_jatom a j.
Proof. reflexivity. Qed.

Definition set_st (a : Z) (s : st) : st :=
  {| fe := fe s; ca := ca s; out := map (set_jatom a) (out s) |}.

Lemma step_set_atom mr a s e : step mr (set_st a s) (set_atom a e) = set_st a (step mr s e).
Proof.
  rewrite !step_eq. destruct s as [f0 c0 o0]. cbn [set_st fe ca out].
  assert (Hc : cpart mr c0 (map (set_jatom a) o0) (set_atom a e)
               = (fst (cpart mr c0 o0 e), map (set_jatom a) (snd (cpart mr c0 o0 e)))).
  { unfold cpart. destruct c0 as [c|]; [|reflexivity]. cbn [set_atom r_t r_d r_atom].
    destruct (r_t e - c_t c >=? mr).
    - cbn [fst snd]. rewrite map_app. reflexivity.
    - destruct (negb (c_d c =? r_d e)); reflexivity. }
  rewrite Hc. cbn [fst snd]. destruct (cpart mr c0 o0 e) as [c1 o1]. cbn [fst snd].
  change (fe1_of f0 (set_atom a e)) with (fe1_of f0 e).
  destruct (fe1_of f0 e) as [f|]; [|reflexivity].
  unfold fpart. cbn [set_atom r_d r_di r_t r_atom].
  destruct (r_d e =? p_s f); [reflexivity|].
  destruct (negb (r_di e =? -1)).
  - unfold set_st. cbn [fe ca out]. rewrite map_app. reflexivity.
  - destruct (negb (r_d e =? p_d f)); reflexivity.
Qed.

Lemma fold_step_set_atom mr a : forall es s,
  fold_left (step mr) (map (set_atom a) es) (set_st a s) = set_st a (fold_left (step mr) es s).
Proof.
  induction es as [|e es IH]; intro s; [reflexivity|].
  cbn [map fold_left]. rewrite step_set_atom. apply IH.
Qed.

(* holds for every event list: the jumps inherit the (overwritten) atom tag *)
Theorem scan_set_atom : forall mr a es,
  scan mr (map (set_atom a) es) = map (set_jatom a) (scan mr es).
Proof.
  intros mr a es. unfold scan. change st0 with (set_st a st0) at 1.
  rewrite fold_step_set_atom. unfold set_st. cbn [out].
  rewrite filter_map_comm. reflexivity.
Qed.
Print Assumptions scan_set_atom.

Lemma strip_events_all : forall atoms a,
  map strip_atom (events_all a atoms) = flat_map (fun oi => events_atom 0 (fst oi) (snd oi)) atoms.
Proof.
  induction atoms as [|[o i] atoms IH]; intro a; [reflexivity|].
  cbn [events_all flat_map fst snd]. rewrite map_app, IH. f_equal.
  symmetry. apply events_atom_set_atom.
Qed.

Lemma strip_jumps_all mr : forall atoms a,
  map strip_jatom (jumps_all mr a atoms)
  = flat_map (fun oi => scan mr (events_from 0 0 (fst oi) (snd oi))) atoms.
Proof.
  induction atoms as [|[o i] atoms IH]; intro a; [reflexivity|].
  cbn [jumps_all flat_map fst snd]. rewrite map_app, IH. f_equal.
  unfold strip_jatom.
  rewrite (events_from_set_atom a 0), scan_set_atom, map_map.
  rewrite (events_from_set_atom 0 0) at 2. rewrite scan_set_atom.
  apply map_ext. intro j. reflexivity.
Qed.

(* as multisets of atom-less rows the event tables of a permuted atom list agree *)
Theorem events_all_perm : forall a a' atoms atoms', Permutation atoms atoms' ->
  Permutation (map strip_atom (events_all a atoms)) (map strip_atom (events_all a' atoms')).
Proof.
  intros a a' atoms atoms' H. rewrite !strip_events_all. apply Permutation_flat_map. exact H.
Qed.
Print Assumptions events_all_perm.

Theorem jumps_all_perm : forall mr a a' atoms atoms', Permutation atoms atoms' ->
  Permutation (map strip_jatom (jumps_all mr a atoms)) (map strip_jatom (jumps_all mr a' atoms')).
Proof.
  intros mr a a' atoms atoms' H. rewrite !strip_jumps_all. apply Permutation_flat_map. exact H.
Qed.
Print Assumptions jumps_all_perm.

Lemma perm_eq {A} (l l' : list A) : l = l' -> Permutation l l'.
Proof. intros ->. apply Permutation_refl. Qed.

(* two-atom swap core, with the atom indices renamed explicitly *)
Theorem events_all_swap : forall a x y,
  Permutation (events_all a [y; x])
              (map (fun r => set_atom (if r_atom r =? a then a + 1 else a) r) (events_all a [x; y])).
Proof.
  intros a [o1 i1] [o2 i2].
  change (events_all a [(o2, i2); (o1, i1)]) with (events_atom a o2 i2 ++ events_atom (a + 1) o1 i1 ++ []).
  change (events_all a [(o1, i1); (o2, i2)]) with (events_atom a o1 i1 ++ events_atom (a + 1) o2 i2 ++ []).
  rewrite !app_nil_r, map_app.
  rewrite Permutation_app_comm. apply Permutation_app; apply perm_eq.
  - rewrite (events_atom_set_atom a 0 o1 i1), map_map. rewrite (events_atom_set_atom (a + 1) 0 o1 i1).
    apply map_ext. intro r. cbn [set_atom r_atom]. rewrite Z.eqb_refl. reflexivity.
  - rewrite (events_atom_set_atom (a + 1) 0 o2 i2), map_map. rewrite (events_atom_set_atom a 0 o2 i2).
    apply map_ext. intro r. cbn [set_atom r_atom]. rewrite eqb_neq by lia. reflexivity.
Qed.
Print Assumptions events_all_swap.

(* consequently the count matrices (which ignore the atom column) are identical *)
Lemma pcount_perm p l l' : Permutation l l' -> pcount p l = pcount p l'.
Proof.
  intro H. unfold pcount. f_equal. induction H as [|x l l' H IH|x y l|l l' l'' H1 IH1 H2 IH2].
  - reflexivity.
  - cbn [filter]. destruct (pair_eqb p x); cbn [length]; rewrite IH; reflexivity.
  - cbn [filter]. destruct (pair_eqb p x), (pair_eqb p y); reflexivity.
  - congruence.
Qed.

Theorem events_pcount_perm : forall p a a' atoms atoms', Permutation atoms atoms' ->
  pcount p (map row_pair (events_all a atoms)) = pcount p (map row_pair (events_all a' atoms')).
Proof.
  intros p a a' atoms atoms' H. apply pcount_perm.
  assert (E : forall l, map row_pair l = map row_pair (map strip_atom l)).
  { intro l. rewrite map_map. apply map_ext. intro r. reflexivity. }
  rewrite (E (events_all a atoms)), (E (events_all a' atoms')).
  apply Permutation_map. apply events_all_perm. exact H.
Qed.
Print Assumptions events_pcount_perm.

Theorem jumps_pcount_perm : forall p mr a a' atoms atoms', Permutation atoms atoms' ->
  pcount p (map jump_pair (jumps_all mr a atoms)) = pcount p (map jump_pair (jumps_all mr a' atoms')).
Proof.
  intros p mr a a' atoms atoms' H. apply pcount_perm.
  assert (E : forall l, map jump_pair l = map jump_pair (map strip_jatom l)).
  { intro l. rewrite map_map. apply map_ext. intro r. reflexivity. }
  rewrite (E (jumps_all mr a atoms)), (E (jumps_all mr a' atoms')).
  apply Permutation_map. apply jumps_all_perm. exact H.
Qed.
Print Assumptions jumps_pcount_perm.

(* and so are the dense matrices, entry by entry (entry only reads pcount and the row set) *)
Theorem events_entry_perm : forall n i j a a' atoms atoms', Permutation atoms atoms' ->
  (forall p, In p (map row_pair (events_all a atoms)) -> in_range n p = true) ->
  entry n (map row_pair (events_all a atoms)) i j = entry n (map row_pair (events_all a' atoms')) i j.
Proof.
  intros n i j a a' atoms atoms' H Hr.
  assert (HP : Permutation (map row_pair (events_all a atoms)) (map row_pair (events_all a' atoms'))).
  { assert (E : forall l, map row_pair l = map row_pair (map strip_atom l)).
    { intro l. rewrite map_map. apply map_ext. intro r. reflexivity. }
    rewrite (E (events_all a atoms)), (E (events_all a' atoms')).
    apply Permutation_map. apply events_all_perm. exact H. }
  rewrite !entry_in_range; [apply pcount_perm; exact HP| |exact Hr].
  intros p Hp. apply Hr. apply (Permutation_in p (Permutation_sym HP)). exact Hp.
Qed.
Print Assumptions events_entry_perm.

Theorem jumps_all_swap : forall mr a x y,
  Permutation (jumps_all mr a [y; x])
              (map (fun j => set_jatom (if j_atom j =? a then a + 1 else a) j) (jumps_all mr a [x; y])).
Proof.
  intros mr a [o1 i1] [o2 i2].
  change (jumps_all mr a [(o2, i2); (o1, i1)])
    with (scan mr (events_from a 0 o2 i2) ++ scan mr (events_from (a + 1) 0 o1 i1) ++ []).
  change (jumps_all mr a [(o1, i1); (o2, i2)])
    with (scan mr (events_from a 0 o1 i1) ++ scan mr (events_from (a + 1) 0 o2 i2) ++ []).
  rewrite !app_nil_r, map_app.
  rewrite Permutation_app_comm. apply Permutation_app; apply perm_eq.
  - rewrite (events_from_set_atom a 0 0 o1 i1), (events_from_set_atom (a + 1) 0 0 o1 i1).
    rewrite !scan_set_atom, map_map.
    apply map_ext. intro j. cbn [set_jatom j_atom]. rewrite Z.eqb_refl. reflexivity.
  - rewrite (events_from_set_atom a 0 0 o2 i2), (events_from_set_atom (a + 1) 0 0 o2 i2).
    rewrite !scan_set_atom, map_map.
    apply map_ext. intro j. cbn [set_jatom j_atom]. rewrite eqb_neq by lia. reflexivity.
Qed.
Print Assumptions jumps_all_swap.

(* ==================================================================================== *)
(* non-vacuity: concrete instances evaluated by the kernel                                *)
(* ==================================================================================== *)
Module Examples.
  Definition pi (x : Z) : Z := if x <? 0 then x else if x =? 0 then 2 else if x =? 2 then 0 else x.
  Definition atoms : list (list Z * list Z) :=
    [([0; 0; -1; 1; 1; -1; 2; 2], [0; -1; -1; 1; -1; -1; 2; 2]);
     ([2; -1; -1; 0; 0; 0; 1; 1], [2; -1; -1; -1; 0; 0; 1; -1])].
  Example ex_events : events_all 0 (relabel_atoms pi atoms) = map (relabel_row pi) (events_all 0 atoms)
                      /\ events_all 0 atoms <> [].
  Proof. split; [vm_compute; reflexivity|vm_compute; discriminate]. Qed.
  Example ex_jumps : jumps_all 1 0 (relabel_atoms pi atoms) = map (relabel_jump pi) (jumps_all 1 0 atoms)
                     /\ jumps_all 1 0 atoms <> [].
  Proof. split; [vm_compute; reflexivity|vm_compute; discriminate]. Qed.

  Definition g : grid := {| dims := (2, 2, 3); energies := [1; 2; 9; 4; 3; 2; 9; 9; 1; 5; 9; 0] |}.
  Definition sh : node := (1, 0, 2).
  Definition p : list node := [(0,0,0); (0,0,1); (0,1,1); (0,1,2)].
  Example ex_path :
    valid_path g 6 false (0,0,0) (0,1,2) p /\
    valid_path (roll_grid g sh) 6 false (roll_node (dims g) sh (0,0,0)) (roll_node (dims g) sh (0,1,2))
               (map (roll_node (dims g) sh) p) /\
    cost node (w2 g) p = 13 /\ cost node (w2 (roll_grid g sh)) (map (roll_node (dims g) sh) p) = 13.
  Proof. unfold valid_path. vm_compute. repeat split; reflexivity. Qed.
End Examples.
