(* C16 -- trajectory disk cache: proofs about the model of Model/C16.v.
   The pickle codec is abstract; its two assumed properties are Section hypotheses
   (roundtrip, prefix_fails) and are shown satisfiable by the instance ser/par. *)
From GV Require Import Base.Prelude Model.C16.

(* ---------- TESTS on the concrete instance (vm_compute) ---------- *)
Definition src2 (a : args2) : Z := fst a * 10 + snd a.
Definition name_full (a : args2) : Z := fst a * 1000 + snd a.

Example test_roundtrip : par (ser 7) = Some 7.
Proof. vm_compute. reflexivity. Qed.

Example test_prefix_fails :
  map par [firstn 0 (ser 7); firstn 1 (ser 7); firstn 2 (ser 7)] = [None; None; None].
Proof. vm_compute. reflexivity. Qed.

(* load after a crash that left k bytes, k = 0..4 *)
Example test_load_after_crash :
  map (fun k =>
         let f1 := fs_set fs0 (name_full (1, 5)) (Some (firstn k (ser (src2 (1, 5))))) in
         let r := load Z args2 name_full src2 ser par (1, 5) f1 in
         (fst r, snd r (name_full (1, 5))))
      [0%nat; 1%nat; 2%nat; 3%nat; 4%nat]
  = repeat (15, Some [1; 15; 2]) 5.
Proof. vm_compute. reflexivity. Qed.

(* fault cycle: load, crash, load, garbage, load, remove, load -- every load returns the source *)
Example test_fault_cycles :
  snd (run Z args2 name_full src2 ser par fs0
         [Load args2 (1, 5); Crash args2 (1, 5) 2; Load args2 (1, 5);
          Garbage args2 (1, 5) [9; 9]; Load args2 (1, 5); Remove args2 (1, 5);
          Load args2 (1, 5); Load args2 (1, 0)])
  = [Some 15; None; Some 15; None; Some 15; None; Some 15; Some 10].
Proof. vm_compute. reflexivity. Qed.

(* the defect: the hashed name ignores the second argument *)
Example test_key_defect :
  snd (run Z args2 name_hashed src2 ser par fs0 [Load args2 (1, 0); Load args2 (1, 5)])
  = [Some 10; Some 10].
Proof. vm_compute. reflexivity. Qed.

(* ---------- list facts ---------- *)
Lemma is_prefix_firstn : forall k l, is_prefix (firstn k l) l = true.
Proof.
  induction k as [|k IH]; intros [|x l]; cbn [firstn is_prefix]; try reflexivity.
  rewrite Z.eqb_refl, IH. reflexivity.
Qed.

Lemma firstn_strict_prefix : forall k (l : bytes), (k < length l)%nat -> strict_prefix (firstn k l) l.
Proof.
  intros k l H. split; [apply is_prefix_firstn|].
  rewrite firstn_length. lia.
Qed.

Section DiskProofs.
  Variable T : Type.
  Variable A : Type.
  Variable name : A -> Z.
  Variable parse_source : A -> T.
  Variable serialize : T -> bytes.
  Variable parse : bytes -> option T.

  Hypothesis roundtrip : forall t, parse (serialize t) = Some t.
  Hypothesis prefix_fails : forall t p, strict_prefix p (serialize t) -> parse p = None.

  Local Notation load' := (load T A name parse_source serialize parse).
  Local Notation apply' := (apply T A name parse_source serialize parse).
  Local Notation run' := (run T A name parse_source serialize parse).
  Local Notation consistent' := (consistent T A name parse_source parse).
  Local Notation garbage_ok' := (garbage_ok T A parse).
  Local Notation key_separates' := (key_separates T A name parse_source).

  (* (1) *)
  Theorem cache_roundtrip : forall t, parse (serialize t) = Some t.
  Proof. exact roundtrip. Qed.

  Lemma fs_set_same : forall f n b, fs_set f n b n = b.
  Proof. intros. unfold fs_set. rewrite Z.eqb_refl. reflexivity. Qed.

  Lemma fs_set_other : forall f n b m, m <> n -> fs_set f n b m = f m.
  Proof. intros. unfold fs_set. rewrite eqb_neq by assumption. reflexivity. Qed.

  (* what a truncated (or complete) write of a's own cache can parse to *)
  Lemma parse_firstn : forall t k u, parse (firstn k (serialize t)) = Some u -> u = t.
  Proof.
    intros t k u H.
    destruct (Nat.lt_ge_cases k (length (serialize t))) as [Hlt|Hge].
    - rewrite (prefix_fails t) in H by (apply firstn_strict_prefix; exact Hlt). discriminate.
    - rewrite firstn_all2 in H by exact Hge. rewrite roundtrip in H. congruence.
  Qed.

  (* the two possible shapes of a load *)
  Lemma load_miss : forall a f,
    (forall b, f (name a) = Some b -> parse b = None) ->
    load' a f = (parse_source a, fs_set f (name a) (Some (serialize (parse_source a)))).
  Proof.
    intros a f H. unfold load. destruct (f (name a)) as [b|] eqn:E; [|reflexivity].
    rewrite (H b eq_refl). reflexivity.
  Qed.

  Lemma load_hit : forall a f b t,
    f (name a) = Some b -> parse b = Some t -> load' a f = (t, f).
  Proof. intros a f b t E P. unfold load. rewrite E, P. reflexivity. Qed.

  (* (2) *)
  Theorem load_after_crash : forall a f k,
    let f1 := fs_set f (name a) (Some (firstn k (serialize (parse_source a)))) in
    fst (load' a f1) = parse_source a /\
    snd (load' a f1) (name a) = Some (serialize (parse_source a)).
  Proof.
    intros a f k f1.
    assert (E : f1 (name a) = Some (firstn k (serialize (parse_source a))))
      by (unfold f1; apply fs_set_same).
    destruct (Nat.lt_ge_cases k (length (serialize (parse_source a)))) as [Hlt|Hge].
    - (* strict prefix: parse fails, re-parse and rewrite *)
      rewrite load_miss.
      + cbn [fst snd]. split; [reflexivity|apply fs_set_same].
      + intros b Hb. rewrite E in Hb. injection Hb as <-.
        apply (prefix_fails (parse_source a)). apply firstn_strict_prefix. exact Hlt.
    - (* the write was in fact complete: cache hit *)
      rewrite firstn_all2 in E by exact Hge.
      rewrite (load_hit a f1 _ _ E (roundtrip _)). cbn [fst snd]. split; [reflexivity|exact E].
  Qed.

  (* (3) *)
  Theorem load_correct : forall a f, consistent' f ->
    fst (load' a f) = parse_source a /\
    snd (load' a f) (name a) <> None /\
    (exists b, snd (load' a f) (name a) = Some b /\ parse b = Some (parse_source a)).
  Proof.
    intros a f Hc. unfold load.
    destruct (f (name a)) as [b|] eqn:E.
    - destruct (parse b) as [t|] eqn:P.
      + assert (t = parse_source a) by (eapply Hc; eassumption). subst t.
        cbn [fst snd]. split; [reflexivity|]. split; [congruence|].
        exists b. split; assumption.
      + cbn [fst snd]. rewrite fs_set_same. split; [reflexivity|]. split; [discriminate|].
        eexists. split; [reflexivity|apply roundtrip].
    - cbn [fst snd]. rewrite fs_set_same. split; [reflexivity|]. split; [discriminate|].
      eexists. split; [reflexivity|apply roundtrip].
  Qed.

  (* the file system after a load: unchanged, or a's cache rewritten completely *)
  Lemma load_fs : forall a f,
    snd (load' a f) = f \/
    snd (load' a f) = fs_set f (name a) (Some (serialize (parse_source a))).
  Proof.
    intros a f. unfold load. destruct (f (name a)) as [b|]; [destruct (parse b)|]; cbn [snd]; auto.
  Qed.

  Lemma consistent_set : forall f a ob, key_separates' -> consistent' f ->
    (forall b t, ob = Some b -> parse b = Some t -> t = parse_source a) ->
    consistent' (fs_set f (name a) ob).
  Proof.
    intros f a ob Hk Hc Hb a' b t E P. unfold fs_set in E.
    destruct (name a' =? name a) eqn:En.
    - apply Z.eqb_eq in En. rewrite (Hk a' a En). eapply Hb; eassumption.
    - eapply Hc; eassumption.
  Qed.

  Lemma consistent_fs0 : consistent' fs0.
  Proof. intros a b t E. discriminate. Qed.

  Lemma apply_Load : forall f a, apply' f (Load A a) = (snd (load' a f), Some (fst (load' a f))).
  Proof. intros. cbn [apply]. destruct (load' a f). reflexivity. Qed.

  (* (4) *)
  Theorem consistent_preserved : forall f e, key_separates' -> consistent' f ->
    (forall a b, e = Garbage A a b -> parse b = None) ->
    consistent' (fst (apply' f e)).
  Proof.
    intros f e Hk Hc Hg. destruct e as [a|a k|a b|a].
    - rewrite apply_Load. cbn [fst].
      destruct (load_fs a f) as [->| ->]; [exact Hc|].
      apply consistent_set; try assumption.
      intros b t Eb P. injection Eb as <-. rewrite roundtrip in P. congruence.
    - cbn [apply fst]. apply consistent_set; try assumption.
      intros b t Eb P. injection Eb as <-. eapply parse_firstn. exact P.
    - cbn [apply fst]. apply consistent_set; try assumption.
      intros b' t Eb P. injection Eb as <-. rewrite (Hg a b eq_refl) in P. discriminate.
    - cbn [apply fst]. apply consistent_set; try assumption.
      intros b t Eb. discriminate.
  Qed.

  Lemma run_cons : forall f e r,
    run' f (e :: r) =
    (fst (run' (fst (apply' f e)) r), snd (apply' f e) :: snd (run' (fst (apply' f e)) r)).
  Proof.
    intros. cbn [run]. destruct (apply' f e) as [f1 x]. cbn [fst snd].
    destruct (run' f1 r). reflexivity.
  Qed.

  Lemma run_app : forall es1 es2 f,
    run' f (es1 ++ es2) =
    (fst (run' (fst (run' f es1)) es2), snd (run' f es1) ++ snd (run' (fst (run' f es1)) es2)).
  Proof.
    induction es1 as [|e r IH]; intros es2 f.
    - cbn [app run fst snd]. destruct (run' f es2). reflexivity.
    - rewrite <- app_comm_cons. rewrite !run_cons. cbn [fst snd]. rewrite IH. reflexivity.
  Qed.

  Lemma garbage_ok_cons : forall e r, garbage_ok' (e :: r) ->
    (forall a b, e = Garbage A a b -> parse b = None) /\ garbage_ok' r.
  Proof.
    intros e r H. split.
    - intros a b ->. apply (H a b). left. reflexivity.
    - intros a b Hin. apply (H a b). right. exact Hin.
  Qed.

  Lemma garbage_ok_app : forall es1 es2, garbage_ok' (es1 ++ es2) -> garbage_ok' es1 /\ garbage_ok' es2.
  Proof.
    intros es1 es2 H. split; intros a b Hin; apply (H a b); apply in_or_app; auto.
  Qed.

  Lemma consistent_run : forall es f, key_separates' -> consistent' f -> garbage_ok' es ->
    consistent' (fst (run' f es)).
  Proof.
    induction es as [|e r IH]; intros f Hk Hc Hg.
    - exact Hc.
    - rewrite run_cons. cbn [fst]. apply garbage_ok_cons in Hg. destruct Hg as [Hg1 Hg2].
      apply IH; try assumption. apply consistent_preserved; assumption.
  Qed.

  Lemma run_length : forall es f, length (snd (run' f es)) = length es.
  Proof.
    induction es as [|e r IH]; intros f; [reflexivity|].
    rewrite run_cons. cbn [snd length]. rewrite IH. reflexivity.
  Qed.

  (* every Load produces Some (source trajectory) *)
  Theorem fault_cycles_total : forall es f, key_separates' -> consistent' f -> garbage_ok' es ->
    forall i a, nth_error es i = Some (Load A a) ->
    nth_error (snd (run' f es)) i = Some (Some (parse_source a)).
  Proof.
    induction es as [|e r IH]; intros f Hk Hc Hg i a Hi.
    - destruct i; discriminate.
    - rewrite run_cons. cbn [snd]. apply garbage_ok_cons in Hg. destruct Hg as [Hg1 Hg2].
      destruct i as [|i]; cbn [nth_error] in *.
      + injection Hi as ->. rewrite apply_Load. cbn [snd].
        destruct (load_correct a f Hc) as [-> _]. reflexivity.
      + apply IH; try assumption. apply consistent_preserved; assumption.
  Qed.

  (* (5) *)
  Theorem fault_cycles : forall es f, key_separates' -> consistent' f -> garbage_ok' es ->
    forall i a t, nth_error es i = Some (Load A a) ->
    nth_error (snd (run' f es)) i = Some (Some t) -> t = parse_source a.
  Proof.
    intros es f Hk Hc Hg i a t Hi Ho.
    rewrite (fault_cycles_total es f Hk Hc Hg i a Hi) in Ho. congruence.
  Qed.

  Theorem fault_cycles_load_some : forall es f i a, nth_error es i = Some (Load A a) ->
    exists t, nth_error (snd (run' f es)) i = Some (Some t).
  Proof.
    induction es as [|e r IH]; intros f i a Hi.
    - destruct i; discriminate.
    - rewrite run_cons. cbn [snd]. destruct i as [|i]; cbn [nth_error] in *.
      + injection Hi as ->. rewrite apply_Load. cbn [snd]. eexists. reflexivity.
      + eapply IH. exact Hi.
  Qed.

  Theorem fault_cycles_fs0 : forall es, key_separates' -> garbage_ok' es ->
    length (snd (run' fs0 es)) = length es /\
    forall i a, nth_error es i = Some (Load A a) ->
    nth_error (snd (run' fs0 es)) i = Some (Some (parse_source a)).
  Proof.
    intros es Hk Hg. split; [apply run_length|].
    intros i a Hi. apply fault_cycles_total; try assumption. apply consistent_fs0.
  Qed.

  (* (6) *)
  Theorem load_leaves_complete_cache : forall es a f, key_separates' -> consistent' f ->
    garbage_ok' es ->
    exists b, fst (run' f (es ++ [Load A a])) (name a) = Some b /\
              parse b = Some (parse_source a).
  Proof.
    intros es a f Hk Hc Hg. rewrite run_app. cbn [fst].
    rewrite run_cons. cbn [fst run]. rewrite apply_Load. cbn [fst].
    apply load_correct. apply consistent_run; assumption.
  Qed.

  (* (8b) an injective cache name separates *)
  Lemma injective_name_separates : (forall a a', name a = name a' -> a = a') -> key_separates'.
  Proof. intros Hinj a a' E. rewrite (Hinj a a' E). reflexivity. Qed.
End DiskProofs.

(* ---------- (7) the hypotheses are satisfiable ---------- *)
Lemma ser_roundtrip : forall t, par (ser t) = Some t.
Proof. intros t. reflexivity. Qed.

Lemma ser_prefix_fails : forall t p, strict_prefix p (ser t) -> par p = None.
Proof.
  intros t p [_ Hlen]. cbn [ser length] in Hlen.
  destruct p as [|x [|y [|z p]]]; cbn [length] in Hlen; try lia.
  - reflexivity.
  - unfold par. destruct x as [|[?|?|]|?]; reflexivity.
  - unfold par. destruct x as [|[?|?|]|?]; reflexivity.
Qed.

(* ---------- (8) the key matters ---------- *)
Theorem key_refuted : exists (es : list (event args2)) i a t,
  let r := run Z args2 name_hashed (fun a => fst a * 10 + snd a) ser par fs0 es in
  nth_error es i = Some (Load args2 a) /\ nth_error (snd r) i = Some (Some t) /\
  t <> (fun a => fst a * 10 + snd a) a.
Proof.
  exists [Load args2 (1, 0); Load args2 (1, 5)], 1%nat, (1, 5), 10.
  vm_compute. split; [reflexivity|]. split; [reflexivity|]. intro H. discriminate H.
Qed.

(* the hashed name does not separate arguments that parse differently *)
Lemma name_hashed_not_separates : ~ key_separates Z args2 name_hashed src2.
Proof. intro H. specialize (H (1, 0) (1, 5) eq_refl). vm_compute in H. discriminate H. Qed.

(* the whole development instantiated: no hypotheses left *)
Theorem fault_cycles_instance : forall (A : Type) (name : A -> Z) (src : A -> Z) es,
  (forall a a', name a = name a' -> a = a') -> garbage_ok Z A par es ->
  length (snd (run Z A name src ser par fs0 es)) = length es /\
  forall i a, nth_error es i = Some (Load A a) ->
  nth_error (snd (run Z A name src ser par fs0 es)) i = Some (Some (src a)).
Proof.
  intros A name src es Hinj Hg.
  apply (fault_cycles_fs0 Z A name src ser par ser_roundtrip ser_prefix_fails); [|exact Hg].
  apply injective_name_separates. exact Hinj.
Qed.

Check cache_roundtrip. Print Assumptions cache_roundtrip.
Check load_after_crash. Print Assumptions load_after_crash.
Check load_correct. Print Assumptions load_correct.
Check consistent_preserved. Print Assumptions consistent_preserved.
Check consistent_fs0. Print Assumptions consistent_fs0.
Check consistent_run. Print Assumptions consistent_run.
Check run_length. Print Assumptions run_length.
Check fault_cycles_total. Print Assumptions fault_cycles_total.
Check fault_cycles. Print Assumptions fault_cycles.
Check fault_cycles_load_some. Print Assumptions fault_cycles_load_some.
Check fault_cycles_fs0. Print Assumptions fault_cycles_fs0.
Check load_leaves_complete_cache. Print Assumptions load_leaves_complete_cache.
Check injective_name_separates. Print Assumptions injective_name_separates.
Check ser_roundtrip. Print Assumptions ser_roundtrip.
Check ser_prefix_fails. Print Assumptions ser_prefix_fails.
Check key_refuted. Print Assumptions key_refuted.
Check name_hashed_not_separates. Print Assumptions name_hashed_not_separates.
Check fault_cycles_instance. Print Assumptions fault_cycles_instance.
