(* C12 -- collective jumps: proofs about Model/C12.v.
   (1) the repaired double loop equals the specification on a stop-sorted table,
   (2) the insertion sort sorts and permutes, max_transit bounds every transit,
   (3) all_pairs enumerates each unordered pair once, coll is symmetric,
   (4) solo + collective = total,
   (5) the loop before the repair is sound but incomplete. *)
From Coq Require Import Permutation.
From GV Require Import Base.Prelude Model.C04 Model.C12.

(* ---------- sortedness ---------- *)
Lemma stop_sorted_cons a b r :
  stop_sorted (a :: b :: r) = ((j_stop a <=? j_stop b) && stop_sorted (b :: r)).
Proof. reflexivity. Qed.

Lemma stop_sorted_tail a r : stop_sorted (a :: r) = true -> stop_sorted r = true.
Proof.
  destruct r as [|b r]; [reflexivity|]. rewrite stop_sorted_cons. intro H.
  apply andb_true_iff in H. apply H.
Qed.

Lemma stop_sorted_head : forall r a, stop_sorted (a :: r) = true ->
  forall k, In k r -> j_stop a <= j_stop k.
Proof.
  induction r as [|b r IH]; intros a H k Hk; [contradiction|].
  rewrite stop_sorted_cons in H. apply andb_true_iff in H. destruct H as [H1 H2].
  destruct Hk as [<-|Hk]; [lia|]. specialize (IH b H2 k Hk). lia.
Qed.

(* ---------- (1) the repaired loop is the specification ---------- *)
Section Loop.
  Variable W : Z.
  Variable d2 : list (list Z).
  Variable maxd2 : Z.

  Notation collp := (fun p : jump * jump => coll W d2 maxd2 (fst p) (snd p)).

  Lemma filter_none {A} (p : A -> bool) l : (forall x, In x l -> p x = false) -> filter p l = [].
  Proof.
    induction l as [|x l IH]; intros H; cbn [filter]; [reflexivity|].
    rewrite (H x (or_introl eq_refl)). apply IH. intros y Hy. apply H. right. exact Hy.
  Qed.

  Lemma coll_late a b : j_start b - j_stop a > W -> coll W d2 maxd2 a b = false.
  Proof.
    intro H. unfold coll. replace (j_start b - j_stop a <=? W) with false by lia.
    rewrite andb_false_r. reflexivity.
  Qed.

  (* key lemma: the inner loop is the filter of the remaining rows *)
  Lemma inner_is_filter : forall mt ei r,
    stop_sorted r = true -> (forall j, In j r -> j_stop j - j_start j <= mt) ->
    inner W d2 maxd2 mt ei r = filter collp (map (pair ei) r).
  Proof.
    intros mt ei. induction r as [|ej r IH]; intros Hs Hmt; [reflexivity|].
    cbn [inner map filter fst snd].
    destruct (Z.gtb_spec (j_stop ej - j_stop ei) (W + mt)) as [Hb|Hb].
    - (* break: ej and every later row start too late *)
      rewrite coll_late.
      + symmetry. apply filter_none. intros p Hp. apply in_map_iff in Hp.
        destruct Hp as [ek [<- Hk]]. cbn [fst snd]. apply coll_late.
        pose proof (stop_sorted_head r ej Hs ek Hk).
        pose proof (Hmt ek (or_intror Hk)). lia.
      + pose proof (Hmt ej (or_introl eq_refl)). lia.
    - assert (IH' : inner W d2 maxd2 mt ei r = filter collp (map (pair ei) r)).
      { apply IH; [exact (stop_sorted_tail _ _ Hs)|]. intros j Hj. apply Hmt. right. exact Hj. }
      rewrite IH'.
      assert (Hc : coll W d2 maxd2 ei ej =
                   (negb (j_atom ei =? j_atom ej) && (j_start ej - j_stop ei <=? W)
                    && (j_start ei - j_stop ej <=? W) && close d2 maxd2 ei ej)) by reflexivity.
      rewrite Hc. clear Hc.
      destruct (Z.gtb_spec (j_start ej - j_stop ei) W) as [H1|H1].
      { replace (j_start ej - j_stop ei <=? W) with false by lia.
        rewrite andb_false_r. reflexivity. }
      replace (j_start ej - j_stop ei <=? W) with true by lia.
      destruct (Z.gtb_spec (j_start ei - j_stop ej) W) as [H2|H2].
      { replace (j_start ei - j_stop ej <=? W) with false by lia.
        rewrite andb_false_r. reflexivity. }
      replace (j_start ei - j_stop ej <=? W) with true by lia.
      destruct (j_atom ei =? j_atom ej); cbn [negb andb]; [reflexivity|].
      destruct (close d2 maxd2 ei ej); reflexivity.
  Qed.

  Lemma coll_pairs_cons x r :
    coll_pairs W d2 maxd2 (x :: r) = filter collp (map (pair x) r) ++ coll_pairs W d2 maxd2 r.
  Proof. unfold coll_pairs. cbn [all_pairs]. apply filter_app. Qed.

  Theorem outer_is_spec : forall mt l,
    stop_sorted l = true -> (forall j, In j l -> j_stop j - j_start j <= mt) ->
    outer W d2 maxd2 mt l = coll_pairs W d2 maxd2 l.
  Proof.
    intros mt. induction l as [|ei r IH]; intros Hs Hmt; [reflexivity|].
    cbn [outer]. rewrite coll_pairs_cons.
    assert (Hs' : stop_sorted r = true) by exact (stop_sorted_tail _ _ Hs).
    assert (Hmt' : forall j, In j r -> j_stop j - j_start j <= mt)
      by (intros j Hj; apply Hmt; right; exact Hj).
    rewrite inner_is_filter by assumption. rewrite IH by assumption. reflexivity.
  Qed.

  (* ---------- (5b) the loop before the repair is sound ---------- *)
  Lemma inner_old_sound : forall ei r p,
    In p (inner_old W d2 maxd2 ei r) -> In p (filter collp (map (pair ei) r)).
  Proof.
    intros ei. induction r as [|ej r IH]; intros p Hp; [contradiction|].
    cbn [inner_old] in Hp. cbn [map filter fst snd].
    assert (Hr : In p (filter collp (map (pair ei) r)) ->
                 In p (if coll W d2 maxd2 ei ej then (ei, ej) :: filter collp (map (pair ei) r)
                       else filter collp (map (pair ei) r))).
    { intro H. destruct (coll W d2 maxd2 ei ej); [right|]; exact H. }
    destruct (Z.gtb_spec (j_start ej - j_stop ei) W) as [H1|H1]; [contradiction|].
    destruct (Z.gtb_spec (j_start ei - j_stop ej) W) as [H2|H2]; [apply Hr, IH, Hp|].
    destruct (j_atom ei =? j_atom ej) eqn:Ea; [apply Hr, IH, Hp|].
    destruct (close d2 maxd2 ei ej) eqn:Ec; [|apply Hr, IH, Hp].
    assert (Ecoll : coll W d2 maxd2 ei ej = true).
    { unfold coll. rewrite Ea, Ec.
      replace (j_start ej - j_stop ei <=? W) with true by lia.
      replace (j_start ei - j_stop ej <=? W) with true by lia. reflexivity. }
    rewrite Ecoll. destruct Hp as [<-|Hp]; [left; reflexivity|]. right. apply IH, Hp.
  Qed.

  Theorem outer_old_sound : forall l p,
    In p (outer_old W d2 maxd2 l) -> In p (coll_pairs W d2 maxd2 l).
  Proof.
    induction l as [|ei r IH]; intros p Hp; [contradiction|].
    cbn [outer_old] in Hp. rewrite coll_pairs_cons. apply in_or_app.
    apply in_app_or in Hp. destruct Hp as [Hp|Hp].
    - left. apply inner_old_sound, Hp.
    - right. apply IH, Hp.
  Qed.

  (* ---------- (3) symmetry of the definition ---------- *)
  Theorem coll_sym : forall a b, (forall x y, dist2 d2 x y = dist2 d2 y x) ->
    coll W d2 maxd2 a b = coll W d2 maxd2 b a.
  Proof.
    intros a b Hd. unfold coll, close.
    rewrite (Z.eqb_sym (j_atom a) (j_atom b)).
    rewrite (Hd (j_from a) (j_from b)), (Hd (j_from a) (j_to b)),
            (Hd (j_to a) (j_from b)), (Hd (j_to a) (j_to b)).
    destruct (j_atom b =? j_atom a), (j_start b - j_stop a <=? W), (j_start a - j_stop b <=? W),
      (dist2 d2 (j_from b) (j_from a) <? maxd2), (dist2 d2 (j_to b) (j_from a) <? maxd2),
      (dist2 d2 (j_from b) (j_to a) <? maxd2), (dist2 d2 (j_to b) (j_to a) <? maxd2); reflexivity.
  Qed.
End Loop.

Print Assumptions outer_is_spec.
Print Assumptions outer_old_sound.
Print Assumptions coll_sym.

(* ---------- (5a) the loop before the repair is incomplete ---------- *)
Definition wJ (a s e : Z) : jump :=
  {| j_atom := a; j_from := 0; j_to := 1; j_start := s; j_stop := e |}.
Definition w_table : list jump := [wJ 0 0 1; wJ 1 50 51; wJ 2 0 60].
Definition w_d2 : list (list Z) := [[0; 0]; [0; 0]].

Theorem outer_old_refuted : exists W d2 maxd2 l,
  stop_sorted l = true /\ outer_old W d2 maxd2 l <> coll_pairs W d2 maxd2 l.
Proof.
  exists 10, w_d2, 1, w_table. split; [vm_compute; reflexivity|].
  vm_compute. discriminate.
Qed.
Print Assumptions outer_old_refuted.

(* the missed pair, explicitly: collective by the definition, absent from the old loop's output,
   present in the repaired loop's output *)
Theorem outer_old_misses :
  coll 10 w_d2 1 (wJ 0 0 1) (wJ 2 0 60) = true /\
  outer_old 10 w_d2 1 w_table = [(wJ 1 50 51, wJ 2 0 60)] /\
  outer 10 w_d2 1 (max_transit w_table) w_table = [(wJ 0 0 1, wJ 2 0 60); (wJ 1 50 51, wJ 2 0 60)].
Proof. vm_compute. repeat split. Qed.
Print Assumptions outer_old_misses.

(* ---------- (2) the sort ---------- *)
Lemma key_leb_true a b : key_leb a b = true -> j_stop a <= j_stop b.
Proof. unfold key_leb. lia. Qed.

Lemma key_leb_false a b : key_leb a b = false -> j_stop b <= j_stop a.
Proof. unfold key_leb. lia. Qed.

Lemma stop_sorted_intro a r :
  stop_sorted r = true -> (forall k, In k r -> j_stop a <= j_stop k) -> stop_sorted (a :: r) = true.
Proof.
  intros Hs Hh. destruct r as [|b r]; [reflexivity|]. rewrite stop_sorted_cons, Hs.
  pose proof (Hh b (or_introl eq_refl)). lia.
Qed.

Lemma insert_in x : forall l k, In k (insert x l) -> k = x \/ In k l.
Proof.
  induction l as [|y r IH]; intros k Hk; cbn [insert] in Hk.
  - destruct Hk as [<-|[]]. left. reflexivity.
  - destruct (key_leb y x).
    + destruct Hk as [<-|Hk]; [right; left; reflexivity|].
      destruct (IH k Hk) as [->|H]; [left; reflexivity|right; right; exact H].
    + destruct Hk as [<-|Hk]; [left; reflexivity|right; exact Hk].
Qed.

Lemma insert_sorted x : forall l, stop_sorted l = true -> stop_sorted (insert x l) = true.
Proof.
  induction l as [|y r IH]; intros Hs; [reflexivity|]. cbn [insert].
  destruct (key_leb y x) eqn:E.
  - apply stop_sorted_intro; [apply IH; exact (stop_sorted_tail _ _ Hs)|].
    intros k Hk. apply insert_in in Hk. destruct Hk as [->|Hk].
    + apply key_leb_true, E.
    + exact (stop_sorted_head r y Hs k Hk).
  - apply stop_sorted_intro; [exact Hs|]. intros k Hk. apply key_leb_false in E.
    destruct Hk as [<-|Hk]; [exact E|]. pose proof (stop_sorted_head r y Hs k Hk). lia.
Qed.

Lemma fold_insert_sorted : forall l acc, stop_sorted acc = true ->
  stop_sorted (fold_left (fun acc x => insert x acc) l acc) = true.
Proof.
  induction l as [|x l IH]; intros acc Hs; [exact Hs|]. cbn [fold_left].
  apply IH, insert_sorted, Hs.
Qed.

Theorem sort_sorted : forall l, stop_sorted (sort_jumps l) = true.
Proof. intro l. apply fold_insert_sorted. reflexivity. Qed.
Print Assumptions sort_sorted.

Lemma insert_perm x : forall l, Permutation (insert x l) (x :: l).
Proof.
  induction l as [|y r IH]; [apply Permutation_refl|]. cbn [insert].
  destruct (key_leb y x); [|apply Permutation_refl].
  eapply perm_trans; [apply perm_skip, IH|apply perm_swap].
Qed.

Lemma fold_insert_perm : forall l acc,
  Permutation (fold_left (fun acc x => insert x acc) l acc) (l ++ acc).
Proof.
  induction l as [|x l IH]; intros acc; [apply Permutation_refl|]. cbn [fold_left app].
  eapply perm_trans; [apply IH|].
  eapply perm_trans; [apply Permutation_app_head, insert_perm|].
  apply Permutation_sym, Permutation_middle.
Qed.

Theorem sort_perm : forall l, Permutation (sort_jumps l) l.
Proof.
  intro l. unfold sort_jumps. eapply perm_trans; [apply fold_insert_perm|].
  rewrite app_nil_r. apply Permutation_refl.
Qed.
Print Assumptions sort_perm.

Lemma fold_max_ge : forall l m,
  m <= fold_left (fun m j => Z.max m (j_stop j - j_start j)) l m.
Proof.
  induction l as [|x l IH]; intros m; cbn [fold_left]; [lia|].
  pose proof (IH (Z.max m (j_stop x - j_start x))). lia.
Qed.

Lemma fold_max_bound : forall l m j, In j l ->
  j_stop j - j_start j <= fold_left (fun m j => Z.max m (j_stop j - j_start j)) l m.
Proof.
  induction l as [|x l IH]; intros m j Hj; [contradiction|]. cbn [fold_left].
  destruct Hj as [<-|Hj]; [|apply IH, Hj].
  pose proof (fold_max_ge l (Z.max m (j_stop x - j_start x))). lia.
Qed.

Theorem max_transit_bound : forall l j, In j l -> j_stop j - j_start j <= max_transit l.
Proof. intros l j Hj. apply fold_max_bound, Hj. Qed.
Print Assumptions max_transit_bound.

Theorem max_transit_nonneg : forall l, 0 <= max_transit l.
Proof. intro l. apply fold_max_ge. Qed.
Print Assumptions max_transit_nonneg.

Theorem collective_is_spec : forall W d2 maxd2 table,
  collective W d2 maxd2 table = coll_pairs W d2 maxd2 (sort_jumps table).
Proof.
  intros W d2 maxd2 table. unfold collective. cbv zeta.
  apply outer_is_spec; [apply sort_sorted|]. intros j Hj. apply max_transit_bound, Hj.
Qed.
Print Assumptions collective_is_spec.

(* ---------- (3) each unordered pair once ---------- *)
Lemma in_all_pairs_cons x r a b :
  In (a, b) (all_pairs (x :: r)) <-> (a = x /\ In b r) \/ In (a, b) (all_pairs r).
Proof.
  cbn [all_pairs]. rewrite in_app_iff, in_map_iff. split.
  - intros [[y [E Hy]]|H]; [left|right; exact H]. inversion E; subst. split; [reflexivity|exact Hy].
  - intros [[-> Hb]|H]; [left; exists b; split; [reflexivity|exact Hb]|right; exact H].
Qed.

Lemma in_all_pairs : forall l a b, In (a, b) (all_pairs l) -> In a l /\ In b l.
Proof.
  induction l as [|x r IH]; intros a b H; [contradiction|].
  apply in_all_pairs_cons in H. destruct H as [[-> Hb]|H].
  - split; [left; reflexivity|right; exact Hb].
  - destruct (IH a b H) as [Ha Hb]. split; right; assumption.
Qed.

Lemma NoDup_map_pair (x : jump) : forall r : list jump, NoDup r -> NoDup (map (pair x) r).
Proof.
  induction r as [|y r IH]; intros Hnd; cbn [map]; [constructor|].
  inversion Hnd as [|? ? Hn Hnd']; subst. constructor; [|apply IH, Hnd'].
  intro H. apply in_map_iff in H. destruct H as [z [E Hz]]. inversion E; subst. contradiction.
Qed.

Lemma NoDup_app_intro {A} : forall l1 l2 : list A, NoDup l1 -> NoDup l2 ->
  (forall x, In x l1 -> ~ In x l2) -> NoDup (l1 ++ l2).
Proof.
  induction l1 as [|x l1 IH]; intros l2 H1 H2 Hd; [exact H2|]. cbn [app].
  inversion H1 as [|? ? Hn H1']; subst. constructor.
  - intro H. apply in_app_or in H. destruct H as [H|H]; [contradiction|].
    exact (Hd x (or_introl eq_refl) H).
  - apply IH; [exact H1'|exact H2|]. intros y Hy. apply Hd. right. exact Hy.
Qed.

Theorem all_pairs_once : forall l, NoDup l ->
  NoDup (all_pairs l) /\ (forall a b, In (a, b) (all_pairs l) -> ~ In (b, a) (all_pairs l)).
Proof.
  induction l as [|x r IH]; intros Hnd.
  - split; [constructor|]. intros a b H. contradiction.
  - inversion Hnd as [|? ? Hn Hnd']; subst. destruct (IH Hnd') as [IH1 IH2]. split.
    + cbn [all_pairs]. apply NoDup_app_intro; [apply NoDup_map_pair, Hnd'|exact IH1|].
      intros [a b] H1 H2. apply in_map_iff in H1. destruct H1 as [y [E Hy]]. inversion E; subst.
      apply in_all_pairs in H2. destruct H2 as [H2 _]. contradiction.
    + intros a b H1 H2. apply in_all_pairs_cons in H1. apply in_all_pairs_cons in H2.
      destruct H1 as [[-> Hb]|H1], H2 as [[-> Ha]|H2].
      * contradiction.
      * apply in_all_pairs in H2. destruct H2 as [_ H2]. contradiction.
      * apply in_all_pairs in H1. destruct H1 as [_ H1]. contradiction.
      * exact (IH2 a b H1 H2).
Qed.
Print Assumptions all_pairs_once.

Theorem all_pairs_complete : forall l a b, In a l -> In b l -> a <> b ->
  In (a, b) (all_pairs l) \/ In (b, a) (all_pairs l).
Proof.
  induction l as [|x r IH]; intros a b Ha Hb Hne; [contradiction|].
  rewrite !in_all_pairs_cons. destruct Ha as [<-|Ha], Hb as [<-|Hb].
  - contradiction Hne. reflexivity.
  - left. left. split; [reflexivity|exact Hb].
  - right. left. split; [reflexivity|exact Ha].
  - destruct (IH a b Ha Hb Hne) as [H|H]; [left; right; exact H|right; right; exact H].
Qed.
Print Assumptions all_pairs_complete.

(* ---------- (4) solo + collective = total ---------- *)
Theorem solo_plus_coll : forall pairs table,
  n_solo pairs table + n_coll pairs table = Z.of_nat (length table).
Proof. intros pairs table. unfold n_solo. lia. Qed.
Print Assumptions solo_plus_coll.

Lemma filter_length_le {A} (p : A -> bool) : forall l, (length (filter p l) <= length l)%nat.
Proof.
  induction l as [|x l IH]; cbn [filter length]; [lia|]. destruct (p x); cbn [length]; lia.
Qed.

Theorem n_coll_bounds : forall pairs table, 0 <= n_coll pairs table <= Z.of_nat (length table).
Proof.
  intros pairs table. unfold n_coll.
  pose proof (filter_length_le (involved pairs) table). lia.
Qed.
Print Assumptions n_coll_bounds.

Theorem n_solo_bounds : forall pairs table, 0 <= n_solo pairs table <= Z.of_nat (length table).
Proof.
  intros pairs table. pose proof (n_coll_bounds pairs table).
  pose proof (solo_plus_coll pairs table). lia.
Qed.
Print Assumptions n_solo_bounds.
