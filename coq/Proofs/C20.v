(* C20 -- theorems about the weak_lru_cache model (Model/C20.v):
   (1) transparency: a cached call returns f k args, for any interleaving and any maxsize;
       run yields one output per operation;
   (2) no leak between objects: every hit returns the value computed by an earlier miss of
       the same object uid with the same args;
   (3) the cache holds at most maxsize entries, at most one per key;
   (4) the cache does not keep its object alive when values do not refer to their owner;
       refutation when a value does (known defect: Jumps.collective()); eviction releases;
   (5) a Call on a held object always yields a value, on a non-held object it is a no-op. *)
From GV Require Import Base.Prelude Model.C20.

(* ====================================================================== *)
(* sanity checks of the statements on concrete traces                      *)
(* ====================================================================== *)

Definition f_test (k : nat) (a : Z) : Z := 100 * Z.of_nat k + a.

(* address reuse: object 1 is created at the address of the dropped object 0 *)
Example trace_reuse :
  snd (run f_test 2 init [New 7; Call 0 1 false; Call 0 1 false; Drop 0; Collect; New 7;
                          Call 1 1 false; Call 0 1 false; Call 1 1 false])
  = [ONone; OVal 1 false; OVal 1 true; ONone; ONone; ONone; OVal 101 false; ONone; OVal 101 true].
Proof. vm_compute. reflexivity. Qed.

(* eviction with maxsize 2: key (0,1) is evicted by (0,2),(0,3) and recomputed *)
Example trace_evict :
  run f_test 2 init [New 7; Call 0 1 false; Call 0 2 false; Call 0 3 false; Call 0 1 false; Call 0 3 true]
  = ({| objs := [{| o_addr := 7; o_user := true |}];
        cache := [{| e_uid := 0; e_args := 3; e_val := 3; e_back := false |};
                  {| e_uid := 0; e_args := 1; e_val := 1; e_back := false |}] |},
     [ONone; OVal 1 false; OVal 2 false; OVal 3 false; OVal 1 false; OVal 3 true]).
Proof. vm_compute. reflexivity. Qed.

(* maxsize 0: nothing is ever cached *)
Example trace_zero :
  run f_test 0 init [New 7; Call 0 1 true; Call 0 1 true]
  = ({| objs := [{| o_addr := 7; o_user := true |}]; cache := [] |}, [ONone; OVal 1 false; OVal 1 false]).
Proof. vm_compute. reflexivity. Qed.

(* ====================================================================== *)
(* generic list facts                                                      *)
(* ====================================================================== *)

Lemma In_firstn {A} : forall (n : nat) (l : list A) x, In x (firstn n l) -> In x l.
Proof.
  induction n as [|n IH]; intros [|y l] x; cbn [firstn In]; try tauto.
  intros [H|H]; [left; exact H|right; exact (IH _ _ H)].
Qed.

Lemma NoDup_firstn_ {A} : forall (n : nat) (l : list A), NoDup l -> NoDup (firstn n l).
Proof.
  induction n as [|n IH]; intros [|y l] H; cbn [firstn]; try constructor.
  - inversion H as [|? ? H1 H2]; subst. intro H3. apply H1. exact (In_firstn _ _ _ H3).
  - inversion H; subst. apply IH. assumption.
Qed.

Lemma map_firstn {A B} (g : A -> B) : forall (n : nat) (l : list A), map g (firstn n l) = firstn n (map g l).
Proof.
  induction n as [|n IH]; intros [|y l]; cbn [firstn map]; try reflexivity. f_equal. apply IH.
Qed.

Lemma firstn_app_firstn {A} : forall (a : list A) (m n : nat) (b : list A),
  (m <= n)%nat -> firstn m (a ++ firstn n b) = firstn m (a ++ b).
Proof.
  induction a as [|x a IH]; intros m n b H; cbn [app].
  - rewrite firstn_firstn. f_equal. lia.
  - destruct m as [|m]; [reflexivity|]. cbn [firstn]. f_equal. apply IH. lia.
Qed.

(* ====================================================================== *)
(* keys, lookup, remove_key                                                *)
(* ====================================================================== *)

Definition keyof (e : entry) : nat * Z := (e_uid e, e_args e).

Lemma key_eqb_true e k a : key_eqb e k a = true <-> e_uid e = k /\ e_args e = a.
Proof. unfold key_eqb. rewrite andb_true_iff, Nat.eqb_eq, Z.eqb_eq. tauto. Qed.

Lemma key_eqb_false e k a : key_eqb e k a = false <-> keyof e <> (k, a).
Proof.
  unfold keyof. split.
  - intros H E. injection E as E1 E2.
    assert (H1 : key_eqb e k a = true) by (apply key_eqb_true; split; assumption). congruence.
  - intros H. destruct (key_eqb e k a) eqn:E; [|reflexivity].
    apply key_eqb_true in E. destruct E as [E1 E2]. subst. exfalso. apply H. reflexivity.
Qed.

Lemma lookup_Some c k a e : lookup c k a = Some e -> In e c /\ e_uid e = k /\ e_args e = a.
Proof.
  induction c as [|x r IH]; cbn [lookup]; [discriminate|].
  destruct (key_eqb x k a) eqn:E.
  - intros H. injection H as <-. apply key_eqb_true in E. split; [left; reflexivity|exact E].
  - intros H. destruct (IH H) as [H1 H2]. split; [right; exact H1|exact H2].
Qed.

Lemma lookup_None c k a : lookup c k a = None <-> ~ In (k, a) (map keyof c).
Proof.
  induction c as [|x r IH]; cbn [lookup map In]; [tauto|].
  destruct (key_eqb x k a) eqn:E.
  - apply key_eqb_true in E. destruct E as [E1 E2]. split; [discriminate|].
    intros H. exfalso. apply H. left. unfold keyof. congruence.
  - apply key_eqb_false in E. rewrite IH. tauto.
Qed.

Lemma remove_key_incl c k a e : In e (remove_key c k a) -> In e c.
Proof.
  induction c as [|x r IH]; cbn [remove_key]; [tauto|].
  destruct (key_eqb x k a); cbn [In]; tauto.
Qed.

Lemma remove_key_length c k a e : lookup c k a = Some e -> S (length (remove_key c k a)) = length c.
Proof.
  induction c as [|x r IH]; cbn [lookup remove_key]; [discriminate|].
  destruct (key_eqb x k a); cbn [length]; [reflexivity|]. intros H. rewrite (IH H). reflexivity.
Qed.

Lemma remove_key_keys_incl c k a x : In x (map keyof (remove_key c k a)) -> In x (map keyof c).
Proof.
  rewrite !in_map_iff. intros [e [H1 H2]]. exists e. split; [exact H1|]. exact (remove_key_incl _ _ _ _ H2).
Qed.

Lemma remove_key_NoDup c k a : NoDup (map keyof c) ->
  NoDup (map keyof (remove_key c k a)) /\ ~ In (k, a) (map keyof (remove_key c k a)).
Proof.
  induction c as [|x r IH]; cbn [remove_key map]; intros H.
  - split; [constructor|intros []].
  - inversion H as [|? ? H1 H2]; subst. destruct (key_eqb x k a) eqn:E.
    + apply key_eqb_true in E. destruct E as [E1 E2]. split; [exact H2|].
      intro H3. apply H1. unfold keyof at 1. rewrite E1, E2. exact H3.
    + apply key_eqb_false in E. destruct (IH H2) as [I1 I2]. cbn [map]. split.
      * constructor; [|exact I1]. intro H3. apply H1. exact (remove_key_keys_incl _ _ _ _ H3).
      * intros [H3|H3]; [exact (E H3)|exact (I2 H3)].
Qed.

(* ====================================================================== *)
(* the state machine                                                       *)
(* ====================================================================== *)

Section Proofs.
  Variable f : nat -> Z -> Z.
  Variable maxsize : nat.

  Local Notation step := (step f maxsize).
  Local Notation run := (run f maxsize).

  Lemma run_cons s o r :
    run s (o :: r) = (fst (run (fst (step s o)) r), snd (step s o) :: snd (run (fst (step s o)) r)).
  Proof.
    cbn [C20.run]. destruct (step s o) as [s1 x]. cbn [fst snd]. destruct (run s1 r) as [s2 xs]. reflexivity.
  Qed.

  (* every entry of the cache after a step is an old entry or was just computed by a miss *)
  Lemma step_entries s o e : In e (cache (fst (step s o))) ->
    In e (cache s) \/
    exists k a b, o = Call k a b /\ held s k = true /\ lookup (cache s) k a = None /\
                  snd (step s o) = OVal (f k a) false /\
                  e = {| e_uid := k; e_args := a; e_val := f k a; e_back := b |}.
  Proof.
    destruct o as [ad|k a b|k|]; cbn [C20.step fst snd cache]; try (intros H; left; exact H).
    destruct (held s k) eqn:Hh; cbn [negb fst snd]; [|intros H; left; exact H].
    destruct (lookup (cache s) k a) as [e0|] eqn:L; cbn [fst snd cache].
    - intros [H|H]; left; [subst e0; exact (proj1 (lookup_Some _ _ _ _ L))|exact (remove_key_incl _ _ _ _ H)].
    - intros H. apply In_firstn in H. destruct H as [H|H]; [|left; exact H].
      right. exists k, a, b. split; [reflexivity|]. split; [exact Hh|]. split; [exact L|].
      split; [reflexivity|]. symmetry. exact H.
  Qed.

  (* a state property preserved by every step (of the allowed kind) holds after a run *)
  Lemma run_inv (P : state -> Prop) (Q : op -> Prop) :
    (forall s o, Q o -> P s -> P (fst (step s o))) ->
    forall ops s s' outs, (forall o, In o ops -> Q o) -> P s -> run s ops = (s', outs) -> P s'.
  Proof.
    intros HP. induction ops as [|o r IH]; intros s s' outs HQ Hs Hr.
    - cbn in Hr. injection Hr as <- _. exact Hs.
    - rewrite run_cons in Hr. injection Hr as Hr1 Hr2.
      apply (IH (fst (step s o)) s' (snd (run (fst (step s o)) r))).
      + intros o' Ho'. apply HQ. right. exact Ho'.
      + apply HP; [apply HQ; left; reflexivity|exact Hs].
      + rewrite <- Hr1. apply surjective_pairing.
  Qed.

  Lemma run_length : forall ops s s' outs, run s ops = (s', outs) -> length outs = length ops.
  Proof.
    induction ops as [|o r IH]; intros s s' outs Hr.
    - cbn in Hr. injection Hr as _ <-. reflexivity.
    - rewrite run_cons in Hr. injection Hr as _ <-. cbn [length]. f_equal.
      apply (IH (fst (step s o)) (fst (run (fst (step s o)) r))). apply surjective_pairing.
  Qed.

  (* ------------------------------------------------------------------ *)
  (* (1) transparency                                                     *)
  (* ------------------------------------------------------------------ *)

  Definition cache_ok (c : list entry) : Prop := forall e, In e c -> e_val e = f (e_uid e) (e_args e).

  Lemma step_cache_ok s o : cache_ok (cache s) -> cache_ok (cache (fst (step s o))).
  Proof.
    intros H e He. apply step_entries in He. destruct He as [He|(k & a & b & _ & _ & _ & _ & ->)].
    - exact (H e He).
    - reflexivity.
  Qed.

  Lemma run_cache_ok ops s s' outs : cache_ok (cache s) -> run s ops = (s', outs) -> cache_ok (cache s').
  Proof.
    intros H Hr.
    apply (run_inv (fun s => cache_ok (cache s)) (fun _ => True)
             (fun s o _ => step_cache_ok s o) ops s s' outs (fun _ _ => I) H Hr).
  Qed.

  Lemma step_call_val s k a b v h : cache_ok (cache s) -> snd (step s (Call k a b)) = OVal v h -> v = f k a.
  Proof.
    intros H. cbn [C20.step]. destruct (held s k); cbn [negb snd]; [|discriminate].
    destruct (lookup (cache s) k a) as [e|] eqn:L; cbn [snd]; intros E; injection E as <- _; [|reflexivity].
    apply lookup_Some in L. destruct L as (L1 & L2 & L3). rewrite (H e L1), L2, L3. reflexivity.
  Qed.

  Theorem transparent_from : forall ops s s' outs, cache_ok (cache s) -> run s ops = (s', outs) ->
    forall i k args back v hit, nth_error ops i = Some (Call k args back) ->
      nth_error outs i = Some (OVal v hit) -> v = f k args.
  Proof.
    induction ops as [|o r IH]; intros s s' outs Hs Hr i k args back v hit Ho Hv.
    - destruct i; discriminate.
    - rewrite run_cons in Hr. injection Hr as _ <-. destruct i as [|i]; cbn [nth_error] in Ho, Hv.
      + injection Ho as ->. injection Hv as Hv. exact (step_call_val _ _ _ _ _ _ Hs Hv).
      + apply (IH (fst (step s o)) (fst (run (fst (step s o)) r)) (snd (run (fst (step s o)) r))
                 (step_cache_ok s o Hs) (surjective_pairing _) i k args back v hit Ho Hv).
  Qed.

  (* ------------------------------------------------------------------ *)
  (* (2) no leak between objects                                          *)
  (* ------------------------------------------------------------------ *)

  Lemma step_hit_val s k a b v : snd (step s (Call k a b)) = OVal v true ->
    exists e, In e (cache s) /\ e_uid e = k /\ e_args e = a /\ e_val e = v.
  Proof.
    cbn [C20.step]. destruct (held s k); cbn [negb snd]; [|discriminate].
    destruct (lookup (cache s) k a) as [e|] eqn:L; cbn [snd]; intros E; [|discriminate].
    injection E as <-. apply lookup_Some in L. exists e. tauto.
  Qed.

  (* from an arbitrary state: the value of a hit was computed by an earlier miss of the same
     uid and args in this run, or was already cached under that very key at the start *)
  Theorem no_leak_from : forall ops s s' outs, run s ops = (s', outs) ->
    forall i k args back v, nth_error ops i = Some (Call k args back) ->
      nth_error outs i = Some (OVal v true) ->
      (exists j, (j < i)%nat /\ exists back', nth_error ops j = Some (Call k args back') /\
                                             nth_error outs j = Some (OVal v false))
      \/ (exists e, In e (cache s) /\ e_uid e = k /\ e_args e = args /\ e_val e = v).
  Proof.
    induction ops as [|o r IH]; intros s s' outs Hr i k args back v Ho Hv.
    - destruct i; discriminate.
    - rewrite run_cons in Hr. injection Hr as _ <-. destruct i as [|i]; cbn [nth_error] in Ho, Hv.
      + injection Ho as ->. injection Hv as Hv. right. exact (step_hit_val _ _ _ _ _ Hv).
      + destruct (IH (fst (step s o)) (fst (run (fst (step s o)) r)) (snd (run (fst (step s o)) r))
                    (surjective_pairing _) i k args back v Ho Hv)
          as [(j & Hj & back' & H1 & H2)|(e & He & E1 & E2 & E3)].
        * left. exists (S j). split; [lia|]. exists back'. cbn [nth_error]. split; assumption.
        * apply step_entries in He.
          destruct He as [He|(k0 & a0 & b0 & -> & _ & _ & Hs & ->)].
          -- right. exists e. tauto.
          -- cbn [e_uid e_args e_val] in E1, E2, E3. subst k0 a0. left. exists 0%nat. split; [lia|].
             exists b0. cbn [nth_error]. split; [reflexivity|]. rewrite Hs, E3. reflexivity.
  Qed.

  (* ------------------------------------------------------------------ *)
  (* (3) size bound, one entry per key                                    *)
  (* ------------------------------------------------------------------ *)

  Lemma step_bounded s o : (length (cache s) <= maxsize)%nat -> (length (cache (fst (step s o))) <= maxsize)%nat.
  Proof.
    destruct o as [ad|k a b|k|]; cbn [C20.step fst cache]; try (intros H; exact H).
    destruct (held s k); cbn [negb fst]; [|intros H; exact H].
    destruct (lookup (cache s) k a) as [e|] eqn:L; cbn [fst cache]; intros H.
    - cbn [length]. rewrite (remove_key_length _ _ _ _ L). exact H.
    - apply firstn_le_length.
  Qed.

  Lemma step_keys_unique s o : NoDup (map keyof (cache s)) -> NoDup (map keyof (cache (fst (step s o)))).
  Proof.
    destruct o as [ad|k a b|k|]; cbn [C20.step fst cache]; try (intros H; exact H).
    destruct (held s k); cbn [negb fst]; [|intros H; exact H].
    destruct (lookup (cache s) k a) as [e|] eqn:L; cbn [fst cache]; intros H.
    - cbn [map]. apply lookup_Some in L. destruct L as (_ & L2 & L3).
      destruct (remove_key_NoDup (cache s) k a H) as [H1 H2].
      constructor; [|exact H1]. unfold keyof at 1. rewrite L2, L3. exact H2.
    - rewrite map_firstn. apply NoDup_firstn_. cbn [map]. constructor; [|exact H].
      unfold keyof at 1. cbn [e_uid e_args]. apply lookup_None. exact L.
  Qed.

  (* ------------------------------------------------------------------ *)
  (* (4) liveness                                                         *)
  (* ------------------------------------------------------------------ *)

  Definition no_back (c : list entry) : Prop := forall e, In e c -> e_back e = false.

  Lemma step_no_back s o : (forall k a b, o = Call k a b -> b = false) ->
    no_back (cache s) -> no_back (cache (fst (step s o))).
  Proof.
    intros Hb H e He. apply step_entries in He. destruct He as [He|(k & a & b & Ho & _ & _ & _ & ->)].
    - exact (H e He).
    - cbn [e_back]. exact (Hb k a b Ho).
  Qed.

  Lemma no_back_not_pinned s k : no_back (cache s) -> pinned s k = false.
  Proof.
    unfold pinned. intros H. induction (cache s) as [|e c IH]; cbn [existsb]; [reflexivity|].
    rewrite (H e (or_introl eq_refl)). cbn [andb orb]. apply IH. intros e' He'. apply H. right. exact He'.
  Qed.

  Theorem not_pinned_from ops s s' outs : no_back (cache s) ->
    (forall k a b, In (Call k a b) ops -> b = false) ->
    run s ops = (s', outs) -> forall k, alive s' k = held s' k.
  Proof.
    intros Hs Hb Hr k. unfold alive. rewrite no_back_not_pinned; [apply orb_false_r|].
    apply (run_inv (fun s => no_back (cache s)) (fun o => forall k a b, o = Call k a b -> b = false)
             step_no_back ops s s' outs); [|exact Hs|exact Hr].
    intros o Ho k0 a b ->. exact (Hb k0 a b Ho).
  Qed.

  (* ------------------------------------------------------------------ *)
  (* (5) totality of Call on a held object, no-op on a dropped one         *)
  (* ------------------------------------------------------------------ *)

  Theorem call_total s k a b : held s k = true -> exists v h, snd (step s (Call k a b)) = OVal v h.
  Proof.
    intros H. cbn [C20.step]. rewrite H. cbn [negb].
    destruct (lookup (cache s) k a) as [e|]; cbn [snd]; eexists; eexists; reflexivity.
  Qed.

  Theorem call_not_held s k a b : held s k = false -> step s (Call k a b) = (s, ONone).
  Proof. intros H. cbn [C20.step]. rewrite H. reflexivity. Qed.

  (* a Call is either a hit returning the cached value or a miss returning f k a *)
  Theorem call_hit_or_miss s k a b : held s k = true ->
    (exists e, lookup (cache s) k a = Some e /\ snd (step s (Call k a b)) = OVal (e_val e) true) \/
    (lookup (cache s) k a = None /\ snd (step s (Call k a b)) = OVal (f k a) false).
  Proof.
    intros H. cbn [C20.step]. rewrite H. cbn [negb].
    destruct (lookup (cache s) k a) as [e|]; cbn [snd]; [left; exists e|right]; split; reflexivity.
  Qed.

  (* ------------------------------------------------------------------ *)
  (* eviction releases                                                    *)
  (* ------------------------------------------------------------------ *)

  (* a sequence of calls on object k with the given (args, back) pairs *)
  Definition mk_entry (k : nat) (p : Z * bool) : entry :=
    {| e_uid := k; e_args := fst p; e_val := f k (fst p); e_back := snd p |}.
  Definition calls (k : nat) (l : list (Z * bool)) : list op := map (fun p => Call k (fst p) (snd p)) l.

  Lemma step_miss s k a b : held s k = true -> lookup (cache s) k a = None ->
    step s (Call k a b) = ({| objs := objs s; cache := firstn maxsize (mk_entry k (a, b) :: cache s) |},
                           OVal (f k a) false).
  Proof. intros H L. cbn [C20.step]. rewrite H, L. reflexivity. Qed.

  (* distinct fresh keys are all misses; the cache is then the new entries, most recent first,
     followed by the old ones, cut at maxsize *)
  Lemma run_misses k : forall l s s' outs, held s k = true -> (length (cache s) <= maxsize)%nat ->
    NoDup (map fst l) -> (forall a, In a (map fst l) -> ~ In (k, a) (map keyof (cache s))) ->
    run s (calls k l) = (s', outs) ->
    objs s' = objs s /\ cache s' = firstn maxsize (rev (map (mk_entry k) l) ++ cache s)
    /\ outs = map (fun p => OVal (f k (fst p)) false) l.
  Proof.
    induction l as [|[a b] l IH]; intros s s' outs Hh Hlen Hnd Hfresh Hr.
    - cbn in Hr. injection Hr as <- <-. cbn [map rev app]. rewrite firstn_all2 by exact Hlen. repeat split.
    - change (calls k ((a, b) :: l)) with (Call k a b :: calls k l) in Hr. rewrite run_cons in Hr.
      assert (L : lookup (cache s) k a = None) by (apply lookup_None, Hfresh; left; reflexivity).
      rewrite (step_miss s k a b Hh L) in Hr. cbn [fst snd] in Hr. injection Hr as <- <-.
      cbn [map fst] in Hnd. inversion Hnd as [|? ? Hn1 Hn2]; subst.
      set (s1 := {| objs := objs s; cache := firstn maxsize (mk_entry k (a, b) :: cache s) |}) in *.
      destruct (IH s1 (fst (run s1 (calls k l))) (snd (run s1 (calls k l)))) as (I1 & I2 & I3).
      + exact Hh.
      + apply firstn_le_length.
      + exact Hn2.
      + intros a' Ha' Hin. cbn [cache s1] in Hin. rewrite map_firstn in Hin. apply In_firstn in Hin.
        cbn [map In] in Hin. destruct Hin as [Hin|Hin].
        * unfold keyof in Hin. cbn [mk_entry e_uid e_args fst] in Hin. injection Hin as ->. exact (Hn1 Ha').
        * apply (Hfresh a'); [right; exact Ha'|exact Hin].
      + apply surjective_pairing.
      + split; [exact I1|]. split.
        * rewrite I2. cbn [cache s1]. rewrite firstn_app_firstn by lia.
          cbn [map rev]. rewrite <- app_assoc. reflexivity.
        * cbn [map fst]. rewrite I3. reflexivity.
  Qed.

  (* the object k is pinned by the cache (or not); after maxsize calls with distinct fresh
     keys on another held object k', every old entry is evicted and k is dead *)
  Theorem eviction_releases_from s k k' l s' outs :
    held s k = false -> k' <> k -> held s k' = true -> (length (cache s) <= maxsize)%nat ->
    NoDup (map fst l) -> (forall a, In a (map fst l) -> ~ In (k', a) (map keyof (cache s))) ->
    length l = maxsize ->
    run s (calls k' l) = (s', outs) -> alive s' k = false.
  Proof.
    intros Hk Hne Hk' Hlen Hnd Hfresh Hl Hr.
    destruct (run_misses k' l s s' outs Hk' Hlen Hnd Hfresh Hr) as (I1 & I2 & _).
    unfold alive, held, pinned. rewrite I1. fold (held s k). rewrite Hk. cbn [orb]. rewrite I2.
    rewrite firstn_app, rev_length, map_length, Hl, Nat.sub_diag, firstn_O, app_nil_r.
    destruct (existsb _ _) eqn:E; [|reflexivity].
    apply existsb_exists in E. destruct E as (e & He & E). apply In_firstn in He.
    apply in_rev, in_map_iff in He. destruct He as (p & <- & _). cbn [mk_entry e_uid] in E.
    apply andb_true_iff in E. destruct E as [_ E]. apply Nat.eqb_eq in E. contradiction.
  Qed.

  (* ------------------------------------------------------------------ *)
  (* the theorems for runs from the initial state                         *)
  (* ------------------------------------------------------------------ *)

  Lemma init_cache_ok : cache_ok (cache init).
  Proof. intros e []. Qed.

  Theorem transparent ops s' outs : run init ops = (s', outs) ->
    forall i k args back v hit, nth_error ops i = Some (Call k args back) ->
      nth_error outs i = Some (OVal v hit) -> v = f k args.
  Proof. intros Hr. exact (transparent_from ops init s' outs init_cache_ok Hr). Qed.

  (* every entry of a reachable cache holds the value of f at its own key *)
  Theorem reachable_cache_ok ops s' outs : run init ops = (s', outs) ->
    forall e, In e (cache s') -> e_val e = f (e_uid e) (e_args e).
  Proof. intros Hr. exact (run_cache_ok ops init s' outs init_cache_ok Hr). Qed.

  Theorem no_leak ops s' outs : run init ops = (s', outs) ->
    forall i k args back v, nth_error ops i = Some (Call k args back) ->
      nth_error outs i = Some (OVal v true) ->
      exists j, (j < i)%nat /\ exists back', nth_error ops j = Some (Call k args back') /\
                                            nth_error outs j = Some (OVal v false).
  Proof.
    intros Hr i k args back v Ho Hv.
    destruct (no_leak_from ops init s' outs Hr i k args back v Ho Hv) as [H|(e & [] & _)]. exact H.
  Qed.

  Theorem cache_bounded ops s' outs : run init ops = (s', outs) -> (length (cache s') <= maxsize)%nat.
  Proof.
    intros Hr.
    apply (run_inv (fun s => (length (cache s) <= maxsize)%nat) (fun _ => True)
             (fun s o _ => step_bounded s o) ops init s' outs (fun _ _ => I)); [|exact Hr].
    cbn. lia.
  Qed.

  Theorem cache_keys_unique ops s' outs : run init ops = (s', outs) ->
    NoDup (map (fun e => (e_uid e, e_args e)) (cache s')).
  Proof.
    intros Hr.
    apply (run_inv (fun s => NoDup (map keyof (cache s))) (fun _ => True)
             (fun s o _ => step_keys_unique s o) ops init s' outs (fun _ _ => I)); [|exact Hr].
    cbn. constructor.
  Qed.

  Theorem not_pinned ops s' outs : (forall k a b, In (Call k a b) ops -> b = false) ->
    run init ops = (s', outs) -> forall k, alive s' k = held s' k.
  Proof. intros Hb Hr. apply (not_pinned_from ops init s' outs); [intros e []|exact Hb|exact Hr]. Qed.

  Corollary dropped_is_dead ops s' outs : (forall k a b, In (Call k a b) ops -> b = false) ->
    run init ops = (s', outs) -> forall k, held s' k = false -> alive s' k = false.
  Proof. intros Hb Hr k Hk. rewrite (not_pinned ops s' outs Hb Hr k). exact Hk. Qed.

  (* any reachable state, then maxsize calls with distinct fresh keys on another held object *)
  Theorem eviction_releases ops s outs0 k k' l s' outs :
    run init ops = (s, outs0) ->
    held s k = false -> k' <> k -> held s k' = true ->
    NoDup (map fst l) -> (forall a, In a (map fst l) -> ~ In (k', a) (map keyof (cache s))) ->
    length l = maxsize ->
    run s (calls k' l) = (s', outs) -> alive s' k = false.
  Proof.
    intros Hr0 Hk Hne Hk' Hnd Hfresh Hl Hr.
    exact (eviction_releases_from s k k' l s' outs Hk Hne Hk' (cache_bounded ops s outs0 Hr0) Hnd Hfresh Hl Hr).
  Qed.

End Proofs.

(* the known defect: a cached value that refers to its owner (Jumps.collective() caches an
   object holding the Jumps object) keeps the owner alive after the user dropped it *)
Theorem pinned_refuted : exists ops s' outs,
  run (fun _ _ => 0) 128 init ops = (s', outs) /\ held s' 0 = false /\ alive s' 0 = true.
Proof.
  exists [New 100; Call 0 1 true; Drop 0; Collect]. eexists. eexists.
  split; [vm_compute; reflexivity|]. split; vm_compute; reflexivity.
Qed.

(* ... and with maxsize 2, two further misses on another object release it *)
Example pinned_then_evicted :
  map snd (trace f_test 2 init [New 100; Call 0 1 true; Drop 0; Collect; New 100; Call 1 1 false; Call 1 2 true])
  = [[true]; [true]; [true]; [true]; [true; true]; [true; true]; [false; true]].
Proof. vm_compute. reflexivity. Qed.

Print Assumptions transparent_from.
Print Assumptions transparent.
Print Assumptions reachable_cache_ok.
Print Assumptions run_length.
Print Assumptions no_leak_from.
Print Assumptions no_leak.
Print Assumptions cache_bounded.
Print Assumptions cache_keys_unique.
Print Assumptions not_pinned_from.
Print Assumptions not_pinned.
Print Assumptions dropped_is_dead.
Print Assumptions pinned_refuted.
Print Assumptions eviction_releases_from.
Print Assumptions eviction_releases.
Print Assumptions call_total.
Print Assumptions call_not_held.
Print Assumptions call_hit_or_miss.
