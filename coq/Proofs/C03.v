From GV Require Import Base.Prelude Model.C03.

(* ---------- basic facts about the change log ---------- *)
Lemma ev_cons a t x y o u v i :
  events_from a t (x :: y :: o) (u :: v :: i) =
  (if negb (x =? y) || negb (u =? v)
   then [{| r_atom := a; r_s := x; r_d := y; r_si := u; r_di := v; r_t := t |}] else [])
  ++ events_from a (t + 1) (y :: o) (v :: i).
Proof. reflexivity. Qed.

Lemma ev_times_ge : forall o i a t r, In r (events_from a t o i) -> t <= r_t r.
Proof.
  induction o as [|x o IH]; intros i a t r Hin; [contradiction|].
  destruct o as [|y o']; [destruct i; contradiction|].
  destruct i as [|u [|v i']]; try contradiction.
  rewrite ev_cons in Hin. apply in_app_or in Hin. destruct Hin as [Hin|Hin].
  - destruct (negb (x =? y) || negb (u =? v)); [|contradiction].
    destruct Hin as [<-|[]]. cbn. lia.
  - apply IH in Hin. lia.
Qed.

Lemma ev_times_lt : forall o i a t r, In r (events_from a t o i) ->
  r_t r < t + Z.of_nat (length o) - 1.
Proof.
  induction o as [|x o IH]; intros i a t r Hin; [contradiction|].
  destruct o as [|y o']; [destruct i; contradiction|].
  destruct i as [|u [|v i']]; try contradiction.
  rewrite ev_cons in Hin. apply in_app_or in Hin. destruct Hin as [Hin|Hin].
  - destruct (negb (x =? y) || negb (u =? v)); [|contradiction].
    destruct Hin as [<-|[]]. cbn [r_t length]. lia.
  - apply IH in Hin. cbn [length] in *. lia.
Qed.

Lemma ev_atom : forall o i a t r, In r (events_from a t o i) -> r_atom r = a.
Proof.
  induction o as [|x o IH]; intros i a t r Hin; [contradiction|].
  destruct o as [|y o']; [destruct i; contradiction|].
  destruct i as [|u [|v i']]; try contradiction.
  rewrite ev_cons in Hin. apply in_app_or in Hin. destruct Hin as [Hin|Hin].
  - destruct (negb (x =? y) || negb (u =? v)); [|contradiction].
    destruct Hin as [<-|[]]. reflexivity.
  - eapply IH; eauto.
Qed.

(* ---------- replay reconstructs both histories ---------- *)
Lemma replay_ge : forall n t co ci rows,
  (forall r, In r rows -> t < r_t r) ->
  replay (S n) t co ci rows = (co, ci) :: replay n (t + 1) co ci rows.
Proof.
  intros n t co ci rows H. cbn [replay]. destruct rows as [|r rs]; [reflexivity|].
  specialize (H r (or_introl eq_refl)).
  destruct (Z.eqb_spec (r_t r) t); [lia|reflexivity].
Qed.

Theorem replay_reconstructs : forall o i x u a t,
  length o = length i ->
  replay (S (length o)) t x u (events_from a t (x :: o) (u :: i)) = combine (x :: o) (u :: i).
Proof.
  induction o as [|y o IH]; intros i x u a t Hlen.
  - destruct i; [|discriminate]. reflexivity.
  - destruct i as [|v i]; [discriminate|]. cbn [length] in Hlen. injection Hlen as Hlen.
    rewrite ev_cons. cbn [length].
    destruct (negb (x =? y) || negb (u =? v)) eqn:E.
    + cbn [app replay r_t r_d r_di]. rewrite Z.eqb_refl. cbn [combine]. f_equal.
      apply (IH i y v a (t + 1) Hlen).
    + apply orb_false_iff in E. destruct E as [E1 E2].
      apply negb_false_iff, Z.eqb_eq in E1. apply negb_false_iff, Z.eqb_eq in E2. subst y v.
      cbn [app]. rewrite replay_ge.
      * cbn [combine]. f_equal. apply (IH i x u a (t + 1) Hlen).
      * intros r Hr. apply ev_times_ge in Hr. lia.
Qed.

(* ---------- soundness: every row is a real change of frame t -> t+1 ---------- *)
Theorem rows_sound : forall o i a t r, In r (events_from a t o i) ->
  (r_s r <> r_d r \/ r_si r <> r_di r) /\
  nth_error o (Z.to_nat (r_t r - t)) = Some (r_s r) /\
  nth_error o (S (Z.to_nat (r_t r - t))) = Some (r_d r) /\
  nth_error i (Z.to_nat (r_t r - t)) = Some (r_si r) /\
  nth_error i (S (Z.to_nat (r_t r - t))) = Some (r_di r).
Proof.
  induction o as [|x o IH]; intros i a t r Hin; [contradiction|].
  destruct o as [|y o']; [destruct i; contradiction|].
  destruct i as [|u [|v i']]; try contradiction.
  rewrite ev_cons in Hin. apply in_app_or in Hin. destruct Hin as [Hin|Hin].
  - destruct (negb (x =? y) || negb (u =? v)) eqn:E; [|contradiction].
    destruct Hin as [<-|[]]. cbn [r_s r_d r_si r_di r_t].
    replace (t - t) with 0 by lia. cbn. split; [|auto].
    apply orb_true_iff in E. destruct E as [E|E]; apply negb_true_iff, Z.eqb_neq in E; auto.
  - pose proof (ev_times_ge _ _ _ _ _ Hin) as Hge.
    specialize (IH (v :: i') a (t + 1) r Hin). destruct IH as (Hne & H1 & H2 & H3 & H4).
    replace (Z.to_nat (r_t r - t)) with (S (Z.to_nat (r_t r - (t + 1)))) by lia.
    auto.
Qed.

(* ---------- completeness: one row for each changing frame, none else ---------- *)
Definition chg (l : list Z) (k : nat) : bool :=
  match nth_error l k, nth_error l (S k) with
  | Some a, Some b => negb (a =? b)
  | _, _ => false
  end.

Theorem rows_complete : forall o i a t k, length o = length i ->
  chg o k || chg i k = true ->
  exists r, In r (events_from a t o i) /\ r_t r = t + Z.of_nat k.
Proof.
  induction o as [|x o IH]; intros i a t k Hlen Hc.
  - destruct i; [|discriminate]. unfold chg in Hc. destruct k; discriminate.
  - destruct i as [|u i]; [discriminate|]. injection Hlen as Hlen.
    destruct o as [|y o'].
    + destruct i; [|discriminate]. unfold chg in Hc. destruct k as [|[|k]]; discriminate.
    + destruct i as [|v i']; [discriminate|]. rewrite ev_cons.
      destruct k as [|k].
      * unfold chg in Hc. cbn in Hc. rewrite Hc. eexists. split; [left; reflexivity|]. cbn. lia.
      * destruct (IH (v :: i') a (t + 1) k Hlen Hc) as (r & Hr & Ht).
        exists r. split; [apply in_or_app; right; exact Hr|]. lia.
Qed.

Lemma ev_times_increasing : forall o i a t r1 r2 l1 l2,
  events_from a t o i = l1 ++ r1 :: l2 -> In r2 l2 -> r_t r1 < r_t r2.
Proof.
  induction o as [|x o IH]; intros i a t r1 r2 l1 l2 He Hin.
  - destruct l1; discriminate.
  - destruct o as [|y o']; [destruct i; destruct l1; discriminate|].
    destruct i as [|u [|v i']]; try (destruct l1; discriminate).
    rewrite ev_cons in He. remember (events_from a (t + 1) (y :: o') (v :: i')) as tl eqn:Etl.
    destruct (negb (x =? y) || negb (u =? v)).
    + cbn [app] in He. destruct l1 as [|r0 l1].
      * cbn [app] in He. injection He as <- He. subst l2 tl. apply ev_times_ge in Hin. cbn [r_t]. lia.
      * cbn [app] in He. injection He as _ He. subst tl. eapply IH; eauto.
    + cbn [app] in He. subst tl. eapply IH; eauto.
Qed.

(* ---------- the numpy formulation equals the change log ---------- *)
Fixpoint changes (t : Z) (l : list Z) : list Z :=
  match l with
  | a :: ((b :: _) as l') => (if a =? b then [] else [t]) ++ changes (t + 1) l'
  | _ => []
  end.

Lemma changes_cons t a b l :
  changes t (a :: b :: l) = (if a =? b then [] else [t]) ++ changes (t + 1) (b :: l).
Proof. reflexivity. Qed.

Lemma last_cons_default (v : Z) tl d d' : last (v :: tl) d = last (v :: tl) d'.
Proof.
  revert v. induction tl as [|x xs IHx]; intros v; [reflexivity|].
  change (last (x :: xs) d = last (x :: xs) d'). apply IHx.
Qed.

Lemma neq_idx_roll : forall l a x t,
  neq_idx t (combine (a :: l) (l ++ [x]))
  = changes t (a :: l) ++ (if last (a :: l) a =? x then [] else [t + Z.of_nat (length l)]).
Proof.
  induction l as [|b l IH]; intros a x t.
  - cbn. destruct (a =? x); cbn; [reflexivity|]. f_equal. lia.
  - change (combine (a :: b :: l) ((b :: l) ++ [x])) with ((a, b) :: combine (b :: l) (l ++ [x])).
    cbn [neq_idx]. rewrite changes_cons, IH, <- app_assoc.
    f_equal. f_equal. change (last (a :: b :: l) a) with (last (b :: l) a).
    rewrite (last_cons_default b l a b).
    replace (t + 1 + Z.of_nat (length l)) with (t + Z.of_nat (length (b :: l))) by (cbn [length]; lia).
    reflexivity.
Qed.

Lemma changes_lt : forall l t x, In x (changes t l) -> t <= x < t + Z.of_nat (length l) - 1.
Proof.
  induction l as [|a l IH]; intros t x Hin; [contradiction|].
  destruct l as [|b l']; [contradiction|].
  rewrite changes_cons in Hin. apply in_app_or in Hin. destruct Hin as [Hin|Hin].
  - destruct (a =? b); [contradiction|]. destruct Hin as [<-|[]]. cbn [length]. lia.
  - apply IH in Hin. cbn [length] in *. lia.
Qed.

Theorem roll_changes : forall l,
  drop_wrap (Z.of_nat (length l)) (change_idx l) = changes 0 l.
Proof.
  intros [|a l]; [reflexivity|]. unfold change_idx, roll. rewrite neq_idx_roll. unfold drop_wrap.
  set (E := changes 0 (a :: l)).
  assert (HE : forall x, In x E -> x < Z.of_nat (length (a :: l)) - 1).
  { intros x Hx. apply changes_lt in Hx. lia. }
  destruct (last (a :: l) a =? a).
  - rewrite app_nil_r. destruct (rev E) as [|x r] eqn:Hr; [reflexivity|].
    assert (Hx : In x E) by (apply in_rev; rewrite Hr; left; reflexivity).
    specialize (HE x Hx). destruct (Z.eqb_spec x (Z.of_nat (length (a :: l)) - 1)); [lia|reflexivity].
  - rewrite rev_app_distr. cbn [rev app].
    replace (0 + Z.of_nat (length l)) with (Z.of_nat (length (a :: l)) - 1) by (cbn [length]; lia).
    rewrite Z.eqb_refl, rev_involutive. reflexivity.
Qed.

Lemma changes_notin : forall l t t', t < t' -> existsb (Z.eqb t) (changes t' l) = false.
Proof.
  intros l t t' Hlt. destruct (existsb (Z.eqb t) (changes t' l)) eqn:E; [|reflexivity].
  apply existsb_exists in E. destruct E as (z & Hz & Hez). apply Z.eqb_eq in Hez. subst z.
  apply changes_lt in Hz. lia.
Qed.

(* membership in [changes] is the change predicate *)
Lemma changes_mem : forall l t k, (k < length l)%nat ->
  existsb (Z.eqb (t + Z.of_nat k)) (changes t l) = chg l k.
Proof.
  induction l as [|a l IH]; intros t k Hk; [cbn in Hk; lia|].
  destruct l as [|b l'].
  - cbn. unfold chg. destruct k; cbn; [reflexivity|destruct k; reflexivity].
  - rewrite changes_cons, existsb_app. destruct k as [|k].
    + replace (t + Z.of_nat 0) with t by lia. unfold chg. cbn [nth_error].
      assert (Hno : existsb (Z.eqb t) (changes (t + 1) (b :: l')) = false) by (apply changes_notin; lia).
      rewrite Hno, orb_false_r. destruct (a =? b); cbn; [reflexivity|]. rewrite Z.eqb_refl. reflexivity.
    + assert (Hh : existsb (Z.eqb (t + Z.of_nat (S k))) (if a =? b then [] else [t]) = false).
      { destruct (a =? b); cbn [existsb]; [reflexivity|]. rewrite orb_false_r. apply Z.eqb_neq. lia. }
      rewrite Hh. cbn [orb].
      replace (t + Z.of_nat (S k)) with ((t + 1) + Z.of_nat k) by lia.
      rewrite IH by (cbn [length] in *; lia). unfold chg. reflexivity.
Qed.

Lemma znth_cons d (x : Z) l k : 0 < k -> znth d (x :: l) k = znth d l (k - 1).
Proof.
  intro Hk. unfold znth. destruct (Z.ltb_spec k 0); [lia|]. destruct (Z.ltb_spec (k - 1) 0); [lia|].
  replace (Z.to_nat k) with (S (Z.to_nat (k - 1))) by lia. reflexivity.
Qed.

(* rows built by index lookup over a filtered index range = structural change log *)
Lemma rows_by_index : forall o i a t0, length o = length i ->
  map (fun t => {| r_atom := a; r_s := znth 0 o (t - t0); r_d := znth 0 o (t - t0 + 1);
                   r_si := znth 0 i (t - t0); r_di := znth 0 i (t - t0 + 1); r_t := t |})
      (filter (fun t => existsb (Z.eqb t) (changes t0 o ++ changes t0 i)) (zrange t0 (length o)))
  = events_from a t0 o i.
Proof.
  induction o as [|x o IH]; intros i a t0 Hlen; [reflexivity|].
  destruct i as [|u i]; [discriminate|]. injection Hlen as Hlen.
  destruct o as [|y o'].
  - destruct i; [|discriminate]. cbn. reflexivity.
  - destruct i as [|v i']; [discriminate|].
    remember (y :: o') as oo. remember (v :: i') as ii.
    cbn [length]. rewrite zrange_S. cbn [filter]. subst oo ii.
    rewrite ev_cons, !changes_cons.
    (* head *)
    assert (Hhead : existsb (Z.eqb t0)
              (((if x =? y then [] else [t0]) ++ changes (t0 + 1) (y :: o')) ++
               (if u =? v then [] else [t0]) ++ changes (t0 + 1) (v :: i'))
            = negb (x =? y) || negb (u =? v)).
    { rewrite !existsb_app.
      assert (N1 : existsb (Z.eqb t0) (changes (t0 + 1) (y :: o')) = false) by (apply changes_notin; lia).
      assert (N2 : existsb (Z.eqb t0) (changes (t0 + 1) (v :: i')) = false) by (apply changes_notin; lia).
      rewrite N1, N2. destruct (x =? y), (u =? v); cbn; rewrite ?Z.eqb_refl; reflexivity. }
    rewrite Hhead.
    (* tail *)
    assert (Htail :
      map (fun t => {| r_atom := a; r_s := znth 0 (x :: y :: o') (t - t0);
                       r_d := znth 0 (x :: y :: o') (t - t0 + 1);
                       r_si := znth 0 (u :: v :: i') (t - t0);
                       r_di := znth 0 (u :: v :: i') (t - t0 + 1); r_t := t |})
        (filter (fun t => existsb (Z.eqb t)
              (((if x =? y then [] else [t0]) ++ changes (t0 + 1) (y :: o')) ++
               (if u =? v then [] else [t0]) ++ changes (t0 + 1) (v :: i')))
           (zrange (t0 + 1) (length (y :: o'))))
      = events_from a (t0 + 1) (y :: o') (v :: i')).
    { rewrite <- (IH (v :: i') a (t0 + 1) Hlen).
      rewrite (filter_ext_in _ (fun t => existsb (Z.eqb t)
                 (changes (t0 + 1) (y :: o') ++ changes (t0 + 1) (v :: i')))).
      - apply map_ext_in. intros t Ht. apply filter_In in Ht. destruct Ht as [Ht _].
        apply zrange_in in Ht.
        rewrite !(znth_cons 0 x) by lia. rewrite !(znth_cons 0 u) by lia.
        f_equal; f_equal; lia.
      - intros t Ht. apply zrange_in in Ht. rewrite !existsb_app.
        assert (H1 : existsb (Z.eqb t) (if x =? y then [] else [t0]) = false).
        { destruct (x =? y); cbn [existsb]; [reflexivity|]. rewrite orb_false_r. apply Z.eqb_neq. lia. }
        assert (H2 : existsb (Z.eqb t) (if u =? v then [] else [t0]) = false).
        { destruct (u =? v); cbn [existsb]; [reflexivity|]. rewrite orb_false_r. apply Z.eqb_neq. lia. }
        rewrite H1, H2. reflexivity. }
    destruct (negb (x =? y) || negb (u =? v)).
    + cbn [map app]. replace (t0 - t0) with 0 by lia.
      f_equal. exact Htail.
    + cbn [app]. exact Htail.
Qed.

Theorem events_atom_eq_spec : forall a o i, length o = length i ->
  events_atom a o i = events_from a 0 o i.
Proof.
  intros a o i Hlen. unfold events_atom, unique_below.
  rewrite (roll_changes o).
  replace (Z.of_nat (length o)) with (Z.of_nat (length i)) by congruence. rewrite (roll_changes i).
  rewrite <- (rows_by_index o i a 0 Hlen).
  apply map_ext. intros t. unfold mkrow. f_equal; f_equal; lia.
Qed.

(* ---------- ffill ---------- *)
Lemma ffill_gen : forall l pre acc cur,
  0 <= acc ->
  (pre = [] -> acc = 0 /\ cur = -1) ->
  (pre <> [] -> acc < Z.of_nat (length pre) /\ znth 0 (pre ++ l) acc = cur) ->
  map (znth 0 (pre ++ l)) (ffill_idx (Z.of_nat (length pre)) acc l) = ffill_spec cur l.
Proof.
  induction l as [|x l IH]; intros pre acc cur Hacc Hnil Hcons; [reflexivity|].
  cbn [ffill_idx ffill_spec map].
  assert (Hx : znth 0 (pre ++ x :: l) (Z.of_nat (length pre)) = x).
  { unfold znth. destruct (Z.ltb_spec (Z.of_nat (length pre)) 0); [lia|].
    rewrite Nat2Z.id, app_nth2 by lia. rewrite Nat.sub_diag. reflexivity. }
  set (acc' := Z.max acc (if x =? -1 then 0 else Z.of_nat (length pre))).
  set (c := if x =? -1 then cur else x).
  assert (Hc : znth 0 (pre ++ x :: l) acc' = c).
  { subst acc' c. destruct pre as [|p pre].
    - destruct (Hnil eq_refl) as [-> ->]. cbn [length] in *.
      destruct (Z.eqb_spec x (-1)) as [->|Hne]; cbn; reflexivity.
    - destruct Hcons as [Hlt Hz]; [discriminate|].
      destruct (Z.eqb_spec x (-1)) as [->|Hne].
      + replace (Z.max acc 0) with acc by lia. exact Hz.
      + replace (Z.max acc (Z.of_nat (length (p :: pre)))) with (Z.of_nat (length (p :: pre))) by lia.
        exact Hx. }
  rewrite Hc. f_equal.
  replace (pre ++ x :: l) with ((pre ++ [x]) ++ l) by (rewrite <- app_assoc; reflexivity).
  replace (Z.of_nat (length pre) + 1) with (Z.of_nat (length (pre ++ [x])))
    by (rewrite app_length; cbn [length]; lia).
  apply IH.
  - subst acc'. lia.
  - intro E. destruct pre; discriminate.
  - intros _. split.
    + subst acc'. rewrite app_length. cbn [length]. destruct pre as [|p pre].
      * destruct (Hnil eq_refl) as [-> _]. cbn [length]. destruct (x =? -1); lia.
      * destruct Hcons as [Hlt _]; [discriminate|]. destruct (x =? -1); lia.
    + rewrite <- app_assoc. exact Hc.
Qed.

Theorem ffill_correct : forall l, ffill l = ffill_spec (-1) l.
Proof.
  intros l. unfold ffill. apply (ffill_gen l [] 0 (-1)); [lia|auto|intro H; congruence].
Qed.

Theorem bfill_correct : forall l, bfill l = rev (ffill_spec (-1) (rev l)).
Proof. intros l. unfold bfill. rewrite ffill_correct. reflexivity. Qed.

(* meaning of ffill_spec: value at frame k is the last non-NOSITE value at or before k *)
Theorem ffill_spec_meaning : forall l cur k v,
  nth_error (ffill_spec cur l) k = Some v ->
  (exists j x, (j <= k)%nat /\ nth_error l j = Some x /\ x <> -1 /\ v = x /\
               forall m y, (j < m <= k)%nat -> nth_error l m = Some y -> y = -1)
  \/ (v = cur /\ forall m y, (m <= k)%nat -> nth_error l m = Some y -> y = -1).
Proof.
  induction l as [|x l IH]; intros cur k v H; [destruct k; discriminate|].
  cbn [ffill_spec] in H. destruct k as [|k].
  - cbn in H. injection H as <-. destruct (Z.eqb_spec x (-1)) as [->|Hne].
    + right. split; [reflexivity|]. intros m y Hm Hy. assert (m = 0)%nat by lia. subst m.
      cbn in Hy. congruence.
    + left. exists 0%nat, x. repeat split; auto. intros m y Hm. lia.
  - cbn [nth_error] in H. apply IH in H. destruct H as [(j & z & Hj & Hz & Hne & -> & Hall)|[-> Hall]].
    + left. exists (S j), z. repeat split; auto; [lia|].
      intros m y Hm Hy. destruct m as [|m]; [lia|]. cbn [nth_error] in Hy. apply (Hall m y); [lia|exact Hy].
    + destruct (Z.eqb_spec x (-1)) as [->|Hne].
      * right. split; [reflexivity|]. intros m y Hm Hy. destruct m as [|m]; [cbn in Hy; congruence|].
        cbn [nth_error] in Hy. apply (Hall m y); [lia|exact Hy].
      * left. exists 0%nat, x. repeat split; auto; [lia|].
        intros m y Hm Hy. destruct m as [|m]; [lia|]. cbn [nth_error] in Hy. apply (Hall m y); [lia|exact Hy].
Qed.
