From GV Require Import Base.Prelude Model.C03 Proofs.C03 Model.C04.

(* ---------- default_exact: with inner = outer and mr = 0 the scan returns exactly the
   consecutive distinct visited sites ---------- *)
Definition sim (a t : Z) (last : option (Z*Z)) (f : option pend) : Prop :=
  (a = -1 /\ ((last = None /\ f = None) \/
              (exists b tb, b <> -1 /\ last = Some (b, tb) /\ f = Some {| p_s := b; p_d := -1; p_t := tb |})))
  \/ (a <> -1 /\ last = Some (a, t) /\ f = None).

Definition mk f acc := {| fe := f; ca := None; out := acc |}.
Definition E (n a b t : Z) := {| r_atom := n; r_s := a; r_d := b; r_si := a; r_di := b; r_t := t |}.

Lemma events_cons n t a b o :
  events_from n t (a :: b :: o) (a :: b :: o) =
  (if negb (a =? b) || negb (a =? b) then [E n a b t] else [])
  ++ events_from n (t + 1) (b :: o) (b :: o).
Proof. reflexivity. Qed.

Ltac stp := unfold step, mk, E; cbn;
  repeat (first [ rewrite Z.eqb_refl
                | match goal with H : ?x <> ?y |- context [?x =? ?y] => rewrite (eqb_neq x y H) end
                | match goal with H : ?x <> ?y |- context [?y =? ?x] => rewrite (eqb_neq y x (not_eq_sym H)) end ]; cbn);
  try reflexivity.

Lemma step_arrive_fresh n b t acc : b <> -1 ->
  step 0 (mk None acc) (E n (-1) b t) = mk None acc.
Proof. intros Hb. stp. Qed.

Lemma step_arrive_same n b tb t acc : b <> -1 ->
  step 0 (mk (Some {| p_s := b; p_d := -1; p_t := tb |}) acc) (E n (-1) b t) = mk None acc.
Proof. intros Hb. stp. Qed.

Lemma step_arrive_other n c tc b t acc : b <> -1 -> b <> c ->
  step 0 (mk (Some {| p_s := c; p_d := -1; p_t := tc |}) acc) (E n (-1) b t)
  = mk None (acc ++ [{| j_atom := n; j_from := c; j_to := b; j_start := tc; j_stop := t + 1 |}]).
Proof. intros Hb Hbc. stp. Qed.

Lemma step_leave n a t acc : a <> -1 ->
  step 0 (mk None acc) (E n a (-1) t) = mk (Some {| p_s := a; p_d := -1; p_t := t |}) acc.
Proof. intros Ha. stp. Qed.

Lemma step_direct n a b t acc : a <> -1 -> b <> -1 -> a <> b ->
  step 0 (mk None acc) (E n a b t)
  = mk None (acc ++ [{| j_atom := n; j_from := a; j_to := b; j_start := t; j_stop := t + 1 |}]).
Proof. intros Ha Hb Hab. stp. Qed.

Lemma main : forall o n a t last f acc,
  sim a t last f ->
  out (fold_left (step 0) (events_from n t (a :: o) (a :: o)) (mk f acc))
  = acc ++ default_from n last (t + 1) o.
Proof.
  induction o as [|b o IH]; intros n a t last f acc Hs.
  - cbn. rewrite app_nil_r. reflexivity.
  - rewrite events_cons, fold_left_app.
    destruct (Z.eq_dec a b) as [Hab|Hab].
    + subst b. rewrite Z.eqb_refl. cbn [negb orb fold_left].
      destruct Hs as [[Ha Hs]|[Ha [Hl Hf]]].
      * subst a. rewrite (IH n (-1) (t+1) last f acc).
        -- cbn [default_from]. reflexivity.
        -- left. split; [reflexivity|exact Hs].
      * subst last f. rewrite (IH n a (t+1) (Some (a, t+1)) None acc).
        -- cbn [default_from]. rewrite (eqb_neq a (-1) Ha), Z.eqb_refl. reflexivity.
        -- right. auto.
    + rewrite (eqb_neq a b Hab). cbn [negb orb fold_left].
      destruct Hs as [[Ha Hs]|[Ha [Hl Hf]]].
      * subst a. assert (Hb : b <> -1) by congruence.
        destruct Hs as [[Hl Hf]|(c & tc & Hc & Hl & Hf)]; subst last f.
        -- rewrite (step_arrive_fresh n b t acc Hb).
           rewrite (IH n b (t+1) (Some (b, t+1)) None acc) by (right; auto).
           cbn [default_from]. rewrite (eqb_neq b (-1) Hb). reflexivity.
        -- destruct (Z.eq_dec b c) as [Hbc|Hbc].
           ++ subst c. rewrite (step_arrive_same n b tc t acc Hb).
              rewrite (IH n b (t+1) (Some (b, t+1)) None acc) by (right; auto).
              cbn [default_from]. rewrite (eqb_neq b (-1) Hb), Z.eqb_refl. reflexivity.
           ++ rewrite (step_arrive_other n c tc b t acc Hb Hbc).
              rewrite (IH n b (t+1) (Some (b, t+1)) None) by (right; auto).
              cbn [default_from]. rewrite (eqb_neq b (-1) Hb), (eqb_neq b c Hbc).
              cbn [negb]. rewrite <- app_assoc. reflexivity.
      * subst last f.
        destruct (Z.eq_dec b (-1)) as [Hb|Hb].
        -- subst b. rewrite (step_leave n a t acc Ha).
           rewrite (IH n (-1) (t+1) (Some (a, t)) _ acc).
           ++ cbn [default_from]. reflexivity.
           ++ left. split; [reflexivity|]. right. exists a, t. auto.
        -- rewrite (step_direct n a b t acc Ha Hb Hab).
           rewrite (IH n b (t+1) (Some (b, t+1)) None) by (right; auto).
           cbn [default_from]. rewrite (eqb_neq b (-1) Hb), (eqb_neq b a (not_eq_sym Hab)).
           cbn [negb]. rewrite <- app_assoc. reflexivity.
Qed.

Lemma default_distinct : forall o n last t j, In j (default_from n last t o) -> j_from j <> j_to j.
Proof.
  induction o as [|a o IH]; intros n last t j Hin; [contradiction|].
  cbn [default_from] in Hin.
  destruct (a =? -1); [eapply IH; eauto|].
  destruct last as [[b tb]|]; [|eapply IH; eauto].
  apply in_app_or in Hin. destruct Hin as [Hin|Hin]; [|eapply IH; eauto].
  destruct (Z.eqb_spec a b); cbn in Hin; [contradiction|].
  destruct Hin as [<-|[]]. cbn. congruence.
Qed.

Theorem default_exact : forall n o, scan 0 (events_from n 0 o o) = default_jumps n o.
Proof.
  intros n [|a o]; [reflexivity|]. unfold scan, default_jumps.
  change st0 with (mk None []).
  rewrite (main o n a 0 (if a =? -1 then None else Some (a, 0)) None []).
  - cbn [app default_from]. destruct (Z.eqb_spec a (-1)).
    + apply filter_id. intros j Hj. apply default_distinct in Hj. apply negb_true_iff, Z.eqb_neq. exact Hj.
    + apply filter_id. intros j Hj. apply default_distinct in Hj. apply negb_true_iff, Z.eqb_neq. exact Hj.
  - destruct (Z.eqb_spec a (-1)); [left|right]; auto.
Qed.

