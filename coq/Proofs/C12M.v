(* C12 (continued) -- the label-pair matrix counts every collective pair in exactly one cell *)
From GV Require Import Base.Prelude Model.C05 Proofs.C05 Model.C12M.
Lemma zsum_ind_pair : forall (P : list (Z * Z)) a f, NoDup P -> In a P -> zsum (map (fun p => if pair_eqb a p then f else 0) P) = f.
Proof.
  induction P as [|x P IH]; intros a f Hnd Hin; [destruct Hin|].
  inversion Hnd as [|? ? Hx Hnd']; subst. cbn [map zsum]. destruct Hin as [Heq | Hin].
  - subst x. replace (pair_eqb a a) with true by (symmetry; apply pair_eqb_spec; reflexivity).
    rewrite zsum_map_zero; [lia|]. intros y Hy. destruct (pair_eqb a y) eqn:E; [apply pair_eqb_spec in E; subst; contradiction | reflexivity].
  - destruct (pair_eqb a x) eqn:E; [apply pair_eqb_spec in E; subst; contradiction|]. rewrite IH by assumption. lia.
Qed.

Lemma lp_cell_cons : forall labels x cj p q,
  lp_cell labels (x :: cj) p q = (if lp_hit labels p q x then 1 else 0) + lp_cell labels cj p q.
Proof. intros. unfold lp_cell. cbn [filter]. destruct (lp_hit labels p q x); cbn [length]; lia. Qed.

Lemma hit_total : forall labels (P : list (Z * Z)) x, NoDup P -> In (lp labels (fst x)) P -> In (lp labels (snd x)) P ->
  zsum (map (fun p => zsum (map (fun q => if lp_hit labels p q x then 1 else 0) P)) P) = 1.
Proof.
  intros labels P x Hnd H1 H2.
  rewrite (zsum_map_ext _ (fun p => if pair_eqb (lp labels (fst x)) p then 1 else 0)).
  - apply zsum_ind_pair; assumption.
  - intros p _. unfold lp_hit. destruct (pair_eqb (lp labels (fst x)) p); cbn [andb].
    + apply zsum_ind_pair; assumption.
    + apply zsum_map_zero. reflexivity.
Qed.

Theorem lp_matrix_total : forall labels cj (P : list (Z * Z)), NoDup P ->
  (forall x, In x cj -> In (lp labels (fst x)) P /\ In (lp labels (snd x)) P) ->
  lp_total labels cj P = Z.of_nat (length cj).
Proof.
  intros labels cj P Hnd. unfold lp_total. induction cj as [|x cj IH]; intros H.
  - apply zsum_map_zero. intros p _. apply zsum_map_zero. reflexivity.
  - rewrite (zsum_map_ext _ (fun p => zsum (map (fun q => if lp_hit labels p q x then 1 else 0) P) + zsum (map (lp_cell labels cj p) P))).
    + rewrite zsum_map_add, IH by (intros y Hy; apply H; right; exact Hy).
      destruct (H x (or_introl eq_refl)) as [H1 H2]. rewrite hit_total by assumption. cbn [length]. lia.
    + intros p _. rewrite <- zsum_map_add. apply zsum_map_ext. intros q _. apply lp_cell_cons.
Qed.

(* a pair is counted in exactly the cell of its two label pairs *)
Theorem lp_cell_counts : forall labels cj p q,
  lp_cell labels cj p q = Z.of_nat (length (filter (fun x => pair_eqb (lp labels (fst x)) p && pair_eqb (lp labels (snd x)) q) cj)).
Proof. reflexivity. Qed.

Example lp_matrix_example :
  lp_matrix [0; 1; 0] [((0, 1), (2, 1)); ((1, 0), (0, 1)); ((0, 1), (0, 1))] [(0, 0); (0, 1); (1, 0); (1, 1)]
  = [[0; 0; 0; 0]; [0; 2; 0; 0]; [0; 1; 0; 0]; [0; 0; 0; 0]].
Proof. vm_compute. reflexivity. Qed.
