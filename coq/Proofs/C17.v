(* C17 -- theorems about the shape-analysis model (Model/C17.v).
   S1  reim_range, reim_congr, reim_unique, reimage_translate
   S2  isometry_qf: an isometry preserves the quadratic form
   S3  small_vector_in_half_cell, reimage_is_min_image, selected_reimage_min_image
   S4  point_within_radius, point_distance_preserved
   S5  points_count
   S6  point_is_inverse_image (mulv_add, mulv_sub, is_inverse_spec)
   S7  reimage_old_refuted
   S8  fold_congr_range *)
From GV Require Import Base.Prelude Model.C01 Proofs.C01 Model.Geom Proofs.Geom Model.C17.

(* ====================================================================== *)
(* sanity checks of the statements on concrete inputs                      *)
(* ====================================================================== *)

Definition M5 : mat3 := {| ra := (5, 0, 0); rb := (0, 5, 0); rc := (0, 0, 5) |}.
Definition W_rot : mat3 := {| ra := (0, -1, 0); rb := (1, 0, 0); rc := (0, 0, 1) |}.       (* 4-fold about z *)
Definition W_rot_inv : mat3 := {| ra := (0, 1, 0); rb := (-1, 0, 0); rc := (0, 0, 1) |}.
Definition o_test : symop := {| W := W_rot; wt := (50, 0, 25) |}.

Goal reim 100 188 = -12 /\ reim 100 50 = -50 /\ reim 100 (-50) = -50 /\ reim 100 49 = 49 /\ reim 100 (-251) = 49.
Proof. vm_compute. repeat split; reflexivity. Qed.
Goal reim_old 100 188 = 88 /\ reim_old 100 (-188) = -88 /\ reim_old 100 50 = -50.
Proof. vm_compute. repeat split; reflexivity. Qed.
Goal isometry (gram_of M5) W_rot = true /\ isometry (gram_of M_test) W_rot = false
     /\ is_inverse W_rot W_rot_inv = true /\ is_inverse W_rot W_rot = false.
Proof. vm_compute. repeat split; reflexivity. Qed.
Goal qf (gram_of M5) (mulv W_rot (3, -7, 11)) = qf (gram_of M5) (3, -7, 11).
Proof. vm_compute. reflexivity. Qed.
Goal radius_ok M5 (10000, 1) 100 = true /\ radius_ok M5 (62500, 1) 100 = true /\ radius_ok M5 (62501, 1) 100 = false.
Proof. vm_compute. repeat split; reflexivity. Qed.
Goal points 100 (gram_of M5) 1 (10000, 1) [(o_test, W_rot_inv)] (10, 20, 30) [(35, 12, 60); (98, 50, 50); (-68, 209, -45)]
     = [(2, -5, 5); (-1, -2, 0)]
  /\ n_pairs 100 (gram_of M5) 1 (10000, 1) [(o_test, W_rot_inv)] (10, 20, 30) [(35, 12, 60); (98, 50, 50); (-68, 209, -45)] = 2%nat.
Proof. vm_compute. split; reflexivity. Qed.
Goal fold 100 4 37 = 48 /\ fold 100 4 (-3) = 88 /\ fold 100 1 (-3) = 97.
Proof. vm_compute. repeat split; reflexivity. Qed.

(* ====================================================================== *)
(* S1  re-imaging of one component                                         *)
(* ====================================================================== *)

Lemma reim_spec D x : 0 < D ->
  exists q, reim D x = x - D * q /\ 0 <= 2 * x + D - 2 * (D * q) < 2 * D.
Proof.
  intro HD. exists ((2 * x + D) / (2 * D)). split; [reflexivity|].
  pose proof (Z.div_mod (2 * x + D) (2 * D) ltac:(lia)) as Hdm.
  pose proof (Z.mod_pos_bound (2 * x + D) (2 * D) ltac:(lia)) as Hb.
  set (q := (2 * x + D) / (2 * D)) in *. set (r := (2 * x + D) mod (2 * D)) in *.
  replace (2 * D * q) with (2 * (D * q)) in Hdm by ring. lia.
Qed.

Theorem reim_range : forall D x, 0 < D -> - D <= 2 * reim D x < D.
Proof. intros D x HD. destruct (reim_spec D x HD) as (q & -> & Hq). lia. Qed.
Print Assumptions reim_range.

Theorem reim_congr : forall D x, exists k, reim D x = x + k * D.
Proof. intros D x. exists (- ((2 * x + D) / (2 * D))). unfold reim. ring. Qed.
Print Assumptions reim_congr.

(* two representatives of the same class in the half-open half cell coincide *)
Lemma half_cell_unique D y y' m : 0 < D ->
  - D <= 2 * y < D -> - D <= 2 * y' < D -> y = y' + m * D -> y = y'.
Proof.
  intros HD Hy Hy' He.
  assert (Hm : m = 0).
  { destruct (Z.lt_trichotomy m 0) as [Hm|[Hm|Hm]]; [|exact Hm|].
    - assert (m * D <= (- 1) * D) by (apply Z.mul_le_mono_nonneg_r; lia). lia.
    - assert (1 * D <= m * D) by (apply Z.mul_le_mono_nonneg_r; lia). lia. }
  subst m. lia.
Qed.

Theorem reim_unique : forall D x y, 0 < D ->
  - D <= 2 * y < D -> (exists k, y = x + k * D) -> y = reim D x.
Proof.
  intros D x y HD Hy [k Hk]. destruct (reim_congr D x) as [k' Hk'].
  apply (half_cell_unique D y (reim D x) (k - k') HD Hy (reim_range D x HD)).
  rewrite Hk', Hk. ring.
Qed.
Print Assumptions reim_unique.

Theorem reimage_translate : forall D v, exists n, reimage D v = vadd3 v (vscale3 D n).
Proof.
  intros D v. dv v.
  destruct (reim_congr D v1) as [k1 H1]. destruct (reim_congr D v2) as [k2 H2].
  destruct (reim_congr D v3) as [k3 H3].
  exists (k1, k2, k3). cbn [reimage]. rewrite H1, H2, H3. veq.
Qed.
Print Assumptions reimage_translate.

(* a translate of f with all components in the half-open half cell is the re-imaged vector *)
Lemma reimage_unique D f n : 0 < D ->
  (let '(x1, x2, x3) := vadd3 f (vscale3 D n) in
   - D <= 2 * x1 < D /\ - D <= 2 * x2 < D /\ - D <= 2 * x3 < D) ->
  vadd3 f (vscale3 D n) = reimage D f.
Proof.
  intros HD. dv f; dv n. cbn [vadd3 vscale3 reimage]. intros (H1 & H2 & H3).
  rewrite <- (reim_unique D f1 (f1 + D * n1) HD H1) by (exists n1; ring).
  rewrite <- (reim_unique D f2 (f2 + D * n2) HD H2) by (exists n2; ring).
  rewrite <- (reim_unique D f3 (f3 + D * n3) HD H3) by (exists n3; ring).
  reflexivity.
Qed.

(* ====================================================================== *)
(* S2  an isometry preserves the quadratic form                            *)
(* ====================================================================== *)

Ltac munf := cbn [mulv apply_op mat_cols bil W wt].

Lemma qf_mulv_cols G A v :
  qf G (mulv A v) =
  let '(c1, c2, c3) := mat_cols A in let '(x, y, z) := v in
  x * x * bil G c1 c1 + y * y * bil G c2 c2 + z * z * bil G c3 c3
  + 2 * (x * y * bil G c1 c2) + 2 * (x * z * bil G c1 c3) + 2 * (y * z * bil G c2 c3).
Proof. dm A; dv v. cbv [mat_cols mulv bil qf dot3 ra rb rc]. ring. Qed.

Lemma isometry_spec G A : isometry G A = true ->
  let '(c1, c2, c3) := mat_cols A in
  bil G c1 c1 = g11 G /\ bil G c2 c2 = g22 G /\ bil G c3 c3 = g33 G /\
  bil G c1 c2 = g12 G /\ bil G c1 c3 = g13 G /\ bil G c2 c3 = g23 G.
Proof.
  unfold isometry. destruct (mat_cols A) as [[c1 c2] c3]. intro H.
  repeat (apply andb_true_iff in H; let H' := fresh "H" in destruct H as [H H']; apply Z.eqb_eq in H').
  apply Z.eqb_eq in H. auto 10.
Qed.

Theorem isometry_qf : forall G A, isometry G A = true -> forall v, qf G (mulv A v) = qf G v.
Proof.
  intros G A H v. rewrite qf_mulv_cols. apply isometry_spec in H.
  destruct (mat_cols A) as [[c1 c2] c3]. destruct H as (E1 & E2 & E3 & E4 & E5 & E6).
  dv v. rewrite E1, E2, E3, E4, E5, E6. cbn [qf]. ring.
Qed.
Print Assumptions isometry_qf.

(* ====================================================================== *)
(* S3  radius below half the perpendicular width                           *)
(* ====================================================================== *)

Lemma radius_ok_spec M r2 D : radius_ok M r2 D = true ->
  let dd := snd r2 * D * D * (det3 M * det3 M) in
  det3 M <> 0 /\
  4 * fst r2 * dot3 (cross3 (rb M) (rc M)) (cross3 (rb M) (rc M)) <= dd /\
  4 * fst r2 * dot3 (cross3 (rc M) (ra M)) (cross3 (rc M) (ra M)) <= dd /\
  4 * fst r2 * dot3 (cross3 (ra M) (rb M)) (cross3 (ra M) (rb M)) <= dd.
Proof.
  unfold radius_ok. intro H.
  apply andb_true_iff in H. destruct H as [H H3].
  apply andb_true_iff in H. destruct H as [H H2].
  apply andb_true_iff in H. destruct H as [H0 H1].
  apply negb_true_iff, Z.eqb_neq in H0.
  apply Z.leb_le in H1. apply Z.leb_le in H2. apply Z.leb_le in H3.
  cbv zeta. auto.
Qed.

Lemma sq_lt_half D x : 0 < D -> 4 * (x * x) < D * D -> - D < 2 * x < D.
Proof.
  intros HD H.
  destruct (Z_lt_le_dec (2 * x) D) as [Hu|Hu]; [destruct (Z_lt_le_dec (- D) (2 * x)) as [Hl|Hl]; [lia|]|].
  - pose proof (Z.square_le_mono_nonneg D (- (2 * x)) ltac:(lia) ltac:(lia)) as Hs. unfold Z.square in Hs.
    replace (- (2 * x) * - (2 * x)) with (4 * (x * x)) in Hs by ring. lia.
  - pose proof (Z.square_le_mono_nonneg D (2 * x) ltac:(lia) ltac:(lia)) as Hs. unfold Z.square in Hs.
    replace (2 * x * (2 * x)) with (4 * (x * x)) in Hs by ring. lia.
Qed.

(* scalar chain: 4 rd (x d)^2 <= 4 P (Q rd) < 4 P rn <= rd D^2 d^2 *)
Lemma half_core P Q d D rn rd x :
  0 < D -> 0 < rd -> 0 < P -> d <> 0 ->
  (x * d) * (x * d) <= P * Q ->
  Q * rd < rn ->
  4 * rn * P <= rd * D * D * (d * d) ->
  - D < 2 * x < D.
Proof.
  intros HD Hrd HP Hd Hcs Hq Hok.
  apply sq_lt_half; [exact HD|].
  assert (Hdd : 0 < d * d).
  { destruct (Z.lt_trichotomy d 0) as [H|[H|H]]; [apply Z.mul_neg_neg; exact H|contradiction|apply Z.mul_pos_pos; exact H]. }
  assert (Hrdd : 0 < rd * (d * d)) by (apply Z.mul_pos_pos; assumption).
  apply (Z.mul_lt_mono_pos_r (rd * (d * d))); [exact Hrdd|].
  assert (A : (x * d) * (x * d) * (4 * rd) <= P * Q * (4 * rd)) by (apply Z.mul_le_mono_nonneg_r; lia).
  assert (B : P * (Q * rd) < P * rn) by (apply Z.mul_lt_mono_pos_l; assumption).
  replace (4 * (x * x) * (rd * (d * d))) with ((x * d) * (x * d) * (4 * rd)) by ring.
  replace (D * D * (rd * (d * d))) with (rd * D * D * (d * d)) by ring.
  replace (P * Q * (4 * rd)) with (4 * (P * (Q * rd))) in A by ring.
  replace (4 * rn * P) with (4 * (P * rn)) in Hok by ring.
  lia.
Qed.

Lemma half_generic M N u D r2 x xi :
  0 < D -> 0 < snd r2 -> det3 M <> 0 -> det3 M = dot3 u N ->
  dot3 N (cart M x) = xi * det3 M ->
  4 * fst r2 * dot3 N N <= snd r2 * D * D * (det3 M * det3 M) ->
  qf (gram_of M) x * snd r2 < fst r2 ->
  - D < 2 * xi < D.
Proof.
  intros HD Hrd Hdet Hu Hproj Hok Hq.
  pose proof (normal_pos u N _ Hu Hdet) as HP.
  pose proof (cs3 N (cart M x)) as Hcs. rewrite Hproj, <- qf_cart in Hcs.
  exact (half_core _ _ _ D _ _ xi HD Hrd HP Hdet Hcs Hq Hok).
Qed.

Theorem small_vector_in_half_cell : forall M r2 D, radius_ok M r2 D = true -> 0 < D -> 0 < snd r2 ->
  forall x : V3, qf (gram_of M) x * snd r2 < fst r2 ->
  let '(x1, x2, x3) := x in - D < 2 * x1 < D /\ - D < 2 * x2 < D /\ - D < 2 * x3 < D.
Proof.
  intros M r2 D Hok HD Hrd x Hq.
  destruct (radius_ok_spec M r2 D Hok) as (Hdet & Hk1 & Hk2 & Hk3).
  dv x. repeat split.
  - apply (half_generic M (cross3 (rb M) (rc M)) (ra M) D r2 (x1, x2, x3) x1 HD Hrd Hdet
             (det3_normal1 M) (normal1_cart M _ _ _) Hk1 Hq).
  - apply (half_generic M (cross3 (rb M) (rc M)) (ra M) D r2 (x1, x2, x3) x1 HD Hrd Hdet
             (det3_normal1 M) (normal1_cart M _ _ _) Hk1 Hq).
  - apply (half_generic M (cross3 (rc M) (ra M)) (rb M) D r2 (x1, x2, x3) x2 HD Hrd Hdet
             (det3_normal2 M) (normal2_cart M _ _ _) Hk2 Hq).
  - apply (half_generic M (cross3 (rc M) (ra M)) (rb M) D r2 (x1, x2, x3) x2 HD Hrd Hdet
             (det3_normal2 M) (normal2_cart M _ _ _) Hk2 Hq).
  - apply (half_generic M (cross3 (ra M) (rb M)) (rc M) D r2 (x1, x2, x3) x3 HD Hrd Hdet
             (det3_normal3 M) (normal3_cart M _ _ _) Hk3 Hq).
  - apply (half_generic M (cross3 (ra M) (rb M)) (rc M) D r2 (x1, x2, x3) x3 HD Hrd Hdet
             (det3_normal3 M) (normal3_cart M _ _ _) Hk3 Hq).
Qed.
Print Assumptions small_vector_in_half_cell.

Theorem reimage_is_min_image : forall M r2 D, radius_ok M r2 D = true -> 0 < D -> 0 < snd r2 ->
  forall f d2, is_min_image D (gram_of M) f d2 -> d2 * snd r2 < fst r2 ->
  qf (gram_of M) (reimage D f) = d2.
Proof.
  intros M r2 D Hok HD Hrd f d2 [[n Hn] _] Hd2.
  rewrite <- Hn in Hd2.
  pose proof (small_vector_in_half_cell M r2 D Hok HD Hrd _ Hd2) as Hh.
  rewrite <- (reimage_unique D f n HD); [exact Hn|].
  destruct (vadd3 f (vscale3 D n)) as [[x1 x2] x3]. lia.
Qed.
Print Assumptions reimage_is_min_image.

Theorem selected_reimage_min_image : forall M r2 D K, radius_ok M r2 D = true -> 0 < D -> 0 < snd r2 ->
  window_ok M K = true -> 0 <= K ->
  forall sym p, selected D (gram_of M) K r2 sym p = true ->
  qf (gram_of M) (reimage D (vsub3 p sym)) = min_image_d2 D (gram_of M) K (vsub3 p sym).
Proof.
  intros M r2 D K Hok HD Hrd Hw HK sym p Hsel.
  unfold selected in Hsel. apply Z.ltb_lt in Hsel.
  apply (reimage_is_min_image M r2 D Hok HD Hrd); [|exact Hsel].
  apply window_sufficient; assumption.
Qed.
Print Assumptions selected_reimage_min_image.

(* ====================================================================== *)
(* S4  collected points                                                    *)
(* ====================================================================== *)

Theorem point_distance_preserved : forall M r2 D K, radius_ok M r2 D = true -> 0 < D -> 0 < snd r2 ->
  window_ok M K = true -> 0 <= K ->
  forall o Winv site positions q, isometry (gram_of M) Winv = true ->
  In q (points_op D (gram_of M) K r2 o Winv site positions) ->
  exists p, In p positions /\ selected D (gram_of M) K r2 (apply_op o site) p = true /\
    q = mulv Winv (reimage D (vsub3 p (apply_op o site))) /\
    qf (gram_of M) q = min_image_d2 D (gram_of M) K (vsub3 p (apply_op o site)).
Proof.
  intros M r2 D K Hok HD Hrd Hw HK o Winv site positions q Hiso Hin.
  unfold points_op in Hin. cbv zeta in Hin. apply in_map_iff in Hin.
  destruct Hin as [p [Hq Hp]]. apply filter_In in Hp. destruct Hp as [Hp Hsel].
  exists p. split; [exact Hp|]. split; [exact Hsel|]. split; [symmetry; exact Hq|].
  rewrite <- Hq, (isometry_qf _ _ Hiso).
  apply (selected_reimage_min_image M r2 D K); assumption.
Qed.
Print Assumptions point_distance_preserved.

Theorem point_within_radius : forall M r2 D K, radius_ok M r2 D = true -> 0 < D -> 0 < snd r2 ->
  window_ok M K = true -> 0 <= K ->
  forall o Winv site positions q, isometry (gram_of M) Winv = true ->
  In q (points_op D (gram_of M) K r2 o Winv site positions) ->
  qf (gram_of M) q * snd r2 < fst r2.
Proof.
  intros M r2 D K Hok HD Hrd Hw HK o Winv site positions q Hiso Hin.
  destruct (point_distance_preserved M r2 D K Hok HD Hrd Hw HK o Winv site positions q Hiso Hin)
    as (p & _ & Hsel & _ & Hd).
  rewrite Hd. unfold selected in Hsel. apply Z.ltb_lt in Hsel. exact Hsel.
Qed.
Print Assumptions point_within_radius.

(* the same for the full collection over all operations *)
Theorem points_within_radius : forall M r2 D K, radius_ok M r2 D = true -> 0 < D -> 0 < snd r2 ->
  window_ok M K = true -> 0 <= K ->
  forall ops site positions q,
  (forall ow, In ow ops -> isometry (gram_of M) (snd ow) = true) ->
  In q (points D (gram_of M) K r2 ops site positions) ->
  qf (gram_of M) q * snd r2 < fst r2.
Proof.
  intros M r2 D K Hok HD Hrd Hw HK ops site positions q Hiso Hin.
  unfold points in Hin. apply in_flat_map in Hin. destruct Hin as [ow [How Hin]].
  apply (point_within_radius M r2 D K Hok HD Hrd Hw HK (fst ow) (snd ow) site positions q (Hiso ow How) Hin).
Qed.
Print Assumptions points_within_radius.

(* ====================================================================== *)
(* S5  number of points                                                    *)
(* ====================================================================== *)

Lemma flat_map_length {A B} (f : A -> list B) l :
  length (flat_map f l) = list_sum (map (fun x => length (f x)) l).
Proof.
  induction l as [|x l IH]; [reflexivity|].
  cbn [flat_map map list_sum]. rewrite app_length, IH. reflexivity.
Qed.

Theorem points_count : forall D G K r2 ops site positions,
  length (points D G K r2 ops site positions) = n_pairs D G K r2 ops site positions.
Proof.
  intros D G K r2 ops site positions. unfold points, n_pairs. rewrite flat_map_length.
  f_equal. apply map_ext. intro ow. unfold points_op. cbv zeta. apply map_length.
Qed.
Print Assumptions points_count.

(* ====================================================================== *)
(* S6  the point is the image of the source under the inverse operation    *)
(* ====================================================================== *)

Lemma mulv_add A u v : mulv A (vadd3 u v) = vadd3 (mulv A u) (mulv A v).
Proof. dm A; dv u; dv v. cbv [mulv dot3 ra rb rc vadd3 vsub3 vscale3]. repeat (f_equal; try ring). Qed.

Lemma mulv_sub A u v : mulv A (vsub3 u v) = vsub3 (mulv A u) (mulv A v).
Proof. dm A; dv u; dv v. cbv [mulv dot3 ra rb rc vadd3 vsub3 vscale3]. repeat (f_equal; try ring). Qed.

Lemma mulv_scale A k v : mulv A (vscale3 k v) = vscale3 k (mulv A v).
Proof. dm A; dv v. cbv [mulv dot3 ra rb rc vadd3 vsub3 vscale3]. repeat (f_equal; try ring). Qed.

Lemma basis_decomp x y z :
  (x, y, z) = vadd3 (vscale3 x (1, 0, 0)) (vadd3 (vscale3 y (0, 1, 0)) (vscale3 z (0, 0, 1))).
Proof. veq. Qed.

Lemma same_spec (u v : V3) :
  (let '(a, b, c) := u in let '(x, y, z) := v in (a =? x) && (b =? y) && (c =? z)) = true -> u = v.
Proof.
  dv u; dv v. intro H.
  apply andb_true_iff in H. destruct H as [H H3]. apply andb_true_iff in H. destruct H as [H1 H2].
  apply Z.eqb_eq in H1. apply Z.eqb_eq in H2. apply Z.eqb_eq in H3. subst. reflexivity.
Qed.

Theorem is_inverse_spec : forall A B, is_inverse A B = true -> forall v, mulv A (mulv B v) = v.
Proof.
  intros A B H v. unfold is_inverse in H. cbv zeta beta in H.
  apply andb_true_iff in H. destruct H as [H H3]. apply andb_true_iff in H. destruct H as [H1 H2].
  apply (same_spec _ (1, 0, 0)) in H1. apply (same_spec _ (0, 1, 0)) in H2. apply (same_spec _ (0, 0, 1)) in H3.
  dv v. rewrite (basis_decomp v1 v2 v3) at 1.
  rewrite !mulv_add, !mulv_scale, H1, H2, H3. veq.
Qed.
Print Assumptions is_inverse_spec.

Theorem point_is_inverse_image : forall D o Winv site p,
  is_inverse (W o) Winv = true ->
  let sym := apply_op o site in
  let q := mulv Winv (reimage D (vsub3 p sym)) in
  exists n, apply_op o (vadd3 site q) = vadd3 p (vscale3 D n).
Proof.
  intros D o Winv site p Hinv sym q.
  destruct (reimage_translate D (vsub3 p sym)) as [n Hn]. exists n.
  unfold q. unfold apply_op at 1. rewrite mulv_add, (is_inverse_spec _ _ Hinv), Hn.
  unfold sym, apply_op.
  destruct (mulv (W o) site) as [[s1 s2] s3]. destruct (wt o) as [[w1 w2] w3]. dv p; dv n. veq.
Qed.
Print Assumptions point_is_inverse_image.

(* ====================================================================== *)
(* S7  the code before the repair                                          *)
(* ====================================================================== *)

Theorem reimage_old_refuted : exists D M K r2 p sym,
  (radius_ok M r2 D = true /\ 0 < D /\ 0 < snd r2 /\ window_ok M K = true /\ 0 <= K /\
   selected D (gram_of M) K r2 sym p = true) /\
  ~ (qf (gram_of M) (reimage_old D (vsub3 p sym)) * snd r2 < fst r2).
Proof.
  exists 100, M5, 1, (10000, 1), (98, 50, 50), (-90, 50, 50).
  split.
  - repeat split; try (vm_compute; reflexivity). vm_compute. discriminate.
  - vm_compute. discriminate.
Qed.
Print Assumptions reimage_old_refuted.

(* on the same input the repaired re-imaging is within the radius and equals the minimum-image distance *)
Goal qf (gram_of M5) (reimage 100 (vsub3 (98, 50, 50) (-90, 50, 50))) = 3600
  /\ min_image_d2 100 (gram_of M5) 1 (vsub3 (98, 50, 50) (-90, 50, 50)) = 3600
  /\ qf (gram_of M5) (reimage_old 100 (vsub3 (98, 50, 50) (-90, 50, 50))) = 193600.
Proof. vm_compute. repeat split; reflexivity. Qed.

(* ====================================================================== *)
(* S8  supercell folding                                                   *)
(* ====================================================================== *)

Theorem fold_congr_range : forall D s x, 0 < s -> (exists q, D = s * q /\ 0 < q) ->
  (exists k, fold D s x = s * x + k * D) /\ 0 <= fold D s x < D.
Proof.
  intros D s x Hs [q [HD Hq]]. unfold fold.
  assert (Hdiv : D / s = q) by (subst D; rewrite Z.mul_comm; apply Z.div_mul; lia).
  rewrite Hdiv.
  pose proof (Z.div_mod x q ltac:(lia)) as Hdm. pose proof (Z.mod_pos_bound x q Hq) as Hb.
  set (r := x mod q) in *. set (t := x / q) in *.
  split.
  - exists (- t). subst D. rewrite Hdm. ring.
  - subst D. split; [apply Z.mul_nonneg_nonneg; lia|].
    rewrite (Z.mul_comm s q). apply Z.mul_lt_mono_pos_r; lia.
Qed.
Print Assumptions fold_congr_range.

(* ====================================================================== *)
(* S9  the computation as the code writes it equals the model              *)
(* ====================================================================== *)

Lemma shift1_reim : forall D c s, shift1 D c s = s + reim D (c - s).
Proof. intros D c s. unfold shift1, reim. ring. Qed.

Lemma shift3_reimage : forall D c s, shift3 D c s = vadd3 s (reimage D (vsub3 c s)).
Proof. intros D c s. dv c; dv s. cbn [shift3 vsub3 reimage vadd3]. rewrite !shift1_reim. reflexivity. Qed.

Theorem point_literal_is_model : forall D o inv site p, inverse_of o inv ->
  point_literal D o inv site p = mulv (W inv) (reimage D (vsub3 p (apply_op o site))).
Proof.
  intros D o inv site p [Hinv Hw]. unfold point_literal. rewrite shift3_reimage.
  set (r := reimage D (vsub3 p (apply_op o site))).
  unfold apply_op. rewrite Hw, !mulv_add, (is_inverse_spec _ _ Hinv).
  destruct (mulv (W inv) (wt o)) as [[a1 a2] a3]. destruct (mulv (W inv) r) as [[b1 b2] b3]. dv site. veq.
Qed.
Print Assumptions point_literal_is_model.

Theorem points_literal_is_model : forall D G K r2 ops site positions,
  (forall oi, In oi ops -> inverse_of (fst oi) (snd oi)) ->
  points_literal D G K r2 ops site positions = points D G K r2 (map (fun oi => (fst oi, W (snd oi))) ops) site positions.
Proof.
  intros D G K r2 ops site positions. induction ops as [|oi ops IH]; intros H; [reflexivity|].
  unfold points_literal, points in *. cbn [flat_map map fst snd]. f_equal.
  - unfold points_op. apply map_ext. intros q. apply point_literal_is_model. apply H. left. reflexivity.
  - apply IH. intros x Hx. apply H. right. exact Hx.
Qed.
Print Assumptions points_literal_is_model.

Example inverse_of_screw : inverse_of {| W := W_rot; wt := (50, 0, 25) |} {| W := W_rot_inv; wt := (0, 50, -25) |}.
Proof. split; vm_compute; reflexivity. Qed.
